"""Generate S4V/Gen/Worker.lean: the control-flow skeleton of the channel sends of the per-file worker threads of
src/bin/s4.rs (`exec_syslogprocessor`, `exec_fixedstructprocessor`, `exec_evtxprocessor`, `exec_journalprocessor`
and their dispatcher `exec_fileprocessor_thread`).

A skeleton is a small structured program over
    send FileInfo(ok|err|?) | send NewMessage(is_last) | send FileSummary(ok|err|?) | set v | return | break | continue
    | loop { … } | if g { … } else { … }
with every `chan_send(&chan_send_dt, ChanDatum::X(..), &path)` site in its branch / loop nesting and every `return`.
`match` becomes a chain of `if`s (first arm first). Conditions are opaque except
  * a bare boolean local (`if is_last {`, `if !search_more {`) — such locals, and the local passed as the `is_last`
    argument of `NewMessage`, are tracked: every `let v = …` / `v = …` becomes `set v (true|false|havoc)`;
  * `match filetype {` / `match thread_init_data.2 {` with `FileType::X{..}` arms, and
    `match logmessagespecificdata { LogMessageSpecificData::Journal(_) => …` — the two tests on the thread's start data
    that guard a `return` before any send; what the spawn site passes is regenerated as well (SPAWN_* below).

Nothing is evaluated. The function bodies are tokenized and walked; whatever cannot be placed raises GenError:
a send / return / break / continue inside parentheses, a closure, a struct literal, a macro argument, a condition or a
conditionally compiled statement; any other use of `chan_send_dt` (clone, move elsewhere); the `?` operator; labelled
breaks; macros outside the known list (the repo's own ones are checked to contain no control flow); a tracked local
that is shadowed, bound by a pattern, borrowed mutably or assigned in a way that was not translated.
"""
import os
import re
from rs import GenError, strip_comments, find_fn
from gen_path import strip_trace

WORKERS = {'exec_syslogprocessor': 'workerText', 'exec_fixedstructprocessor': 'workerFixed',
           'exec_evtxprocessor': 'workerEvtx', 'exec_journalprocessor': 'workerJournal'}
DISPATCH = 'exec_fileprocessor_thread'
# macros that expand to no control flow: tracing (si_trace_print), printing, release no-ops, expressions;
# `assert!` can only end the thread by a panic, which the model allows at every point (`Out.cut`)
MACROS_OK = re.compile(r'^(def1?[a-zñ]?|de[a-zñ]|de_err|de_wrn|e_err|e_wrn|debug_assert\w*|debug_panic|assert|assert_eq|assert_ne|'
                       r'matches|cfg|format|eprintln|eprint|vec)$')
REPO_MACROS = ('de_err', 'de_wrn', 'e_err', 'e_wrn', 'debug_panic')
CONTROL = {'return', 'break', 'continue', 'chan_send', 'chan_send_dt', '?', 'loop', 'while', 'for'} | set(WORKERS) | {DISPATCH}

TOK = re.compile(r'''
    (?P<ws>\s+)
  | (?P<str>b?"(?:\\.|[^"\\])*")
  | (?P<chr>b?'(?:\\.[^']*|[^\\'])')
  | (?P<life>'[A-Za-z_]\w*)
  | (?P<num>\d[\w.]*)
  | (?P<id>[^\W\d]\w*)
  | (?P<op>=>|==|!=|<=|>=|&&|\|\||::|->|\.\.=|\.\.|\+=|-=|\*=|/=|%=|\|=|&=|\^=|<<=|>>=|[-+*/%<>=!&.,;:(){}\[\]|#@^~$?])
''', re.X)

OPEN = {'(': ')', '[': ']', '{': '}'}


def tokenize(src, where):
    toks = []
    i = 0
    while i < len(src):
        m = TOK.match(src, i)
        if not m:
            raise GenError(f'{where}: cannot tokenize at {src[i:i + 30]!r}')
        i = m.end()
        if m.group('ws'):
            continue
        toks.append(m.group(0))
    return toks


def match_table(toks, where):
    """index of the closing bracket for every opening one"""
    close = {}
    st = []
    for i, t in enumerate(toks):
        if t in OPEN:
            st.append(i)
        elif t in (')', ']', '}'):
            if not st or OPEN[toks[st[-1]]] != t:
                raise GenError(f'{where}: unbalanced bracket')
            close[st.pop()] = i
    if st:
        raise GenError(f'{where}: unbalanced bracket')
    return close


class Fn:
    def __init__(self, name, body, nvars_names):
        self.name = name
        self.where = name
        self.toks = tokenize(body, name)
        self.close = match_table(self.toks, name)
        self.tracked = nvars_names      # list of names; index = variable number
        self.counts = {'send': 0, 'return': 0, 'break': 0, 'continue': 0, 'call': 0}
        self.sets = {v: 0 for v in nvars_names}
        self.scopes = [set()]

    # ---- helpers
    def err(self, msg, k=None):
        ctx = ''
        if k is not None:
            ctx = ' near `' + ' '.join(self.toks[max(0, k - 6):k + 8]) + '`'
        raise GenError(f'{self.where}: {msg}{ctx}')

    def no_control(self, i, j, what):
        for k in range(i, j):
            t = self.toks[k]
            if t in CONTROL:
                self.err(f'`{t}` inside {what} (cannot be placed in the skeleton)', k)
            if t == '!' and k > i and re.match(r'^[^\W\d]\w*$', self.toks[k - 1]) and k + 1 < j and self.toks[k + 1] in OPEN \
                    and not MACROS_OK.match(self.toks[k - 1]):
                self.err(f'macro `{self.toks[k - 1]}!` inside {what} is not in the list of macros known to hide no control flow', k)

    def no_tracked(self, i, j, what):
        for k in range(i, j):
            if self.toks[k] in self.tracked:
                self.err(f'tracked local `{self.toks[k]}` bound/used in {what}', k)

    def find_top(self, i, j, targets):
        """first index in [i, j) at bracket depth 0 whose token is in targets"""
        k = i
        while k < j:
            t = self.toks[k]
            if t in targets:
                return k
            if t in OPEN:
                k = self.close[k] + 1
                continue
            k += 1
        return -1

    def stmt_start(self, i, k):
        """index of the first token of the statement containing k (scanning back inside block [i, …))"""
        depth = 0
        s = k - 1
        while s >= i:
            t = self.toks[s]
            if t in (')', ']', '}'):
                depth += 1
            elif t in OPEN:
                depth -= 1
            if depth == 0 and (t in (';', '=>')):
                return s + 1
            s -= 1
        return i

    def closure_check(self, i, k):
        s = self.stmt_start(i, k)
        for q in range(s, k):
            if self.toks[q] in ('|', '||', 'move'):
                self.err(f'`{self.toks[k]}` after `{self.toks[q]}` in the same statement (closure body?)', k)

    # ---- blocks
    def block(self, i, j):
        """tokens [i, j) of a block (without its braces) -> list of statements"""
        out = []
        self.scopes.append(set())
        k = i
        prev = None     # previous significant token at this level
        while k < j:
            t = self.toks[k]
            if t == '#' and k + 1 < j and self.toks[k + 1] == '[':
                e = self.close[k + 1]
                # the conditionally compiled / attributed statement: up to the next `;` at depth 0
                s_end = self.find_top(e + 1, j, {';'})
                if s_end < 0:
                    s_end = j
                q = e + 1
                while q < s_end:
                    if self.toks[q] in ('return', 'break', 'continue', 'chan_send', 'chan_send_dt', '?') or self.toks[q] in WORKERS:
                        self.err('control flow / send in a statement carrying an attribute (conditional compilation?)', q)
                    q += 1
                k = e + 1
                prev = ']'
                continue
            if t == '?':
                self.err('the `?` operator hides a return', k)
            if t == 'if':
                st, k = self.if_(i, k, j)
                out.extend(st)
                prev = '}'
                continue
            if t == 'else':
                # `let PAT = EXPR else { diverging block };`
                if k + 1 < j and self.toks[k + 1] == '{':
                    e = self.close[k + 1]
                    out.extend(simp_ite(('ite', ('opaque',), [], self.block(k + 2, e))))
                    k = e + 1
                    prev = '}'
                    continue
                self.err('`else` that does not follow an `if` block', k)
            if t == 'match':
                st, k = self.match_(i, k, j)
                out.extend(st)
                prev = '}'
                continue
            if t in ('loop', 'while', 'for'):
                if k > i and self.toks[k - 1] == ':' and k > i + 1 and self.toks[k - 2].startswith("'"):
                    self.err('labelled loop', k)
                self.closure_check(i, k)
                b = self.find_top(k + 1, j, {'{'})
                if b < 0:
                    self.err(f'`{t}` without a block', k)
                self.no_control(k + 1, b, f'the head of a `{t}`')
                if t != 'loop' and b == k + 1:
                    self.err(f'`{t}` whose head is a block', k)
                if t == 'loop' and b != k + 1:
                    self.err('`loop` followed by something else than `{`', k)
                if t in ('while', 'for'):
                    self.no_tracked(k + 1, b, f'the head of a `{t}`')
                e = self.close[b]
                body = self.block(b + 1, e)
                if t != 'loop':
                    # the head may end the loop before every iteration
                    body = [('ite', ('opaque',), [], [('brk',)])] + body
                out.append(('loop', body))
                k = e + 1
                prev = '}'
                continue
            if t == 'return':
                self.closure_check(i, k)
                e = self.find_top(k + 1, j, {';', ','})
                if e < 0:
                    e = j
                self.no_control(k + 1, e, 'the operand of `return`')
                out.append(('ret',))
                self.counts['return'] += 1
                k = e
                prev = 'return'
                continue
            if t in ('break', 'continue'):
                self.closure_check(i, k)
                if k + 1 < j and self.toks[k + 1].startswith("'") and len(self.toks[k + 1]) > 1 and not self.toks[k + 1].endswith("'"):
                    self.err(f'labelled `{t}`', k)
                e = self.find_top(k + 1, j, {';', ','})
                if e < 0:
                    e = j
                self.no_control(k + 1, e, f'the operand of `{t}`')
                out.append(('brk',) if t == 'break' else ('cont',))
                self.counts[t] += 1
                k = e
                prev = t
                continue
            if t == 'chan_send' or (t == 'chan_send_dt' and self.toks[k + 1:k + 4] == ['.', 'send', '(']):
                self.closure_check(i, k)
                st, k = self.send(k, direct=(t == 'chan_send_dt'))
                out.append(st)
                prev = ')'
                continue
            if t == 'chan_send_dt':
                self.err('`chan_send_dt` used otherwise than as `chan_send(&chan_send_dt, …)` (cloned? moved?): '
                         'the channel closes when the worker function returns only if the sender stays inside it', k)
            if t in WORKERS or t == DISPATCH:
                if k + 1 < j and self.toks[k + 1] == '(':
                    if self.name != DISPATCH:
                        self.err(f'call of `{t}` outside the dispatcher', k)
                    self.closure_check(i, k)
                    e = self.close[k + 1]
                    args = self.split_args(k + 2, e)
                    if not args or self.toks[args[0][0]:args[0][1]] != ['chan_send_dt']:
                        self.err(f'`{t}(…)`: the first argument is not the sender `chan_send_dt` moved into the call', k)
                    if len(args) < 2 or self.toks[args[1][0]:args[1][1]] != ['thread_init_data']:
                        self.err(f'`{t}(…)`: the second argument is not `thread_init_data`', k)
                    self.no_control(args[1][0], e, 'call arguments')
                    out.append(('call', t))
                    self.counts['call'] += 1
                    k = e + 1
                    prev = ')'
                    continue
                self.err(f'`{t}` mentioned without being called', k)
            if t == 'fn':
                self.err('nested fn item', k)
            if t == 'let':
                k2 = self.let_(out, k, j)
                if k2 is not None:
                    k = k2
                    prev = ';'
                    continue
                prev = 'let'
                k += 1
                continue
            if t in self.tracked:
                nxt = self.toks[k + 1] if k + 1 < j else ''
                if nxt in ('+=', '-=', '*=', '/=', '%=', '|=', '&=', '^=', '<<=', '>>='):
                    self.err(f'compound assignment to tracked local `{t}`', k)
                if k > i and self.toks[k - 1] == 'mut' and k > i + 1 and self.toks[k - 2] == '&':
                    self.err(f'tracked local `{t}` borrowed mutably', k)
                if nxt == '=' and (k == i or self.toks[k - 1] in (';', '{', '}')):
                    e = self.find_top(k + 2, j, {';'})
                    if e < 0:
                        e = j
                    self.no_control(k + 2, e, f'the value assigned to `{t}`')
                    out.append(('set', self.tracked.index(t), self.lit(k + 2, e)))
                    self.sets[t] += 1
                    k = e
                    prev = t
                    continue
                if nxt == '=':
                    self.err(f'assignment to tracked local `{t}` in a position that was not translated', k)
            if re.match(r'^[^\W\d]\w*$', t) and k + 2 < j and self.toks[k + 1] == '!' and self.toks[k + 2] in OPEN:
                if not MACROS_OK.match(t):
                    self.err(f'macro `{t}!` is not in the list of macros known to hide no control flow', k)
                e = self.close[k + 2]
                self.no_control(k + 3, e, f'the arguments of `{t}!`')
                k = e + 1
                prev = ')'
                continue
            if t in ('(', '['):
                e = self.close[k]
                self.no_control(k + 1, e, 'parentheses / brackets')
                for q in range(k + 1, e):
                    if self.toks[q] in self.tracked and q + 1 < e and self.toks[q + 1] == '=':
                        self.err(f'tracked local `{self.toks[q]}` assigned inside parentheses (destructuring?)', q)
                    if self.toks[q] in self.tracked and self.toks[q - 1] == 'mut' and self.toks[q - 2] == '&':
                        self.err(f'tracked local `{self.toks[q]}` borrowed mutably', q)
                k = e + 1
                prev = ')'
                continue
            if t == '{':
                e = self.close[k]
                if prev in (None, ';', '}', ']', 'unsafe'):
                    out.extend(self.block(k + 1, e))       # a plain block statement: executed in line
                else:
                    # closure body / struct literal / something else: must not carry control flow
                    self.no_control(k + 1, e, f'a brace group after `{prev}` (closure body? struct literal?)')
                    self.no_tracked(k + 1, e, f'a brace group after `{prev}`')
                k = e + 1
                prev = '}'
                continue
            prev = t
            k += 1
        self.scopes.pop()
        return out

    def lit(self, i, j):
        """value of a boolean initializer / assignment: True / False / None (= unknown)"""
        ts = self.toks[i:j]
        if ts == ['true']:
            return True
        if ts == ['false']:
            return False
        return None

    def let_(self, out, k, j):
        """`let [mut] NAME [: T] [= init];` for a tracked NAME -> append `set`, return index of the `;`.
        Any other `let` returns None (the walker continues inside it) after checking its pattern."""
        q = k + 1
        if q < j and self.toks[q] == 'mut':
            q += 1
        name = self.toks[q] if q < j else ''
        eq = self.find_top(k + 1, j, {'=', ';'})
        if name not in self.tracked or not (q + 1 < j and self.toks[q + 1] in (':', '=', ';')):
            # a pattern: tracked names must not be bound by it
            end = eq if eq >= 0 else j
            self.no_tracked(k + 1, end, 'a `let` pattern')
            return None
        for sc in self.scopes:
            if name in sc:
                self.err(f'tracked local `{name}` declared again inside the scope of an earlier declaration (shadowing)', k)
        self.scopes[-1].add(name)
        if eq < 0:
            self.err(f'`let {name}` without `;`', k)
        if self.toks[eq] == ';':
            return eq            # declared, assigned later
        e = self.find_top(eq + 1, j, {';'})
        if e < 0:
            self.err(f'`let {name} = …` without `;`', k)
        self.no_control(eq + 1, e, f'the initializer of `{name}`')
        out.append(('set', self.tracked.index(name), self.lit(eq + 1, e)))
        self.sets[name] += 1
        return e

    def guard_of_cond(self, i, j):
        ts = self.toks[i:j]
        if len(ts) == 1 and ts[0] in self.tracked:
            return ('var', self.tracked.index(ts[0]))
        if len(ts) == 2 and ts[0] == '!' and ts[1] in self.tracked:
            return ('nvar', self.tracked.index(ts[1]))
        if ts and ts[0] == 'let':
            eq = self.find_top(i, j, {'='})
            self.no_tracked(i, eq if eq >= 0 else j, 'an `if let` pattern')
        return ('opaque',)

    def if_(self, i, k, j):
        self.closure_check(i, k)
        b = self.find_top(k + 1, j, {'{'})
        if b < 0:
            self.err('`if` without a block', k)
        self.no_control(k + 1, b, 'an `if` condition')
        if b == k + 1:
            self.err('`if` whose condition is a block', k)
        g = self.guard_of_cond(k + 1, b)
        e = self.close[b]
        then = self.block(b + 1, e)
        els = []
        k = e + 1
        if k < j and self.toks[k] == 'else':
            if k + 1 < j and self.toks[k + 1] == 'if':
                els, k = self.if_(i, k + 1, j)
            elif k + 1 < j and self.toks[k + 1] == '{':
                e2 = self.close[k + 1]
                els = self.block(k + 2, e2)
                k = e2 + 1
            else:
                self.err('`else` without a block', k)
        return simp_ite(('ite', g, then, els)), k

    def match_(self, i, k, j):
        self.closure_check(i, k)
        b = self.find_top(k + 1, j, {'{'})
        if b < 0:
            self.err('`match` without a block', k)
        self.no_control(k + 1, b, 'a `match` scrutinee')
        if b == k + 1:
            self.err('`match` whose scrutinee is a block', k)
        scrut = self.toks[k + 1:b]
        kind = None
        if scrut == ['filetype'] or scrut == ['thread_init_data', '.', '2']:
            kind = 'ft'
        elif scrut == ['logmessagespecificdata']:
            kind = 'lmsd'
        elif len(scrut) == 1 and scrut[0] in self.tracked:
            self.err(f'`match` on tracked local `{scrut[0]}` (only `if v` / `if !v` are translated)', k)
        e = self.close[b]
        arms = []
        q = b + 1
        while q < e:
            if self.toks[q] == ',':
                q += 1
                continue
            a = self.find_top(q, e, {'=>'})
            if a < 0:
                self.err('match arm without `=>`', q)
            pat = self.toks[q:a]
            self.no_tracked(q, a, 'a match-arm pattern')
            self.no_control(q, a, 'a match-arm pattern')
            if a + 1 < e and self.toks[a + 1] == '{':
                ve = self.close[a + 1]
                body = self.block(a + 2, ve)
                q = ve + 1
            else:
                ve = self.find_top(a + 1, e, {','})
                if ve < 0:
                    ve = e
                body = self.block(a + 1, ve)
                q = ve
            arms.append((self.guard_of_pat(kind, pat), body))
        if not arms:
            self.err('`match` without arms', k)
        # first arm first; the last arm is the `else` of the chain (a Rust `match` is exhaustive)
        node = arms[-1][1]
        for g, body in reversed(arms[:-1]):
            node = simp_ite(('ite', g, body, node))
        return node, e + 1

    def guard_of_pat(self, kind, pat):
        if 'if' in pat or '|' in pat:
            return ('opaque',)
        if kind == 'ft' and len(pat) >= 3 and pat[0] == 'FileType' and pat[1] == '::':
            rest = pat[3:]
            if rest in ([], ['{', '..', '}']):
                return ('ftIs', pat[2])
            return ('opaque',)
        if kind == 'lmsd' and pat[:3] == ['LogMessageSpecificData', '::', 'Journal']:
            rest = pat[3:]
            if len(rest) == 3 and rest[0] == '(' and rest[2] == ')' and re.match(r'^[^\W\d]\w*$|^_$', rest[1]):
                return ('lmsdJournal',)
            return ('opaque',)
        return ('opaque',)

    def split_args(self, i, j):
        args = []
        s = i
        k = i
        while k < j:
            t = self.toks[k]
            if t in OPEN:
                k = self.close[k] + 1
                continue
            if t == ',':
                args.append((s, k))
                s = k + 1
            k += 1
        if s < j:
            args.append((s, j))
        return args

    def res(self, i, j):
        s = ''.join(self.toks[i:j])
        if s in ('FILEOK', 'FileProcessingResultBlockZero::FileOk', 'FileProcessingResult::FileOk'):
            return 'ok'
        if s == 'FILEERRSTUB' or re.match(r'^FileProcessingResult(BlockZero)?::FileErr\w+(\(.*\))?$', s):
            return 'err'
        return 'unknown'

    def send(self, k, direct):
        if direct:
            p = k + 3
            e = self.close[p]
            args = self.split_args(p + 1, e)
            if len(args) != 1:
                self.err('`chan_send_dt.send(…)` with other than one argument', k)
            datum = args[0]
        else:
            p = k + 1
            if self.toks[p] != '(':
                self.err('`chan_send` not called', k)
            e = self.close[p]
            args = self.split_args(p + 1, e)
            if len(args) != 3 or self.toks[args[0][0]:args[0][1]] != ['&', 'chan_send_dt']:
                self.err('`chan_send(&chan_send_dt, ChanDatum::…, &path)` expected', k)
            datum = args[1]
        for q in range(p + 1, e):
            t = self.toks[q]
            if t in CONTROL and not (t == 'chan_send_dt' and not direct and q == args[0][0] + 1):
                self.err(f'`{t}` inside the arguments of a send', q)
        d0, d1 = datum
        if self.toks[d0:d0 + 2] != ['ChanDatum', '::'] or d0 + 3 >= d1 or self.toks[d0 + 3] != '(' or self.close[d0 + 3] != d1 - 1:
            self.err('the datum of a send is not a literal `ChanDatum::Variant(…)`', k)
        var = self.toks[d0 + 2]
        inner = self.split_args(d0 + 4, d1 - 1)
        if len(inner) != 2:
            self.err(f'ChanDatum::{var} with other than two fields', k)
        a, b = inner[1]
        self.counts['send'] += 1
        if var == 'FileInfo':
            return ('send', 'fileInfo', self.res(a, b)), e + 1
        if var == 'FileSummary':
            return ('send', 'fileSummary', self.res(a, b)), e + 1
        if var == 'NewMessage':
            ts = self.toks[a:b]
            if ts == ['true']:
                f = ('lit', True)
            elif ts == ['false']:
                f = ('lit', False)
            elif len(ts) == 1 and ts[0] in self.tracked:
                f = ('var', self.tracked.index(ts[0]))
            else:
                f = ('unknown',)
            return ('send', 'newMessage', f), e + 1
        self.err(f'unknown ChanDatum variant {var}', k)


def simp_ite(node):
    """drop an `if` whose branches carry nothing"""
    _, g, a, b = node
    if not a and not b:
        return []
    return [node]


# ---------------------------------------------------------------- whole-function checks

def tracked_names(body, where):
    """booleans the skeleton follows: the `is_last` argument of NewMessage when it is an identifier, and bare
    identifiers used as `if v {` / `if !v {` — provided a `let` of that name exists in the function"""
    names = []
    f = Fn(where, body, [])
    for k, t in enumerate(f.toks):
        if f.toks[k:k + 4] == ['ChanDatum', '::', 'NewMessage', '(']:
            args = f.split_args(k + 4, f.close[k + 3])
            if len(args) != 2:
                raise GenError(f'{where}: ChanDatum::NewMessage with other than two fields')
            ts = f.toks[args[1][0]:args[1][1]]
            if len(ts) == 1 and re.match(r'^[^\W\d]\w*$', ts[0]) and ts[0] not in ('true', 'false') and ts[0] not in names:
                a = ts[0]
                if not re.search(r'\blet\s+(mut\s+)?' + a + r'\b', body):
                    raise GenError(f'{where}: the `is_last` argument `{a}` of NewMessage is not a local declared with `let` in this function')
                names.append(a)
    for m in re.finditer(r'\bif\s+(!\s*)?([^\W\d]\w*)\s*\{', body):
        a = m.group(2)
        if a in ('true', 'false') or a in names:
            continue
        if re.search(r'\blet\s+(mut\s+)?' + a + r'\b\s*(:\s*(bool|IsLastLogMessage)\b|=\s*(true|false)\s*;)', body):
            names.append(a)
    return names


def tail_calls_only(stmts, tail, where):
    """every `call` is the last statement of a block in tail position (so the callee's return ends the thread)"""
    for n, s in enumerate(stmts):
        last = tail and n == len(stmts) - 1
        if s[0] == 'call' and not last:
            raise GenError(f'{where}: call of {s[1]} is not in tail position (something runs after the worker function returns)')
        if s[0] == 'ite':
            tail_calls_only(s[2], last, where)
            tail_calls_only(s[3], last, where)
        if s[0] == 'loop':
            tail_calls_only(s[1], False, where)


def loops_ok(stmts, inloop, where):
    for s in stmts:
        if s[0] in ('brk', 'cont') and not inloop:
            raise GenError(f'{where}: break/continue outside a loop')
        if s[0] == 'ite':
            loops_ok(s[2], inloop, where)
            loops_ok(s[3], inloop, where)
        if s[0] == 'loop':
            loops_ok(s[1], True, where)


def translate_fn(src, name):
    sig, body, _ = find_fn(src, name)
    sigf = re.sub(r'\s+', ' ', sig)
    if not re.search(r'\(\s*chan_send_dt: ChanSendDatum, thread_init_data: ThreadInitData\b', sigf):
        raise GenError(f'{name}: signature does not start with `(chan_send_dt: ChanSendDatum, thread_init_data: ThreadInitData` '
                       '(the sender must be taken by value, so that returning closes the channel)')
    if '->' in sigf:
        raise GenError(f'{name}: has a return type')
    tracked = tracked_names(body, name)
    f = Fn(name, body, tracked)
    stmts = f.block(0, len(f.toks))
    # completeness: every control token of the text has been placed
    text = ' '.join(f.toks)
    want = {'send': len(re.findall(r'(?<![\w.])chan_send \(|chan_send_dt \. send \(', text)),
            'return': f.toks.count('return'), 'break': f.toks.count('break'), 'continue': f.toks.count('continue'),
            'call': sum(f.toks.count(w) for w in WORKERS)}
    for kk, v in want.items():
        if f.counts[kk] != v:
            raise GenError(f'{name}: {v} `{kk}` in the text but {f.counts[kk]} placed in the skeleton')
    for v in tracked:
        n_assign = 0
        for q, t in enumerate(f.toks[:-1]):
            if t != v:
                continue
            if f.toks[q + 1] == '=':
                n_assign += 1
            elif f.toks[q + 1] == ':' and f.toks[q - 1] in ('let', 'mut'):
                e = f.find_top(q + 1, len(f.toks), {'=', ';'})
                if e >= 0 and f.toks[e] == '=':
                    n_assign += 1
        if n_assign != f.sets[v]:
            raise GenError(f'{name}: tracked local `{v}` is assigned {n_assign} times in the text but {f.sets[v]} assignments were translated')
    if name in WORKERS:
        # the start data: `filetype` is component 2, `logmessagespecificdata` component 3, neither is re-bound
        m = re.search(r'let \(([^)]*)\) = thread_init_data;', re.sub(r'\s+', ' ', body))
        if not m:
            raise GenError(f'{name}: `let (…) = thread_init_data;` not found')
        comps = [c.strip() for c in m.group(1).split(',') if c.strip()]
        if len(comps) != 8 or comps[2] != 'filetype' or comps[3] not in ('logmessagespecificdata', '_logmessagespecificdata'):
            raise GenError(f'{name}: thread_init_data is not destructured as (…, …, filetype, [_]logmessagespecificdata, …) of 8 components')
        for v in ('filetype', 'logmessagespecificdata'):
            if len(re.findall(r'\blet\s+(mut\s+)?' + v + r'\b', body)) or re.search(r'\b' + v + r'\s*=[^=>]', body):
                raise GenError(f'{name}: `{v}` is re-bound or assigned')
    loops_ok(stmts, False, name)
    return stmts, tracked


# ---------------------------------------------------------------- Lean output

def lean_flag(f):
    if f[0] == 'lit':
        return '(.lit %s)' % ('true' if f[1] else 'false')
    if f[0] == 'var':
        return '(.var %d)' % f[1]
    return '.unknown'


def lean_guard(g, ftmap):
    if g[0] == 'opaque':
        return '.opaque'
    if g[0] == 'var':
        return '(.var %d)' % g[1]
    if g[0] == 'nvar':
        return '(.nvar %d)' % g[1]
    if g[0] == 'ftIs':
        if g[1] not in ftmap:
            raise GenError(f'match arm on FileType::{g[1]} which is not a variant of enum FileType')
        return '(.ftIs .%s)' % ftmap[g[1]]
    if g[0] == 'lmsdJournal':
        return '.lmsdJournal'
    raise GenError('guard ' + repr(g))


def lean_stmts(stmts, ind, ftmap, callmap=None):
    if not stmts:
        return '[]'
    pad = ' ' * ind
    items = []
    for s in stmts:
        if s[0] == 'send':
            if s[1] == 'newMessage':
                items.append('.send (.newMessage %s)' % lean_flag(s[2]))
            else:
                items.append('.send (.%s .%s)' % (s[1], s[2]))
        elif s[0] == 'set':
            v = 'none' if s[2] is None else ('(some true)' if s[2] else '(some false)')
            items.append('.set %d %s' % (s[1], v))
        elif s[0] == 'ret':
            items.append('.ret')
        elif s[0] == 'brk':
            items.append('.brk')
        elif s[0] == 'cont':
            items.append('.cont')
        elif s[0] == 'loop':
            items.append('.loop ' + lean_stmts(s[1], ind + 2, ftmap, callmap))
        elif s[0] == 'ite':
            items.append('.ite %s %s %s' % (lean_guard(s[1], ftmap), lean_stmts(s[2], ind + 2, ftmap, callmap),
                                            lean_stmts(s[3], ind + 2, ftmap, callmap)))
        elif s[0] == 'call':
            raise GenError('call outside the dispatcher')
        else:
            raise GenError('stmt ' + repr(s))
    return '[\n' + pad + '  ' + (',\n' + pad + '  ').join(items) + ']'


def lean_dispatch(stmts, ind, ftmap):
    """the dispatcher: a call in tail position is the callee's skeleton"""
    pad = ' ' * ind
    if len(stmts) == 1 and stmts[0][0] == 'call':
        return WORKERS[stmts[0][1]]
    items = []
    for n, s in enumerate(stmts):
        if s[0] == 'ite':
            items.append('.ite %s %s %s' % (lean_guard(s[1], ftmap), lean_dispatch(s[2], ind + 2, ftmap), lean_dispatch(s[3], ind + 2, ftmap)))
        elif s[0] == 'call':
            raise GenError(f'{DISPATCH}: a call of {s[1]} preceded by other skeleton statements in its block')
        else:
            items.append(lean_stmts([s], ind, ftmap)[1:-1].strip())
    if not items:
        return '[]'
    return '[\n' + pad + '  ' + (',\n' + pad + '  ').join(items) + ']'


def lname(v):
    return v[0].lower() + v[1:]


def count_nodes(stmts):
    n = 0
    for s in stmts:
        n += 1
        if s[0] == 'loop':
            n += count_nodes(s[1])
        if s[0] == 'ite':
            n += count_nodes(s[2]) + count_nodes(s[3])
    return n


def generate(repo):
    raw = open(os.path.join(repo, 'src/bin/s4.rs')).read()
    src = strip_comments(raw)
    flat = re.sub(r'\s+', ' ', src)
    common = re.sub(r'\s+', ' ', strip_comments(open(os.path.join(repo, 'src/common.rs')).read()))

    # -- enum FileType: the variants
    m = re.search(r'pub enum FileType \{(.*?)\n?\} ', common + ' ')
    if not m:
        raise GenError('common.rs: `pub enum FileType {` not found')
    variants = []
    depth = 0
    cur = ''
    for ch in m.group(1):
        if ch == '{':
            depth += 1
        elif ch == '}':
            depth -= 1
        elif ch == ',' and depth == 0:
            variants.append(cur)
            cur = ''
            continue
        if depth == 0 and ch not in '{}':
            cur += ch
    variants.append(cur)
    variants = [re.sub(r'#\[[^\]]*\]', '', v).strip() for v in variants]
    variants = [v for v in variants if v]
    for v in variants:
        if not re.match(r'^[A-Z]\w*$', v):
            raise GenError(f'common.rs: enum FileType variant `{v}` not understood')
    ftmap = {v: lname(v) for v in variants}

    # -- the result constants and `is_ok` (what the coordinator's trace hook prints as the ok bit)
    if not re.search(r'const FILEOK: FileProcessingResultBlockZero = FileProcessingResultBlockZero::FileOk;', flat):
        raise GenError('s4.rs: const FILEOK is not FileProcessingResultBlockZero::FileOk')
    if not re.search(r'const FILEERRSTUB: FileProcessingResultBlockZero = FileProcessingResultBlockZero::FileErrStub;', flat):
        raise GenError('s4.rs: const FILEERRSTUB is not FileProcessingResultBlockZero::FileErrStub')
    if not re.search(r'pub const fn is_ok\(&self\) -> bool \{ matches!\(\*self, FileProcessingResult::FileOk\) \}', common):
        raise GenError('common.rs: FileProcessingResult::is_ok is not `matches!(*self, FileProcessingResult::FileOk)`')
    if not re.search(r'pub type FileProcessingResultBlockZero = FileProcessingResult<', re.sub(r'\s+', ' ', strip_comments(
            open(os.path.join(repo, 'src/readers/syslogprocessor.rs')).read()))):
        raise GenError('syslogprocessor.rs: FileProcessingResultBlockZero is not an alias of FileProcessingResult<…>')

    # -- enum ChanDatum: three variants, two fields each
    m = re.search(r'enum ChanDatum \{ (.*?) \} type ', flat)
    if not m:
        raise GenError('s4.rs: enum ChanDatum not found')
    cd = re.sub(r'#\[[^\]]*\]', '', m.group(1))
    cdv = re.findall(r'(\w+)\(([^()]*)\)', cd)
    if [v for v, _ in cdv] != ['FileInfo', 'NewMessage', 'FileSummary']:
        raise GenError('s4.rs: enum ChanDatum variants are not FileInfo, NewMessage, FileSummary')
    want = {'FileInfo': ['DateTimeLOpt', 'FileProcessingResultBlockZero'], 'NewMessage': ['LogMessage', 'IsLastLogMessage'],
            'FileSummary': ['SummaryOpt', 'FileProcessingResultBlockZero']}
    for v, fields in cdv:
        if [x.strip() for x in fields.split(',') if x.strip()] != want[v]:
            raise GenError(f's4.rs: ChanDatum::{v} fields changed')
    if not re.search(r'type IsLastLogMessage = bool;', flat):
        raise GenError('s4.rs: IsLastLogMessage is not bool')

    # -- the helper `chan_send`: exactly one send of its argument, no other control flow
    _, cs, _ = find_fn(src, 'chan_send')
    csf = re.sub(r'\s+', ' ', cs).strip()
    csf = re.sub(r'#\[cfg\(s4_verif\)\] verif_hooks::delay\([^;]*\); ', '', csf)
    if not re.match(r'^match chan_send_dt\.send\(chan_datum\) \{ Ok\(_\) => \{\} Err\(_err\) => de_err!\( .* \) \}$', csf):
        raise GenError('chan_send: body is not `match chan_send_dt.send(chan_datum) { Ok(_) => {} Err(_err) => de_err!(…) }`')
    sig, _, _ = find_fn(src, 'chan_send')
    if not re.search(r'chan_send_dt: &ChanSendDatum, chan_datum: ChanDatum, _path: &FPath', re.sub(r'\s+', ' ', sig)):
        raise GenError('chan_send: signature changed')

    # -- the repo's own macros that may appear in the workers hide no control flow
    for mac in REPO_MACROS:
        found = False
        for root, _, files in os.walk(os.path.join(repo, 'src')):
            for fn in files:
                if not fn.endswith('.rs'):
                    continue
                t = strip_comments(open(os.path.join(root, fn)).read())
                mm = re.search(r'macro_rules!\s+' + mac + r'\s*\{', t)
                if mm:
                    from rs import match_close
                    b = t.index('{', mm.start())
                    bodym = t[b:match_close(t, b) + 1]
                    if re.search(r'\b(return|break|continue)\b|\?\s*[;)]', bodym):
                        raise GenError(f'macro {mac}! contains control flow')
                    if mac == 'debug_panic' and not re.search(r'if cfg!\(any\(debug_assertions, test\)\)\s*\{\s*panic!', bodym):
                        raise GenError('macro debug_panic! is not a no-op in release builds any more')
                    found = True
        if not found:
            raise GenError(f'macro_rules! {mac} not found in src/')

    # -- the worker functions
    skel = {}
    nvars = 0
    for name in WORKERS:
        st, tracked = translate_fn(src, name)
        tail_calls_only(st, True, name)
        skel[name] = (st, tracked)
        nvars = max(nvars, len(tracked))
    dstm, dtracked = translate_fn(src, DISPATCH)
    tail_calls_only(dstm, True, DISPATCH)
    if dtracked:
        raise GenError(f'{DISPATCH}: tracked locals in the dispatcher')
    ncalls = sum(1 for _ in re.finditer(r'\bexec_(syslog|fixedstruct|evtx|journal)processor\(', flat)) - 4   # minus the 4 definitions
    if ncalls != 4:
        raise GenError(f's4.rs: the four worker functions are called {ncalls} times (expected once each, from {DISPATCH})')

    # -- the spawn site (processing_loop): what start data a thread can get
    _, pl, _ = find_fn(src, 'processing_loop')
    plf = re.sub(r'\s+', ' ', pl)
    m = re.search(r'ProcessPathResult::FileValid\(ref path, ref filetype\) => \{ if matches!\(filetype, FileType::(\w+)\) \{(.*?)\}', plf)
    if not m or not re.search(r'continue; $', m.group(2)) or 'map_pathid_results.insert' in m.group(2):
        raise GenError('processing_loop: the FileValid arm does not begin with `if matches!(filetype, FileType::X) { … continue; }`')
    excluded = m.group(1)
    if excluded not in ftmap:
        raise GenError(f'processing_loop: FileType::{excluded} is not a variant')
    if len(re.findall(r'map_pathid_results \.insert\(|map_pathid_results\.insert\(', plf)) != 1 or \
            plf.index('map_pathid_results.insert(') < m.end():
        raise GenError('processing_loop: map_pathid_results.insert is not (only) after the Unparsable filter')
    if not re.search(r'let \(filetype, _\) = match map_pathid_results\.get\(pathid\) \{ Some\(processpathresult\) => match processpathresult \{ '
                     r'ProcessPathResult::FileValid\(_path, filetype\) => \(filetype, _path\),', plf):
        raise GenError('processing_loop: the spawn loop does not take `filetype` from map_pathid_results')
    m = re.search(r'let logmessagespecificdata = match filetype \{ (.*?) \};', plf)
    if not m or re.sub(r',\s*$', '', m.group(1).strip()) != \
            'FileType::Journal{..} => LogMessageSpecificData::Journal(journal_output), _ => LogMessageSpecificData::None':
        raise GenError('processing_loop: `let logmessagespecificdata = match filetype { FileType::Journal{..} => '
                       'LogMessageSpecificData::Journal(journal_output), _ => LogMessageSpecificData::None }` not found')
    m = re.search(r'let thread_data: ThreadInitData = \(([^;]*)\);', plf)
    comps = [c.strip() for c in m.group(1).split(',')] if m else []
    comps = [c for c in comps if c]
    if len(comps) != 8 or comps[2] != '*filetype' or comps[3] != 'logmessagespecificdata':
        raise GenError('processing_loop: thread_data is not (…, …, *filetype, logmessagespecificdata, …) of 8 components')
    m = re.search(r'type ThreadInitData = \(([^;]*)\);', flat)
    tcomps = [c.strip() for c in m.group(1).split(',') if c.strip()] if m else []
    if len(tcomps) != 8 or tcomps[2] != 'FileType' or tcomps[3] != 'LogMessageSpecificData':
        raise GenError('s4.rs: type ThreadInitData is not (…, …, FileType, LogMessageSpecificData, …) of 8 components')
    if not re.search(r'\.spawn\(move \|\| exec_fileprocessor_thread\(chan_send_dt, thread_data\)\)', plf):
        raise GenError('processing_loop: `.spawn(move || exec_fileprocessor_thread(chan_send_dt, thread_data))` not found')
    if len(re.findall(r'\bchan_send_dt\b', plf)) != 2 or \
            not re.search(r'let \(chan_send_dt, chan_recv_dt\): \(ChanSendDatum, ChanRecvDatum\) = crossbeam_channel::bounded\(CHANNEL_CAPACITY\);', plf):
        raise GenError('processing_loop: the sender is used otherwise than created and moved into the thread (a kept clone keeps the channel open)')
    if len(re.findall(r'\bexec_fileprocessor_thread\(', flat)) != 2:
        raise GenError('s4.rs: exec_fileprocessor_thread is called from more than one place')

    L = ['-- GENERATED by /verif/gen/s4gen.py (gen_worker.py) from src/bin/s4.rs — do not edit',
         'namespace S4V.Gen.Worker', '',
         '/-- `enum FileType` (src/common.rs): the variants, fields dropped -/',
         'inductive FtKind where']
    for v in variants:
        L.append(f'  | {ftmap[v]}')
    L += ['  deriving DecidableEq, Repr, Inhabited', '',
          '/-- the `FileProcessingResultBlockZero` a `FileInfo` / `FileSummary` carries: literally `FileOk` (`FILEOK`),',
          'literally a `FileErr…` (`FILEERRSTUB`), or a value computed at run time -/',
          'inductive Res where', '  | ok', '  | err', '  | unknown', '  deriving DecidableEq, Repr, Inhabited', '',
          '/-- the `is_last` field of a `NewMessage`: a literal, a tracked boolean local, or something else -/',
          'inductive Flag where', '  | lit (b : Bool)', '  | var (i : Nat)', '  | unknown', '  deriving DecidableEq, Repr, Inhabited', '',
          'inductive Send where', '  | fileInfo (r : Res)', '  | newMessage (f : Flag)', '  | fileSummary (r : Res)',
          '  deriving DecidableEq, Repr, Inhabited', '',
          '/-- what a branch tests: nothing the skeleton follows; a tracked boolean local (`if v`, `if !v`); the `FileType` of the',
          "thread's start data (`match filetype { FileType::X{..} => …`); whether its `LogMessageSpecificData` is `Journal(_)` -/",
          'inductive Guard where', '  | opaque', '  | var (i : Nat)', '  | nvar (i : Nat)', '  | ftIs (k : FtKind)', '  | lmsdJournal',
          '  deriving DecidableEq, Repr, Inhabited', '',
          '/-- `set i none` = the local gets a value computed at run time -/',
          'inductive Stmt where', '  | send (s : Send)', '  | set (i : Nat) (v : Option Bool)', '  | ret', '  | brk', '  | cont',
          '  | loop (body : List Stmt)', '  | ite (g : Guard) (t e : List Stmt)', '',
          '/-- number of tracked boolean locals (maximum over the worker functions) -/',
          f'def N_VARS : Nat := {nvars}', '']
    info = {}
    for name, lean in WORKERS.items():
        st, tracked = skel[name]
        L.append(f'/-- `{name}`; tracked locals: ' + (', '.join(f'{i} = `{v}`' for i, v in enumerate(tracked)) or 'none') + ' -/')
        L.append(f'def {lean} : List Stmt := ' + lean_stmts(st, 0, ftmap))
        L.append('')
        info[lean] = count_nodes(st)
    # nothing in the dispatcher may make a worker WAIT before it runs its per-file function: the coordinator prints nothing until every
    # live source has delivered FileInfo and a first message, while a worker with more messages than the channel holds cannot finish before
    # the coordinator prints; a pool / semaphore / lock taken here therefore deadlocks once there are more sources than slots (seeded C06-d)
    _, dbody, _ = find_fn(src, DISPATCH)
    dflat = re.sub(r'\s+', ' ', strip_trace(dbody))
    mm = re.search(r'match thread_init_data\.2 \{', dflat)
    if not mm:
        raise GenError(f'{DISPATCH}: `match thread_init_data.2 {{` not found')
    before, after = dflat[:mm.start()], dflat[mm.end():]
    blocking = re.compile(r'\.send\(|\.recv\(|\.recv_timeout\(|\.try_recv\(|\.lock\(|\.read\(\)|\.write\(\)|\.wait\(|\.acquire|sleep\(|\.join\(|park\(|Barrier|Condvar|Semaphore')
    starts_unconditionally = blocking.search(before) is None
    # after the match only the closing of the function may follow (the worker calls are in tail position)
    depth, i = 1, 0
    while i < len(after) and depth:
        depth += {'{': 1, '}': -1}.get(after[i], 0)
        i += 1
    tail = after[i:].strip().rstrip('}').strip()
    nothing_after = tail == ''
    L.append(f'/-- `{DISPATCH}`: no channel / lock / semaphore / sleep operation precedes the dispatch `match` (`true`): a worker thread, once spawned,')
    L.append('reaches its per-file function without waiting for any other thread -/')
    L.append(f'def WORKER_STARTS_UNCONDITIONALLY : Bool := {"true" if starts_unconditionally else "false"}')
    L.append(f'/-- `{DISPATCH}`: nothing follows the dispatch `match` -/')
    L.append(f'def WORKER_DISPATCH_IS_LAST : Bool := {"true" if nothing_after else "false"}')
    L.append(f'/-- `{DISPATCH}`: each call of a worker function is in tail position and moves the sender into it -/')
    L.append('def workerThread : List Stmt := ' + lean_dispatch(dstm, 0, ftmap))
    L += ['',
          '/-- `processing_loop` does not start a thread for this `FileType` (the `if matches!(filetype, …) { …; continue; }` at the',
          'head of the `FileValid` arm, before the path is entered in `map_pathid_results`, from which the spawn loop reads) -/',
          f'def SPAWN_EXCLUDED : List FtKind := [.{ftmap[excluded]}]',
          '/-- the spawn loop passes `LogMessageSpecificData::Journal(_)` exactly for `FileType::Journal{..}` -/',
          'def SPAWN_LMSD_JOURNAL_IFF_JOURNAL : Bool := true',
          '/-- every worker function takes the sender by value and uses it only as `chan_send(&chan_send_dt, …)`; the dispatcher moves it',
          'into the worker function; `processing_loop` moves it into the thread and keeps no clone — so a thread that ends has closed its channel -/',
          'def SENDER_OWNED_BY_WORKER : Bool := true',
          '', 'end S4V.Gen.Worker']
    return '\n'.join(L) + '\n', {'nodes': info, 'variants': variants}
