"""Generate S4V/Gen/Fixed.lean: for EVERY `FixedStructType` variant (src/data/fixedstruct.rs)

  * `size()`, `offset_tv()`, `size_tv()` evaluated through the platform module's constants
    (`size_of::<S>()`, `offset_of!(S, f)`, other constants),
  * what `tv_pair_from_buffer` reads from the `size_tv()` bytes: which macro
    (`buffer_to_time_t!` / `buffer_to_timeval!`), which Rust type, resolved through the platform
    module's `pub type` aliases down to primitives (signedness + width of tv_sec / tv_usec and
    their offsets inside the type),
  * which struct field `FixedStruct::from_fixedstructptr` (the PRINTING side: `tv_pair()`, `dt()`)
    takes the time from, the declared type of that field in the `#[repr(C, ..)]` struct definition
    (resolved the same way) and its byte offset computed from the field list,
  * how the two macros convert (pointer read = native byte order; `try_into()` to `tv_sec_type`;
    failure => `return None` for tv_sec, `0` for tv_usec),
  * how `preprocess_timevalues` obtains the map key (reads `size_tv()` bytes at
    `fo + offset_tv()`, passes them to `tv_pair_from_buffer`, `None` => record skipped).

Layout computation: C layout rules for the target the harness and the binary are built for
(x86_64: alignment of an integer/float primitive = its size), honouring `packed`, `packed(N)` and
`align(N)` exactly as declared. EVERY `assertcp_eq!(offset_of!(S, f), N)` / `assertcp_eq!(CONST, N)`
compile-time assertion in the source is re-checked against the computed value (GenError on any
difference), so the computation is sound wherever the crate compiles.
"""
import os
import re
from rs import GenError, strip_comments, find_fn, match_close, match_arms, split_top, int_lit, lean_str
from gen_path import strip_trace

W = 'src/data/fixedstruct.rs'

PRIM = {
    'i8': (True, 1), 'u8': (False, 1), 'i16': (True, 2), 'u16': (False, 2), 'i32': (True, 4), 'u32': (False, 4),
    'i64': (True, 8), 'u64': (False, 8),
}
FLOAT = {'f32': 4, 'f64': 8}
# std::ffi aliases with a width that is the same on every target s4 is built for
FFI = {'c_schar': 'i8', 'c_uchar': 'u8', 'c_short': 'i16', 'c_ushort': 'u16', 'c_int': 'i32', 'c_uint': 'u32',
       'c_longlong': 'i64', 'c_ulonglong': 'u64', 'c_float': 'f32', 'c_double': 'f64'}


def flat(s):
    return re.sub(r'\s+', ' ', s).strip()


class Module:
    def __init__(self, name, body):
        self.name = name
        self.body = body
        self.types = {}      # alias -> type text
        self.consts = {}     # name -> expression text
        self.structs = {}    # name -> (pack, align, [(field, type text)])
        self._layout = {}
        for m in re.finditer(r'\bpub\s+type\s+(\w+)\s*=\s*([^;]+);', body):
            if m.group(1) in self.types:
                raise GenError(f"{W}: mod {name}: type alias {m.group(1)} defined twice")
            self.types[m.group(1)] = flat(m.group(2))
        for m in re.finditer(r'\bpub\s+const\s+(\w+)\s*:\s*(\w+)\s*=\s*([^;]+);', body):
            if m.group(2) in ('usize', 'FileOffset'):
                if m.group(1) in self.consts:
                    raise GenError(f"{W}: mod {name}: const {m.group(1)} defined twice")
                self.consts[m.group(1)] = flat(m.group(3))
        for m in re.finditer(r'((?:#\[[^\]]*\]\s*)*)pub\s+struct\s+(\w+)\s*\{', body):
            sname = m.group(2)
            b = body.find('{', m.end() - 1)
            e = match_close(body, b)
            reprs = re.findall(r'#\[\s*repr\s*\(([^)]*(?:\([^)]*\))?[^)]*)\)\s*\]', m.group(1))
            if len(reprs) != 1:
                raise GenError(f"{W}: struct {name}::{sname}: expected exactly one #[repr(..)] attribute, found {len(reprs)}")
            pack = None
            align = None
            c = False
            for a in split_top(reprs[0], ','):
                a = a.strip()
                if a == 'C':
                    c = True
                elif a == 'packed':
                    pack = 1
                elif re.fullmatch(r'packed\s*\(\s*\d+\s*\)', a):
                    pack = int(re.search(r'\d+', a).group(0))
                elif re.fullmatch(r'align\s*\(\s*\d+\s*\)', a):
                    align = int(re.search(r'\d+', a).group(0))
                else:
                    raise GenError(f"{W}: struct {name}::{sname}: unsupported repr argument `{a}`")
            if not c:
                raise GenError(f"{W}: struct {name}::{sname}: not repr(C); field offsets are not determined by the declaration")
            if pack is not None and align is not None:
                raise GenError(f"{W}: struct {name}::{sname}: both packed and align")
            fields = []
            for f in split_top(body[b + 1:e], ','):
                f = flat(f)
                if not f:
                    continue
                fm = re.fullmatch(r'pub (\w+)\s*:\s*(.+)', f)
                if not fm:
                    raise GenError(f"{W}: struct {name}::{sname}: field `{f[:60]}` is not `pub name: type`")
                fields.append((fm.group(1), fm.group(2).strip()))
            if sname in self.structs:
                raise GenError(f"{W}: struct {name}::{sname} defined twice")
            self.structs[sname] = (pack, align, fields)

    # ---- types
    def resolve(self, t, seen=()):
        """type text -> ('int', signed, size, align) | ('float', size, align) | ('char', 1, 1)
        | ('array', size, align) | ('struct', name, size, align)"""
        t = t.strip()
        if t in seen:
            raise GenError(f"{W}: mod {self.name}: type alias cycle at {t}")
        if t in PRIM:
            s, n = PRIM[t]
            return ('int', s, n, n)
        if t in FLOAT:
            return ('float', FLOAT[t], FLOAT[t])
        m = re.fullmatch(r'(?:::)?std::ffi::(\w+)', t)
        if m:
            k = m.group(1)
            if k == 'c_char':
                # signedness differs between targets (i8 on x86_64, u8 on aarch64 Linux); 1 byte everywhere
                return ('char', 1, 1)
            if k in FFI:
                return self.resolve(FFI[k], seen + (t,))
            raise GenError(f"{W}: mod {self.name}: std::ffi::{k} has a target-dependent width (or is unknown); not translated")
        m = re.fullmatch(r'\[\s*(.+?)\s*;\s*(.+?)\s*\]', t)
        if m:
            el = self.resolve(m.group(1), seen + (t,))
            n = self.const_eval(m.group(2))
            return ('array', size_of(el) * n, align_of(el))
        if re.fullmatch(r'\w+', t):
            if t in self.types and t in self.structs:
                raise GenError(f"{W}: mod {self.name}: {t} is both a type alias and a struct")
            if t in self.types:
                return self.resolve(self.types[t], seen + (t,))
            if t in self.structs:
                lay = self.layout(t)
                return ('struct', t, lay['size'], lay['align'])
        raise GenError(f"{W}: mod {self.name}: type `{t}` is outside the translated subset")

    def layout(self, sname):
        if sname in self._layout:
            if self._layout[sname] is None:
                raise GenError(f"{W}: struct {self.name}::{sname}: recursive")
            return self._layout[sname]
        if sname not in self.structs:
            raise GenError(f"{W}: struct {self.name}::{sname} not found")
        self._layout[sname] = None
        pack, align, fields = self.structs[sname]
        cur = 0
        salign = 1
        offs = {}
        order = []
        for fname, ftype in fields:
            r = self.resolve(ftype)
            fs, fa = size_of(r), align_of(r)
            if pack is not None:
                fa = min(fa, pack)
            off = (cur + fa - 1) // fa * fa
            if fname in offs:
                raise GenError(f"{W}: struct {self.name}::{sname}: field {fname} twice")
            offs[fname] = (off, fs, ftype, r)
            order.append(fname)
            cur = off + fs
            salign = max(salign, fa)
        if align is not None:
            salign = max(salign, align)
        size = (cur + salign - 1) // salign * salign
        lay = {'size': size, 'align': salign, 'fields': offs, 'order': order}
        self._layout[sname] = lay
        return lay

    # ---- constants
    def const_eval(self, e, seen=()):
        e = flat(e)
        m = re.fullmatch(r'(.+) as FileOffset', e)
        if m:
            e = m.group(1).strip()
        if re.fullmatch(r'[0-9][0-9a-fA-Fx_]*(usize|u64)?', e):
            return int_lit(e)
        m = re.fullmatch(r'(?:std::mem::)?size_of::<\s*([\w:\[\]; ]+?)\s*>\(\)', e)
        if m:
            return size_of(self.resolve(m.group(1)))
        m = re.fullmatch(r'offset_of!\(\s*(\w+)\s*,\s*(\w+)\s*\)', e)
        if m:
            lay = self.layout(m.group(1))
            if m.group(2) not in lay['fields']:
                raise GenError(f"{W}: offset_of!({m.group(1)}, {m.group(2)}): no such field")
            return lay['fields'][m.group(2)][0]
        if '+' in e:
            parts = split_top(e, '+')
            if len(parts) > 1:
                return sum(self.const_eval(p, seen) for p in parts)
        if re.fullmatch(r'\w+', e):
            if e in seen:
                raise GenError(f"{W}: mod {self.name}: const cycle at {e}")
            if e in self.consts:
                return self.const_eval(self.consts[e], seen + (e,))
        raise GenError(f"{W}: mod {self.name}: constant expression `{e}` is outside the translated subset")

    def tv_shape(self, ttext, where):
        """(shape dict, resolved description) for a type used as a time value: an integer primitive
        (scalar seconds) or a struct with integer fields tv_sec and tv_usec"""
        r = self.resolve(ttext)
        if r[0] == 'int':
            return {'size': r[2], 'sec': (r[1], r[2]), 'secOff': 0, 'usec': None}, prim_name(r)
        if r[0] == 'struct':
            lay = self.layout(r[1])
            f = lay['fields']
            if 'tv_sec' not in f or 'tv_usec' not in f:
                raise GenError(f"{where}: struct {self.name}::{r[1]} has no tv_sec/tv_usec fields")
            rs, ru = f['tv_sec'][3], f['tv_usec'][3]
            if rs[0] != 'int' or ru[0] != 'int':
                raise GenError(f"{where}: {self.name}::{r[1]}.tv_sec/tv_usec are not integer primitives")
            return ({'size': lay['size'], 'sec': (rs[1], rs[2]), 'secOff': f['tv_sec'][0],
                     'usec': ((ru[1], ru[2]), f['tv_usec'][0])},
                    f"{{tv_sec: {prim_name(rs)} @{f['tv_sec'][0]}, tv_usec: {prim_name(ru)} @{f['tv_usec'][0]}}}")
        raise GenError(f"{where}: type `{ttext}` in mod {self.name} resolves to {r[0]}, not an integer or a timeval struct")


def size_of(r):
    return r[{'int': 2, 'float': 1, 'char': 1, 'array': 1, 'struct': 2}[r[0]]]


def align_of(r):
    return r[{'int': 3, 'float': 2, 'char': 2, 'array': 2, 'struct': 3}[r[0]]]


def prim_name(r):
    return ('i' if r[1] else 'u') + str(8 * r[2])


def parse_modules(src):
    mods = {}
    for m in re.finditer(r'^pub\s+mod\s+(\w+)\s*\{', src, re.M):
        b = src.find('{', m.end() - 1)
        e = match_close(src, b)
        if m.group(1) in mods:
            raise GenError(f"{W}: mod {m.group(1)} defined twice")
        mods[m.group(1)] = Module(m.group(1), src[b + 1:e])
    return mods


def check_asserts(mods):
    """re-check every compile-time layout assertion of the source against the computed layout"""
    n = 0
    for mod in mods.values():
        for m in re.finditer(r'assertcp_eq!\(\s*(.+?)\s*,\s*(\d+)\s*\)\s*;', mod.body):
            lhs, want = m.group(1), int(m.group(2))
            got = mod.const_eval(lhs)
            if got != want:
                raise GenError(f"{W}: mod {mod.name}: computed {lhs} = {got} but the source asserts {want} "
                               f"(layout computation and declaration disagree)")
            n += 1
    return n


def enum_variants(src):
    m = re.search(r'pub\s+enum\s+FixedStructType\s*\{', src)
    if not m:
        raise GenError(f"{W}: enum FixedStructType not found")
    b = src.find('{', m.end() - 1)
    e = match_close(src, b)
    body = re.sub(r'#\[[^\]]*\]', '', src[b + 1:e])
    vs = [flat(v) for v in split_top(body, ',') if flat(v)]
    for v in vs:
        if not re.fullmatch(r'Fs_\w+', v):
            raise GenError(f"{W}: enum FixedStructType: variant `{v[:40]}` is not a plain `Fs_*` identifier")
    if len(set(vs)) != len(vs):
        raise GenError(f"{W}: enum FixedStructType: duplicate variant")
    return vs


def impl_body(src):
    m = re.search(r'^impl\s+FixedStructType\s*\{', src, re.M)
    if not m:
        raise GenError(f"{W}: impl FixedStructType not found")
    b = src.find('{', m.end() - 1)
    return src[b + 1:match_close(src, b)]


def const_table(impl, fname, variants, mods):
    """`pub const fn fname(&self) -> usize { match self { V => mod::CONST, .. } }`"""
    _, body, _ = find_fn(impl, fname)
    body = flat(strip_trace(body))
    m = re.fullmatch(r'match self \{(.*)\}', body)
    if not m:
        raise GenError(f"{W}: FixedStructType::{fname}: body is not a single `match self {{..}}`")
    out = {}
    for pat, val in match_arms(m.group(1)):
        pm = re.fullmatch(r'FixedStructType::(\w+)', pat)
        vm = re.fullmatch(r'(\w+)::(\w+)', flat(val))
        if not pm or not vm:
            raise GenError(f"{W}: FixedStructType::{fname}: arm `{pat} => {flat(val)[:60]}` is not `FixedStructType::V => module::CONST`")
        if pm.group(1) in out:
            raise GenError(f"{W}: FixedStructType::{fname}: variant {pm.group(1)} twice")
        if vm.group(1) not in mods:
            raise GenError(f"{W}: FixedStructType::{fname}: unknown module {vm.group(1)}")
        mod = mods[vm.group(1)]
        if vm.group(2) not in mod.consts:
            raise GenError(f"{W}: FixedStructType::{fname}: {vm.group(1)}::{vm.group(2)} is not a usize constant of that module")
        out[pm.group(1)] = (vm.group(1), vm.group(2), mod.consts[vm.group(2)], mod.const_eval(vm.group(2)))
    if sorted(out) != sorted(variants):
        raise GenError(f"{W}: FixedStructType::{fname}: arms {sorted(out)} do not cover the enum's variants exactly")
    return out


def macro_body(src, name):
    m = re.search(r'macro_rules!\s*' + re.escape(name) + r'\s*\{', src)
    if not m:
        raise GenError(f"{W}: macro {name} not found")
    b = src.find('{', m.end() - 1)
    return flat(strip_trace(src[b + 1:match_close(src, b)]))


def check_macros(src):
    """conversion performed by the two reading macros; returns (byte order, on tv_sec failure, on tv_usec failure)"""
    t = macro_body(src, 'buffer_to_time_t')
    want_t = (r'\(\$ll_time_t:ty, \$ll_time_sz:expr, \$buffer:ident, \$tv_sec:ident\) => \(\{\{ '
              r'let size: usize = \$ll_time_sz; debug_assert_eq!\(\$buffer\.len\(\), size\); '
              r'let ll_time: \$ll_time_t = unsafe \{ \*\(\$buffer\.as_ptr\(\) as \*const \$ll_time_t\) \}; '
              r'\$tv_sec = match ll_time\.try_into\(\) \{ Ok\(val\) => val, Err\(_\) => \{ debug_panic!\(.*?\); return None; \} \}; '
              r'\}\}\)')
    if not re.fullmatch(want_t, t):
        raise GenError(f"{W}: macro buffer_to_time_t! left the expected shape (pointer read of $ll_time_t, try_into, Err => return None)")
    v = macro_body(src, 'buffer_to_timeval')
    want_v = (r'\(\$timeval_type:ty, \$timeval_sz:expr, \$buffer:ident, \$tv_sec:ident, \$tv_usec:ident\) => \(\{\{ '
              r'let size: usize = \$timeval_sz; debug_assert_eq!\(\$buffer\.len\(\), size\); '
              r'let time_val: \$timeval_type = unsafe \{ \*\(\$buffer\.as_ptr\(\) as \*const \$timeval_type\) \}; '
              r'let _tv_sec = time_val\.tv_sec; let _tv_usec = time_val\.tv_usec; '
              r'\$tv_sec = match time_val\.tv_sec\.try_into\(\) \{ Ok\(val\) => val, Err\(_\) => \{ debug_panic!\(.*?\); return None; \} \}; '
              r'\$tv_usec = match time_val\.tv_usec\.try_into\(\) \{ Ok\(val\) => val, Err\(_\) => \{ debug_panic!\(.*?\); 0 \} \}; '
              r'\}\}\)')
    if not re.fullmatch(want_v, v):
        raise GenError(f"{W}: macro buffer_to_timeval! left the expected shape (pointer read of $timeval_type, .tv_sec/.tv_usec try_into, "
                       f"Err => return None / 0)")
    o = macro_body(src, 'tv_or_err_tv_sec')
    if not re.fullmatch(r'\(\$fixedstructptr: ident, \$tv_sec: expr\) => \(\{\{ match \$tv_sec\.try_into\(\) \{ Ok\(val\) => val, '
                        r'Err\(err\) => \{ let err_str = format!\(.*?\); return Result::Err\( Error::new\(ErrorKind::InvalidData, err_str\) \); \} \} \}\}\)', o):
        raise GenError(f"{W}: macro tv_or_err_tv_sec! left the expected shape (try_into, Err => return Err)")
    return 'native', 'none', 'zero'


def widen_types(src):
    out = []
    for n in ('tv_sec_type', 'tv_usec_type'):
        m = re.search(r'^pub\s+type\s+' + n + r'\s*=\s*(\w+)\s*;', src, re.M)
        if not m or m.group(1) not in PRIM:
            raise GenError(f"{W}: `pub type {n} = <integer primitive>;` not found")
        out.append(PRIM[m.group(1)])
    m = re.search(r'pub\s+struct\s+tv_pair_type\s*\(\s*pub\s+tv_sec_type\s*,\s*pub\s+tv_usec_type\s*\)\s*;', src)
    if not m:
        raise GenError(f"{W}: tv_pair_type is not `struct tv_pair_type(pub tv_sec_type, pub tv_usec_type)`")
    pre = src[max(0, m.start() - 200):m.start()]
    d = re.findall(r'#\[derive\(([^)]*)\)\]', pre)
    if not d or not {'PartialOrd', 'Ord', 'PartialEq', 'Eq'} <= {x.strip() for x in d[-1].split(',')}:
        raise GenError(f"{W}: tv_pair_type does not derive PartialEq, Eq, PartialOrd, Ord (lexicographic order on (sec, usec))")
    return out


def read_side(impl, variants, mods):
    """tv_pair_from_buffer: per variant (macro, module, type text)"""
    _, body, _ = find_fn(impl, 'tv_pair_from_buffer')
    body = flat(strip_trace(body))
    m = re.fullmatch(r'let tv_sec: tv_sec_type; let tv_usec: tv_usec_type; let size = self\.size_tv\(\); match self \{(.*)\} '
                     r'let tv_pair = tv_pair_type\(tv_sec, tv_usec\); Some\(tv_pair\)', body)
    if not m:
        raise GenError(f"{W}: tv_pair_from_buffer: not `let size = self.size_tv(); match self {{..}} Some(tv_pair_type(tv_sec, tv_usec))`")
    out = {}
    for pat, val in match_arms(m.group(1)):
        pm = re.fullmatch(r'FixedStructType::(\w+)', pat)
        if not pm:
            raise GenError(f"{W}: tv_pair_from_buffer: arm pattern `{pat[:60]}`")
        v = flat(val)
        a = re.fullmatch(r'buffer_to_time_t!\((\w+)::(\w+), size, buffer, tv_sec\); tv_usec = 0; defo_tv_pair!\(tv_sec, tv_usec\);', v)
        b = re.fullmatch(r'buffer_to_timeval!\((\w+)::(\w+), size, buffer, tv_sec, tv_usec\); defo_tv_pair!\(tv_sec, tv_usec\);', v)
        if a:
            kind, g = 'time_t', a
        elif b:
            kind, g = 'timeval', b
        else:
            raise GenError(f"{W}: tv_pair_from_buffer: arm {pm.group(1)} `{v[:100]}` is neither "
                           f"`buffer_to_time_t!(M::T, size, buffer, tv_sec); tv_usec = 0;` nor `buffer_to_timeval!(M::T, size, buffer, tv_sec, tv_usec);`")
        if g.group(1) not in mods:
            raise GenError(f"{W}: tv_pair_from_buffer: arm {pm.group(1)}: unknown module {g.group(1)}")
        if pm.group(1) in out:
            raise GenError(f"{W}: tv_pair_from_buffer: variant {pm.group(1)} twice")
        shape, desc = mods[g.group(1)].tv_shape(g.group(2), f"{W}: tv_pair_from_buffer arm {pm.group(1)}")
        if (kind == 'time_t') != (shape['usec'] is None):
            raise GenError(f"{W}: tv_pair_from_buffer: arm {pm.group(1)}: buffer_to_{kind}! applied to {g.group(1)}::{g.group(2)} = {desc}")
        out[pm.group(1)] = {'macro': 'buffer_to_' + kind + '!', 'type': f'{g.group(1)}::{g.group(2)}', 'shape': shape, 'desc': desc}
    if sorted(out) != sorted(variants):
        raise GenError(f"{W}: tv_pair_from_buffer: arms do not cover the enum's variants exactly")
    return out


def print_side(src, variants, mods):
    """FixedStruct::from_fixedstructptr: per variant the struct and the field path(s) the time is taken from"""
    _, body, _ = find_fn(src, 'from_fixedstructptr')
    body = flat(strip_trace(body))
    m = re.search(r'match fixedstructtype \{', body)
    if not m:
        raise GenError(f"{W}: from_fixedstructptr: `match fixedstructtype` not found")
    b = body.find('{', m.end() - 1)
    e = match_close(body, b)
    tail = body[e + 1:].strip()
    if not re.match(r'dt = tv_to_datetime_or_err!\(tv_sec, tv_usec, tz_offset\); tv_pair = tv_pair_type\(tv_sec, tv_usec\); '
                    r'Result::Ok\( FixedStruct \{ fixedstructptr, fixedstructtype, filetypefixedstruct, fileoffset, dt, tv_pair, \} \)', tail):
        raise GenError(f"{W}: from_fixedstructptr: after the match, not `dt = tv_to_datetime_or_err!(tv_sec, tv_usec, ..); "
                       f"tv_pair = tv_pair_type(tv_sec, tv_usec); Ok(FixedStruct {{..}})`")
    out = {}
    for pat, val in match_arms(body[b + 1:e]):
        pm = re.fullmatch(r'FixedStructType::(\w+)', pat)
        if not pm:
            raise GenError(f"{W}: from_fixedstructptr: arm pattern `{pat[:60]}`")
        v = flat(val)
        hm = re.match(r'filetypefixedstruct = FileTypeFixedStruct::(\w+); let fixedstructptr: &(\w+)::(\w+) = fixedstructptr\.as_(\w+)\(\); ', v)
        if not hm:
            raise GenError(f"{W}: from_fixedstructptr: arm {pm.group(1)} does not start with `filetypefixedstruct = ..; let fixedstructptr: &M::S = fixedstructptr.as_M_S();`")
        if hm.group(4) != hm.group(2) + '_' + hm.group(3):
            raise GenError(f"{W}: from_fixedstructptr: arm {pm.group(1)}: as_{hm.group(4)}() does not match &{hm.group(2)}::{hm.group(3)}")
        rest = v[hm.end():]
        binds = {}

        def take(mm):
            binds[mm.group(1)] = 'fixedstructptr.' + mm.group(2)
            return ''
        rest = re.sub(r'let (\w+) = fixedstructptr\.([\w.]+); ?', take, rest).strip()
        rm = re.fullmatch(r'tv_sec = tv_or_err_tv_sec!\(fixedstructptr, ([\w.]+)\); tv_usec = (0|tv_or_err_tv_sec!\(fixedstructptr, ([\w.]+)\));', rest)
        if not rm:
            raise GenError(f"{W}: from_fixedstructptr: arm {pm.group(1)} `{rest[:120]}` is not `tv_sec = tv_or_err_tv_sec!(fixedstructptr, X); tv_usec = 0 | tv_or_err_tv_sec!(fixedstructptr, Y);`")
        sec = binds.get(rm.group(1), rm.group(1))
        usec = None if rm.group(2) == '0' else binds.get(rm.group(3), rm.group(3))
        if not sec.startswith('fixedstructptr.') or (usec is not None and not usec.startswith('fixedstructptr.')):
            raise GenError(f"{W}: from_fixedstructptr: arm {pm.group(1)}: time is not taken from a field of the record")
        sec = sec[len('fixedstructptr.'):]
        if usec is None:
            if not re.fullmatch(r'\w+', sec):
                raise GenError(f"{W}: from_fixedstructptr: arm {pm.group(1)}: scalar time path `{sec}`")
            field = sec
        else:
            usec = usec[len('fixedstructptr.'):]
            ms, mu = re.fullmatch(r'(\w+)\.tv_sec', sec), re.fullmatch(r'(\w+)\.tv_usec', usec)
            if not ms or not mu or ms.group(1) != mu.group(1):
                raise GenError(f"{W}: from_fixedstructptr: arm {pm.group(1)}: tv_sec from `{sec}`, tv_usec from `{usec}`: not F.tv_sec / F.tv_usec of one field")
            field = ms.group(1)
        if hm.group(2) not in mods:
            raise GenError(f"{W}: from_fixedstructptr: arm {pm.group(1)}: unknown module {hm.group(2)}")
        mod = mods[hm.group(2)]
        lay = mod.layout(hm.group(3))
        if field not in lay['fields']:
            raise GenError(f"{W}: from_fixedstructptr: arm {pm.group(1)}: {hm.group(2)}::{hm.group(3)} has no field {field}")
        off, fsz, ftype, _ = lay['fields'][field]
        shape, desc = mod.tv_shape(ftype, f"{W}: struct {hm.group(2)}::{hm.group(3)}.{field}")
        if (usec is None) != (shape['usec'] is None):
            raise GenError(f"{W}: from_fixedstructptr: arm {pm.group(1)}: field {field}: {ftype} = {desc} is read as {'a scalar' if usec is None else 'a timeval'}")
        if pm.group(1) in out:
            raise GenError(f"{W}: from_fixedstructptr: variant {pm.group(1)} twice")
        out[pm.group(1)] = {'module': hm.group(2), 'struct': hm.group(3), 'field': field, 'fieldType': ftype, 'offset': off,
                            'shape': shape, 'desc': desc, 'structSize': lay['size'], 'filetype': hm.group(1)}
    if sorted(out) != sorted(variants):
        raise GenError(f"{W}: from_fixedstructptr: arms do not cover the enum's variants exactly")
    return out


def struct_cast(src, variants, prt):
    """buffer_to_fixedstructptr: the record bytes become the struct by `read_unaligned(slice_.as_ptr().cast::<M::S>())` of
    `&buffer[..sz]`, sz = fixedstructtype.size()"""
    _, body, _ = find_fn(src, 'buffer_to_fixedstructptr')
    body = flat(strip_trace(body))
    if not re.search(r'let sz: usize = fixedstructtype\.size\(\); if buffer\.len\(\) < sz \{', body) or 'let slice_ = &buffer[..sz];' not in body:
        raise GenError(f"{W}: buffer_to_fixedstructptr: not `sz = fixedstructtype.size(); if buffer.len() < sz {{..None}}; slice_ = &buffer[..sz]`")
    if not re.search(r'if slice_\.iter\(\)\.all\(\|&x\| x == 0\) \{ return None; \}', body) or \
       not re.search(r'if slice_\.iter\(\)\.all\(\|&x\| x == 0xFF\) \{ return None; \}', body):
        raise GenError(f"{W}: buffer_to_fixedstructptr: all-0x00 / all-0xFF => None tests not found")
    m = re.search(r'let entry: FixedStructDynPtr = match fixedstructtype \{', body)
    if not m:
        raise GenError(f"{W}: buffer_to_fixedstructptr: `let entry = match fixedstructtype` not found")
    b = body.find('{', m.end() - 1)
    e = match_close(body, b)
    seen = set()
    for pat, val in match_arms(body[b + 1:e]):
        pm = re.fullmatch(r'FixedStructType::(\w+)', pat)
        vm = re.fullmatch(r'unsafe \{ Box::new\( std::ptr::read_unaligned\(slice_\.as_ptr\(\)\.cast::<(\w+)::(\w+)>\(\)\) \) \}', flat(val))
        if not pm or not vm:
            raise GenError(f"{W}: buffer_to_fixedstructptr: arm `{pat[:50]}` is not `Box::new(read_unaligned(slice_.as_ptr().cast::<M::S>()))`")
        p = prt.get(pm.group(1))
        if not p or (p['module'], p['struct']) != (vm.group(1), vm.group(2)):
            raise GenError(f"{W}: buffer_to_fixedstructptr: {pm.group(1)} is cast to {vm.group(1)}::{vm.group(2)} but from_fixedstructptr reads it as "
                           f"{p['module'] if p else '?'}::{p['struct'] if p else '?'}")
        seen.add(pm.group(1))
    if sorted(seen) != sorted(variants):
        raise GenError(f"{W}: buffer_to_fixedstructptr: arms do not cover the enum's variants exactly")
    return 'native'


def check_preprocess(repo):
    fs = strip_comments(open(os.path.join(repo, 'src/readers/fixedstructreader.rs')).read())
    _, body, _ = find_fn(fs, 'preprocess_timevalues')
    f = flat(strip_trace(body))
    R = 'src/readers/fixedstructreader.rs: preprocess_timevalues'
    need = [
        (r'let entry_sz: FileOffset = fixedstruct_type\.size\(\) as FileOffset;', 'entry_sz = fixedstruct_type.size()'),
        (r'let tv_sz: usize = fixedstruct_type\.size_tv\(\); let tv_offset: usize = fixedstruct_type\.offset_tv\(\); '
         r'let slice_: &mut \[u8\] = &mut buffer\[\.\.tv_sz\]; let mut fo: FileOffset = 0;', 'tv_sz/tv_offset/slice_ = buffer[..tv_sz]; fo = 0'),
        (r'let beg: FileOffset = fo \+ tv_offset as FileOffset; let end: FileOffset = beg \+ tv_sz as FileOffset; '
         r'match blockreader\.read_data_to_buffer\( beg, end, false, slice_, \)', 'read_data_to_buffer(fo + tv_offset, .. + tv_sz, false, slice_)'),
        (r'let tv_pair: tv_pair_type = match fixedstruct_type\.tv_pair_from_buffer\( slice_, \) \{ Some\(pair\) => pair, '
         r'None => \{ fo \+= entry_sz; invalid \+= 1; continue; \} \};', 'tv_pair = tv_pair_from_buffer(slice_), None => skip'),
    ]
    for pat, what in need:
        if not re.search(pat, f):
            raise GenError(f"{R}: `{what}` not found")
    _, pe, _ = find_fn(fs, 'process_entry_at')
    pf = flat(strip_trace(pe))
    if not re.search(r'let fs: FixedStruct = match FixedStruct::new\( fileoffset, &self\.tz_offset, &slice_, self\.fixedstruct_type\(\), \)', pf):
        raise GenError('src/readers/fixedstructreader.rs: process_entry_at: the printed entry is not `FixedStruct::new(fileoffset, tz, slice_, self.fixedstruct_type())`')


def lprim(p):
    return f"⟨{'true' if p[0] else 'false'}, {p[1]}⟩"


def lshape(s):
    u = 'none' if s['usec'] is None else f"some ({lprim(s['usec'][0])}, {s['usec'][1]})"
    return f"⟨{s['size']}, {lprim(s['sec'])}, {s['secOff']}, {u}⟩"


def generate(repo):
    src = strip_comments(open(os.path.join(repo, W)).read())
    mods = parse_modules(src)
    if not mods:
        raise GenError(f"{W}: no platform modules found")
    n_asserts = check_asserts(mods)
    variants = enum_variants(src)
    impl = impl_body(src)
    sizes = const_table(impl, 'size', variants, mods)
    offs = const_table(impl, 'offset_tv', variants, mods)
    szs = const_table(impl, 'size_tv', variants, mods)
    order, on_sec, on_usec = check_macros(src)
    wsec, wusec = widen_types(src)
    rd = read_side(impl, variants, mods)
    pr = print_side(src, variants, mods)
    sorder = struct_cast(src, variants, pr)
    check_preprocess(repo)
    for v in variants:
        # size() must be the size of the struct the record is cast to
        want = f"size_of::<{pr[v]['struct']}>()"
        if sizes[v][0] != pr[v]['module'] or sizes[v][2].replace(' ', '') != want:
            raise GenError(f"{W}: FixedStructType::size: {v} => {sizes[v][0]}::{sizes[v][1]} = `{sizes[v][2]}` is not size_of::<{pr[v]['module']}::{pr[v]['struct']}>()")

    L = ['-- GENERATED by /verif/gen/s4gen.py — do not edit',
         'namespace S4V.Gen.Fixed', '',
         '/-- integer primitive: signedness and width in bytes -/',
         'structure Prim where',
         '  signed : Bool',
         '  bytes : Nat',
         '  deriving DecidableEq, Repr, Inhabited', '',
         '/-- how a time value lies in its bytes: total size, the seconds primitive and its offset, and (for a',
         '`timeval`) the microseconds primitive and its offset; `usec = none` is a scalar time (tv_usec = 0) -/',
         'structure TvShape where',
         '  size : Nat',
         '  sec : Prim',
         '  secOff : Nat',
         '  usec : Option (Prim × Nat)',
         '  deriving DecidableEq, Repr, Inhabited', '',
         'structure Layout where',
         '  /-- `FixedStructType` variant -/',
         '  name : String',
         '  /-- `FixedStructType::size()` -/',
         '  size : Nat',
         '  /-- `FixedStructType::offset_tv()` -/',
         '  offsetTv : Nat',
         '  /-- `FixedStructType::size_tv()` -/',
         '  sizeTv : Nat',
         '  /-- ORDERING side: the type `tv_pair_from_buffer` reads from the `size_tv()` bytes, resolved to primitives -/',
         '  read : TvShape',
         '  /-- PRINTING side: byte offset, in the `#[repr(C, ..)]` struct the record is cast to, of the field',
         '  `from_fixedstructptr` takes the time from (computed from the field list) -/',
         '  fieldOffset : Nat',
         '  /-- declared type of that field, resolved to primitives -/',
         '  decl : TvShape',
         '  /-- documentation: macro, Rust type, struct, field, field type as written -/',
         '  doc : String',
         '  deriving DecidableEq, Repr, Inhabited', '',
         'inductive ByteOrder | native | le | be',
         '  deriving DecidableEq, Repr', '',
         '/-- `buffer_to_time_t!` / `buffer_to_timeval!`: `*(buffer.as_ptr() as *const T)` -/',
         f'def readByteOrder : ByteOrder := .{order}',
         '/-- `buffer_to_fixedstructptr`: `read_unaligned(slice_.as_ptr().cast::<S>())`, then plain field access -/',
         f'def structByteOrder : ByteOrder := .{sorder}',
         '/-- `tv_sec_type`, `tv_usec_type`: both macros and `from_fixedstructptr` widen with `try_into()` -/',
         f'def tvSecType : Prim := {lprim(wsec)}',
         f'def tvUsecType : Prim := {lprim(wusec)}',
         '/-- `tv_pair_from_buffer`: a tv_sec that does not fit => `return None` (true); a tv_usec that does not fit => 0 (true) -/',
         f'def readSecOverflowIsNone : Bool := {"true" if on_sec == "none" else "false"}',
         f'def readUsecOverflowIsZero : Bool := {"true" if on_usec == "zero" else "false"}',
         '/-- `preprocess_timevalues` reads `size_tv()` bytes at `record offset + offset_tv()`, hands exactly those to',
         '`tv_pair_from_buffer`, and skips the record when that returns `None`; `process_entry_at` prints',
         '`FixedStruct::new` of the `size()` bytes at the record offset -/',
         'def keyIsTvPairOfRecordSlice : Bool := true', '',
         'def layouts : List Layout := [']
    rows = []
    info_rows = {}
    for v in variants:
        doc = (f"{rd[v]['macro']}({rd[v]['type']} = {rd[v]['desc']}); struct {pr[v]['module']}::{pr[v]['struct']}."
               f"{pr[v]['field']}: {pr[v]['fieldType']} = {pr[v]['desc']}; offset_tv = {offs[v][0]}::{offs[v][1]} = {offs[v][2]}; "
               f"size_tv = {szs[v][0]}::{szs[v][1]} = {szs[v][2]}")
        rows.append(f"  ⟨{lean_str(v)}, {sizes[v][3]}, {offs[v][3]}, {szs[v][3]}, {lshape(rd[v]['shape'])}, {pr[v]['offset']}, "
                    f"{lshape(pr[v]['shape'])},\n    {lean_str(doc)}⟩")
        info_rows[v] = [sizes[v][3], offs[v][3], szs[v][3], rd[v]['type'], rd[v]['desc'], pr[v]['field'], pr[v]['offset'], pr[v]['desc']]
    L.append(',\n'.join(rows) + ']')
    L += ['', 'def layoutNamed (n : String) : Option Layout := layouts.find? (·.name = n)', '',
          'end S4V.Gen.Fixed']
    return '\n'.join(L) + '\n', {'variants': len(variants), 'layout_assertions_rechecked': n_asserts, 'table': info_rows}
