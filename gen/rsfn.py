"""Translate small pure Rust functions to Lean (Tie A, Appendix B of DESIGN.md).

Subset: `let`, `if c { return e; }`, `if/else` expressions, `match` on an
identifier or a tuple with `None`/`Some(x)`/enum-path/`_` patterns, comparisons,
`+ - * / %`, `&& || !`, `as T` casts (dropped: all integers become Nat or Int),
`x.is_none()`, `x.is_some()`, `x.unwrap()`, `*x`, `&x`, calls to other
translated functions, field-less enum values. Tracing/assert macros are
skipped. Anything else raises GenError naming the function and token.
"""
import re
from rs import GenError, match_close

TOK = re.compile(r'''
    (?P<ws>\s+)
  | (?P<num>0x[0-9a-fA-F_]+|\d[\d_]*)(?P<numsuf>u8|u16|u32|u64|usize|i8|i16|i32|i64|isize)?
  | (?P<id>[^\W\d]\w*(?:::[^\W\d]\w*)*)
  | (?P<macro_bang>!(?=\s*\())
  | (?P<op>=>|==|!=|<=|>=|&&|\|\||[-+*/%<>=!&.,;:(){}\[\]|])
''', re.X)

SKIP_MACROS = re.compile(r'^(def[a-zñ]?|defn|defo|defx|defñ|de_err|de_wrn|debug_assert\w*|assert\w*|debug_panic|dp_err|dp_wrn|e_err|e_wrn)$')


def tokenize(src, where):
    toks = []
    i = 0
    while i < len(src):
        if src[i] == '"':
            j = i + 1
            while src[j] != '"':
                if src[j] == '\\':
                    j += 1
                j += 1
            toks.append(('str', src[i:j + 1]))
            i = j + 1
            continue
        m = TOK.match(src, i)
        if not m:
            raise GenError(f"{where}: cannot tokenize at {src[i:i+30]!r}")
        i = m.end()
        if m.group('ws'):
            continue
        if m.group('num'):
            toks.append(('num', m.group('num').replace('_', '')))
        elif m.group('id'):
            toks.append(('id', m.group('id')))
        elif m.group('macro_bang'):
            toks.append(('bang', '!'))
        else:
            toks.append(('op', m.group('op')))
    return toks


class P:
    def __init__(self, toks, where, fnmap, enums, unwrap_env=None):
        self.t = toks
        self.i = 0
        self.where = where
        self.fnmap = fnmap      # rust fn name (last path segment) -> lean name
        self.enums = enums      # rust enum name -> set(variants)

    def peek(self, k=0):
        return self.t[self.i + k] if self.i + k < len(self.t) else ('eof', '')

    def next(self):
        tok = self.peek()
        self.i += 1
        return tok

    def expect(self, v):
        tok = self.next()
        if tok[1] != v:
            raise GenError(f"{self.where}: expected {v!r}, got {tok[1]!r}")

    def err(self, msg):
        ctx = ' '.join(x[1] for x in self.t[max(0, self.i - 4):self.i + 6])
        raise GenError(f"{self.where}: {msg} near `{ctx}`")

    # ---- statements -> Lean expression (string)
    def block(self, end='}'):
        """parse statements until `end` (not consumed); return Lean expr"""
        tok = self.peek()
        if tok[1] == end or tok[0] == 'eof':
            self.err("empty block / missing value")
        # macro call statement
        if tok[0] == 'id' and self.peek(1)[0] == 'bang':
            name = tok[1]
            if not SKIP_MACROS.match(name):
                self.err(f"unsupported macro {name}!")
            self.next(); self.next()
            self.skip_parens()
            if self.peek()[1] == ';':
                self.next()
            return self.block(end)
        if tok == ('id', 'let'):
            self.next()
            if self.peek() == ('id', 'mut'):
                self.err("`let mut` is outside the subset")
            name = self.next()
            if name[0] != 'id':
                self.err("let pattern")
            if self.peek()[1] == ':':
                self.next()
                self.skip_type()
            self.expect('=')
            e = self.expr()
            self.expect(';')
            rest = self.block(end)
            return f"(let {name[1]} := {e}\n  {rest})"
        if tok == ('id', 'return'):
            self.next()
            e = self.expr()
            if self.peek()[1] == ';':
                self.next()
            # anything after a return in the same block is dead; require block end
            if self.peek()[1] != end and self.peek()[0] != 'eof':
                self.err("code after return")
            return e
        if tok == ('id', 'if'):
            self.next()
            c = self.expr(no_struct=True)
            self.expect('{')
            a = self.block('}')
            self.expect('}')
            if self.peek() == ('id', 'else'):
                self.next()
                if self.peek() == ('id', 'if'):
                    b = self.block(end)   # else-if chain parsed as nested statement
                    return f"(if {c} then {a} else {b})"
                self.expect('{')
                b = self.block('}')
                self.expect('}')
                if self.peek()[1] == ';':
                    self.next()
                if self.peek()[1] != end and self.peek()[0] != 'eof':
                    self.err("if/else used as a statement followed by more code")
                return f"(if {c} then {a} else {b})"
            # `if c { return a; }` followed by the rest
            rest = self.block(end)
            return f"(if {c} then {a} else {rest})"
        if tok == ('id', 'match'):
            e = self.match_expr()
            if self.peek()[1] == ';':
                self.next()
            if self.peek()[1] != end and self.peek()[0] != 'eof':
                self.err("match used as a statement followed by more code")
            return e
        e = self.expr()
        if self.peek()[1] == ';':
            self.err("expression statement with no effect in the subset")
        if self.peek()[1] != end and self.peek()[0] != 'eof':
            self.err("trailing tokens after final expression")
        return e

    def skip_parens(self):
        if self.peek()[1] != '(':
            self.err("macro without parens")
        depth = 0
        while True:
            tok = self.next()
            if tok[0] == 'eof':
                self.err("unbalanced macro parens")
            if tok[1] in '([{' and tok[0] == 'op':
                depth += 1
            elif tok[1] in ')]}' and tok[0] == 'op':
                depth -= 1
                if depth == 0:
                    return

    def skip_type(self):
        depth = 0
        while True:
            tok = self.peek()
            if tok[1] == '<':
                depth += 1
            elif tok[1] == '>':
                depth -= 1
            elif tok[1] in ('=', ';', ',', ')') and depth == 0:
                return
            elif tok[0] == 'eof':
                self.err("type")
            self.next()

    def match_expr(self):
        self.expect('match')
        scrut = self.expr(no_struct=True)
        self.expect('{')
        arms = []
        while self.peek()[1] != '}':
            pat = self.pattern()
            self.expect('=>')
            if self.peek()[1] == '{':
                self.next()
                body = self.block('}')
                self.expect('}')
            else:
                body = self.expr()
            if self.peek()[1] == ',':
                self.next()
            arms.append((pat, body))
        self.expect('}')
        s = f"(match {scrut} with"
        for pat, body in arms:
            s += f"\n  | {pat} => {body}"
        return s + ")"

    def pattern(self):
        tok = self.next()
        if tok[1] == '(':
            parts = [self.pattern()]
            while self.peek()[1] == ',':
                self.next()
                if self.peek()[1] == ')':
                    break
                parts.append(self.pattern())
            self.expect(')')
            return ', '.join(parts)
        if tok[1] == '&':
            return self.pattern()
        if tok[0] == 'id':
            if tok[1] == 'None':
                return 'none'
            if tok[1] == 'Some':
                self.expect('(')
                inner = self.pattern()
                self.expect(')')
                return f"some {inner}"
            if tok[1] == '_':
                return '_'
            if tok[1] in ('true', 'false'):
                return tok[1]
            if '::' in tok[1]:
                en, var = tok[1].rsplit('::', 1)
                en = en.split('::')[-1]
                if en in self.enums and var in self.enums[en]:
                    alts = f".{var}"
                    while self.peek()[1] == '|':
                        self.next()
                        t2 = self.next()
                        alts += f" | .{t2[1].rsplit('::', 1)[1]}"
                    return alts
                self.err(f"unknown enum pattern {tok[1]}")
            return tok[1]
        self.err(f"pattern {tok[1]!r}")

    # ---- expressions (precedence climbing)
    PREC = {'||': 1, '&&': 2, '==': 3, '!=': 3, '<': 3, '<=': 3, '>': 3, '>=': 3,
            '+': 5, '-': 5, '*': 6, '/': 6, '%': 6}
    LEAN_OP = {'||': '||', '&&': '&&', '==': '==', '!=': '!=', '<': '<', '<=': '≤', '>': '>', '>=': '≥',
               '+': '+', '-': '-', '*': '*', '/': '/', '%': '%'}

    def expr(self, minp=0, no_struct=False):
        lhs = self.unary(no_struct)
        while True:
            tok = self.peek()
            if tok == ('id', 'as'):
                self.next()
                self.next()  # type name (simple)
                continue
            if tok[0] == 'op' and tok[1] in self.PREC and self.PREC[tok[1]] >= minp:
                # don't treat `|` etc.
                op = tok[1]
                self.next()
                rhs = self.expr(self.PREC[op] + 1, no_struct)
                if op in ('<', '<=', '>', '>=', '==', '!='):
                    lhs = f"(decide ({lhs} {self.LEAN_OP[op].replace('==', '=').replace('!=', '≠')} {rhs}))"
                else:
                    lhs = f"({lhs} {self.LEAN_OP[op]} {rhs})"
                continue
            return lhs

    def unary(self, no_struct):
        tok = self.peek()
        if tok[1] == '!' and tok[0] == 'op':
            self.next()
            return f"(!{self.unary(no_struct)})"
        if tok[1] in ('&', '*') and tok[0] == 'op':
            self.next()
            return self.unary(no_struct)
        return self.postfix(self.primary(no_struct))

    def postfix(self, e):
        while self.peek()[1] == '.':
            self.next()
            name = self.next()
            if name[0] != 'id':
                self.err("method name")
            if self.peek()[1] == '(':
                self.next()
                args = []
                while self.peek()[1] != ')':
                    args.append(self.expr())
                    if self.peek()[1] == ',':
                        self.next()
                self.expect(')')
            else:
                self.err(f"field access .{name[1]} outside the subset")
            m = name[1]
            if m == 'is_none' and not args:
                e = f"({e}).isNone"
            elif m == 'is_some' and not args:
                e = f"({e}).isSome"
            elif m == 'unwrap' and not args:
                e = f"(unwrapD {e})"
            elif m in ('clone', 'to_owned') and not args:
                pass
            else:
                self.err(f"method .{m}() outside the subset")
        return e

    def primary(self, no_struct):
        tok = self.next()
        if tok[0] == 'num':
            v = tok[1]
            return str(int(v, 16)) if v.startswith('0x') else str(int(v))
        if tok[1] == '(' and tok[0] == 'op':
            e = self.expr()
            if self.peek()[1] == ',':
                parts = [e]
                while self.peek()[1] == ',':
                    self.next()
                    if self.peek()[1] == ')':
                        break
                    parts.append(self.expr())
                self.expect(')')
                return ', '.join(parts)
            self.expect(')')
            return f"({e})"
        if tok == ('id', 'if'):
            c = self.expr(no_struct=True)
            self.expect('{')
            a = self.block('}')
            self.expect('}')
            if self.peek() != ('id', 'else'):
                self.err("if-expression without else")
            self.next()
            self.expect('{')
            b = self.block('}')
            self.expect('}')
            return f"(if {c} then {a} else {b})"
        if tok == ('id', 'match'):
            self.i -= 1
            return self.match_expr()
        if tok[0] == 'id':
            name = tok[1]
            if name in ('true', 'false'):
                return name
            if self.peek()[1] == '(':
                last = name.split('::')[-1]
                if last in ('min', 'max') and name in ('std::cmp::min', 'std::cmp::max', 'min', 'max', 'cmp::min', 'cmp::max'):
                    lean = 'Nat.' + last
                elif last in self.fnmap:
                    lean = self.fnmap[last]
                else:
                    self.err(f"call to untranslated function {name}")
                self.next()
                args = []
                while self.peek()[1] != ')':
                    args.append(self.expr())
                    if self.peek()[1] == ',':
                        self.next()
                self.expect(')')
                return '(' + lean + ' ' + ' '.join(f"({a})" for a in args) + ')'
            if '::' in name:
                en, var = name.rsplit('::', 1)
                en = en.split('::')[-1]
                if en in self.enums and var in self.enums[en]:
                    return f"{en}.{var}"
                self.err(f"unknown path {name}")
            if name == 'self':
                self.err("`self` outside the subset (translate associated fns only)")
            return name
        self.err(f"unexpected token {tok[1]!r}")


def translate_fn(sig, body, lean_name, params, ret, fnmap, enums, where):
    """params: list of (rust_param_name, lean_type); ret: lean type"""
    # check the parameter names occur in the signature, in order
    names = re.findall(r'(\w+)\s*:', sig[sig.index('('):])
    names = [n for n in names if n != 'self']
    want = [p for p, _ in params]
    if names != want:
        raise GenError(f"{where}: parameters changed: source has {names}, translator expects {want}")
    p = P(tokenize(body, where), where, fnmap, enums)
    e = p.block(end='\0')
    if p.peek()[0] != 'eof':
        p.err("trailing tokens")
    ps = ' '.join(f"({n} : {t})" for n, t in params)
    return f"def {lean_name} {ps} : {ret} :=\n  {e}\n"


def parse_enum(src, name):
    m = re.search(r'\benum\s+' + re.escape(name) + r'\s*\{', src)
    if not m:
        raise GenError(f"enum {name} not found")
    b = src.index('{', m.start())
    e = match_close(src, b)
    inner = src[b + 1:e]
    inner = re.sub(r'#\[[^\]]*\]', '', inner)
    vs = []
    for part in inner.split(','):
        part = part.strip()
        if not part:
            continue
        if not re.fullmatch(r'[A-Za-z_]\w*', part):
            raise GenError(f"enum {name}: variant {part[:30]!r} is not field-less")
        vs.append(part)
    return vs


def lean_enum(name, variants):
    return (f"inductive {name} where\n" + ''.join(f"  | {v}\n" for v in variants)
            + "  deriving DecidableEq, Repr, Inhabited\n")
