"""Generate S4V/Gen/Lines.lean: `LineReader::find_line` (src/readers/linereader.rs) re-read from the
source as a PROGRAM in a small statement language that `S4V.Model.LineSkel` interprets.

Every statement of `find_line` (comments, trace macros `def?!`/`de?!`, `debug_assert*!` and the
statistics counters `self.<counter> += 1` removed: they do not influence the result of a release
build) is translated into one `Stmt`:

* `let [mut] x[: T] = e;`, `x = e;`, `x += e;`, `x -= e;`           -> `.set x e` (flags: `.setFlag f b`)
* `const X: T = n;`                                               -> `.set X (.lit n)`
* `bptr = match self.blockreader.read_block(bo) { Found(val) => val, Done => return Done,
  Err(err) => return Err(err) }` (also as `let bptr: BlockP = …`)  -> `.read blk bo`
* `let mut bptr: BlockP = bptr_middle;`, `bptr_prior = bptr;`      -> `.copyBlk dst src`
* `let li = LinePart::new(P, b, e, fo, bo, self.blocksz()); line.append(li)|line.prepend(li);`
                                                                  -> `.part append|prepend P b e fo bo`
* `loop { if (*P)[i] == NLu8 { HIT; break; } else { i += s; } if i OP r { break; } }`
                                                                  -> `.scan true P i HIT s OP r`
* `loop { if (*P)[i] == NLu8 { HIT; break; } if i OP r { break; } i -= s; }`
                                                                  -> `.scan false P i HIT s OP r`
* `while c { … }`, `break;` (of the `while`), `if c { … } [else if …] [else { … }]`, a bare `{ … }` (inlined),
  `match self.get_linep(&k) { Some(linep_prev) => { … } None => { … } }` -> `.ite (.linepSome k) … …`
* `assert!(c, …);`                                                -> `.assert c` (release-active)
* `let linep: LineP = self.insert_line(line);`                    -> `.insert`
* `self.find_line_lru_cache.put(k, ResultS3LineFind::Found((n, linep.clone())));` / `…::Done`
                                                                  -> `.lruPutFound k n` / `.lruPutDone k`
* `return ResultS3LineFind::Found((n, linep));` (and as the tail expression) / `…::Done`
                                                                  -> `.retFound n` / `.retDone`
* `if let Some(result) = self.check_store_LRU(k) { return result; }` -> `.lruCheck k`
* `if let Some(result) = self.check_store(k) { return result; }`     -> `.storeCheck k`

Expressions: locals of a fixed whitelist, literals, `+ -`, `std::cmp::max`, the three block
arithmetic methods, `<blockp>.len()`, `self.charsz_`, `self.filesz()`, `self.blockoffset_last()`,
`line.fileoffset_end()`, `line.count_lineparts()`, `usize::MAX`; casts between the 64-bit unsigned
aliases are dropped. Conditions: flags, `!`, `&&`, comparisons, `(*P)[i] == NLu8`,
`self.lines.contains_key(&k)`, `line.stores_blockoffset(e)`, `self.find_line_lru_cache_enabled`.

The top-level statements are cut into the named sections `prologue`, `init`, `partB1`, `partB2`, `partA0`,
`asserts`, `partA1`, `partA2`, `partA3`, `partA4`, `partCD` at fixed anchors (the head of the compound statement that
ends each); `check_store` is translated into `checkStore` (the lookups in order, with the next offset each
returns); `check_store_LRU`, `get_linep`, `insert_line`, `drop_line` are pinned (normalised text).
Anything outside these shapes raises GenError naming the statement.
"""
import hashlib
import os
import re
from rs import GenError, strip_comments, find_fn, match_close, match_arms
from gen_search import strip_noops, need, split_args

LR = 'linereader.rs'

VARS = {
    'fileoffset': 'fileoffset', 'filesz': 'filesz', 'blockoffset_last': 'boLast',
    'charsz_fo': 'charszFo', 'charsz_bi': 'charszBi',
    'fo_nl_a': 'foNlA', 'fo_nl_b': 'foNlB', 'bo_middle': 'boMiddle', 'bi_middle': 'biMiddle',
    'bi_middle_end': 'biMiddleEnd', 'bi_at': 'biAt', 'bi_stop': 'biStop', 'bi_': 'biU',
    'bi_beg': 'biBeg', 'bi_end': 'biEnd', 'bof': 'bof', 'fo_': 'foU', 'fo_next': 'foNext',
    'fo_nl_a_search_start': 'foStart', 'fo_nl_a1': 'foNlA1', 'bi_start': 'biStart',
    'bi_start_prior': 'biStartPrior', 'blen': 'blen', 'bof_a1': 'bofA1', 'fo_end': 'foEnd',
    'BI_UNINIT': 'cBiUninit', 'BI_STOP': 'cBiStop',
}
FLAGS = {'found_nl_a': 'foundNlA', 'found_nl_b': 'foundNlB', 'fo_nl_b_in_middle': 'foNlBInMiddle',
         'nl_b_eof': 'nlBEof', 'begof': 'begof'}
BLKS = {'bptr_middle': 'middle', 'bptr': 'cur', 'bptr_prior': 'prior'}
COUNTERS = ('lines_hits', 'lines_miss', 'find_line_lru_cache_put', 'find_line_lru_cache_hit', 'find_line_lru_cache_miss')
UTYPES = ('FileOffset', 'BlockIndex', 'BlockOffset', 'FileSz', 'usize', 'u64', 'BlockSz')
USIZE_MAX = 18446744073709551615


def flat(s):
    s = strip_noops(s)
    s = re.sub(r'#\[[^\]]*\]', ' ', s)
    s = re.sub(r'\s+', ' ', s).strip()
    s = re.sub(r' ?\. ?(?=[A-Za-z_])', '.', s)
    s = re.sub(r'\( ', '(', s)
    s = re.sub(r' \)', ')', s)
    s = re.sub(r',\s*\)', ')', s)
    for c in COUNTERS:
        s = s.replace(f'self.{c} += 1;', '')
    s = re.sub(r'\s+', ' ', s).strip()
    return s


def skip_str(text, j):
    k = j + 1
    while k < len(text) and text[k] != '"':
        if text[k] == '\\':
            k += 1
        k += 1
    return k + 1


def split_stmts(text, where):
    """top-level statements; compound statements (`if`/`match`/`loop`/`while`/bare block) end with their block"""
    out, i, n = [], 0, len(text)
    while True:
        while i < n and text[i].isspace():
            i += 1
        if i >= n:
            break
        m = re.match(r'(if|match|loop|while)\b|\{', text[i:])
        if m:
            kind = m.group(0)
            j = i
            while True:
                b = text.find('{', j)
                need(b >= 0, f'{where}: block statement without a body: {text[i:i + 60]!r}')
                need(';' not in text[j:b], f'{where}: unexpected `;` in the head of {text[i:i + 80]!r}')
                e = match_close(text, b)
                j = e + 1
                mm = re.match(r'\s*else\b', text[j:])
                if kind == 'if' and mm:
                    j += mm.end()
                    continue
                break
            out.append(text[i:j].strip())
            i = j
            mm = re.match(r'\s*;', text[i:])
            if mm:
                i += mm.end()
            continue
        depth, j = 0, i
        while j < n:
            c = text[j]
            if c == '"':
                j = skip_str(text, j)
                continue
            if c in '([{':
                depth += 1
            elif c in ')]}':
                depth -= 1
                need(depth >= 0, f'{where}: unbalanced bracket near {text[i:i + 60]!r}')
            elif c == ';' and depth == 0:
                break
            j += 1
        if j >= n:
            out.append(text[i:].strip())
            break
        out.append(text[i:j + 1].strip())
        i = j + 1
    return out


# ---------------------------------------------------------------- expressions

TOK = re.compile(r'\s*(?:(?P<num>\d[\d_]*)(?:u64|usize)?|(?P<id>[A-Za-z_]\w*)|(?P<op>==|!=|<=|>=|&&|\|\||[-+*/%<>(),!&\[\]]))')

PRE = [
    (re.compile(r'\bself\.charsz_\b'), '__charsz'),
    (re.compile(r'\bself\.filesz\(\)'), '__filesz'),
    (re.compile(r'\bself\.blockoffset_last\(\)'), '__bolast'),
    (re.compile(r'\bself\.block_offset_at_file_offset\('), '__boAt('),
    (re.compile(r'\bself\.block_index_at_file_offset\('), '__biAt('),
    (re.compile(r'\bself\.file_offset_at_block_offset_index\('), '__foAt('),
    (re.compile(r'\bstd::cmp::max\('), '__max('),
    (re.compile(r'\busize::MAX\b'), str(USIZE_MAX)),
    (re.compile(r'\bline\.fileoffset_end\(\)'), '__lineFoEnd'),
    (re.compile(r'\bline\.count_lineparts\(\)'), '__nParts'),
    (re.compile(r'\(\*linep_prev\)\.fileoffset_end\(\)'), '__prevEnd'),
    (re.compile(r'\bself\.lines\.contains_key\(&(\w+)\)'), r'__linesHas(\1)'),
    (re.compile(r'\bline\.stores_blockoffset\('), '__storesBo('),
    (re.compile(r'\bself\.find_line_lru_cache_enabled\b'), '__lruOn'),
    (re.compile(r'\(\*(bptr_middle|bptr_prior|bptr)\)\.len\(\)'), r'__len_\1'),
    (re.compile(r'\b(bptr_middle|bptr_prior|bptr)\.len\(\)'), r'__len_\1'),
    (re.compile(r'\(\*(bptr_middle|bptr_prior|bptr)\)\[([^\]]+)\] == NLu8\b'), r'__isNL_\1(\2)'),
    (re.compile(r' as (?:' + '|'.join(UTYPES) + r')\b'), ''),
]


class EP:
    def __init__(self, where, s, prev_key=None):
        self.where, self.src, self.prev_key = where, s, prev_key
        for pat, rep in PRE:
            s = pat.sub(rep, s)
        self.t, i = [], 0
        while i < len(s):
            if s[i:].strip() == '':
                break
            m = TOK.match(s, i)
            need(m is not None, f'{where}: cannot tokenize at {s[i:i + 40]!r} in `{self.src}`')
            i = m.end()
            if m.group('num'):
                self.t.append(('num', m.group('num').replace('_', '')))
            elif m.group('id'):
                self.t.append(('id', m.group('id')))
            else:
                self.t.append(('op', m.group('op')))
        self.i = 0

    def peek(self):
        return self.t[self.i] if self.i < len(self.t) else ('eof', '')

    def next(self):
        tok = self.peek()
        self.i += 1
        return tok

    def fail(self, msg):
        raise GenError(f'{self.where}: {msg} in `{self.src}` (outside the expression grammar)')

    def expect(self, v):
        tok = self.next()
        if tok[1] != v:
            self.fail(f'expected `{v}`, found `{tok[1]}`')

    def args(self, n):
        self.expect('(')
        out = [self.expr()]
        for _ in range(n - 1):
            self.expect(',')
            out.append(self.expr())
        self.expect(')')
        return out

    def atom(self):
        k, v = self.next()
        if k == 'num':
            return f'.lit {int(v)}'
        if k == 'op' and v == '(':
            e = self.expr()
            self.expect(')')
            return e
        if k == 'id':
            if v in VARS:
                return f'.v .{VARS[v]}'
            if v == '__charsz':
                return '.charsz'
            if v == '__filesz':
                return '.fileSz'
            if v == '__bolast':
                return '.blockoffsetLast'
            if v == '__lineFoEnd':
                return '.lineFoEnd'
            if v == '__nParts':
                return '.nParts'
            if v == '__prevEnd':
                if self.prev_key is None:
                    self.fail('`linep_prev` used where none is in scope')
                return f'.linepEnd ({self.prev_key})'
            if v == '__boAt':
                a, = self.args(1)
                return f'.boAt ({a})'
            if v == '__biAt':
                a, = self.args(1)
                return f'.biAt ({a})'
            if v == '__foAt':
                a, b = self.args(2)
                return f'.foAt ({a}) ({b})'
            if v == '__max':
                a, b = self.args(2)
                return f'.max ({a}) ({b})'
            if v.startswith('__len_') and v[6:] in BLKS:
                return f'.len .{BLKS[v[6:]]}'
        self.fail(f'unexpected token `{v}`')

    def expr(self):
        e = self.atom()
        while self.peek()[1] in ('+', '-'):
            op = self.next()[1]
            r = self.atom()
            e = f'.{"add" if op == "+" else "sub"} ({e}) ({r})'
        if self.peek()[1] in ('*', '/', '%'):
            self.fail(f'operator `{self.peek()[1]}`')
        return e

    CMPS = {'==': 'eq', '!=': 'ne', '<': 'lt', '<=': 'le', '>': 'gt', '>=': 'ge'}

    def catom(self):
        k, v = self.peek()
        if (k, v) == ('op', '!'):
            self.next()
            return f'.not ({self.catom()})'
        if k == 'id' and v in FLAGS:
            self.next()
            return f'.flag .{FLAGS[v]}'
        if k == 'id' and v == '__lruOn':
            self.next()
            return '.lruOn'
        if k == 'id' and v == '__linesHas':
            self.next()
            a, = self.args(1)
            return f'.linesHas ({a})'
        if k == 'id' and v == '__storesBo':
            self.next()
            a, = self.args(1)
            return f'.storesBo ({a})'
        if k == 'id' and v.startswith('__isNL_') and v[7:] in BLKS:
            self.next()
            a, = self.args(1)
            return f'.isNL .{BLKS[v[7:]]} ({a})'
        a = self.expr()
        op = self.next()[1]
        if op not in self.CMPS:
            self.fail(f'expected a comparison, found `{op}`')
        b = self.expr()
        return f'.cmp .{self.CMPS[op]} ({a}) ({b})'

    def cond(self):
        e = self.catom()
        while self.peek()[1] == '&&':
            self.next()
            e = f'.and ({e}) ({self.catom()})'
        return e

    def done(self):
        if self.peek()[0] != 'eof':
            self.fail(f'trailing `{self.peek()[1]}`')


def pexpr(where, s, prev_key=None):
    p = EP(where, s, prev_key)
    e = p.expr()
    p.done()
    return e


def pcond(where, s):
    p = EP(where, s)
    e = p.cond()
    p.done()
    return e


# ---------------------------------------------------------------- statements

READ_ARMS = [('ResultS3ReadBlock::Found(val)', 'val'),
             ('ResultS3ReadBlock::Done', 'return ResultS3LineFind::Done;'),
             ('ResultS3ReadBlock::Err(err)', 'return ResultS3LineFind::Err(err);')]
TY = r'(?:: (?:' + '|'.join(UTYPES) + r'))?'


def head_and_blocks(s, where):
    """`if c {A} else if d {B} else {C}` -> [(c, A), (d, B), (None, C)]"""
    out, i = [], 0
    while True:
        m = re.match(r'\s*if\b', s[i:])
        need(m is not None, f'{where}: expected `if` at {s[i:i + 60]!r}')
        b = s.find('{', i)
        c = s[i + m.end():b].strip()
        e = match_close(s, b)
        out.append((c, s[b + 1:e].strip()))
        i = e + 1
        mm = re.match(r'\s*else\b', s[i:])
        if not mm:
            need(s[i:].strip() in ('', ';'), f'{where}: text after the `if`: {s[i:i + 60]!r}')
            return out
        i += mm.end()
        if re.match(r'\s*if\b', s[i:]):
            continue
        b = s.find('{', i)
        need(s[i:b].strip() == '', f'{where}: `else` without a block: {s[i:i + 60]!r}')
        e = match_close(s, b)
        out.append((None, s[b + 1:e].strip()))
        need(s[e + 1:].strip() in ('', ';'), f'{where}: text after the `else` block: {s[e + 1:e + 60]!r}')
        return out


class Tr:
    def __init__(self, where):
        self.where = where
        self.in_while = 0
        self.prev_key = None

    def is_read(self, rhs):
        m = re.fullmatch(r'match self\.blockreader\.read_block\((.*?)\) \{(.*)\}', rhs)
        if not m:
            return None
        arms = [(re.sub(r'\s+', ' ', p).strip(), re.sub(r'\s+', ' ', v).strip()) for p, v in match_arms(m.group(2))]
        need(arms == READ_ARMS, f'{self.where}: the arms of `match read_block(..)` left the expected shape: {arms!r}')
        return pexpr(self.where, m.group(1))

    def block(self, text):
        """translate a block body -> list of Lean `Stmt` terms (nested lists as python lists)"""
        W = self.where
        stmts = split_stmts(text, W)
        out, k = [], 0
        while k < len(stmts):
            s = stmts[k]
            k += 1
            # ---- declarations without a value
            if re.fullmatch(r'let (?:mut )?(bptr_middle|bptr_prior|bptr): BlockP;', s) or \
               re.fullmatch(r'let mut bi_start_prior: BlockIndex;', s):
                continue
            if s == 'let linep_prev: LineP = self.lines[&fo_nl_a].clone();':
                rest = ' '.join(stmts[k:])
                need('linep_prev' not in rest, f'{W}: `linep_prev` (A1a) is used: {rest[:120]!r}')
                continue
            if s == 'let mut line: Line = Line::new();':
                out.append('.lineNew')
                continue
            if s == 'let linep: LineP = self.insert_line(line);':
                out.append('.insert')
                continue
            # ---- bare block: inlined
            if s.startswith('{'):
                e = match_close(s, 0)
                need(s[e + 1:].strip() == '', f'{W}: text after a bare block')
                out.extend(self.block(s[1:e]))
                continue
            # ---- reads / block pointer copies
            m = re.fullmatch(r'(?:let (?:mut )?)?(bptr_middle|bptr_prior|bptr)(?:: BlockP)? = (.*);', s)
            if m:
                rhs = m.group(2).strip()
                bo = self.is_read(rhs)
                if bo is not None:
                    out.append(f'.read .{BLKS[m.group(1)]} ({bo})')
                    continue
                need(rhs in BLKS, f'{W}: block pointer assigned from {rhs[:80]!r}')
                out.append(f'.copyBlk .{BLKS[m.group(1)]} .{BLKS[rhs]}')
                continue
            # ---- LinePart::new + append/prepend
            m = re.fullmatch(r'let li(?:: LinePart)? = LinePart::new\((.*)\);', s)
            if m:
                a = split_args(m.group(1))
                need(len(a) == 6 and a[5] == 'self.blocksz()', f'{W}: LinePart::new arguments: {a!r}')
                bp = re.sub(r'\.clone\(\)$', '', a[0])
                need(bp in BLKS, f'{W}: LinePart::new block pointer `{a[0]}`')
                need(k < len(stmts) and stmts[k] in ('line.append(li);', 'line.prepend(li);'),
                     f'{W}: `let li = LinePart::new(..)` is not followed by line.append(li) / line.prepend(li)')
                how = 'append' if 'append' in stmts[k] else 'prepend'
                k += 1
                e = [pexpr(W, x) for x in a[1:5]]
                out.append(f'.part .{how} .{BLKS[bp]} ({e[0]}) ({e[1]}) ({e[2]}) ({e[3]})')
                continue
            # ---- flags
            m = re.fullmatch(r'(?:let mut )?(\w+)(?:: bool)? = (true|false);', s)
            if m and m.group(1) in FLAGS:
                out.append(f'.setFlag .{FLAGS[m.group(1)]} {m.group(2)}')
                continue
            # ---- constants / lets / assignments
            m = re.fullmatch(r'const (\w+): (?:' + '|'.join(UTYPES) + r') = (.*);', s)
            if m:
                need(m.group(1) in VARS, f'{W}: unknown constant `{m.group(1)}`')
                out.append(f'.set .{VARS[m.group(1)]} ({pexpr(W, m.group(2))})')
                continue
            m = re.fullmatch(r'let (?:mut )?(\w+)' + TY + r' = if (\w+) \{ (.*?) \} else \{ (.*?) \};', s)
            if m and m.group(1) in VARS:
                c = pcond(W, m.group(2))
                x = VARS[m.group(1)]
                out.append(['.ite', c, [f'.set .{x} ({pexpr(W, m.group(3))})'], [f'.set .{x} ({pexpr(W, m.group(4))})']])
                continue
            m = re.fullmatch(r'(?:let (?:mut )?)?(\w+)' + TY + r' (=|\+=|-=) (.*);', s)
            if m and m.group(1) in VARS:
                x = VARS[m.group(1)]
                e = pexpr(W, m.group(3), self.prev_key)
                if m.group(2) == '+=':
                    e = f'.add (.v .{x}) ({e})'
                elif m.group(2) == '-=':
                    e = f'.sub (.v .{x}) ({e})'
                out.append(f'.set .{x} ({e})')
                continue
            # ---- prologue checks
            m = re.fullmatch(r'if let Some\(result\) = self\.(check_store_LRU|check_store)\((\w+)\) \{ return result; \}', s)
            if m:
                out.append(f'.{"lruCheck" if m.group(1).endswith("LRU") else "storeCheck"} ({pexpr(W, m.group(2))})')
                continue
            # ---- returns / LRU puts / asserts / break
            m = re.fullmatch(r'(?:return )?ResultS3LineFind::Found\(\((.*), linep\)\);?', s)
            if m:
                need(s.startswith('return') or k == len(stmts), f'{W}: value expression in the middle of a block: {s!r}')
                out.append(f'.retFound ({pexpr(W, m.group(1))})')
                continue
            if s == 'return ResultS3LineFind::Done;':
                out.append('.retDone')
                continue
            m = re.fullmatch(r'self\.find_line_lru_cache\.put\((\w+), ResultS3LineFind::Found\(\((.*), linep\.clone\(\)\)\)\);', s)
            if m:
                out.append(f'.lruPutFound ({pexpr(W, m.group(1))}) ({pexpr(W, m.group(2))})')
                continue
            m = re.fullmatch(r'self\.find_line_lru_cache\.put\((\w+), ResultS3LineFind::Done\);', s)
            if m:
                out.append(f'.lruPutDone ({pexpr(W, m.group(1))})')
                continue
            m = re.fullmatch(r'assert!\((.*)\);', s)
            if m:
                out.append(f'.assert ({pcond(W, split_args(m.group(1))[0])})')
                continue
            if s == 'break;':
                need(self.in_while > 0, f'{W}: `break` outside a `while`')
                out.append('.brk')
                continue
            # ---- compound
            if s.startswith('if '):
                chain = head_and_blocks(s, W)
                node = None
                for c, body in reversed(chain):
                    if c is None:
                        node = self.block(body)
                    else:
                        node = [['.ite', pcond(W, c), self.block(body), node if node is not None else []]]
                out.extend(node)
                continue
            m = re.fullmatch(r'match self\.get_linep\(&(\w+)\) \{(.*)\}', s)
            if m:
                arms = match_arms(m.group(2))
                need([re.sub(r'\s+', ' ', p).strip() for p, _ in arms] == ['Some(linep_prev)', 'None'],
                     f'{W}: arms of `match self.get_linep(..)`: {[p for p, _ in arms]!r}')
                key = pexpr(W, m.group(1))
                old, self.prev_key = self.prev_key, key
                t = self.block(arms[0][1])
                self.prev_key = old
                out.append(['.ite', f'.linepSome ({key})', t, self.block(arms[1][1])])
                continue
            if s.startswith('while '):
                b = s.find('{')
                e = match_close(s, b)
                need(s[e + 1:].strip() == '', f'{W}: text after the `while` block')
                self.in_while += 1
                body = self.block(s[b + 1:e])
                self.in_while -= 1
                out.append(['.while', pcond(W, s[6:b].strip()), body])
                continue
            if s.startswith('loop '):
                out.append(self.scan(s))
                continue
            raise GenError(f'{W}: statement outside the known shapes: {s[:200]!r}')
        return out

    def scan(self, s):
        W = self.where
        b = s.find('{')
        e = match_close(s, b)
        need(s[e + 1:].strip() == '', f'{W}: text after a `loop` block')
        st = split_stmts(s[b + 1:e], W)
        need(len(st) in (2, 3) and st[0].startswith('if '), f'{W}: `loop` body is not one of the two scan shapes: {s[:160]!r}')
        chain = head_and_blocks(st[0], W)
        m = re.fullmatch(r'\(\*(\w+)\)\[(\w+)\] == NLu8', chain[0][0])
        need(m is not None and m.group(1) in BLKS and m.group(2) in VARS,
             f'{W}: the scan test is not `(*<blockp>)[<index>] == NLu8`: {chain[0][0]!r}')
        blk, idx = BLKS[m.group(1)], m.group(2)
        hit_st = split_stmts(chain[0][1], W)
        need(hit_st and hit_st[-1] == 'break;', f'{W}: the newline arm of a scan does not end with `break;`')
        hit_text = chain[0][1].rstrip()
        hit_text = hit_text[:hit_text.rfind('break;')]
        saved, self.in_while = self.in_while, 0          # a `break` inside the arm would leave the scan, not a while
        hit = self.block(hit_text)
        self.in_while = saved
        mx = re.fullmatch(r'if (\w+) (==|>=|>|<=|<|!=) (\w+) \{ break; \}', st[1] if len(st) == 3 or len(chain) == 2 else '')
        if len(chain) == 2:
            # forward: `else { idx += step; }` then the exit test
            need(len(st) == 2 and chain[1][0] is None, f'{W}: forward scan shape: {s[:160]!r}')
            ms = re.fullmatch(re.escape(idx) + r' \+= (\w+);', chain[1][1])
            need(ms is not None, f'{W}: forward scan step: {chain[1][1]!r}')
            need(mx is not None and mx.group(1) == idx, f'{W}: forward scan exit test: {st[1]!r}')
            fwd = 'true'
        else:
            need(len(chain) == 1 and len(st) == 3, f'{W}: backward scan shape: {s[:160]!r}')
            ms = re.fullmatch(re.escape(idx) + r' -= (\w+);', st[2])
            need(ms is not None, f'{W}: backward scan step: {st[2]!r}')
            need(mx is not None and mx.group(1) == idx, f'{W}: backward scan exit test: {st[1]!r}')
            fwd = 'false'
        step, rhs = pexpr(W, ms.group(1)), pexpr(W, mx.group(3))
        need(ms.group(1) != idx and mx.group(3) != idx, f'{W}: scan step / bound mention the index')
        # the bound and the step must not be assigned in the loop (they are evaluated once by the interpreter)
        for name in (ms.group(1), mx.group(3)):
            need(re.search(r'\b' + re.escape(name) + r' (=|\+=|-=) ', hit_text) is None,
                 f'{W}: `{name}` is assigned inside the scan')
        return ['.scan', fwd, f'.{blk}', f'.{VARS[idx]}', hit, f'({step})', f'.{EP.CMPS[mx.group(2)]}', f'({rhs})']


# ---------------------------------------------------------------- Lean rendering

def render(node, ind):
    pad = ' ' * ind
    if isinstance(node, str):
        return pad + node
    if node[0] == '.ite':
        return (f'{pad}.ite ({node[1]})\n{render_list(node[2], ind + 2)}\n{render_list(node[3], ind + 2)}')
    if node[0] == '.while':
        # the loop's condition and body are emitted as named definitions (`<section>LoopCond` / `<section>LoopBody`)
        name = RENDER_CTX['section']
        need(name not in RENDER_CTX['loops'], f'linereader.rs::find_line [{name}]: more than one `while`')
        RENDER_CTX['loops'][name] = (node[1], node[2])
        return f'{pad}.while {name}LoopCond {name}LoopBody'
    if node[0] == '.scan':
        return (f'{pad}.scan {node[1]} {node[2]} {node[3]}\n{render_list(node[4], ind + 2)}\n'
                f'{pad}  {node[5]} {node[6]} {node[7]}')
    raise GenError(f'internal: {node!r}')


RENDER_CTX = {'section': None, 'loops': {}}


def render_list(xs, ind):
    pad = ' ' * ind
    if not xs:
        return pad + '[]'
    return pad + '[\n' + ',\n'.join(render(x, ind + 1) for x in xs) + ']'


# ---------------------------------------------------------------- sections

SECTIONS = [
    ('prologue', r'if let Some\(result\) = self\.check_store\('),
    ('init', r'let bptr_middle: BlockP;'),
    ('partB1', r'\{ bptr_middle = match'),
    ('partB2', r'if found_nl_b \{'),
    ('partA0', r'if found_nl_a \{'),
    ('asserts', r'assert!\(found_nl_b\b'),
    ('partA1', r'if fileoffset >= charsz_fo \{'),
    ('partA2', r'if bof == bo_middle \{'),
    ('partA3', r'if !found_nl_a && begof \{'),
    ('partA4', r'if !found_nl_a && !begof \{'),
    ('partCD', None),
]


def gen_find_line(lr):
    W = f'{LR}::find_line'
    need(len(re.findall(r'\bfn find_line\b', lr)) == 1, f'{W}: not exactly one definition')
    sig, body, _ = find_fn(lr, 'find_line')
    need(flat(sig) == 'fn find_line(&mut self, fileoffset: FileOffset) -> ResultS3LineFind', f'{W}: signature changed: {flat(sig)!r}')
    top = split_stmts(flat(body), W)
    secs, cur, si = [], [], 0
    for s in top:
        cur.append(s)
        name, anchor = SECTIONS[si]
        if anchor is not None and re.match(anchor, s):
            secs.append((name, cur))
            cur, si = [], si + 1
            need(si < len(SECTIONS), f'{W}: more sections than expected')
    need(si == len(SECTIONS) - 1 and cur, f'{W}: the top-level statements no longer contain the anchors '
         f'{[a for _, a in SECTIONS[:-1]]} in this order (stopped before `{SECTIONS[si][0]}`)')
    secs.append((SECTIONS[-1][0], cur))
    tr = Tr(W)
    out = []
    for name, stmts in secs:
        tr.where = f'{W} [{name}]'
        out.append((name, tr.block(' '.join(stmts))))
    return out


LOOKUP_HIT = ('let fo_next: FileOffset = (*linep).fileoffset_end() + charsz_fo; '
              'if self.is_line_last(&linep) { if self.find_line_lru_cache_enabled { self.find_line_lru_cache.put(fileoffset, ResultS3LineFind::Found((fo_next, linep.clone()))); } '
              'return Some(ResultS3LineFind::Found((fo_next, linep))); } '
              'if self.find_line_lru_cache_enabled { self.find_line_lru_cache.put(fileoffset, ResultS3LineFind::Found((fo_next, linep.clone()))); } '
              'return Some(ResultS3LineFind::Found((fo_next, linep)));')


def gen_check_store(lr):
    W = f'{LR}::check_store'
    sig, body, _ = find_fn(lr, 'check_store')
    need(flat(sig) == 'fn check_store(&mut self, fileoffset: FileOffset) -> Option<ResultS3LineFind>', f'{W}: signature changed')
    st = split_stmts(flat(body), W)
    need(len(st) == 4 and st[0] == 'let charsz_fo: FileOffset = self.charsz_ as FileOffset;' and st[3] == 'None',
         f'{W}: statement list left the expected shape: {[x[:50] for x in st]!r}')
    ch = head_and_blocks(st[1], W)
    need(len(ch) == 2 and ch[0][0] == 'self.lines.contains_key(&fileoffset)' and ch[1] == (None, ''),
         f'{W}: first lookup is not `self.lines.contains_key(&fileoffset)`: {ch[0][0]!r}')
    need(ch[0][1] == 'let linep: LineP = self.lines[&fileoffset].clone(); ' + LOOKUP_HIT, f'{W}: the `lines` hit left the expected shape: {ch[0][1]!r}')
    m = re.fullmatch(r'match self\.get_linep\(&fileoffset\) \{(.*)\}', st[2])
    need(m is not None, f'{W}: second lookup is not `match self.get_linep(&fileoffset)`: {st[2][:80]!r}')
    arms = [(re.sub(r'\s+', ' ', p).strip(), re.sub(r'\s+', ' ', v).strip()) for p, v in match_arms(m.group(1))]
    need(len(arms) == 2 and arms[0][0] == 'Some(linep)' and arms[1] == ('None', ''), f'{W}: arms of the second lookup: {arms!r}')
    need(arms[0][1] == LOOKUP_HIT, f'{W}: the `get_linep` hit left the expected shape: {arms[0][1]!r}')
    nxt = '.add (.storedEnd) (.charsz)'
    return [f'(.linesKey (.v .fileoffset), {nxt})', f'(.linep (.v .fileoffset), {nxt})']


PINS = {
    'get_linep': 'fn get_linep(&self, fileoffset: &FileOffset) -> Option<LineP> { let fo_beg: &FileOffset = match self.foend_to_fobeg.range(fileoffset..).next() { Some((_, fo_beg_)) => fo_beg_, None => { return None; } }; if fileoffset < fo_beg { return None; } match self.lines.get(fo_beg) { Some(lp) => Some(lp.clone()), None => None, } }',
    'check_store_LRU': 'fn check_store_LRU(&mut self, fileoffset: FileOffset) -> Option<ResultS3LineFind> { if !self.find_line_lru_cache_enabled { return None; } match self.find_line_lru_cache.get(&fileoffset) { Some(rlp) => { match rlp { ResultS3LineFind::Found(val) => { return Some(ResultS3LineFind::Found((val.0, val.1.clone()))); } ResultS3LineFind::Done => { return Some(ResultS3LineFind::Done); } ResultS3LineFind::Err(_err) => { eprintln!("ERROR: unexpected Error store in find_line_lru_cache, fileoffset {}, file {:?}", fileoffset, self.path()); } } } None => { } } None }',
    'insert_line': 'fn insert_line(&mut self, line: Line) -> LineP { let fo_beg: FileOffset = line.fileoffset_begin(); let fo_end: FileOffset = line.fileoffset_end(); let linep: LineP = LineP::new(line); self.lines.insert(fo_beg, linep.clone()); self.lines_stored_highest = std::cmp::max(self.lines_stored_highest, self.lines.len()); self.foend_to_fobeg.insert(fo_end, fo_beg); self.lines_processed += 1; linep }',
}


def pin(lr, name):
    sig, body, _ = find_fn(lr, name)
    got = flat(sig + '{' + body + '}')
    got = re.sub(r'\{ \}', '{ }', got)
    want = PINS[name]
    if got != want:
        raise GenError(f'{LR}::{name} left its pinned text:\n   got: {got}\n  want: {want}')


HEADER = '''-- GENERATED by /verif/gen/s4gen.py (gen_lines.py) from src/readers/linereader.rs, src/common.rs — do not edit
namespace S4V.Gen.Lines

/-! ### the statement language (see gen/gen_lines.py for the Rust shape behind each constructor) -/

/-- unsigned locals of `find_line` (`cBiUninit`, `cBiStop` are its two block-local constants) -/
inductive Var where
  | fileoffset | filesz | boLast | charszFo | charszBi
  | foNlA | foNlB | boMiddle | biMiddle | biMiddleEnd
  | biAt | biStop | biU | biBeg | biEnd | bof | foU | foNext | foStart | foNlA1
  | biStart | biStartPrior | blen | bofA1 | foEnd | cBiUninit | cBiStop
  deriving DecidableEq, Repr, Inhabited

/-- `bool` locals -/
inductive Flag where
  | foundNlA | foundNlB | foNlBInMiddle | nlBEof | begof
  deriving DecidableEq, Repr, Inhabited

/-- `BlockP` locals: `bptr_middle`, `bptr`, `bptr_prior` -/
inductive Blk where
  | middle | cur | prior
  deriving DecidableEq, Repr, Inhabited

/-- `charsz` = `self.charsz_`; `fileSz` = `self.filesz()`; `blockoffsetLast` = `self.blockoffset_last()`;
`boAt` / `biAt` / `foAt` = `self.block_offset_at_file_offset` / `block_index_at_file_offset` /
`file_offset_at_block_offset_index`; `len b` = `(*b).len()`; `lineFoEnd` = `line.fileoffset_end()`;
`nParts` = `line.count_lineparts()`; `linepEnd k` = `fileoffset_end()` of `get_linep(&k)`;
`storedEnd` = `fileoffset_end()` of the stored line a `check_store` lookup hit -/
inductive Expr where
  | v (x : Var) | lit (n : Nat) | charsz | fileSz | blockoffsetLast | lineFoEnd | nParts | storedEnd
  | add (a b : Expr) | sub (a b : Expr) | max (a b : Expr)
  | boAt (e : Expr) | biAt (e : Expr) | foAt (bo bi : Expr) | len (b : Blk) | linepEnd (key : Expr)
  deriving DecidableEq, Repr, Inhabited

inductive Cmp where
  | eq | ne | lt | le | gt | ge
  deriving DecidableEq, Repr, Inhabited

/-- `isNL b i` = `(*b)[i] == NLu8`; `linesHas k` = `self.lines.contains_key(&k)`; `linepSome k` =
`self.get_linep(&k)` is `Some`; `storesBo e` = `line.stores_blockoffset(e)`; `lruOn` =
`self.find_line_lru_cache_enabled` -/
inductive BExpr where
  | flag (f : Flag) | not (b : BExpr) | and (a b : BExpr) | cmp (op : Cmp) (l r : Expr)
  | isNL (b : Blk) (i : Expr) | linesHas (key : Expr) | linepSome (key : Expr) | storesBo (e : Expr) | lruOn
  deriving DecidableEq, Repr, Inhabited

inductive Where where
  | prepend | append
  deriving DecidableEq, Repr, Inhabited

inductive Stmt where
  | set (x : Var) (e : Expr)
  | setFlag (f : Flag) (b : Bool)
  | lineNew
  | read (dst : Blk) (bo : Expr)
  | copyBlk (dst src : Blk)
  | part (w : Where) (blk : Blk) (biBeg biEnd fo bo : Expr)
  | scan (fwd : Bool) (blk : Blk) (idx : Var) (hit : List Stmt) (step : Expr) (exitOp : Cmp) (exitRhs : Expr)
  | ite (c : BExpr) (t e : List Stmt)
  | while (c : BExpr) (body : List Stmt)
  | brk
  | assert (c : BExpr)
  | insert
  | lruPutFound (key next : Expr)
  | lruPutDone (key : Expr)
  | retFound (next : Expr)
  | retDone
  | lruCheck (key : Expr)
  | storeCheck (key : Expr)
  deriving Repr, Inhabited

/-- a lookup of `check_store` -/
inductive Lookup where
  | linesKey (key : Expr) | linep (key : Expr)
  deriving DecidableEq, Repr, Inhabited

/-! ### constants -/
'''


def generate(repo):
    lr = strip_comments(open(os.path.join(repo, 'src/readers/linereader.rs')).read())
    cm = strip_comments(open(os.path.join(repo, 'src/common.rs')).read())
    m = re.search(r'\bpub const NLu8: u8 = (\d+);', cm)
    need(m is not None, 'common.rs: `pub const NLu8: u8 = <n>;` not found')
    nl = int(m.group(1))
    need(len(re.findall(r'\bcharsz_:', lr)) == 2 and re.search(r'\bcharsz_: CHARSZ,', lr) is not None and 'self.charsz_ =' not in lr,
         'linereader.rs: `charsz_` is no longer initialised to CHARSZ once and never assigned')
    need(re.search(r'\bconst CHARSZ: CharSz = CHARSZ_MIN;', lr) is not None, 'linereader.rs: const CHARSZ is not CHARSZ_MIN')
    m2 = re.search(r'\bconst CHARSZ_MIN: CharSz = (\d+);', lr)
    need(m2 is not None, 'linereader.rs: const CHARSZ_MIN not found')
    m3 = re.search(r'\bconst FIND_LINE_LRU_CACHE_SZ: usize = (\d+);', lr)
    need(m3 is not None, 'linereader.rs: const FIND_LINE_LRU_CACHE_SZ not found')
    need(re.search(r'NonZeroUsize::new\(LineReader::FIND_LINE_LRU_CACHE_SZ\)', lr) is not None,
         'linereader.rs: the LRU cache is no longer sized FIND_LINE_LRU_CACHE_SZ')
    for name in PINS:
        pin(lr, name)
    secs = gen_find_line(lr)
    store = gen_check_store(lr)
    L = [HEADER]
    L += [f'/-- `common::NLu8` -/\ndef NLu8 : Nat := {nl}',
          f'/-- `LineReader::charsz_` = `CHARSZ` = `CHARSZ_MIN` -/\ndef CHARSZ : Nat := {m2.group(1)}',
          f'/-- `LineReader::FIND_LINE_LRU_CACHE_SZ` -/\ndef LRU_SZ : Nat := {m3.group(1)}',
          '/-- `get_linep`, `check_store_LRU`, `insert_line` have their pinned text (gen_lines.py `PINS`) -/',
          'def HELPERS_PINNED : Bool := true', '',
          '/-- `check_store`: the lookups in source order, each with the next offset a hit returns; a hit is put\n'
          'into the LRU cache (when enabled) and returned as `Found((next, linep))`, last line or not -/',
          'def checkStore : List (Lookup × Expr) := [\n  ' + ',\n  '.join(store) + ']', '',
          '/-! ### `find_line`, section by section (top-level statements in source order) -/', '']
    RENDER_CTX['loops'] = {}
    for name, stmts in secs:
        RENDER_CTX['section'] = name
        body = render_list(stmts, 2)
        if name in RENDER_CTX['loops']:
            c, b = RENDER_CTX['loops'][name]
            RENDER_CTX['section'] = name + 'Inner'
            L.append(f'/-- the `while` of `{name}` -/\ndef {name}LoopCond : BExpr :=\n  {c}\n')
            L.append(f'def {name}LoopBody : List Stmt :=\n{render_list(b, 2)}\n')
            need(name + 'Inner' not in RENDER_CTX['loops'], f'linereader.rs::find_line [{name}]: nested `while`')
        L.append(f'def {name} : List Stmt :=\n{body}\n')
    L.append('/-- `LineReader::find_line` -/')
    L.append('def findLine : List Stmt :=\n  ' + ' ++ '.join(n for n, _ in secs))
    L.append('')
    L.append('end S4V.Gen.Lines')
    text = '\n'.join(L) + '\n'
    nst = text.count('.set ') + text.count('.part ') + text.count('.ite ') + text.count('.scan ')
    return text, {'sections': len(secs), 'stmts': nst}


# ---------------------------------------------------------------- mutants (counter-models)

# (name, what, [(regex on the comment-free source of linereader.rs, replacement)]); every regex must match exactly once
MUTANTS = [
    ('b2PartEnd', 'B2: `bi_beg + 1` -> `bi_beg` in the LinePart that ends with newline B',
     [(r'0,\s*bi_beg \+ 1,\s*self\.file_offset_at_block_offset_index\(bof, 0\),', '0, bi_beg, self.file_offset_at_block_offset_index(bof, 0),')]),
    ('b2WhileLt', 'B2: `bof <= blockoffset_last` -> `bof < blockoffset_last`',
     [(r'while !found_nl_b && bof <= blockoffset_last', 'while !found_nl_b && bof < blockoffset_last')]),
    ('a1Key', 'A1: `fileoffset - charsz_fo` -> `fileoffset - charsz_fo - charsz_fo` (key of both quick checks)',
     [(r'let fo_: FileOffset = fileoffset - charsz_fo;', 'let fo_: FileOffset = fileoffset - charsz_fo - charsz_fo;')]),
    ('a1bPeek', 'A1b rewritten (the planted change): peek at the previous byte of the block in hand instead of `get_linep(fileoffset - 1)`; at block index 0 fall through to the backwards walk',
     [(r'match self\.get_linep\(&fo_\) \{\s*Some\(linep_prev\) => \{', '{ if bi_middle >= charsz_bi && (*bptr_middle)[bi_middle - charsz_bi] == NLu8 {'),
      (r'fo_nl_a = \(\*linep_prev\)\.fileoffset_end\(\);', 'fo_nl_a = fo_;'),
      (r'None => \{(?=\s*defo!\("A1b:)', 'else {')]),
    ('b2Order', 'B2: `line.append(li)` -> `line.prepend(li)` for a block without newline B',
     [(r'(bi_beg,\s*self\.file_offset_at_block_offset_index\(bof, 0\),\s*bof,\s*self\.blocksz\(\),\s*\);\s*)line\.append\(li\);', r'\1line.prepend(li);')]),
    ('b1EofIdx', 'B1: `bi_at - charsz_bi` -> `bi_at` for newline B at end of file',
     [(r'let bi_: BlockIndex = bi_at - charsz_bi;', 'let bi_: BlockIndex = bi_at;')]),
    ('a2Start', 'A2: `max(fileoffset, charsz_fo) - charsz_fo` -> `max(fileoffset, charsz_fo)` (search for newline A starts AT fileoffset)',
     [(r'std::cmp::max\(fileoffset, charsz_fo\) - charsz_fo;', 'std::cmp::max(fileoffset, charsz_fo);')]),
    ('a5PartEnd', 'A5: `bi_start + 1` -> `bi_start` in the LinePart of a block without newline A',
     [(r'BI_STOP,\s*bi_start \+ 1,', 'BI_STOP, bi_start,')]),
    ('dNext', 'D: `Found((fo_end + 1, linep))` -> `Found((fo_end, linep))`',
     [(r'ResultS3LineFind::Found\(\(fo_end \+ 1, linep\)\)\s*\}', 'ResultS3LineFind::Found((fo_end, linep)) }')]),
    ('a2aBof', 'A2a: `if bof != 0` -> `if bof == 0` after the middle block (walks on / stops at the wrong place)',
     [(r'if bof != 0 \{(?=\s*defo!\("A2a:)', 'if bof == 0 {')]),
]


def generate_mutants(repo):
    lr0 = strip_comments(open(os.path.join(repo, 'src/readers/linereader.rs')).read())
    base = dict(gen_find_line(lr0))
    L = ['-- GENERATED by /verif/gen/s4gen.py (gen_lines.py) from src/readers/linereader.rs — do not edit',
         '-- `find_line` re-translated from the source with ONE edit each (gen_lines.py `MUTANTS`): counter-models',
         'import S4V.Gen.Lines',
         'namespace S4V.Gen.LinesMutants',
         'open S4V.Gen.Lines (Stmt BExpr)', '']
    info = {}
    sig0, body0, start0 = find_fn(lr0, 'find_line')
    end0 = start0 + len(sig0) + len(body0) + 2
    for name, what, edits in MUTANTS:
        fn = lr0[start0:end0]               # the edits apply to the text of `find_line` only
        for pat, rep in edits:
            n = len(re.findall(pat, fn))
            need(n == 1, f'mutant {name}: the pattern {pat!r} matches {n} times in find_line (the source left the shape the mutant edits)')
            fn = re.sub(pat, rep, fn, count=1)
        lr = lr0[:start0] + fn + lr0[end0:]
        secs = gen_find_line(lr)
        changed = [n for n, st in secs if st != base[n]]
        need(changed, f'mutant {name}: the edit does not change the translated program')
        L.append(f'-- mutant `{name}`: {what}')
        L.append(f'namespace {name}')
        RENDER_CTX['loops'] = {}
        for sec, stmts in secs:
            if sec not in changed:
                continue
            RENDER_CTX['section'] = sec
            body = render_list(stmts, 2)
            if sec in RENDER_CTX['loops']:
                c, b = RENDER_CTX['loops'][sec]
                RENDER_CTX['section'] = sec + 'Inner'
                L.append(f'def {sec}LoopCond : BExpr :=\n  {c}\n')
                L.append(f'def {sec}LoopBody : List Stmt :=\n{render_list(b, 2)}\n')
            L.append(f'def {sec} : List Stmt :=\n{body}\n')
        L.append('def findLine : List Stmt :=\n  ' + ' ++ '.join((n if n in changed else 'S4V.Gen.Lines.' + n) for n, _ in secs))
        L.append(f'end {name}\n')
        info[name] = changed
    L.append('end S4V.Gen.LinesMutants')
    return '\n'.join(L) + '\n', {'mutants': len(MUTANTS)}


# ================================================================ Lines2: find_line_in_block, drop_line, drop_lines
#
# `find_line_in_block` is translated into `S4V.Gen.Lines2.findLineInBlock : List StmtIB`. `StmtIB` wraps the
# statement language of `find_line` (`.s <Stmt>`: the statement is translated by the SAME translator `Tr`) and adds
# what only `find_line_in_block` has:
#   * the bool local `partial_line`            -> `.setPartial b`, condition atom `.partialLine`
#   * `a ^ b` in a release-active `assert!`    -> `.assert (.xor a b)`
#   * `let linep: LineP = LineP::new(line);`   -> `.lineP`   (the line is wrapped but NOT stored: no `insert_line`)
#   * `return (ResultS3LineFind::Done, Some(line));` -> `.retPartial`
#   * an `if` that mentions any of these       -> `.ite <BExprIB> … …`
# Normalisations (each counted, anything else raises GenError): every other return is `(<result>, None)` and is read as
# `return <result>`; `self.is_fileoffset_last(e)` is `self.filesz() - 1 == e` (both helpers pinned).

IB_SECTIONS = [
    ('prologue', r'if let Some\(result\) = self\.check_store\('),
    ('init', r'let bptr_middle: BlockP = match'),
    ('partB1', r'if !found_nl_b \{ partial_line = '),
    ('partA0', r'if found_nl_a \{'),
    ('asserts', r'assert!\(!found_nl_b \^'),
    ('partA1', r'if fileoffset >= charsz_fo \{'),
    ('partA2', r'if !found_nl_a \{ return'),
    ('partD', None),
]

IB_PINS = {
    ('linereader.rs', 'is_fileoffset_last'): 'fn is_fileoffset_last(&self, fileoffset: FileOffset) -> bool { self.fileoffset_last() == fileoffset }',
    ('linereader.rs', 'fileoffset_last'): 'fn fileoffset_last(&self) -> FileOffset { self.blockreader.fileoffset_last() }',
    ('blockreader.rs', 'fileoffset_last'): 'fn fileoffset_last(&self) -> FileOffset { (self.filesz() - 1) as FileOffset }',
}

IB_MARK = re.compile(r'\bpartial_line\b|LineP::new\(line\)|Some\(line\)')


def ib_normalise(text, W):
    n_none = len(re.findall(r', None\)', text))
    subs = [
        (r'return \(result, None\);', 'return result;'),
        (r'return \(ResultS3LineFind::Done, None\);', 'return ResultS3LineFind::Done;'),
        (r'return \(ResultS3LineFind::Err\(err\), None\);', 'return ResultS3LineFind::Err(err);'),
        (r'return \(ResultS3LineFind::Found\(\((\w+), linep\)\), None\);', r'return ResultS3LineFind::Found((\1, linep));'),
        (r'\(ResultS3LineFind::Found\(\((\w+), linep\)\), None\)\s*$', r'ResultS3LineFind::Found((\1, linep))'),
    ]
    done = 0
    for pat, rep in subs:
        text, k = re.subn(pat, rep, text)
        done += k
    need(done == n_none and ', None)' not in text,
         f'{W}: a return whose second component is `None` left the known shapes ({done} of {n_none} recognised)')
    text, k = re.subn(r'self\.is_fileoffset_last\((\w+)\)', r'self.filesz() - 1 == \1', text)
    need(k == 1, f'{W}: `self.is_fileoffset_last(..)` is used {k} times (expected once, for nl_b_eof)')
    return text


class TrIB:
    def __init__(self, where):
        self.where = where
        self.tr = Tr(where)

    def cond(self, c):
        W = self.where
        def atom(a):
            a = a.strip()
            if a == 'partial_line':
                return '.partialLine'
            if a == '!partial_line':
                return '.not (.partialLine)'
            need('partial_line' not in a, f'{W}: `partial_line` inside the condition atom {a!r}')
            return f'.b ({pcond(W, a)})'
        def conj(x):
            parts = [p for p in x.split(' && ')]
            e = atom(parts[0])
            for p in parts[1:]:
                e = f'.and ({e}) ({atom(p)})'
            return e
        xs = c.split(' ^ ')
        need(len(xs) <= 2, f'{W}: more than one `^` in {c!r}')
        if len(xs) == 2:
            return f'.xor ({conj(xs[0])}) ({conj(xs[1])})'
        return conj(c)

    def block(self, text):
        W = self.where
        self.tr.where = W
        stmts = split_stmts(text, W)
        out, k = [], 0
        while k < len(stmts):
            s = stmts[k]
            k += 1
            m = re.fullmatch(r'(?:let mut )?partial_line ?(?:: bool)? ?= (true|false);', s)
            if m:
                out.append(f'.setPartial {m.group(1)}')
                continue
            if s == 'return (ResultS3LineFind::Done, Some(line));':
                out.append('.retPartial')
                continue
            if s == 'let linep: LineP = LineP::new(line);':
                out.append('.lineP')
                continue
            m = re.fullmatch(r'assert!\((.*)\);', s)
            if m and IB_MARK.search(split_args(m.group(1))[0]):
                out.append(f'.assert ({self.cond(split_args(m.group(1))[0])})')
                continue
            if s.startswith('if ') and IB_MARK.search(s):
                chain = head_and_blocks(s, W)
                node = None
                for c, body in reversed(chain):
                    if c is None:
                        node = self.block(body)
                    else:
                        node = [['.ite', self.cond(c), self.block(body), node if node is not None else []]]
                out.extend(node)
                continue
            need(IB_MARK.search(s) is None, f'{W}: statement outside the known shapes: {s[:200]!r}')
            if re.match(r'let li(: LinePart)? = ', s) and k < len(stmts):
                s = s + ' ' + stmts[k]
                k += 1
            for t in self.tr.block(s):
                out.append(['.s', t])
        return out


def render_ib(node, ind):
    pad = ' ' * ind
    if isinstance(node, str):
        return pad + node
    if node[0] == '.s':
        inner = render(node[1], ind + 4)
        return f'{pad}.s ({inner.lstrip()})'
    if node[0] == '.ite':
        return f'{pad}.ite ({node[1]})\n{render_ib_list(node[2], ind + 2)}\n{render_ib_list(node[3], ind + 2)}'
    raise GenError(f'internal: {node!r}')


def render_ib_list(xs, ind):
    pad = ' ' * ind
    if not xs:
        return pad + '[]'
    return pad + '[\n' + ',\n'.join(render_ib(x, ind + 1) for x in xs) + ']'


def gen_find_line_in_block(lr):
    W = f'{LR}::find_line_in_block'
    need(len(re.findall(r'\bfn find_line_in_block\b', lr)) == 1, f'{W}: not exactly one definition')
    sig, body, _ = find_fn(lr, 'find_line_in_block')
    need(flat(sig) == 'fn find_line_in_block(&mut self, fileoffset: FileOffset) -> (ResultS3LineFind, Option<Line>)',
         f'{W}: signature changed: {flat(sig)!r}')
    text = flat(body)
    need('fo_nl_b_in_middle' not in text, f'{W}: unexpected local `fo_nl_b_in_middle`')
    text = ib_normalise(text, W)
    top = split_stmts(text, W)
    secs, cur, si = [], [], 0
    for s in top:
        cur.append(s)
        name, anchor = IB_SECTIONS[si]
        if anchor is not None and re.match(anchor, s):
            secs.append((name, cur))
            cur, si = [], si + 1
            need(si < len(IB_SECTIONS), f'{W}: more sections than expected')
    need(si == len(IB_SECTIONS) - 1 and cur, f'{W}: the top-level statements no longer contain the anchors '
         f'{[a for _, a in IB_SECTIONS[:-1]]} in this order (stopped before `{IB_SECTIONS[si][0]}`)')
    secs.append((IB_SECTIONS[-1][0], cur))
    out = []
    for name, stmts in secs:
        tr = TrIB(f'{W} [{name}]')
        out.append((name, tr.block(' '.join(stmts))))
    return out


# ---- drop_line / drop_lines: facts extracted from the (pinned-shape) text

def gen_drop(lr):
    W = f'{LR}::drop_line'
    sig, body, _ = find_fn(lr, 'drop_line')
    need(flat(sig) == 'fn drop_line(&mut self, linep: LineP) -> bool', f'{W}: signature changed: {flat(sig)!r}')
    b = flat(body)
    m = re.fullmatch(
        r'let mut ret = false; let fo_key: FileOffset = \(\*linep\)\.(fileoffset_begin|fileoffset_end)\(\); '
        r'(?P<rm>(?:self\.\w+\.(?:pop|remove)\(&fo_key\); )+)'
        r'match Arc::try_unwrap\(linep\) \{ Ok\(line\) => \{ self\.drop_line_ok \+= 1; \{ self\.dropped_lines\.insert\(line\.fileoffset_begin\(\)\); \} '
        r'let take_ = match line\.lineparts\.len\(\) \{ 0 => 0, val => val(?P<keep> - \d+)?, \}; '
        r'for linepart in line\.lineparts\.into_iter\(\)(?P<rev>\.rev\(\))?\.(?P<sel>take|skip)\(take_\) \{ let bo = linepart\.blockoffset\(\); drop\(linepart\); '
        r'if self\.blockreader\.drop_block\(bo\) \{ ret = true; \} \} \} '
        r'Err\(_linep\) => \{ self\.drop_line_errors \+= 1; \} \} ret', b)
    need(m is not None, f'{W}: the body left the expected shape: {b!r}')
    removes = re.findall(r'self\.(\w+)\.(?:pop|remove)\(&fo_key\);', m.group('rm'))
    known = {'find_line_lru_cache': 'lru', 'lines': 'lines', 'foend_to_fobeg': 'endToBeg'}
    for r in removes:
        need(r in known, f'{W}: removes from an unknown container `{r}`')
    need(len(set(removes)) == len(removes), f'{W}: a container is removed from twice')
    keep = int(m.group('keep').replace(' ', '')[1:]) if m.group('keep') else 0
    facts = {
        'key_is_begin': m.group(1) == 'fileoffset_begin',
        'removes': [known[r] for r in removes],
        'keep_last': keep,
        'take': m.group('sel') == 'take',
        'rev': m.group('rev') is not None,
    }
    W2 = f'{LR}::drop_lines'
    sig, body, _ = find_fn(lr, 'drop_lines')
    need(flat(sig) == 'fn drop_lines(&mut self, lines: Lines) -> bool', f'{W2}: signature changed')
    b2 = flat(body)
    m2 = re.fullmatch(r'if ! ?self\.is_drop_data\(\) \{ return false; \} let mut ret = false; '
                      r'for linep in lines\.into_iter\(\)(?P<rev>\.rev\(\))? \{ if self\.drop_line\(linep\) \{ ret = true; \} \} ret', b2)
    need(m2 is not None, f'{W2}: the body left the expected shape: {b2!r}')
    facts['lines_rev'] = m2.group('rev') is not None
    return facts


def lean_bool(b):
    return 'true' if b else 'false'


HEADER2 = '''-- GENERATED by /verif/gen/s4gen.py (gen_lines.py) from src/readers/linereader.rs, src/readers/blockreader.rs — do not edit
import S4V.Gen.Lines
namespace S4V.Gen.Lines2
open S4V.Gen.Lines

/-! ### what `find_line_in_block` adds to the statement language of `find_line` (gen/gen_lines.py, "Lines2") -/

/-- `b c` = a condition of the `find_line` language; `partialLine` = the bool local `partial_line`; `xor` = `^` -/
inductive BExprIB where
  | b (c : BExpr) | partialLine | not (a : BExprIB) | and (a b : BExprIB) | xor (a b : BExprIB)
  deriving Repr, Inhabited

/-- `s st` = a statement of the `find_line` language (translated by the same translator); `setPartial` =
`partial_line = <bool>`; `lineP` = `let linep: LineP = LineP::new(line);` (wrapped, NOT stored);
`retPartial` = `return (ResultS3LineFind::Done, Some(line));`; every other return has `None` as its second component -/
inductive StmtIB where
  | s (st : Stmt)
  | setPartial (b : Bool)
  | ite (c : BExprIB) (t e : List StmtIB)
  | assert (c : BExprIB)
  | lineP
  | retPartial
  deriving Repr, Inhabited

/-- the containers `drop_line` removes the line's key from -/
inductive Container where
  | lru | lines | endToBeg
  deriving DecidableEq, Repr, Inhabited
'''


def render_lines2(secs, facts, ns_prefix=''):
    L = []
    for name, stmts in secs:
        L.append(f'def {name} : List StmtIB :=\n{render_ib_list(stmts, 2)}\n')
    L.append('/-- `LineReader::find_line_in_block` -/')
    L.append('def findLineInBlock : List StmtIB :=\n  ' + ' ++ '.join(n for n, _ in secs))
    return L


def render_drop(facts):
    return [
        '/-- `drop_line`: the key is `(*linep).fileoffset_begin()` -/',
        f'def DROP_KEY_IS_BEGIN : Bool := {lean_bool(facts["key_is_begin"])}',
        '/-- `drop_line`: the containers the key is removed from, in source order -/',
        'def DROP_REMOVES : List Container := [' + ', '.join('.' + r for r in facts['removes']) + ']',
        '/-- `drop_line`: `take_ = lineparts.len() - DROP_KEEP` parts (0 for an empty line) have their block dropped -/',
        f'def DROP_KEEP : Nat := {facts["keep_last"]}',
        '/-- `drop_line`: the parts are selected by `.take(take_)` (the FIRST parts; `false` = `.skip`) -/',
        f'def DROP_TAKE_FIRST : Bool := {lean_bool(facts["take"])}',
        '/-- `drop_line`: the parts are visited in reverse -/',
        f'def DROP_REVERSED : Bool := {lean_bool(facts["rev"])}',
        '/-- `drop_lines`: the lines are visited in reverse -/',
        f'def DROP_LINES_REVERSED : Bool := {lean_bool(facts["lines_rev"])}',
    ]


def read_src(repo):
    lr = strip_comments(open(os.path.join(repo, 'src/readers/linereader.rs')).read())
    br = strip_comments(open(os.path.join(repo, 'src/readers/blockreader.rs')).read())
    return lr, br


def pin_ib(lr, br):
    for (f, name), want in IB_PINS.items():
        src = lr if f == 'linereader.rs' else br
        sig, body, _ = find_fn(src, name)
        got = re.sub(r'^(pub )?(const )?', '', flat(sig + '{' + body + '}'))
        got = re.sub(r'^(pub )?(const )?', '', got)
        if got != want:
            raise GenError(f'{f}::{name} left its pinned text:\n   got: {got}\n  want: {want}')


def generate2(repo):
    lr, br = read_src(repo)
    pin_ib(lr, br)
    secs = gen_find_line_in_block(lr)
    facts = gen_drop(lr)
    L = [HEADER2, '/-! ### `find_line_in_block`, section by section (top-level statements in source order) -/', '']
    L += render_lines2(secs, facts)
    L += ['', '/-! ### `drop_line`, `drop_lines` -/', ''] + render_drop(facts)
    L += ['', 'end S4V.Gen.Lines2']
    text = '\n'.join(L) + '\n'
    return text, {'sections': len(secs), 'drop_removes': facts['removes']}


# ---------------------------------------------------------------- Lines2 mutants (counter-models)

MUTANTS_IB = [
    ('ibA0End', 'A0: `bi_middle_end + 1` -> `bi_middle_end` in the LinePart of a line that begins the file',
     [(r'self\.block_index_at_file_offset\(fo_nl_a\),\s*bi_middle_end \+ 1,', 'self.block_index_at_file_offset(fo_nl_a), bi_middle_end,')]),
    ('ibBofEq', 'A2a: `if bof != bo_middle` -> `if bof == bo_middle` (gives up exactly when newline A could be in the block)',
     [(r'if bof != bo_middle \{', 'if bof == bo_middle {')]),
    ('ibBegof', 'A2a: `if bof == 0` -> `if bof != 0` (a block other than the first one is taken for the beginning of the file)',
     [(r'if bof == 0 \{', 'if bof != 0 {')]),
    ('ibNoPartial', '`partial_line = true` -> `partial_line = false` when newline B is not in the block',
     [(r'if !found_nl_b \{\s*partial_line = true;', 'if !found_nl_b { partial_line = false;')]),
    ('ibStoreFinal', 'the line found by the backward scan is stored: `LineP::new(line)` -> `self.insert_line(line)`',
     [(r'let linep: LineP = LineP::new\(line\);', 'let linep: LineP = self.insert_line(line);')]),
]

MUTANTS_DROP = [
    ('dropAllParts', '`val => val - 1` -> `val => val` (the block of the LAST part is dropped too)',
     [(r'val => val - 1,', 'val => val,')]),
    ('dropSkip', '`.take(take_)` -> `.skip(take_)` (only the block of the last part is dropped)',
     [(r'\.take\(take_\)', '.skip(take_)')]),
    ('dropKeyEnd', 'key `fileoffset_begin()` -> `fileoffset_end()`',
     [(r'let fo_key: FileOffset = \(\*linep\)\.fileoffset_begin\(\);', 'let fo_key: FileOffset = (*linep).fileoffset_end();')]),
]


def edit_fn(lr0, fname, name, edits):
    sig0, body0, start0 = find_fn(lr0, fname)
    end0 = start0 + len(sig0) + len(body0) + 2
    fn = lr0[start0:end0]
    for pat, rep in edits:
        n = len(re.findall(pat, fn))
        need(n == 1, f'mutant {name}: the pattern {pat!r} matches {n} times in {fname} (the source left the shape the mutant edits)')
        fn = re.sub(pat, rep, fn, count=1)
    return lr0[:start0] + fn + lr0[end0:]


def generate_mutants2(repo):
    lr0, br = read_src(repo)
    base = dict(gen_find_line_in_block(lr0))
    base_facts = gen_drop(lr0)
    L = ['-- GENERATED by /verif/gen/s4gen.py (gen_lines.py) from src/readers/linereader.rs — do not edit',
         '-- `find_line_in_block` / `drop_line` re-translated from the source with ONE edit each (gen_lines.py `MUTANTS_IB`, `MUTANTS_DROP`): counter-models',
         'import S4V.Gen.Lines2',
         'namespace S4V.Gen.Lines2Mutants',
         'open S4V.Gen.Lines (Stmt BExpr)',
         'open S4V.Gen.Lines2 (StmtIB BExprIB Container)', '']
    for name, what, edits in MUTANTS_IB:
        secs = gen_find_line_in_block(edit_fn(lr0, 'find_line_in_block', name, edits))
        changed = [n for n, st in secs if st != base[n]]
        need(changed, f'mutant {name}: the edit does not change the translated program')
        L.append(f'-- mutant `{name}`: {what}')
        L.append(f'namespace {name}')
        for sec, stmts in secs:
            if sec in changed:
                L.append(f'def {sec} : List StmtIB :=\n{render_ib_list(stmts, 2)}\n')
        L.append('def findLineInBlock : List StmtIB :=\n  ' + ' ++ '.join((n if n in changed else 'S4V.Gen.Lines2.' + n) for n, _ in secs))
        L.append(f'end {name}\n')
    for name, what, edits in MUTANTS_DROP:
        facts = gen_drop(edit_fn(lr0, 'drop_line', name, edits))
        need(facts != base_facts, f'mutant {name}: the edit does not change the extracted facts')
        L.append(f'-- mutant `{name}`: {what}')
        L.append(f'namespace {name}')
        L += render_drop(facts)
        L.append(f'end {name}\n')
    L.append('end S4V.Gen.Lines2Mutants')
    return '\n'.join(L) + '\n', {'mutants': len(MUTANTS_IB) + len(MUTANTS_DROP)}
