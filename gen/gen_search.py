"""Generate S4V/Gen/Search.lean: the control skeletons of the datetime searches of `SyslineReader`
(src/readers/syslinereader.rs) as Lean DATA that the interpreters of `S4V.Model.SearchSkel` run:

* `find_sysline_at_datetime_filter_binary_search`  -> `bsearch : BSkel`
  prologue (cursor initialisations in source order), the probe `find_sysline(<expr>)`, one statement
  list per `Result_Filter_DateTime1` arm (every cursor assignment with its exact arithmetic, every
  release-active `assert_*!`, the early `return Found`), the `Done` arm, whether the last message is
  remembered, the loop-exit chain after the match (conditions and `break`/`continue` in source order),
  the convergence handling (`return Done` tests, the re-find test and offset, the
  `(compare, compare_next)` decision table in source order, the offset returned with the message);
* `find_sysline_at_datetime_filter_linear_search`  -> `lsearch : LSkel`
* `find_sysline_between_datetime_filters`          -> `between : WSkel`
* `find_sysline_at_datetime_filter`                -> `AT_LINEAR_IFF_STREAMED`
* `find_sysline_year`: part A (walk back to the line that starts the message: `fo_a_max` update, the
  offset left after the head line, the `if fo_zero_tried / else if line_beg > charsz_fo / else` chain
  with its statements incl. the `syslines_by_range.contains_key` test) -> `findA : ASkel`; part B
  (continuation lines: the arms of the parse match, the statements after it) -> `findB : PSkel`;
  prologue / epilogue (check_store first, insert_sysline, LRU put, `Found((fo_b, syslinep))`) pinned
* the wrappers `sysline_dt_after_or_before`, `sysline_pass_filters`, `Sysline::fileoffset_next`,
  `is_sysline_last`, `debug_assert_gt_fo_syslineend` are pinned (plain forwards / debug-only).

Every statement of the three functions (comments, trace macros `def?!`/`de_*!`/`e_*!` and
`debug_assert*!` removed: they are no-ops in a release build) must be one of the shapes parsed below;
anything else raises GenError naming the function and the statement. Expressions are parsed with a
small grammar: cursors / `fileoffset` / `fo_end` / `fo` / sysline begin, end, next / literals,
`+ - /`, parentheses, `min(a, b)`, `max(a, b)`; conditions: comparisons joined by `&&`, `done`,
`self.is_sysline_last(&syslinep)`.
"""
import os
import re
from rs import GenError, strip_comments, find_fn, match_close, match_arms

SR = 'syslinereader.rs'
READER_CHARSZ = None
F1 = ['Pass', 'OccursAtOrAfter', 'OccursBefore']
F2 = ['InRange', 'BeforeRange', 'AfterRange']


def need(cond, msg):
    if not cond:
        raise GenError(msg)


NOOP_MACROS = re.compile(r'\b(def1?[a-zñ]?|de[a-zñ]|de_err|de_wrn|e_err|e_wrn|debug_assert(?:_\w+)?|debug_panic)!\s*\(')


def strip_noops(block):
    """remove trace macros and debug-only assertions (with a trailing `;`)"""
    out = []
    i = 0
    while True:
        m = NOOP_MACROS.search(block, i)
        if not m:
            out.append(block[i:])
            break
        out.append(block[i:m.start()])
        p = block.find('(', m.start())
        e = match_close(block, p)
        i = e + 1
        while i < len(block) and block[i] in ' \t\n':
            i += 1
        if i < len(block) and block[i] == ';':
            i += 1
    return ''.join(out)


def flat(s):
    s = strip_noops(s)
    s = re.sub(r'#\[[^\]]*\]', ' ', s)          # attributes (`#[allow(unused_assignments)]`)
    s = re.sub(r'\s+', ' ', s).strip()
    s = re.sub(r' ?\. ?(?=\w)', '.', s)          # method chains broken over lines
    s = re.sub(r'\( ', '(', s)
    s = re.sub(r' \)', ')', s)
    s = re.sub(r',\s*\)', ')', s)
    return s


def split_stmts(text, where):
    """top-level statements of a block body (flattened). A statement starting with
    `if`/`match`/`loop`/`while`/`for` ends with its (last) block; any other at the top-level `;`."""
    out = []
    i, n = 0, len(text)
    while True:
        while i < n and text[i].isspace():
            i += 1
        if i >= n:
            break
        m = re.match(r'(if|match|loop|while|for)\b', text[i:])
        if m:
            j = i
            while True:
                b = text.find('{', j)
                need(b >= 0, f'{where}: block statement without a body: {text[i:i + 60]!r}')
                need(';' not in text[j:b], f'{where}: unexpected `;` in the head of {text[i:i + 60]!r}')
                e = match_close(text, b)
                j = e + 1
                mm = re.match(r'\s*else\b', text[j:])
                if m.group(1) == 'if' and mm:
                    j += mm.end()
                    continue
                break
            out.append(text[i:j].strip())
            i = j
            mm = re.match(r'\s*;', text[i:])
            if mm:
                i += mm.end()
            continue
        depth = 0
        j = i
        while j < n:
            c = text[j]
            if c == '"':
                k = j + 1
                while k < n and text[k] != '"':
                    if text[k] == '\\':
                        k += 1
                    k += 1
                j = k + 1
                continue
            if c in '([{':
                depth += 1
            elif c in ')]}':
                depth -= 1
                need(depth >= 0, f'{where}: unbalanced bracket near {text[i:i + 60]!r}')
            elif c == ';' and depth == 0:
                break
            j += 1
        if j >= n:
            out.append(text[i:].strip())
            break
        out.append(text[i:j + 1].strip())
        i = j + 1
    return out


def block_of(stmt, head_pat, where):
    """`stmt` = head + `{ … }` (+ optional `;`); returns the inner text"""
    m = re.match(head_pat + r' \{', stmt)
    need(m is not None, f'{where}: statement left the expected shape: {stmt[:140]!r}')
    b = m.end() - 1
    e = match_close(stmt, b)
    need(stmt[e + 1:].strip() in ('', ';'), f'{where}: unexpected text after the block: {stmt[e + 1:][:80]!r}')
    return stmt[b + 1:e].strip()


def arms_of(inner):
    return [(re.sub(r'\s+', ' ', p).strip(), re.sub(r'\s+', ' ', v).strip()) for p, v in match_arms(inner)]


# ---------------------------------------------------------------- expressions

ETOK = re.compile(r'\s*(?:(?P<num>\d[\d_]*)(?:u64|usize)?|(?P<id>[A-Za-z_]\w*)|(?P<op>==|!=|<=|>=|&&|\|\||[-+*/%<>(),!&]))')

SL_SUBST = [
    (re.compile(r'\(\*(syslinep)\)\.fileoffset_(begin|end|next)\(\)'), r'__sl_\2'),
    (re.compile(r'\b(syslinep)\.fileoffset_(begin|end|next)\(\)'), r'__sl_\2'),
]


class Ctx:
    """names an expression may mention: rust name -> Lean `Expr` term; `mut_vars` = assignable cursors"""

    def __init__(self, where, names, cursors, next_expr):
        self.where = where
        self.names = dict(names)
        self.cursors = dict(cursors)     # rust name -> Lean `Cur` constructor
        self.next_expr = next_expr
        self.allow_done = False          # `done` (= result.is_done()) may be tested

    def tokens(self, s):
        for pat, rep in SL_SUBST:
            s = pat.sub(rep, s)
        s = re.sub(r'\bself\.is_sysline_last\(&syslinep\)', '__is_last', s)
        toks = []
        i = 0
        while i < len(s):
            if s[i:].strip() == '':
                break
            m = ETOK.match(s, i)
            need(m is not None, f'{self.where}: cannot tokenize expression at {s[i:i + 40]!r}')
            i = m.end()
            if m.group('num'):
                toks.append(('num', m.group('num').replace('_', '')))
            elif m.group('id'):
                toks.append(('id', m.group('id')))
            else:
                toks.append(('op', m.group('op')))
        return toks


class EP:
    def __init__(self, ctx, toks, src):
        self.c, self.t, self.i, self.src = ctx, toks, 0, src
        self.mentions = set()

    def peek(self):
        return self.t[self.i] if self.i < len(self.t) else ('eof', '')

    def next(self):
        tok = self.peek()
        self.i += 1
        return tok

    def fail(self, msg):
        raise GenError(f'{self.c.where}: {msg} in `{self.src}` (outside the expression grammar)')

    def expect(self, v):
        tok = self.next()
        if tok[1] != v:
            self.fail(f'expected `{v}`, found `{tok[1]}`')

    # arithmetic
    def atom(self):
        k, v = self.next()
        if k == 'num':
            return f'.lit {int(v)}'
        if k == 'op' and v == '(':
            e = self.expr()
            self.expect(')')
            return e
        if k == 'id' and v in ('min', 'max', 'std::cmp::min', 'std::cmp::max'):
            self.expect('(')
            a = self.expr()
            self.expect(',')
            b = self.expr()
            self.expect(')')
            return f'.{v[-3:]} ({a}) ({b})'
        if k == 'id' and v == '__sl_next':
            self.mentions.add('sysline')
            return self.c.next_expr
        if k == 'id' and v in ('__sl_begin', '__sl_end'):
            self.mentions.add('sysline')
            return '.v .slBeg' if v == '__sl_begin' else '.v .slEnd'
        if k == 'id' and v in self.c.names:
            self.mentions.add(v)
            return self.c.names[v]
        self.fail(f'unexpected token `{v}`')

    def cast(self):
        e = self.atom()
        while self.peek() == ('id', 'as'):
            self.next()
            k, v = self.next()
            need(k == 'id' and v in ('FileOffset', 'u64', 'usize', 'FileSz'), f'{self.c.where}: cast to `{v}` in `{self.src}`')
        return e

    def term(self):
        e = self.cast()
        while self.peek()[1] in ('/', '*', '%'):
            op = self.next()[1]
            if op != '/':
                self.fail(f'operator `{op}`')
            r = self.cast()
            e = f'.div ({e}) ({r})'
        return e

    def expr(self):
        e = self.term()
        while self.peek()[1] in ('+', '-'):
            op = self.next()[1]
            r = self.term()
            e = f'.{"add" if op == "+" else "sub"} ({e}) ({r})'
        return e

    # conditions
    CMPS = {'==': 'eq', '!=': 'ne', '<': 'lt', '<=': 'le', '>': 'gt', '>=': 'ge'}

    def catom(self):
        if self.peek() == ('id', 'done'):
            if not self.c.allow_done:
                self.fail('`done` tested outside the exit chain')
            self.next()
            self.mentions.add('done')
            return '.done'
        if self.peek() == ('id', '__is_last'):
            self.next()
            self.mentions.add('sysline')
            return '.isLast'
        a = self.expr()
        op = self.next()[1]
        if op not in self.CMPS:
            self.fail(f'expected a comparison, found `{op}`')
        b = self.expr()
        return f'.cmp .{self.CMPS[op]} ({a}) ({b})'

    def cond(self):
        e = self.catom()
        while self.peek()[1] == '&&':
            self.next()
            r = self.catom()
            e = f'.and ({e}) ({r})'
        return e

    def done(self):
        if self.peek()[0] != 'eof':
            self.fail(f'trailing `{self.peek()[1]}`')


def parse_expr(ctx, s):
    p = EP(ctx, ctx.tokens(s), s)
    e = p.expr()
    p.done()
    return e, p.mentions


def parse_cond(ctx, s):
    p = EP(ctx, ctx.tokens(s), s)
    e = p.cond()
    p.done()
    return e, p.mentions


CUR_NAMES = {'try_fo': 'tryFo', 'try_fo_last': 'tryFoLast', 'fo_a': 'foA', 'fo_b': 'foB'}
RET_FOUND = 'return ResultS3SyslineFind::Found((fo, syslinep));'
ASSERTS = {'assert_le': '<=', 'assert_lt': '<', 'assert_ge': '>=', 'assert_gt': '>', 'assert_eq': '==', 'assert_ne': '!='}
DEBUG_FN = 'SyslineReader::debug_assert_gt_fo_syslineend('


def split_args(s):
    """top-level comma split of a macro argument list (strings respected)"""
    out, depth, cur, i = [], 0, [], 0
    while i < len(s):
        c = s[i]
        if c == '"':
            k = i + 1
            while k < len(s) and s[k] != '"':
                if s[k] == '\\':
                    k += 1
                k += 1
            cur.append(s[i:k + 1])
            i = k + 1
            continue
        if c in '([{':
            depth += 1
        elif c in ')]}':
            depth -= 1
        if c == ',' and depth == 0:
            out.append(''.join(cur).strip())
            cur = []
        else:
            cur.append(c)
        i += 1
    if ''.join(cur).strip():
        out.append(''.join(cur).strip())
    return out


def parse_stmts(ctx, body, allow_sysline, allow_return=True):
    """statements of an arm -> list of Lean `Stmt` terms"""
    out = []
    aliases = []
    for s in split_stmts(body, ctx.where):
        if s.startswith(DEBUG_FN):
            need(s.endswith(');'), f'{ctx.where}: {s!r}')
            continue
        m = re.fullmatch(r'let (\w+): FileOffset = (.*);', s)
        if m:
            # an immutable alias; its value must not depend on anything assignable
            e, ment = parse_expr(ctx, m.group(2))
            need(not (ment & set(ctx.cursors)), f'{ctx.where}: alias `{m.group(1)}` is computed from a cursor ({sorted(ment & set(ctx.cursors))}): {s!r}')
            need(allow_sysline or 'sysline' not in ment, f'{ctx.where}: sysline used where none is in scope: {s!r}')
            need(m.group(1) not in ctx.names and m.group(1) not in ctx.cursors, f'{ctx.where}: alias `{m.group(1)}` shadows a known name')
            ctx.names[m.group(1)] = f'({e})' if ' ' in e else e
            aliases.append(m.group(1))
            continue
        m = re.fullmatch(r'(\w+) = (.*);', s)
        if m:
            need(m.group(1) in ctx.cursors, f'{ctx.where}: assignment to `{m.group(1)}`, which is not a cursor: {s!r}')
            e, ment = parse_expr(ctx, m.group(2))
            need(allow_sysline or not (ment & {'sysline', 'fo'}), f'{ctx.where}: sysline used where none is in scope: {s!r}')
            out.append(f'.assign .{ctx.cursors[m.group(1)]} ({e})')
            continue
        m = re.fullmatch(r'(assert_\w+)!\((.*)\);', s)
        if m:
            need(m.group(1) in ASSERTS, f'{ctx.where}: unknown assertion macro `{m.group(1)}!`')
            args = split_args(m.group(2))
            need(len(args) >= 2, f'{ctx.where}: `{m.group(1)}!` with fewer than two operands: {s[:100]!r}')
            c, ment = parse_cond(ctx, f'{args[0]} {ASSERTS[m.group(1)]} {args[1]}')
            need(allow_sysline or not (ment & {'sysline', 'fo'}), f'{ctx.where}: sysline used where none is in scope: {s[:100]!r}')
            out.append(f'.assert ({c})')
            continue
        m = re.fullmatch(r'assert!\((.*)\);', s)
        if m:
            c, ment = parse_cond(ctx, split_args(m.group(1))[0])
            out.append(f'.assert ({c})')
            continue
        if s == RET_FOUND:
            need(allow_return and allow_sysline, f'{ctx.where}: `return Found` where no sysline is in scope')
            out.append('.retFound')
            continue
        if s.startswith('if '):
            b = s.find('{')
            inner = block_of(s, re.escape(s[:b].rstrip()), ctx.where)
            st = [x for x in split_stmts(inner, ctx.where) if not x.startswith(DEBUG_FN)]
            need(st == [RET_FOUND], f'{ctx.where}: the body of `{s[:b].strip()}` is not `return Found((fo, syslinep))`: {inner[:120]!r}')
            c, ment = parse_cond(ctx, s[3:b].strip())
            out.append(f'.retFoundIf ({c})')
            continue
        raise GenError(f'{ctx.where}: statement outside the known shapes: {s[:160]!r}')
    for a in aliases:
        del ctx.names[a]
    return out


def f1_arms(inner, where):
    """arms of a `match …sysline_dt_after_or_before(..)` -> {variant: body}; every variant exactly once"""
    seen = {}
    for p, v in arms_of(inner):
        for alt in p.split('|'):
            mm = re.fullmatch(r'\s*(?:_r @ )?Result_Filter_DateTime1::(\w+)\s*', alt)
            need(mm is not None, f'{where}: arm pattern {alt.strip()!r} is not a Result_Filter_DateTime1 variant')
            need(mm.group(1) not in seen, f'{where}: variant {mm.group(1)} matched twice')
            seen[mm.group(1)] = v
    need(sorted(seen) == sorted(F1), f'{where}: the match covers {sorted(seen)}, the enum has {sorted(F1)}')
    return seen


def lean_list(xs, indent='    '):
    if not xs:
        return '[]'
    return '[\n' + ',\n'.join(indent + x for x in xs) + ']'


# ---------------------------------------------------------------- binary search

def gen_bsearch(sr, next_expr):
    W = f'{SR}::find_sysline_at_datetime_filter_binary_search'
    need(len(re.findall(r'\bfn find_sysline_at_datetime_filter_binary_search\b', sr)) == 1, f'{W}: not exactly one definition')
    sig, body, _ = find_fn(sr, 'find_sysline_at_datetime_filter_binary_search')
    need(flat(sig) == 'fn find_sysline_at_datetime_filter_binary_search(&mut self, fileoffset: FileOffset, dt_filter: &DateTimeLOpt) -> ResultS3SyslineFind',
         f'{W}: signature changed: {flat(sig)!r}')
    stmts = split_stmts(flat(body), W)
    cursors = dict(CUR_NAMES)
    names = {'fileoffset': '.v .fileoffset', 'fo_end': '.v .foEnd', 'fo': '.v .fo'}
    names.update({k: f'.v (.cur .{v})' for k, v in cursors.items()})
    ctx = Ctx(W, names, cursors, next_expr)

    # ---- prologue
    need(len(stmts) >= 4 and stmts[0] == 'let filesz: FileSz = self.filesz();' and stmts[1] == 'let fo_end: FileOffset = filesz as FileOffset;',
         f'{W}: the function does not begin with `filesz = self.filesz(); fo_end = filesz as FileOffset`: {stmts[:2]!r}')
    need(stmts[-1] == 'ResultS3SyslineFind::Done', f'{W}: the value after the loop is not `Done`: {stmts[-1]!r}')
    need(stmts[-2].startswith('loop {'), f'{W}: the statement before the result is not the loop: {stmts[-2][:80]!r}')
    init = []
    saw_opt = False
    for s in stmts[2:-2]:
        if s == 'let mut syslinep_opt: Option<SyslineP> = None;':
            saw_opt = True
            continue
        m = re.fullmatch(r'let mut (\w+): FileOffset = (.*);', s)
        need(m is not None and m.group(1) in cursors, f'{W}: prologue statement outside the known shapes: {s!r}')
        e, ment = parse_expr(ctx, m.group(2))
        need(not (ment & {'sysline', 'fo'}), f'{W}: prologue mentions a sysline: {s!r}')
        undefined = (ment & set(cursors)) - {c for c, _ in init}
        need(not undefined, f'{W}: prologue uses {sorted(undefined)} before it is initialised: {s!r}')
        need(m.group(1) not in [c for c, _ in init], f'{W}: cursor {m.group(1)} initialised twice')
        init.append((m.group(1), e))
    need(saw_opt, f'{W}: `let mut syslinep_opt: Option<SyslineP> = None;` not found in the prologue')
    need(sorted(c for c, _ in init) == sorted(cursors), f'{W}: prologue initialises {sorted(c for c, _ in init)}, expected the four cursors')

    # ---- loop body
    loop = split_stmts(block_of(stmts[-2], r'loop', W), W)
    need(len(loop) >= 4, f'{W}: loop body has {len(loop)} statements')
    m = re.fullmatch(r'let result: ResultS3SyslineFind = self\.find_sysline\((.*)\);', loop[0])
    need(m is not None, f'{W}: loop does not start with `let result = self.find_sysline(..)`: {loop[0]!r}')
    probe, ment = parse_expr(ctx, m.group(1))
    need(not (ment & {'sysline', 'fo'}), f'{W}: probe offset mentions a sysline')
    need(loop[1] == 'let done = result.is_done();', f'{W}: second loop statement is not `let done = result.is_done();`: {loop[1]!r}')
    ctx.allow_done = True
    top = dict()
    for p, v in arms_of(block_of(loop[2], r'match result', W)):
        need(p not in top, f'{W}: `match result` arm {p!r} twice')
        top[p] = v
    need(sorted(top) == sorted(['ResultS3SyslineFind::Found((fo, syslinep))', 'ResultS3SyslineFind::Done', 'ResultS3SyslineFind::Err(_err)']),
         f'{W}: arms of `match result` left the expected shape: {sorted(top)!r}')
    need(top['ResultS3SyslineFind::Err(_err)'] == 'break;', f'{W}: the Err arm is not `break;`: {top["ResultS3SyslineFind::Err(_err)"]!r}')
    # Found arm: the inner match, then `syslinep_opt = Some(syslinep);`
    fst = split_stmts(top['ResultS3SyslineFind::Found((fo, syslinep))'], W + ' (Found arm)')
    need(len(fst) in (1, 2) and fst[0].startswith('match SyslineReader::sysline_dt_after_or_before(&syslinep, dt_filter)'),
         f'{W}: the Found arm is not `match sysline_dt_after_or_before(&syslinep, dt_filter) {{..}}` [+ `syslinep_opt = Some(syslinep);`]: {[x[:60] for x in fst]!r}')
    sets_last = False
    if len(fst) == 2:
        need(fst[1] == 'syslinep_opt = Some(syslinep);', f'{W}: Found arm: unexpected statement after the inner match: {fst[1]!r}')
        sets_last = True
    inner = f1_arms(block_of(fst[0], r'match SyslineReader::sysline_dt_after_or_before\(&syslinep, dt_filter\)', W), W)
    arms = {}
    for v in F1:
        ctx.where = f'{W} ({v} arm)'
        arms[v] = parse_stmts(ctx, inner[v], allow_sysline=True)
    ctx.where = f'{W} (Done arm)'
    done_arm = parse_stmts(ctx, top['ResultS3SyslineFind::Done'], allow_sysline=False, allow_return=False)
    ctx.where = W

    # ---- the exit chain after the match
    exits = []
    rest = loop[3:]
    need(rest and rest[0].startswith('if '), f'{W}: the statement after `match result` is not the exit test: {rest[0][:80]!r}')
    chain = rest[0]
    while True:
        b = chain.find('{')
        e = match_close(chain, b)
        cond, ment = parse_cond(ctx, chain[3:b].strip())
        need('sysline' not in ment and 'fo' not in ment, f'{W}: exit test mentions a sysline: {chain[:b]!r}')
        act = chain[b + 1:e].strip()
        need(act in ('break;', 'continue;'), f'{W}: exit action is neither `break;` nor `continue;`: {act!r}')
        exits.append((cond, '.brk' if act == 'break;' else '.cont'))
        tail = chain[e + 1:].strip()
        if tail == '':
            break
        need(tail.startswith('else if '), f'{W}: exit chain continues with {tail[:40]!r} (an `else` block is outside the grammar)')
        chain = tail[5:]
    rest = rest[1:]

    # ---- convergence
    ctx.allow_done = False
    need(rest and rest[0] == 'let mut syslinep = syslinep_opt.unwrap();', f'{W}: convergence does not start with `let mut syslinep = syslinep_opt.unwrap();`: {rest[0][:80]!r}')
    rest = rest[1:]
    conv_exits = []
    refind = None
    final = None
    cctx = Ctx(W + ' (convergence)', {k: v for k, v in ctx.names.items() if k != 'fo'}, {}, next_expr)
    rest = [s for s in rest if not s.startswith(DEBUG_FN)]
    for k, s in enumerate(rest):
        m = re.fullmatch(r'let (\w+): FileOffset = (.*);', s)
        if m:
            e, ment = parse_expr(cctx, m.group(2))
            need(refind is None or m.group(1) == 'fo_', f'{W}: alias {m.group(1)} after the re-find block')
            cctx.names[m.group(1)] = f'({e})' if ' ' in e else e
            continue
        if s.startswith('if ') and refind is None and s.rstrip().endswith('{ return ResultS3SyslineFind::Done; }'):
            b = s.find('{')
            c, _ = parse_cond(cctx, s[3:b].strip())
            conv_exits.append((c, '.retDone'))
            continue
        if s.startswith('if ') and refind is None:
            refind = gen_refind(cctx, s, W)
            continue
        m = re.fullmatch(r'return ResultS3SyslineFind::Found\(\((\w+), syslinep\)\);', s)
        if m:
            need(k == len(rest) - 1 and refind is not None, f'{W}: `return Found` is not the last statement of the loop / precedes the re-find block')
            final, _ = parse_expr(cctx, m.group(1))
            continue
        raise GenError(f'{W}: convergence statement outside the known shapes: {s[:160]!r}')
    need(refind is not None and final is not None, f'{W}: convergence part incomplete (re-find block / final return missing)')
    return dict(init=init, probe=probe, arms=arms, sets_last=sets_last, done_arm=done_arm, exits=exits,
                conv_exits=conv_exits, refind=refind, final=final)


def gen_refind(cctx, s, W):
    """`if <c> { let syslinep_next = match self.find_sysline(<e>) {..}; let a = dt_after_or_before(cur); let b = …(next);
    syslinep = match (a, b) { table }; } else { }` -> (cond, offset expr, table rows)"""
    b = s.find('{')
    e = match_close(s, b)
    cond, _ = parse_cond(cctx, s[3:b].strip())
    tail = s[e + 1:].strip()
    need(re.fullmatch(r'(else \{ ?\})?', tail) is not None, f'{W}: the re-find `if` has a non-empty else: {tail[:80]!r}')
    st = split_stmts(s[b + 1:e].strip(), W + ' (re-find)')
    need(len(st) == 4, f'{W}: re-find block is not 4 statements: {[x[:50] for x in st]!r}')
    m = re.match(r'let syslinep_next: SyslineP = match self\.find_sysline\((.*?)\) \{', st[0])
    need(m is not None, f'{W}: re-find: first statement is not `let syslinep_next = match self.find_sysline(..)`: {st[0][:100]!r}')
    at, _ = parse_expr(cctx, m.group(1))
    arms = dict(arms_of(block_of(st[0].rstrip(';').rstrip(), r'let syslinep_next: SyslineP = match self\.find_sysline\(.*?\)', W)))
    need(arms == {'ResultS3SyslineFind::Found((_, syslinep_))': 'syslinep_', 'ResultS3SyslineFind::Done': 'break;', 'ResultS3SyslineFind::Err(_err)': 'break;'},
         f'{W}: re-find: arms of the find_sysline match left the expected shape: {arms!r}')
    need(st[1] == 'let syslinep_compare = dt_after_or_before(&(*syslinep).dt(), dt_filter);', f'{W}: re-find: {st[1]!r}')
    need(st[2] == 'let syslinep_next_compare = dt_after_or_before(&(*syslinep_next).dt(), dt_filter);', f'{W}: re-find: {st[2]!r}')
    inner = block_of(st[3].rstrip(';').rstrip(), r'syslinep = match \(syslinep_compare, syslinep_next_compare\)', W)
    rows = []

    def pat1(x):
        x = x.strip()
        if x == '_':
            return 'none'
        mm = re.fullmatch(r'Result_Filter_DateTime1::(\w+)', x)
        need(mm is not None and mm.group(1) in F1, f'{W}: decision table: pattern component {x!r}')
        return f'some .{mm.group(1)}'
    for p, v in arms_of(inner):
        act = {'syslinep_next': '.next', 'syslinep': '.cur', 'break;': '.brk'}.get(v)
        need(act is not None, f'{W}: decision table: arm value {v!r} is none of `syslinep`, `syslinep_next`, `break;`')
        alts = [a.strip() for a in re.split(r'\|(?![^()]*\))', p)]
        for a in alts:
            if a == '_':
                rows.append(('none', 'none', act))
                continue
            mm = re.fullmatch(r'\((.*), (.*)\)', a)
            need(mm is not None, f'{W}: decision table: pattern {a!r} is not a pair')
            rows.append((pat1(mm.group(1)), pat1(mm.group(2)), act))
    need(rows and rows[-1][:2] == ('none', 'none') or len(rows) >= 9, f'{W}: decision table has no catch-all arm')
    return cond, at, rows


# ---------------------------------------------------------------- linear search

def gen_lsearch(sr, next_expr):
    W = f'{SR}::find_sysline_at_datetime_filter_linear_search'
    need(len(re.findall(r'\bfn find_sysline_at_datetime_filter_linear_search\b', sr)) == 1, f'{W}: not exactly one definition')
    sig, body, _ = find_fn(sr, 'find_sysline_at_datetime_filter_linear_search')
    need(flat(sig) == 'fn find_sysline_at_datetime_filter_linear_search(&mut self, fileoffset: FileOffset, dt_filter: &DateTimeLOpt) -> ResultS3SyslineFind',
         f'{W}: signature changed: {flat(sig)!r}')
    st = split_stmts(flat(body), W)
    need(len(st) == 3 and st[2] == 'ResultS3SyslineFind::Done' and st[1].startswith('loop {'),
         f'{W}: body is not `let mut fo_cursor = ..; loop {{..}} Done`: {[x[:50] for x in st]!r}')
    ctx = Ctx(W, {'fileoffset': '.v .fileoffset', 'fo_cursor': '.v .foCursor', 'fo': '.v .fo'}, {'fo_cursor': 'foCursor'}, next_expr)
    m = re.fullmatch(r'let mut fo_cursor: FileOffset = (.*);', st[0])
    need(m is not None, f'{W}: first statement: {st[0]!r}')
    init, ment = parse_expr(ctx, m.group(1))
    need(ment <= {'fileoffset'}, f'{W}: initial cursor mentions {sorted(ment)}')
    loop = split_stmts(block_of(st[1], r'loop', W), W)
    need(len(loop) == 1, f'{W}: loop body is not a single match: {[x[:50] for x in loop]!r}')
    m = re.match(r'match self\.find_sysline\((.*?)\) \{', loop[0])
    need(m is not None, f'{W}: loop body is not `match self.find_sysline(..)`: {loop[0][:80]!r}')
    probe, _ = parse_expr(ctx, m.group(1))
    top = dict(arms_of(block_of(loop[0], r'match self\.find_sysline\(.*?\)', W)))
    need(sorted(top) == sorted(['ResultS3SyslineFind::Found((fo, syslinep))', 'ResultS3SyslineFind::Done', 'ResultS3SyslineFind::Err(err)']),
         f'{W}: arms of the find_sysline match: {sorted(top)!r}')
    need(top['ResultS3SyslineFind::Done'] == 'break;', f'{W}: Done arm is not `break;`: {top["ResultS3SyslineFind::Done"]!r}')
    need(top['ResultS3SyslineFind::Err(err)'] in ('return ResultS3SyslineFind::Err(err)', 'return ResultS3SyslineFind::Err(err);'),
         f'{W}: Err arm is not `return Err(err)`: {top["ResultS3SyslineFind::Err(err)"]!r}')
    fst = split_stmts(top['ResultS3SyslineFind::Found((fo, syslinep))'], W)
    need(len(fst) == 1, f'{W}: Found arm is not a single match')
    inner = f1_arms(block_of(fst[0], r'match SyslineReader::sysline_dt_after_or_before\(&syslinep, dt_filter\)', W), W)
    arms = {}
    for v in F1:
        ctx.where = f'{W} ({v} arm)'
        ss = parse_stmts(ctx, inner[v], allow_sysline=True)
        need(len(ss) == 1, f'{ctx.where}: expected exactly one effective statement, found {ss!r}')
        if ss[0] == '.retFound':
            arms[v] = '.retFound'
        else:
            mm = re.fullmatch(r'\.assign \.foCursor \((.*)\)', ss[0])
            need(mm is not None, f'{ctx.where}: neither `return Found` nor `fo_cursor = ..`: {ss[0]!r}')
            arms[v] = f'.advance ({mm.group(1)})'
    return dict(init=init, probe=probe, arms=arms)


# ---------------------------------------------------------------- find_sysline_year: part A / part B

def gen_find(sr, charsz):
    """the two line walks of `find_sysline_year` -> dict for `findA : ASkel`, `findB : PSkel`"""
    W = f'{SR}::find_sysline_year'
    need(len(re.findall(r'\bfn find_sysline_year\b', sr)) == 1, f'{W}: not exactly one definition')
    sig, body, _ = find_fn(sr, 'find_sysline_year')
    need(flat(sig) == 'fn find_sysline_year(&mut self, fileoffset: FileOffset, year_opt: &Option<Year>) -> ResultS3SyslineFind',
         f'{W}: signature changed: {flat(sig)!r}')
    st = split_stmts(flat(body), W)
    pro = ['if self.fileoffset_last > fileoffset && self.is_streamed_file() { }',
           'if let Some(result) = self.check_store(fileoffset) { return result; }',
           'let charsz_fo: FileOffset = self.charsz() as FileOffset;',
           'let mut fo_zero_tried: bool = false;',
           'let mut _fo_a: FileOffset = 0;',
           'let mut fo_a_max: FileOffset = 0;',
           'let mut fo1: FileOffset = fileoffset;',
           'let mut sysline: Sysline;']
    epi = ['let syslinep: SyslineP = self.insert_sysline(sysline);',
           'if self.find_sysline_lru_cache_enabled { self.find_sysline_lru_cache_put += 1; self.find_sysline_lru_cache.put(fileoffset, ResultS3SyslineFind::Found((fo_b, syslinep.clone()))); }',
           'SyslineReader::debug_assert_gt_fo_syslineend(&fo_b, &syslinep);',
           'ResultS3SyslineFind::Found((fo_b, syslinep))']
    need(len(st) == len(pro) + 3 + len(epi), f'{W}: expected {len(pro)} prologue statements, loop A, `fo_b = ..`, loop B and {len(epi)} epilogue statements; found {len(st)}')
    for got, want in zip(st, pro):
        need(got == want, f'{W}: prologue statement {got!r} is not {want!r}')
    for got, want in zip(st[-len(epi):], epi):
        need(got == want, f'{W}: epilogue statement {got!r} is not {want!r}')
    names = {'fo1': '.v .fo1', 'fo_a_max': '.v .foAMax', 'fo2': '.v .fo2', 'charsz_fo': '.v .charsz', 'fileoffset': '.v .fileoffset'}
    ctx = Ctx(W + ' (part A)', names, {'fo1': 'fo1', 'fo_a_max': 'foAMax'}, None)

    def aexpr(text):
        text = text.replace('(self.charsz() as FileOffset)', 'charsz_fo').replace('sysline.fileoffset_end()', '__line_end')
        text = text.replace('(*linep).fileoffset_begin()', '__line_beg')
        e, _ = parse_expr(ctx, text)
        return e

    ctx.names['__line_end'] = '.v .lineEnd'
    ctx.names['__line_beg'] = '.v .lineBeg'
    FIND = 'let result: ResultS3LineFind = self.linereader.find_line(fo1);'
    PARSE = 'let result: ResultParseDateTime = self.parse_datetime_in_line_cached(&linep, self.charsz(), year_opt);'
    # ---- loop A
    la = split_stmts(block_of(st[len(pro)], r'loop', W), W + ' (part A)')
    need(len(la) == 7, f'{W}: part A loop has {len(la)} statements, expected 7')
    need(la[0] == FIND, f'{W}: part A: {la[0]!r}')
    arms = dict(arms_of(block_of(la[1].rstrip(';').rstrip(), r'let \(fo2, linep\) = match result', W)))
    need(arms == {'ResultS3LineFind::Found((fo_, linep_))': '(fo_, linep_)',
                  'ResultS3LineFind::Done': 'if self.find_sysline_lru_cache_enabled { self.find_sysline_lru_cache_put += 1; self.find_sysline_lru_cache.put(fileoffset, ResultS3SyslineFind::Done); } return ResultS3SyslineFind::Done;',
                  'ResultS3LineFind::Err(err)': 'return ResultS3SyslineFind::Err(err);'},
         f'{W}: part A: arms of the find_line match left the expected shape: {arms!r}')
    m = re.fullmatch(r'fo_a_max = (.*);', la[2])
    need(m is not None, f'{W}: part A: third statement is not `fo_a_max = ..`: {la[2]!r}')
    max_update = aexpr(m.group(1))
    need(la[3] == PARSE, f'{W}: part A: {la[3]!r}')
    arms = dict(arms_of(block_of(la[4], r'match result', W)))
    need(sorted(arms) == ['Err(_)', 'Ok((dt_beg, dt_end, dt, _index))'] and arms['Err(_)'] == '', f'{W}: part A: arms of the parse match: {arms!r}')
    ok = split_stmts(arms['Ok((dt_beg, dt_end, dt, _index))'], W)
    need(len(ok) == 5 and ok[0] == '_fo_a = fo1;' and ok[1] == 'sysline = Sysline::new_no_lines(dt_beg, dt_end, dt);' and ok[2] == 'sysline.push(linep);' and ok[4] == 'break;',
         f'{W}: part A: the Ok arm left the expected shape: {ok!r}')
    m = re.fullmatch(r'fo1 = (.*);', ok[3])
    need(m is not None, f'{W}: part A: Ok arm: {ok[3]!r}')
    found_next = aexpr(m.group(1))
    need(la[5] == 'let line_beg: FileOffset = (*linep).fileoffset_begin();', f'{W}: part A: {la[5]!r}')
    ctx.names['line_beg'] = '.v .lineBeg'

    def simple(s):
        if s == 'fo_zero_tried = true;':
            return '.setZeroTried'
        m = re.fullmatch(r'fo1 = (.*);', s)
        need(m is not None, f'{W}: part A: walk-back statement outside the known shapes: {s!r}')
        return f'.setFo1 ({aexpr(m.group(1))})'

    def acond(c):
        if c == 'fo_zero_tried':
            return '.zeroTried'
        e, _ = parse_cond(ctx, c)
        return e

    def stmts(text):
        out = []
        for s in split_stmts(text, W + ' (part A)'):
            m = re.match(r'if self\.syslines_by_range\.contains_key\(&(\w+)\) \{', s)
            if m:
                inner = block_of(s, r'if self\.syslines_by_range\.contains_key\(&\w+\)', W)
                out.append(f'.ifStored ({aexpr(m.group(1))}) [' + ', '.join(simple(x) for x in split_stmts(inner, W)) + ']')
            else:
                need(not s.startswith('if '), f'{W}: part A: nested `if` outside the known shape: {s[:100]!r}')
                out.append(f'.simple ({simple(s)})')
        return '[' + ', '.join(out) + ']'

    chain = []
    rest = la[6]
    need(rest.startswith('if '), f'{W}: part A: last statement is not the walk-back chain: {rest[:80]!r}')
    while True:
        if rest.startswith('if '):
            b = rest.find('{')
            e = match_close(rest, b)
            chain.append((f'some ({acond(rest[3:b].strip())})', stmts(rest[b + 1:e].strip())))
            tail = rest[e + 1:].strip()
            if tail == '':
                break
            need(tail.startswith('else '), f'{W}: part A: chain continues with {tail[:40]!r}')
            rest = tail[5:].strip()
        else:
            need(rest.startswith('{'), f'{W}: part A: else without a block')
            e = match_close(rest, 0)
            need(rest[e + 1:].strip() == '', f'{W}: part A: text after the else block')
            chain.append(('none', stmts(rest[1:e].strip())))
            break
    # ---- part B
    need(st[len(pro) + 1] == 'let mut fo_b: FileOffset = fo1;', f'{W}: `let mut fo_b: FileOffset = fo1;` expected between the loops: {st[len(pro) + 1]!r}')
    lb = split_stmts(block_of(st[len(pro) + 2], r'loop', W), W + ' (part B)')
    need(len(lb) == 6 and lb[0] == FIND and lb[2] == PARSE, f'{W}: part B loop left the expected shape: {[x[:60] for x in lb]!r}')
    arms = dict(arms_of(block_of(lb[1].rstrip(';').rstrip(), r'let \(fo2, linep\) = match result', W)))
    need(arms == {'ResultS3LineFind::Found((fo_, linep_))': '(fo_, linep_)', 'ResultS3LineFind::Done': 'break;',
                  'ResultS3LineFind::Err(err)': 'return ResultS3SyslineFind::Err(err);'}, f'{W}: part B: arms of the find_line match: {arms!r}')
    arms = dict(arms_of(block_of(lb[3], r'match result', W)))
    need(sorted(arms) == ['Err(_)', 'Ok(_)'], f'{W}: part B: arms of the parse match: {sorted(arms)!r}')
    bctx = Ctx(W + ' (part B)', {'fo1': '.v .fo1', 'fo2': '.v .fo2', 'fo_b': '.v .foB', 'charsz_fo': '.v .charsz'}, {}, None)

    def bstmts(text):
        out = []
        for s in split_stmts(text, W + ' (part B)'):
            if s == 'sysline.push(linep);':
                out.append('.push')
            elif s == 'break;':
                out.append('.brk')
            else:
                m = re.fullmatch(r'(fo1|fo_b) = (.*);', s)
                need(m is not None, f'{W}: part B: statement outside the known shapes: {s!r}')
                e, _ = parse_expr(bctx, m.group(2))
                out.append(f'.{"setFo1" if m.group(1) == "fo1" else "setFoB"} ({e})')
        return '[' + ', '.join(out) + ']'
    return dict(max_update=max_update, found_next=found_next, chain=chain,
                b_nodt=bstmts(arms['Err(_)']), b_dt=bstmts(arms['Ok(_)']), b_tail=bstmts(' '.join(lb[4:])))


# ---------------------------------------------------------------- between / dispatch / wrappers

def gen_choice(sr, fn, recv):
    """`if <recv>.is_streamed_file() { [result =] self.…_linear_search(fileoffset, X) } else { …binary… }`
    -> (search when streamed, search when not, filter name)"""
    W = f'{SR}::{fn}'
    _, body, _ = find_fn(sr, fn)
    f = flat(body)
    m = re.search(r'if (!? ?)' + re.escape(recv) + r'\.is_streamed_file\(\) \{ (?:result = )?self\.find_sysline_at_datetime_filter_(linear|binary)_search\(fileoffset, (\w+)\);? \} '
                  r'else \{ (?:result = )?self\.find_sysline_at_datetime_filter_(linear|binary)_search\(fileoffset, (\w+)\);? \}', f)
    need(m is not None, f'{W}: choice of search left the expected shape')
    need(m.group(3) == m.group(5), f'{W}: the two branches pass different filters')
    need(len(re.findall(r'_search\(', f)) == 2 and len(re.findall(r'is_streamed_file', f)) == 1, f'{W}: further search calls / is_streamed_file tests')
    a, b = m.group(2), m.group(4)
    if m.group(1).strip():
        a, b = b, a
    return a, b, m.group(3), f, m


def gen_between(sr):
    W = f'{SR}::find_sysline_between_datetime_filters'
    sig, _, _ = find_fn(sr, 'find_sysline_between_datetime_filters')
    need(flat(sig) == 'fn find_sysline_between_datetime_filters(&mut self, fileoffset: FileOffset, dt_filter_after: &DateTimeLOpt, dt_filter_before: &DateTimeLOpt) -> ResultS3SyslineFind',
         f'{W}: signature changed: {flat(sig)!r}')
    when_streamed, when_plain, flt, f, m = gen_choice(sr, 'find_sysline_between_datetime_filters', 'self')
    need(flt in ('dt_filter_after', 'dt_filter_before'), f'{W}: the search is given `{flt}`')
    st = split_stmts(f, W)
    need(len(st) == 4 and st[0] == 'let result: ResultS3SyslineFind;' and st[1].startswith('if ') and st[2].startswith('match result {') and st[3] == 'ResultS3SyslineFind::Done',
         f'{W}: body is not `let result; if..else..; match result {{..}}; Done`: {[x[:40] for x in st]!r}')
    top = dict(arms_of(block_of(st[2], r'match result', W)))
    need(sorted(top) == sorted(['ResultS3SyslineFind::Found((fo, syslinep))', 'ResultS3SyslineFind::Done', 'ResultS3SyslineFind::Err(err)']),
         f'{W}: arms of `match result`: {sorted(top)!r}')
    need(top['ResultS3SyslineFind::Done'] == '', f'{W}: Done arm is not empty: {top["ResultS3SyslineFind::Done"]!r}')
    need(top['ResultS3SyslineFind::Err(err)'] == 'return ResultS3SyslineFind::Err(err);', f'{W}: Err arm: {top["ResultS3SyslineFind::Err(err)"]!r}')
    fst = split_stmts(top['ResultS3SyslineFind::Found((fo, syslinep))'], W)
    need(len(fst) == 1, f'{W}: Found arm is not a single match')
    mm = re.match(r'match Self::sysline_pass_filters\(&syslinep, (\w+), (\w+)\) \{', fst[0])
    need(mm is not None, f'{W}: Found arm is not `match Self::sysline_pass_filters(&syslinep, .., ..)`: {fst[0][:100]!r}')
    args = (mm.group(1), mm.group(2))
    need(sorted(args) == ['dt_filter_after', 'dt_filter_before'], f'{W}: sysline_pass_filters is given {args}')
    acts = {}
    for p, v in arms_of(block_of(fst[0], r'match Self::sysline_pass_filters\(&syslinep, \w+, \w+\)', W)):
        for alt in p.split('|'):
            m2 = re.fullmatch(r'\s*Result_Filter_DateTime2::(\w+)\s*', alt)
            need(m2 is not None and m2.group(1) in F2 and m2.group(1) not in acts, f'{W}: window arm pattern {alt.strip()!r}')
            ss = [x for x in split_stmts(v, W) if not x.startswith(DEBUG_FN)]
            act = {RET_FOUND: '.retFound', 'return ResultS3SyslineFind::Done;': '.retDone'}.get(ss[0] if len(ss) == 1 else None)
            need(act is not None, f'{W}: {m2.group(1)} arm is neither `return Found((fo, syslinep))` nor `return Done`: {v[:100]!r}')
            acts[m2.group(1)] = act
    need(sorted(acts) == sorted(F2), f'{W}: window match covers {sorted(acts)}')
    return dict(when_streamed=when_streamed, when_plain=when_plain, search_after=(flt == 'dt_filter_after'),
                pass_in_order=(args == ('dt_filter_after', 'dt_filter_before')), acts=acts)


def pin_wrappers(sr, sl, lr, br):
    _, b, _ = find_fn(sr, 'sysline_dt_after_or_before')
    need(flat(b) == 'let dt: &DateTimeL = (*syslinep).dt(); dt_after_or_before(dt, dt_filter)',
         f'{SR}::sysline_dt_after_or_before is no longer a plain forward to dt_after_or_before: {flat(b)!r}')
    _, b, _ = find_fn(sr, 'sysline_pass_filters')
    need(flat(b) == 'let dt: &DateTimeL = (*syslinep).dt(); let result: Result_Filter_DateTime2 = dt_pass_filters(dt, dt_filter_after, dt_filter_before); result',
         f'{SR}::sysline_pass_filters is no longer a plain forward to dt_pass_filters: {flat(b)!r}')
    sig, _, _ = find_fn(sr, 'sysline_pass_filters')
    need(flat(sig) == 'fn sysline_pass_filters(syslinep: &SyslineP, dt_filter_after: &DateTimeLOpt, dt_filter_before: &DateTimeLOpt) -> Result_Filter_DateTime2',
         f'{SR}::sysline_pass_filters: signature changed')
    _, b, _ = find_fn(sr, 'debug_assert_gt_fo_syslineend')
    need(flat(b) == '', f'{SR}::debug_assert_gt_fo_syslineend does more than debug assertions: {flat(b)!r}')
    _, b, _ = find_fn(sr, 'is_sysline_last')
    need(flat(b) == 'let fo_end: FileOffset = sysline.fileoffset_end(); if fo_end == self.fileoffset_last() { return true; } false',
         f'{SR}::is_sysline_last left the expected shape: {flat(b)!r}')
    _, b, _ = find_fn(sr, 'fileoffset_last')
    need(flat(b) == 'self.linereader.fileoffset_last()', f'{SR}::fileoffset_last is no longer a plain forward')
    _, b, _ = find_fn(lr, 'fileoffset_last')
    need(flat(b) == 'self.blockreader.fileoffset_last()', 'linereader.rs::fileoffset_last is no longer a plain forward')
    _, b, _ = find_fn(br, 'fileoffset_last')
    need(flat(b) == '(self.filesz() - 1) as FileOffset', f'blockreader.rs::fileoffset_last is not `filesz() - 1`: {flat(b)!r}')
    # Sysline::fileoffset_next = fileoffset_end() + CHARSZ
    _, b, _ = find_fn(sl, 'fileoffset_next')
    need(flat(b) == 'self.fileoffset_end() + (self.charsz() as FileOffset)', f'sysline.rs::fileoffset_next left the expected shape: {flat(b)!r}')
    _, b, _ = find_fn(sl, 'charsz')
    need(flat(b) == 'Sysline::CHARSZ', f'sysline.rs::charsz left the expected shape: {flat(b)!r}')
    m = re.search(r'\bconst CHARSZ: usize = (\d+);', sl)
    need(m is not None, 'sysline.rs: const CHARSZ not found')
    # SyslineReader::charsz() -> LineReader::charsz() -> charsz_ (initialised to CHARSZ = CHARSZ_MIN)
    _, b, _ = find_fn(sr, 'charsz')
    need(flat(b) == 'self.linereader.charsz()', f'{SR}::charsz is no longer a plain forward')
    _, b, _ = find_fn(lr, 'charsz')
    need(flat(b) == 'self.charsz_', 'linereader.rs::charsz is no longer `self.charsz_`')
    need(len(re.findall(r'\bcharsz_:', lr)) == 2 and re.search(r'\bcharsz_: CHARSZ,', lr) is not None and 'self.charsz_ =' not in lr,
         'linereader.rs: `charsz_` is no longer initialised to CHARSZ once and never assigned')
    need(re.search(r'\bconst CHARSZ: CharSz = CHARSZ_MIN;', lr) is not None, 'linereader.rs: const CHARSZ is not CHARSZ_MIN')
    m2 = re.search(r'\bconst CHARSZ_MIN: CharSz = (\d+);', lr)
    need(m2 is not None, 'linereader.rs: const CHARSZ_MIN not found')
    global READER_CHARSZ
    READER_CHARSZ = int(m2.group(1))
    return int(m.group(1))


def generate(repo):
    sr = strip_comments(open(os.path.join(repo, 'src/readers/syslinereader.rs')).read())
    sl = strip_comments(open(os.path.join(repo, 'src/data/sysline.rs')).read())
    lr = strip_comments(open(os.path.join(repo, 'src/readers/linereader.rs')).read())
    br = strip_comments(open(os.path.join(repo, 'src/readers/blockreader.rs')).read())
    dd = strip_comments(open(os.path.join(repo, 'src/data/datetime.rs')).read())
    for name, want in (('Result_Filter_DateTime1', F1), ('Result_Filter_DateTime2', F2)):
        m = re.search(r'\bpub enum ' + name + r'\s*\{', dd)
        need(m is not None, f'datetime.rs: enum {name} not found')
        e = match_close(dd, m.end() - 1)
        got = [re.sub(r'#\[[^\]]*\]', '', v).strip() for v in dd[m.end():e].split(',')]
        need([v for v in got if v] == want, f'datetime.rs: {name} variants changed: {got}')

    charsz = pin_wrappers(sr, sl, lr, br)
    next_expr = f'.add (.v .slEnd) (.lit {charsz})'
    B = gen_bsearch(sr, next_expr)
    Ls = gen_lsearch(sr, next_expr)
    Wn = gen_between(sr)
    Fd = gen_find(sr, charsz)
    a, b, flt, _, _ = gen_choice(sr, 'find_sysline_at_datetime_filter', 'self.linereader.blockreader')
    need(flt == 'dt_filter', f'{SR}::find_sysline_at_datetime_filter passes `{flt}`')
    at_linear_iff_streamed = (a == 'linear' and b == 'binary')

    def bl(x):
        return 'true' if x else 'false'

    def jl(xs):
        return lean_list([f'({c}, {j})' for c, j in xs])

    L = ['-- GENERATED by /verif/gen/s4gen.py (gen_search.py) from src/readers/syslinereader.rs, src/data/sysline.rs — do not edit',
         'import S4V.Gen.Filter',
         'namespace S4V.Gen.Search',
         'open S4V.Gen.Filter (Result_Filter_DateTime1 Result_Filter_DateTime2)',
         '',
         '/-! ### the skeleton language -/',
         '',
         '/-- the assignable cursors of the binary search -/',
         'inductive Cur where',
         '  | tryFo | tryFoLast | foA | foB',
         '  deriving DecidableEq, Repr, Inhabited',
         '',
         '/-- what an offset expression may mention: a cursor, the argument `fileoffset`, `fo_end` (= `filesz()`),',
         '`fo` (the next offset returned with the sysline in scope), that sysline\'s `fileoffset_begin()` /',
         '`fileoffset_end()`, the linear search\'s `fo_cursor` -/',
         'inductive Var where',
         '  | cur (c : Cur) | fileoffset | foEnd | fo | slBeg | slEnd | foCursor',
         '  deriving DecidableEq, Repr, Inhabited',
         '',
         '/-- `FileOffset` (u64) expressions; `sub` is where the source writes `-` -/',
         'inductive Expr where',
         '  | v (x : Var) | lit (n : Nat)',
         '  | add (a b : Expr) | sub (a b : Expr) | div (a b : Expr) | min (a b : Expr) | max (a b : Expr)',
         '  deriving DecidableEq, Repr, Inhabited',
         '',
         'inductive Cmp where',
         '  | eq | ne | lt | le | gt | ge',
         '  deriving DecidableEq, Repr, Inhabited',
         '',
         '/-- conditions: `done` (= `result.is_done()` of this iteration), `self.is_sysline_last(&syslinep)`,',
         'a comparison, `&&` -/',
         'inductive BExpr where',
         '  | done | isLast | cmp (op : Cmp) (l r : Expr) | and (a b : BExpr)',
         '  deriving DecidableEq, Repr, Inhabited',
         '',
         '/-- statements of a match arm, in source order: `cursor = e;`, a release-active `assert_*!` (its failure',
         'panics), `if c { return Found((fo, syslinep)); }`, `return Found((fo, syslinep));` -/',
         'inductive Stmt where',
         '  | assign (c : Cur) (e : Expr) | assert (c : BExpr) | retFoundIf (c : BExpr) | retFound',
         '  deriving DecidableEq, Repr, Inhabited',
         '',
         '/-- `break` (the loop is followed by `Done`), `continue`, `return Done` -/',
         'inductive Jump where',
         '  | brk | cont | retDone',
         '  deriving DecidableEq, Repr, Inhabited',
         '',
         '/-- value of an arm of the `(syslinep_compare, syslinep_next_compare)` table -/',
         'inductive Choice where',
         '  | cur | next | brk',
         '  deriving DecidableEq, Repr, Inhabited',
         '',
         'structure BSkel where',
         '  /-- `let mut <cursor> = <expr>;` of the prologue, in source order -/',
         '  init : List (Cur × Expr)',
         '  /-- `self.find_sysline(<probe>)` at the top of the loop -/',
         '  probe : Expr',
         '  /-- arms of `match sysline_dt_after_or_before(&syslinep, dt_filter)` -/',
         '  pass : List Stmt',
         '  atOrAfter : List Stmt',
         '  before : List Stmt',
         '  /-- `syslinep_opt = Some(syslinep);` follows the inner match -/',
         '  setsLast : Bool',
         '  /-- arm `ResultS3SyslineFind::Done` -/',
         '  doneArm : List Stmt',
         '  /-- the `if … { break; } else if … { continue; }` chain after `match result`, in source order;',
         '  when no test holds control falls into the convergence handling -/',
         '  exits : List (BExpr × Jump)',
         '  /-- convergence (`syslinep = syslinep_opt.unwrap()`): the `if … { return Done; }` tests, in source order -/',
         '  convExits : List (BExpr × Jump)',
         '  /-- `if <refindIf> { syslinep_next = find_sysline(<refindAt>) … }` -/',
         '  refindIf : BExpr',
         '  refindAt : Expr',
         '  /-- rows of `match (syslinep_compare, syslinep_next_compare)` in source order (`none` = `_`); first match wins -/',
         '  choose : List (Option Result_Filter_DateTime1 × Option Result_Filter_DateTime1 × Choice)',
         '  /-- `return Found((<finalNext>, syslinep))` -/',
         '  finalNext : Expr',
         '  deriving Repr',
         '',
         '/-- arm of the linear search: `return Found((fo, syslinep))` or `fo_cursor = <e>` -/',
         'inductive LArm where',
         '  | retFound | advance (e : Expr)',
         '  deriving DecidableEq, Repr, Inhabited',
         '',
         'structure LSkel where',
         '  init : Expr',
         '  probe : Expr',
         '  pass : LArm',
         '  atOrAfter : LArm',
         '  before : LArm',
         '  deriving Repr',
         '',
         'inductive SearchKind where',
         '  | linear | binary',
         '  deriving DecidableEq, Repr, Inhabited',
         '',
         '/-- value of an arm of `match Self::sysline_pass_filters(..)` -/',
         'inductive WAct where',
         '  | retFound | retDone',
         '  deriving DecidableEq, Repr, Inhabited',
         '',
         'structure WSkel where',
         '  /-- the search run when `self.is_streamed_file()` / otherwise -/',
         '  whenStreamed : SearchKind',
         '  whenPlain : SearchKind',
         '  /-- the search is given `dt_filter_after` (`false`: `dt_filter_before`) -/',
         '  searchWithAfter : Bool',
         '  /-- `sysline_pass_filters(&syslinep, dt_filter_after, dt_filter_before)` (`false`: the two swapped) -/',
         '  passInOrder : Bool',
         '  inRange : WAct',
         '  beforeRange : WAct',
         '  afterRange : WAct',
         '  deriving Repr',
         '',
         '/-! ### the skeletons of the current source -/',
         '',
         f'/-- `Sysline::CHARSZ`; `fileoffset_next() = fileoffset_end() + CHARSZ` is emitted as `{next_expr}` -/',
         f'def CHARSZ : Nat := {charsz}',
         '',
         '/-- `SyslineReader::find_sysline_at_datetime_filter_binary_search` -/',
         'def bsearch : BSkel where',
         '  init := ' + lean_list([f'(.{CUR_NAMES[c]}, {e})' for c, e in B['init']]),
         f'  probe := {B["probe"]}',
         '  pass := ' + lean_list(B['arms']['Pass']),
         '  atOrAfter := ' + lean_list(B['arms']['OccursAtOrAfter']),
         '  before := ' + lean_list(B['arms']['OccursBefore']),
         f'  setsLast := {bl(B["sets_last"])}',
         '  doneArm := ' + lean_list(B['done_arm']),
         '  exits := ' + jl(B['exits']),
         '  convExits := ' + jl(B['conv_exits']),
         f'  refindIf := {B["refind"][0]}',
         f'  refindAt := {B["refind"][1]}',
         '  choose := ' + lean_list([f'({a}, {b}, {c})' for a, b, c in B['refind'][2]]),
         f'  finalNext := {B["final"]}',
         '',
         '/-- the arm `ResultS3SyslineFind::Err(_)` of the probe is `break` (the function then returns `Done`) -/',
         'def BSEARCH_ERR_BREAKS : Bool := true',
         '/-- in the re-find block `find_sysline(..)` returning `Done` or `Err` is `break` -/',
         'def BSEARCH_REFIND_DONE_BREAKS : Bool := true',
         '',
         '/-- `SyslineReader::find_sysline_at_datetime_filter_linear_search`; `find_sysline` returning `Done` is',
         '`break` (→ `Done`), `Err(e)` is `return Err(e)` -/',
         'def lsearch : LSkel where',
         f'  init := {Ls["init"]}',
         f'  probe := {Ls["probe"]}',
         f'  pass := {Ls["arms"]["Pass"]}',
         f'  atOrAfter := {Ls["arms"]["OccursAtOrAfter"]}',
         f'  before := {Ls["arms"]["OccursBefore"]}',
         '',
         '/-- `SyslineReader::find_sysline_between_datetime_filters`; a search result `Done` gives `Done`, `Err(e)`',
         'gives `Err(e)` -/',
         'def between : WSkel where',
         f'  whenStreamed := .{Wn["when_streamed"]}',
         f'  whenPlain := .{Wn["when_plain"]}',
         f'  searchWithAfter := {bl(Wn["search_after"])}',
         f'  passInOrder := {bl(Wn["pass_in_order"])}',
         f'  inRange := {Wn["acts"]["InRange"]}',
         f'  beforeRange := {Wn["acts"]["BeforeRange"]}',
         f'  afterRange := {Wn["acts"]["AfterRange"]}',
         '',
         '/-! ### `find_sysline_year`: the two line walks -/',
         '',
         '/-- part A: `fo1`, `fo_a_max`, `fo2` (offset after the line just found), that line\'s begin / end, `charsz`,',
         'the argument `fileoffset`; part B also `fo_b` -/',
         'inductive AVar where',
         '  | fo1 | foAMax | fo2 | lineBeg | lineEnd | charsz | fileoffset | foB',
         '  deriving DecidableEq, Repr, Inhabited',
         '',
         'inductive AExpr where',
         '  | v (x : AVar) | lit (n : Nat)',
         '  | add (a b : AExpr) | sub (a b : AExpr) | div (a b : AExpr) | min (a b : AExpr) | max (a b : AExpr)',
         '  deriving DecidableEq, Repr, Inhabited',
         '',
         '/-- `fo_zero_tried`, a comparison -/',
         'inductive ACond where',
         '  | zeroTried | cmp (op : Cmp) (l r : AExpr) | and (a b : ACond)',
         '  deriving DecidableEq, Repr, Inhabited',
         '',
         '/-- `fo1 = e;` / `fo_zero_tried = true;` -/',
         'inductive ASimple where',
         '  | setFo1 (e : AExpr) | setZeroTried',
         '  deriving DecidableEq, Repr, Inhabited',
         '',
         '/-- … or `if self.syslines_by_range.contains_key(&<key>) { … }` (a stored message ends at `key`) -/',
         'inductive AStmt where',
         '  | simple (s : ASimple) | ifStored (key : AExpr) (body : List ASimple)',
         '  deriving DecidableEq, Repr, Inhabited',
         '',
         '/-- part A (find the line that starts the message). Per iteration: `find_line(fo1)` (`Done` → `Done`),',
         '`fo_a_max = <maxUpdate>`, parse; a line with a timestamp starts the sysline, `fo1 = <foundNext>`, `break`;',
         'otherwise `line_beg = linep.fileoffset_begin()` and the `if / else if / else` chain (`none` = `else`) -/',
         'structure ASkel where',
         '  maxUpdate : AExpr',
         '  foundNext : AExpr',
         '  chain : List (Option ACond × List AStmt)',
         '  deriving Repr',
         '',
         'inductive PStmt where',
         '  | push | brk | setFo1 (e : AExpr) | setFoB (e : AExpr)',
         '  deriving DecidableEq, Repr, Inhabited',
         '',
         '/-- part B (append the following lines without a timestamp); starts with `fo_b = fo1`. Per iteration:',
         '`find_line(fo1)` (`Done` → `break`), parse; `noDt` / `hasDt` are the arms of the parse match, `tail` follows it.',
         'The function returns `Found((fo_b, sysline))` -/',
         'structure PSkel where',
         '  noDt : List PStmt',
         '  hasDt : List PStmt',
         '  tail : List PStmt',
         '  deriving Repr',
         '',
         '/-- `SyslineReader::charsz()` = `LineReader::charsz_` = `CHARSZ` = `CHARSZ_MIN` (linereader.rs) -/',
         f'def READER_CHARSZ : Nat := {READER_CHARSZ}',
         '',
         'def findA : ASkel where',
         f'  maxUpdate := {Fd["max_update"]}',
         f'  foundNext := {Fd["found_next"]}',
         '  chain := ' + lean_list([f'({c}, {b})' for c, b in Fd['chain']]),
         '',
         'def findB : PSkel where',
         f'  noDt := {Fd["b_nodt"]}',
         f'  hasDt := {Fd["b_dt"]}',
         f'  tail := {Fd["b_tail"]}',
         '',
         '/-- `find_sysline_year` first consults `check_store(fileoffset)`; walks start at `fo1 = fileoffset`,',
         '`fo_a_max = 0`, `fo_zero_tried = false` -/',
         'def FIND_CHECKS_STORE_FIRST : Bool := true',
         '',
         '/-- `find_sysline_at_datetime_filter`: linear search iff `blockreader.is_streamed_file()` -/',
         f'def AT_LINEAR_IFF_STREAMED : Bool := {bl(at_linear_iff_streamed)}',
         '/-- `sysline_dt_after_or_before` / `sysline_pass_filters` forward to `dt_after_or_before(dt, f)` /',
         '`dt_pass_filters(dt, after, before)`; `debug_assert_gt_fo_syslineend` contains debug assertions only;',
         '`is_sysline_last(s)` is `s.fileoffset_end() == filesz() - 1` -/',
         'def WRAPPERS_ARE_FORWARDS : Bool := true',
         '',
         'end S4V.Gen.Search']
    info = {'bsearch_stmts': sum(len(B['arms'][v]) for v in F1) + len(B['done_arm']), 'exits': len(B['exits']),
            'choose_rows': len(B['refind'][2])}
    return '\n'.join(L) + '\n', info
