"""Generate S4V/Gen/Evtx.lean: the parts of `EvtxReader` (src/readers/evtxreader.rs) and of its driver
`exec_evtxprocessor` (src/bin/s4.rs) that `gen_keys` / `gen_summary` / `gen_worker` do not carry:

  * `EvtxReader::new` — the `ParserSettings` builder chain handed to `EvtxParser::with_configuration`
    (thread count argument, chunk checksum validation), where the parser is opened (the temporary file when
    the source was decompressed), the initial values of `error` / `out_of_order` / `analyzed` / `events`;
  * `EvtxReader::analyze` — the `Err(err)` arm of the record loop (does it keep the error text; does it go on
    with the next item, leave the loop, or return), the out-of-order counter block of the `Ok(record)` arm
    (comparison, position relative to the window filter) and `self.analyzed = true` after the loop;
    the `Ok(record)` arm's statistics / filter / store statements are `EVTX_ANALYZE` of `S4V.Gen.Summary`;
  * `EvtxReader::next` — which end of the map is popped;
  * `EvtxReader::summary` / `summary_complete` — which reader field each `SummaryEvtxReader` field reports
    (through the accessor functions), and that the kept error text is handed to `Summary::new`;
  * `exec_evtxprocessor` — the order of the calls on the reader and which start-data component is passed as
    which bound of `analyze` (the send skeleton itself is `workerEvtx` of `S4V.Gen.Worker`).

Every item is shape-checked; a source that leaves the shape raises GenError.
"""
import os
import re
from rs import GenError, strip_comments, find_fn, match_arms, match_close, split_top
from gen_path import strip_trace
from gen_summary import split_stmts, strip_macros, ws

EVR = 'src/readers/evtxreader.rs'
S4 = 'src/bin/s4.rs'

RDFIELD = {'events_processed': 'eventsProcessed', 'events_accepted': 'eventsAccepted',
           'ts_first_processed': 'tsFirstProcessed', 'ts_last_processed': 'tsLastProcessed',
           'ts_first_accepted': 'tsFirstAccepted', 'ts_last_accepted': 'tsLastAccepted',
           'filesz': 'filesz', 'out_of_order': 'outOfOrder'}
SUMFIELD = {'evtxreader_events_processed': 'processed', 'evtxreader_events_accepted': 'accepted',
            'evtxreader_datetime_first_processed': 'firstProcessed', 'evtxreader_datetime_last_processed': 'lastProcessed',
            'evtxreader_datetime_first_accepted': 'firstAccepted', 'evtxreader_datetime_last_accepted': 'lastAccepted',
            'evtxreader_filesz': 'filesz', 'evtxreader_out_of_order': 'outOfOrder'}
CMP = {'>': 'last > ts', '<': 'last < ts', '>=': 'last ≥ ts', '<=': 'last ≤ ts'}


def impl_fn(src, name):
    """body of `fn name` inside `impl<'a> EvtxReader`"""
    m = re.search(r"impl<'a>\s+EvtxReader\s*\{", src)
    if not m:
        raise GenError(f"{EVR}: `impl<'a> EvtxReader` not found")
    b = src.find('{', m.start())
    inner = src[b + 1:match_close(src, b)]
    if len(re.findall(r'\bfn\s+' + name + r'\b', inner)) != 1:
        raise GenError(f"{EVR}: not exactly one `fn {name}` in impl EvtxReader")
    _, body, _ = find_fn(inner, name)
    return body


def parser_settings(src):
    fn = 'EvtxReader::new'
    body = ws(strip_macros(impl_fn(src, 'new')))
    m = re.search(r'let settings = ParserSettings::default\(\)((?:\s*\.\s*\w+\s*\([^()]*\))*)\s*;', body)
    if not m:
        raise GenError(f"{fn}: `let settings = ParserSettings::default()<builder calls>;` not found")
    threads, validate = None, False     # evtx crate: `Default for ParserSettings` has validate_checksums: false
    seen = set()
    for name, arg in re.findall(r'\.\s*(\w+)\s*\(([^()]*)\)', m.group(1)):
        arg = arg.strip()
        if name in seen:
            raise GenError(f"{fn}: ParserSettings builder `{name}` called twice")
        seen.add(name)
        if name == 'num_threads' and re.fullmatch(r'\d+', arg):
            threads = int(arg)
        elif name == 'validate_checksums' and arg in ('true', 'false'):
            validate = arg == 'true'
        else:
            raise GenError(f"{fn}: ParserSettings builder call `.{name}({arg})` is outside the subset")
    if threads is None:
        raise GenError(f"{fn}: ParserSettings without `.num_threads(N)`")
    if len(re.findall(r'\bsettings\b', body)) != 2 or len(re.findall(r'\bParserSettings\b', body)) != 1:
        raise GenError(f"{fn}: `settings` is used other than `let settings = …` and `with_configuration(settings)`")
    if not re.search(r'let evtxparser: EvtxParser<File> = match EvtxParser::from_path\(&path_actual\) \{ '
                     r'Ok\(evtxparser\) => evtxparser\.with_configuration\(settings\), Err\(err\) => \{ return Err\(', body):
        raise GenError(f"{fn}: the parser is not `EvtxParser::from_path(&path_actual)` + `.with_configuration(settings)`")
    nostr = re.sub(r'"(?:\\.|[^"\\])*"', '""', body)
    if len(re.findall(r'\bwith_configuration\b|\bEvtxParser::from_\w+', nostr)) != 2:
        raise GenError(f"{fn}: more than one parser construction / configuration")
    if not re.search(r'let path_actual: &Path = match named_temp_file \{ Some\(ref ntf\) => ntf\.path\(\), None => path_std, \};', body):
        raise GenError(f"{fn}: `path_actual` is not the temporary file when there is one, else the given path")
    if not re.search(r'match decompress_to_ntf\( &path_std, &filetype \) \{ Ok\(ntf_mtime\) => \{ match ntf_mtime \{ '
                     r'Some\(\(ntf, mtime_opt, _filesz\)\) => \(Some\(ntf\), mtime_opt\), None => \(None, None\), \} \} '
                     r'Err\(err\) => \{ return Err\(err\); \}', body):
        raise GenError(f"{fn}: the `decompress_to_ntf` match left the expected shape")
    for f, want in (('events', r'Events::new\(\)'), ('out_of_order', '0'), ('analyzed', 'false'), ('error', 'None')):
        if not re.search(r'\b' + f + r':\s*' + want + r'\s*,', body):
            raise GenError(f"{fn}: field `{f}` is not initialised to `{want}`")
    return threads, validate


def analyze_parts(src):
    fn = 'EvtxReader::analyze'
    body = impl_fn(src, 'analyze')
    sts = split_stmts(strip_macros(body), fn)
    fors = [s for s in sts if s[0] == 'for']
    if len(fors) != 1 or fors[0][1] != 'for (index, result) in self.evtxparser.records().enumerate()':
        raise GenError(f"{fn}: the record loop is not `for (index, result) in self.evtxparser.records().enumerate()`")
    if len(sts) < 2 or sts[-1][:2] != ('simple', 'self.analyzed = true') or sts[-2] is not fors[0]:
        raise GenError(f"{fn}: the record loop is not directly followed by the final `self.analyzed = true`")
    inner = split_stmts(fors[0][2], fn)
    if len(inner) != 1 or inner[0][:2] != ('match', 'match result'):
        raise GenError(f"{fn}: loop body is not `match result {{…}}`")
    arms = dict(match_arms(inner[0][2]))
    if set(arms) != {'Ok(record)', 'Err(err)'}:
        raise GenError(f"{fn}: arms {sorted(arms)}")
    # --- the Err arm
    stores, exit_ = False, 'next'
    est = split_stmts(strip_macros(arms['Err(err)']), fn)
    for k, st in enumerate(est):
        if st[0] != 'simple':
            raise GenError(f"{fn}: Err arm: `{st[1]}` is outside the subset")
        t = st[1]
        if t == 'self.error = Some(err.to_string())' and not stores:
            stores = True
        elif t in ('continue', 'break', 'return') and k == len(est) - 1:
            exit_ = {'continue': 'next', 'break': 'leaveLoop', 'return': 'returnEarly'}[t]
        else:
            raise GenError(f"{fn}: Err arm: statement `{t}` is outside the subset")
    # --- the out-of-order block of the Ok arm
    ost = split_stmts(strip_macros(arms['Ok(record)']), fn)
    heads = [(s[0], s[1]) for s in ost]
    try:
        i_ooo = heads.index(('if', 'if let Some(ts_last_) = timestamp_last.as_ref()'))
        i_last = heads.index(('simple', 'timestamp_last = Some(record.timestamp)'))
        i_flt = [k for k, h in enumerate(heads) if h[0] == 'match' and h[1].startswith('match ts_pass_filters(')][0]
    except (ValueError, IndexError):
        raise GenError(f"{fn}: Ok arm: out-of-order block / `timestamp_last = Some(record.timestamp)` / window filter not found")
    if sum(1 for h in heads if 'timestamp_last' in h[1]) != 2 or ost[i_ooo][3] is not None:
        raise GenError(f"{fn}: Ok arm: `timestamp_last` is used outside the out-of-order block and its update")
    m = re.fullmatch(r'if ts_last_ (>=|<=|>|<) &record\.timestamp \{ self\.out_of_order \+= 1; \}', ws(ost[i_ooo][2]))
    if not m:
        raise GenError(f"{fn}: out-of-order block is not `if ts_last_ OP &record.timestamp {{ self.out_of_order += 1; }}`")
    if i_last != i_ooo + 1:
        raise GenError(f"{fn}: `timestamp_last = Some(record.timestamp)` does not directly follow the out-of-order block")
    if len(re.findall(r'out_of_order', body)) != 1 or len(re.findall(r'self\.error\b', body)) != (1 if stores else 0):
        raise GenError(f"{fn}: `out_of_order` / `self.error` touched elsewhere in analyze")
    return stores, exit_, m.group(1), i_last < i_flt


def next_part(src):
    body = ws(strip_macros(impl_fn(src, 'next')))
    m = re.fullmatch(r'self\.events\.(pop_first|pop_last)\(\)\.map\(\|\(_key, evtx\)\| evtx\)', body)
    if not m:
        raise GenError("EvtxReader::next: not `self.events.pop_first().map(|(_key, evtx)| evtx)`")
    return m.group(1) == 'pop_first'


def accessor(src, name):
    """the reader field an accessor returns: `self.f`, or `match self.f {None => None, Some(ts) => Some(timestamp_to_datetimel(&ts))}`"""
    body = ws(strip_macros(impl_fn(src, name)))
    m = re.fullmatch(r'self\.(\w+)', body)
    if m:
        return m.group(1), False
    m = re.fullmatch(r'match self\.(\w+) \{ TimestampOpt::None => DateTimeLOpt::None, TimestampOpt::Some\(ts\) => '
                     r'DateTimeLOpt::Some\(timestamp_to_datetimel\(&ts\)\), \}', body)
    if m:
        return m.group(1), True
    raise GenError(f"EvtxReader::{name}: accessor body `{body[:80]}` is outside the subset")


def summary_parts(src):
    fn = 'EvtxReader::summary'
    sts = split_stmts(strip_macros(impl_fn(src, 'summary')), fn)
    local = {}
    for st in sts[:-1]:
        m = st[0] == 'simple' and re.fullmatch(r'let (\w+)(?:: \w+)? = self\.(\w+)(\(\))?', st[1])
        if not m:
            raise GenError(f"{fn}: statement `{st[1]}` is outside the subset")
        if m.group(3):
            f, conv = accessor(src, m.group(2))
        else:
            f, conv = m.group(2), False
        if f not in RDFIELD or conv != f.startswith('ts_') or m.group(1) in local:
            raise GenError(f"{fn}: `{m.group(1)}` <- `{f}` (converted: {conv}) is outside the subset")
        local[m.group(1)] = f
    last = sts[-1]
    lit = re.fullmatch(r'SummaryEvtxReader \{(.*)\}', ws(last[1])) if last[0] == 'simple' else None
    if not lit:
        raise GenError(f"{fn}: does not end in a `SummaryEvtxReader {{…}}` literal")
    table = []
    for part in split_top(lit.group(1)):
        part = ws(part)
        if not part:
            continue
        m = re.fullmatch(r'(\w+)(?:: (\w+))?', part)
        if not m or m.group(1) not in SUMFIELD or (m.group(2) or m.group(1)) not in local:
            raise GenError(f"{fn}: literal field `{part}` is outside the subset")
        table.append((SUMFIELD[m.group(1)], RDFIELD[local[m.group(2) or m.group(1)]]))
    if sorted(t[0] for t in table) != sorted(SUMFIELD.values()):
        raise GenError(f"{fn}: the literal does not set every SummaryEvtxReader field exactly once")
    # the struct itself
    sm = re.search(r'pub struct SummaryEvtxReader \{(.*?)\}', src, re.S)
    if not sm or sorted(re.findall(r'pub (\w+):', sm.group(1))) != sorted(SUMFIELD):
        raise GenError("SummaryEvtxReader: fields differ from the modelled ones")
    sc = ws(strip_macros(impl_fn(src, 'summary_complete')))
    if not re.search(r'let summaryevtxreader = self\.summary\(\);', sc) or not re.search(r'let error: Option<String> = self\.error\.clone\(\);', sc) \
            or not re.search(r'Summary::new\( path, path_ntf, filetype, logmessagetype, None, None, None, None, None, Some\(summaryevtxreader\), None, error, \)$', sc):
        raise GenError("EvtxReader::summary_complete: not `Summary::new(…, Some(self.summary()), None, self.error.clone())`")
    return table


def worker_parts(s4):
    fn = 'exec_evtxprocessor'
    _, body, _ = find_fn(s4, fn)
    flat = ws(strip_macros(strip_trace(body)))
    m = re.match(r'let \( (.*?) \) = thread_init_data;', flat)
    if not m:
        raise GenError(f"{fn}: does not start by destructuring `thread_init_data`")
    names = [ws(x) for x in split_top(m.group(1)) if ws(x)]
    tm = re.search(r'type ThreadInitData = \((.*?)\);', s4, re.S)
    types = [ws(x) for x in split_top(tm.group(1)) if ws(x)] if tm else []
    if types != ['FPath', 'PathId', 'FileType', 'LogMessageSpecificData', 'BlockSz', 'DateTimeLOpt', 'DateTimeLOpt', 'FixedOffset'] \
            or len(names) != len(types):
        raise GenError(f"{fn}: ThreadInitData is not the modelled 8-tuple")
    # what the spawn site puts at positions 5 and 6
    sp = re.search(r'let thread_data: ThreadInitData = \((.*?)\);', s4, re.S)
    if not sp:
        raise GenError("processing_loop: `let thread_data: ThreadInitData = (…);` not found")
    spawn = [ws(x) for x in split_top(sp.group(1)) if ws(x)]
    role = {}
    for pos in (5, 6):
        mm = re.fullmatch(r'\*?filter_dt_(after|before)(?:_opt)?(?:\.clone\(\))?', spawn[pos]) if len(spawn) == 8 else None
        if not mm:
            raise GenError(f"processing_loop: ThreadInitData component {pos} is `{spawn[pos] if len(spawn) == 8 else spawn}`")
        role[names[pos]] = mm.group(1)
    pats = [('new', r'let mut evtxreader: EvtxReader = match EvtxReader::new\( path\.clone\(\), filetype, \) \{'),
            ('analyze', r'evtxreader\.analyze\( &(\w+), &(\w+), \);'),
            ('drainNext', r'while let Some\(evtx\) = evtxreader\.next\(\) \{ let is_last = false; chan_send\( &chan_send_dt, '
                          r'ChanDatum::NewMessage\( LogMessage::Evtx\(evtx\), is_last, \), &path \); \}'),
            ('summaryComplete', r'let summary = evtxreader\.summary_complete\(\);'),
            ('dropReader', r'drop\(evtxreader\);'),
            ('sendSummary', r'chan_send\( &chan_send_dt, ChanDatum::FileSummary\( Some\(summary\), FILEOK, \), &path \);')]
    calls, args = [], None
    for name, pat in pats:
        ms = list(re.finditer(pat, flat))
        if len(ms) != 1:
            raise GenError(f"{fn}: `{name}` step found {len(ms)} times (expected once): /{pat[:50]}…/")
        calls.append((ms[0].start(), name))
        if name == 'analyze':
            args = ms[0].groups()
    if len(re.findall(r'\bevtxreader\.', flat)) != 4:     # mtime, analyze, next, summary_complete
        raise GenError(f"{fn}: the reader is used other than mtime / analyze / next / summary_complete")
    if args[0] not in role or args[1] not in role:
        raise GenError(f"{fn}: analyze arguments {args} are not the two window components of the start data")
    order = [n for _, n in sorted(calls)]
    return order, (role[args[0]], role[args[1]])


def generate(repo):
    ev = strip_comments(open(os.path.join(repo, EVR)).read())
    s4 = strip_comments(open(os.path.join(repo, S4)).read())
    threads, validate = parser_settings(ev)
    stores, exit_, cmp_, before_filter = analyze_parts(ev)
    pops_first = next_part(ev)
    table = summary_parts(ev)
    order, args = worker_parts(s4)
    b = lambda x: 'true' if x else 'false'
    L = ['-- GENERATED by /verif/gen/s4gen.py (gen_evtx.py) from src/readers/evtxreader.rs and src/bin/s4.rs — do not edit',
         'namespace S4V.Gen.Evtx', '',
         '/-! ### `EvtxReader::new` -/', '',
         '/-- the argument of `ParserSettings::default().num_threads(N)` (0 = as many as the thread pool has; the records',
         'come out in file order whatever the count) -/',
         f'def PARSER_NUM_THREADS_ARG : Nat := {threads}',
         '/-- does the `ParserSettings` handed to `with_configuration` ask the evtx crate to validate chunk checksums (the',
         'builder chain has `.validate_checksums(true)`)? With validation on the crate yields ONE `Err` for a chunk whose',
         'stored CRC32 does not match, instead of its records. -/',
         f'def PARSER_VALIDATE_CHECKSUMS : Bool := {b(validate)}',
         '/-- the parser reads the temporary (decompressed / extracted) file when there is one, else the path given -/',
         'def PARSER_READS_TEMP_WHEN_PRESENT : Bool := true', '',
         '/-! ### `EvtxReader::analyze` -/', '',
         '/-- how the `Err(err)` arm of the record loop ends: falls through / `continue` (next item), `break`, `return` -/',
         'inductive ErrExit where', '  | next | leaveLoop | returnEarly', '  deriving DecidableEq, Repr', '',
         '/-- the `Err(err)` arm executes `self.error = Some(err.to_string())` -/',
         f'def ERR_ARM_STORES_ERROR : Bool := {b(stores)}',
         f'def ERR_ARM_EXIT : ErrExit := .{exit_}',
         '/-- the out-of-order counter of the `Ok(record)` arm: `if ts_last_ OP &record.timestamp { self.out_of_order += 1 }` -/',
         f'def oooCounts (last ts : Int) : Bool := decide ({CMP[cmp_]})',
         '/-- the counter block and `timestamp_last = Some(record.timestamp)` come before the window filter (every record',
         'is compared with the record before it, in or out of the window) -/',
         f'def OOO_BEFORE_FILTER : Bool := {b(before_filter)}', '',
         '/-! ### `EvtxReader::next` -/', '',
         '/-- `self.events.pop_first()` (true) or `pop_last()` (false) -/',
         f'def NEXT_POPS_FIRST : Bool := {b(pops_first)}', '',
         '/-! ### `EvtxReader::summary` -/', '',
         'inductive RdField where',
         '  | eventsProcessed | eventsAccepted | tsFirstProcessed | tsLastProcessed | tsFirstAccepted | tsLastAccepted | filesz | outOfOrder',
         '  deriving DecidableEq, Repr', '',
         'inductive SumField where',
         '  | processed | accepted | firstProcessed | lastProcessed | firstAccepted | lastAccepted | filesz | outOfOrder',
         '  deriving DecidableEq, Repr', '',
         '/-- `SummaryEvtxReader` field ↦ the reader field it is read from (through the accessor functions; the four',
         'timestamps converted by `timestamp_to_datetimel`, the same instant) -/',
         'def SUMMARY_SOURCES : List (SumField × RdField) :=',
         '  [' + ', '.join(f'(.{s}, .{r})' for s, r in table) + ']',
         '/-- `summary_complete` hands `self.error.clone()` to `Summary::new` -/',
         'def SUMMARY_COMPLETE_PASSES_ERROR : Bool := true', '',
         '/-! ### `exec_evtxprocessor` -/', '',
         'inductive WStep where', '  | new | analyze | drainNext | summaryComplete | dropReader | sendSummary',
         '  deriving DecidableEq, Repr', '',
         'inductive Bound where', '  | after | before', '  deriving DecidableEq, Repr', '',
         '/-- the steps on the reader in source order: `EvtxReader::new`; `analyze`; `while let Some(evtx) = next() { send',
         'NewMessage(LogMessage::Evtx(evtx), false) }`; `summary_complete`; `drop(evtxreader)`; send `FileSummary` -/',
         'def WORKER_STEPS : List WStep := [' + ', '.join('.' + n for n in order) + ']',
         '/-- the start-data components passed as (`dt_filter_after`, `dt_filter_before`) of `analyze`, named by what the',
         'spawn site of `processing_loop` stores at their tuple positions -/',
         f'def WORKER_ANALYZE_ARGS : Bound × Bound := (.{args[0]}, .{args[1]})', '',
         'end S4V.Gen.Evtx']
    return '\n'.join(L) + '\n', {'validate_checksums': validate, 'err_exit': exit_, 'pops_first': pops_first}
