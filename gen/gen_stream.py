"""Generate S4V/Gen/Stream.lean: the facts about the block-assembly loops of
src/readers/blockreader.rs and the drop path (syslogprocessor.rs,
syslinereader.rs, linereader.rs) that the hand models `S4V.Model.Stream` and
`S4V.Model.Mem` rely on.

Every value is *extracted* from the source text (comments and trace macros
removed); a loop that leaves the expected shape raises GenError, so a source
edit either regenerates a different constant (and the proofs that unfold it
break) or fails generation."""
import os
import re
from rs import GenError, strip_comments, find_fn, int_lit
from gen_path import strip_trace


def flat(s):
    return re.sub(r'\s+', ' ', strip_trace(s)).strip()


def need(cond, msg):
    if not cond:
        raise GenError(msg)


def lookback_shape(body, fn):
    """`if BlockReader::READ_BLOCK_LOOKBACK_DROP && bo_at_old < bo_at { self.drop_block(bo_at_old); }`
    directly followed by the `bo_at == blockoffset` return and `bo_at_old = bo_at; bo_at += 1;`"""
    f = flat(body)
    pat = (r'if BlockReader::READ_BLOCK_LOOKBACK_DROP && bo_at_old < bo_at \{ self\.drop_block\(bo_at_old\); \} '
           r'if bo_at == blockoffset \{ return ResultS3ReadBlock::Found\(blockp\); \} '
           r'bo_at_old = bo_at; bo_at \+= 1; \}')
    need(len(re.findall(pat, f)) == 1, f"blockreader.rs::{fn}: look-back drop left the expected shape")
    need(re.search(r'let mut bo_at: BlockOffset = match self\.blocks_read\.iter\(\)\.max\(\) \{ Some\(bo_\) => \*bo_, None => 0, \}; '
                   r'let mut bo_at_old: BlockOffset = bo_at; while bo_at <= blockoffset \{', f) is not None,
         f"blockreader.rs::{fn}: loop head (bo_at from blocks_read.max) left the expected shape")
    need('if self.filesz_actual == 0 { return ResultS3ReadBlock::Done; }' in f,
         f"blockreader.rs::{fn}: filesz 0 special case missing")


def drop_lines_shape(body):
    """`LineReader::drop_lines` after its `is_drop_data` guard. Returns True iff the body is the loop that
    calls `drop_line` on EVERY line and only accumulates the results; False for the recognised
    forms that stop at the first line whose `drop_line` returned `true` (`lines.into_iter().any(|linep| self.drop_line(linep))`,
    a `ret = ret || self.drop_line(linep)` fold, `if !ret { ret = self.drop_line(linep) }`, an early `return true` /
    `ret = true; break` inside the loop — compared literally); any other shape raises GenError."""
    f = re.sub(r'#\[cfg\(test\)\] \{[^{}]*\} ', '', flat(body))
    guard = 'if ! self.is_drop_data() { return false; } '
    need(f.startswith(guard), 'linereader.rs::drop_lines: is_drop_data guard left the expected shape')
    rest = f[len(guard):].strip()
    need(len(re.findall(r'\bself\.drop_line\(', rest)) == 1,
         'linereader.rs::drop_lines: expected exactly one call of self.drop_line')
    full = 'let mut ret = false; for linep in lines.into_iter() { if self.drop_line(linep) { ret = true; } } ret'
    if rest == full:
        return True
    # ---- recognised forms that stop at the first line whose `drop_line` returned `true` (compared literally)
    it = r'lines(?:\.into_iter\(\))?'
    short = [
        it + r'\.any\(\|linep\| self\.drop_line\(linep\)\)',
        r'let mut ret = false; for linep in ' + it + r' \{ ret = ret \|\| self\.drop_line\(linep\); \} ret',
        r'let mut ret = false; for linep in ' + it + r' \{ if !ret \{ ret = self\.drop_line\(linep\); \} \} ret',
        r'for linep in ' + it + r' \{ if self\.drop_line\(linep\) \{ return true; \} \} (?:return )?false;?',
        r'let mut ret = false; for linep in ' + it + r' \{ if self\.drop_line\(linep\) \{ ret = true; break; \} \} ret',
    ]
    if any(re.fullmatch(p_, rest) for p_ in short):
        return False
    raise GenError('linereader.rs::drop_lines: body is neither the accumulate-over-every-line loop nor a recognised '
                   'short-circuit form: ' + rest[:200])


ARCHIVES = ('Normal', 'Bz2', 'Gz', 'Lz4', 'Tar', 'Xz')
FN_OF_ARCHIVE_SUFFIX = {'': 'Normal', 'Bz2': 'Bz2', 'Gz': 'Gz', 'Lz4': 'Lz4', 'Tar': 'Tar', 'Xz': 'Xz'}


def enum_variants(src, name):
    """variant names of `pub enum <name> { … }` (comment-free source)"""
    m = re.search(r'\bpub enum ' + name + r'\s*\{', src)
    need(m is not None, f'common.rs: enum {name} not found')
    depth, i = 1, m.end()
    out, cur = [], []
    while depth:
        c = src[i]
        if c == '{':
            depth += 1
        elif c == '}':
            depth -= 1
            if depth == 0:
                break
        if depth == 1 and c == ',':
            out.append(''.join(cur)); cur = []
        elif depth == 1 and c not in '{}':
            cur.append(c)
        i += 1
    out.append(''.join(cur))
    names = []
    for v in out:
        v = re.sub(r'#\[[^\]]*\]', '', v).strip()
        if v:
            need(re.fullmatch(r'\w+', v) is not None, f'common.rs: enum {name}: variant {v!r} left the expected shape')
            names.append(v)
    return names


def filetype_variants(cm):
    """`pub enum FileType`: [(variant, has `archival_type`, has further fields)]"""
    m = re.search(r'\bpub enum FileType\s*\{', cm)
    need(m is not None, 'common.rs: enum FileType not found')
    from rs import match_close
    body = flat(cm[m.end():match_close(cm, m.end() - 1)])
    body = re.sub(r'#\[[^\]]*\] ?', '', body)
    out = []
    rest = body
    while rest.strip():
        mm = re.match(r'\s*(\w+)\s*(\{([^{}]*)\})?\s*,?', rest)
        need(mm is not None and mm.end() > 0, 'common.rs: enum FileType left the expected shape')
        fields = [f.split(':')[0].strip() for f in (mm.group(3) or '').split(',') if f.strip()]
        out.append((mm.group(1), 'archival_type' in fields, len([f for f in fields if f != 'archival_type']) > 0))
        if mm.group(2):
            need(fields and fields[0] == 'archival_type', f'common.rs: FileType::{mm.group(1)}: first field is not archival_type')
        rest = rest[mm.end():]
    return out


def streamed_table(br, cm):
    """`BlockReader::is_streamed_file`: `match self.filetype { <row>, … }` where every row is
    `FileType::<T>{ archival_type: FileTypeArchive::<A>[, ..] } => true|false` or `FileType::Unparsable => …`;
    no wildcard, no guard, no or-pattern; the rows are exactly FileType × FileTypeArchive"""
    sig, body, _ = find_fn(br, 'is_streamed_file')
    need(re.search(r'\(\s*&self\s*\)\s*->\s*bool', sig) is not None, 'blockreader.rs::is_streamed_file: signature changed')
    f = flat(body)
    m = re.fullmatch(r'match self\.filetype \{ (.*) \}', f)
    need(m is not None, 'blockreader.rs::is_streamed_file is no longer a single `match self.filetype` table')
    rows = []
    rest = m.group(1).strip()
    row = re.compile(r'FileType::(\w+) ?\{ archival_type: FileTypeArchive::(\w+)(, \.\.)? \} => (true|false),? ?')
    row0 = re.compile(r'FileType::(\w+) => (true|false),? ?')
    while rest:
        mm = row.match(rest)
        if mm:
            rows.append((mm.group(1), mm.group(2), mm.group(4) == 'true', mm.group(3) is not None))
        else:
            mm = row0.match(rest)
            need(mm is not None, 'blockreader.rs::is_streamed_file: row left the expected shape near ' + repr(rest[:70]))
            rows.append((mm.group(1), '', mm.group(2) == 'true', False))
        rest = rest[mm.end():]
    archives = enum_variants(cm, 'FileTypeArchive')
    need(sorted(archives) == sorted(ARCHIVES), f'common.rs: FileTypeArchive variants changed: {archives}')
    expect = []
    for (t, has_arch, more) in filetype_variants(cm):
        if has_arch:
            for a in archives:
                expect.append((t, a))
        else:
            expect.append((t, ''))
    got = [(r[0], r[1]) for r in rows]
    need(len(set(got)) == len(got), 'blockreader.rs::is_streamed_file: duplicate row')
    need(sorted(got) == sorted(expect),
         f'blockreader.rs::is_streamed_file: rows are not FileType x FileTypeArchive (missing {sorted(set(expect) - set(got))}, extra {sorted(set(got) - set(expect))})')
    return [(t, a, v) for (t, a, v, _) in rows]


def dispatch_table(br):
    """the `match self.filetype` at the end of `read_block`: (file type, archive or `_`, function or `panic`)"""
    _, rb, _ = find_fn(br, 'read_block')
    f = flat(rb)
    i = f.rfind('match self.filetype {')
    need(i >= 0 and f.endswith('}'), 'read_block: final `match self.filetype` not found')
    rest = f[i + len('match self.filetype {'):-1].strip()
    need('match self.filetype' not in rest, 'read_block: final `match self.filetype` not last')
    rows = []
    call = re.compile(r'FileType::(\w+) ?\{ archival_type: FileTypeArchive::(\w+)(, \.\.)? \} => self\.(read_block_File\w*)\(blockoffset\),? ?')
    pan = re.compile(r'FileType::(\w+) ?(\{ archival_type: _ \})? ?=> panic!\(')
    while rest:
        mm = call.match(rest)
        if mm:
            rows.append((mm.group(1), mm.group(2), mm.group(4)))
            rest = rest[mm.end():]
            continue
        mm = pan.match(rest)
        need(mm is not None, 'read_block: dispatch row left the expected shape near ' + repr(rest[:70]))
        from rs import match_close
        e = match_close(rest, mm.end() - 1)
        rows.append((mm.group(1), '_' if mm.group(2) else '', 'panic'))
        rest = rest[e + 1:].lstrip(', ')
    return rows


def lean_str_list(xs):
    return '[' + ', '.join('"%s"' % x for x in xs) + ']'


def bool_expr(cond, atoms, where):
    """a condition that is a `&&` of possibly negated known calls → Lean Bool expression"""
    parts = [c.strip() for c in cond.split('&&')]
    out = []
    seen = set()
    for c in parts:
        neg = False
        while c.startswith('!'):
            neg = not neg
            c = c[1:].strip()
        need(c in atoms, f'{where}: unexpected conjunct {c!r}')
        need(atoms[c] not in seen, f'{where}: conjunct {c!r} repeated')
        seen.add(atoms[c])
        out.append(('!' if neg else '') + atoms[c])
    return ' && '.join(out), seen


def search_choice(sr, fn, recv):
    """`if <recv>.is_streamed_file() { …linear_search(fileoffset, <flt>) } else { …binary_search(fileoffset, <flt>) }`
    → 'streamed' | '!streamed' (which value of the flag picks the LINEAR search)"""
    _, body, _ = find_fn(sr, fn)
    f = flat(body)
    m = re.search(r'if (!? ?)' + re.escape(recv) + r'\.is_streamed_file\(\) \{ (?:result = )?self\.find_sysline_at_datetime_filter_(linear|binary)_search\(fileoffset, (\w+)\);? \} '
                  r'else \{ (?:result = )?self\.find_sysline_at_datetime_filter_(linear|binary)_search\(fileoffset, (\w+)\);? \}', f)
    need(m is not None, f'syslinereader.rs::{fn}: choice of search left the expected shape')
    need(m.group(2) != m.group(4) and m.group(3) == m.group(5), f'syslinereader.rs::{fn}: both branches run the same search / different filters')
    need(len(re.findall(r'_search\(', f)) == 2 and len(re.findall(r'is_streamed_file', f)) == 1,
         f'syslinereader.rs::{fn}: further search calls / is_streamed_file tests')
    linear_when_true = (m.group(2) == 'linear') != bool(m.group(1).strip())
    return 'streamed' if linear_when_true else '!streamed'


def stream_search_facts(br, sp, sr, lr, fs, cm, L):
    # ---- (a) the is_streamed_file table
    rows = streamed_table(br, cm)
    L.append('/-- `BlockReader::is_streamed_file`: every row of the `match self.filetype` table, in source order:')
    L.append('(file type, archive (`""` for `FileType::Unparsable`), value) -/')
    L.append('def IS_STREAMED_TABLE : List (String × String × Bool) := [')
    L.append(',\n'.join(f'  ("{t}", "{a}", {"true" if v else "false"})' for (t, a, v) in rows))
    L.append(']')
    # the wrappers the readers above go through
    _, b1, _ = find_fn(lr, 'is_streamed_file')
    need(flat(b1) == 'self.blockreader.is_streamed_file()', 'linereader.rs::is_streamed_file is no longer a plain forward')
    _, b2, _ = find_fn(sr, 'is_streamed_file')
    need(flat(b2) == 'self.linereader.is_streamed_file()', 'syslinereader.rs::is_streamed_file is no longer a plain forward')

    # ---- (d) which read_block_File* drop the block behind the one just decoded
    disp = dispatch_table(br)
    fns = sorted(set(re.findall(r'\bfn (read_block_File\w*)\b', br)))
    need(sorted(set(r[2] for r in disp if r[2] != 'panic')) == fns, f'read_block: dispatch does not reach exactly the read_block_File* functions {fns}')
    fn_arch = {}
    for (t, a, fn) in disp:
        if fn == 'panic':
            continue
        need(fn_arch.setdefault(fn, a) == a, f'read_block: {fn} serves two archive kinds')
        need(fn == 'read_block_File' + ('' if a == 'Normal' else a), f'read_block: {a} dispatched to {fn}')
    lookback = []
    for fn in fns:
        _, body, _ = find_fn(br, fn)
        fb = flat(body)
        if 'READ_BLOCK_LOOKBACK_DROP' in fb or 'drop_block(bo_at_old)' in fb:
            lookback_shape(body, fn)
            lookback.append(fn)
        # a decoder stored in the reader and only ever read forwards
    L.append('/-- the `match self.filetype` at the end of `read_block`: (file type, archive (`_` = any), function or `panic`) -/')
    L.append('def READ_BLOCK_DISPATCH : List (String × String × String) := [')
    L.append(',\n'.join(f'  ("{t}", "{a}", "{fn}")' for (t, a, fn) in disp))
    L.append(']')
    L.append('/-- the `read_block_File*` functions whose decode loop ends with the look-back drop')
    L.append('`if READ_BLOCK_LOOKBACK_DROP && bo_at_old < bo_at { self.drop_block(bo_at_old) }` -/')
    L.append(f'def LOOKBACK_DROP_FNS : List String := {lean_str_list(lookback)}')
    L.append('/-- the archive kinds `read_block` dispatches to those functions -/')
    L.append(f'def LOOKBACK_DROP_ARCHIVES : List String := {lean_str_list([fn_arch[fn] for fn in lookback])}')

    # ---- drop_block does nothing once drop_data is off; new() starts with it on
    _, db, _ = find_fn(br, 'drop_block')
    need(flat(db).startswith('if ! self.drop_data { return false; }'), 'drop_block: drop_data guard left the expected shape')
    _, ddd, _ = find_fn(br, 'disable_drop_data')
    need(flat(ddd) == 'if ! self.drop_data { panic!("BlockReader::disable_drop_data drop_data already disabled"); } self.drop_data = false;',
         'disable_drop_data left the expected shape')
    need(len(re.findall(r'\bdrop_data: (true|false),', br)) == 1 and 'drop_data: true,' in br, 'BlockReader::new: drop_data initial value changed')
    need(len(re.findall(r'self\.drop_data = ', br)) == 1, 'blockreader.rs: drop_data assigned elsewhere')
    L.append('/-- `BlockReader::new` starts with `drop_data: true`; `drop_block` returns at once when it is `false`;')
    L.append('`disable_drop_data` is the only assignment -/')
    L.append('def DROP_DATA_INITIAL : Bool := true')
    L.append('def DROP_BLOCK_GUARDED_BY_DROP_DATA : Bool := true')

    # ---- (b) linear search iff streamed
    c1 = search_choice(sr, 'find_sysline_between_datetime_filters', 'self')
    c2 = search_choice(sr, 'find_sysline_at_datetime_filter', 'self.linereader.blockreader')
    need(c1 == c2, 'syslinereader.rs: find_sysline_between_datetime_filters and find_sysline_at_datetime_filter choose differently')
    L.append('/-- `SyslineReader::find_sysline_between_datetime_filters` and `find_sysline_at_datetime_filter`:')
    L.append('`if self.is_streamed_file() { …_linear_search } else { …_binary_search }` — `true` = linear -/')
    L.append(f'def searchIsLinear (streamed : Bool) : Bool := {c1}')
    L.append(f'def SEARCH_LINEAR_IFF_STREAMED : Bool := {"true" if c1 == "streamed" else "false"}')

    # ---- (c) keep every block: streamed and no year in the timestamps
    _, bz, _ = find_fn(sp, 'blockzero_analysis_syslines')
    fz = flat(bz)
    m = re.findall(r'if ([^{}]*) \{ self\.syslinereader\.linereader\.blockreader\.disable_drop_data\(\); '
                   r'(?:debug_assert!\(!self\.is_drop_data\(\), "[^"]*"\); )?\}', fz)
    need(len(m) == 1 and fz.count('disable_drop_data') == 1, 'syslogprocessor.rs::blockzero_analysis_syslines: disable_drop_data call left the expected shape')
    need(sp.count('disable_drop_data') == 1, 'syslogprocessor.rs: disable_drop_data called elsewhere')
    e, seen = bool_expr(m[0], {'self.syslinereader.is_streamed_file()': 'streamed',
                               'self.syslinereader.dt_pattern_has_year()': 'hasYear'},
                        'syslogprocessor.rs::blockzero_analysis_syslines')
    need(seen == {'streamed', 'hasYear'}, 'syslogprocessor.rs::blockzero_analysis_syslines: condition does not test both is_streamed_file and dt_pattern_has_year')
    L.append('/-- `SyslogProcessor::blockzero_analysis_syslines`: the condition under which')
    L.append('`blockreader.disable_drop_data()` is called (no block is dropped from then on) -/')
    L.append(f'def keepAllBlocks (streamed hasYear : Bool) : Bool := {e}')
    L.append(f'def KEEP_ALL_IFF_STREAMED_AND_NO_YEAR : Bool := {"true" if e == "streamed && !hasYear" else "false"}')
    # fixed-size records: every block kept for a streamed file
    _, fnew, _ = find_fn(fs, 'new')
    m = re.findall(r'if (!? ?)blockreader\.is_streamed_file\(\) \{ blockreader\.disable_drop_data\(\); \}', flat(fnew))
    need(len(m) == 1 and fs.count('disable_drop_data') == 1, 'fixedstructreader.rs::new: disable_drop_data call left the expected shape')
    L.append('/-- `FixedStructReader::new`: `if blockreader.is_streamed_file() { blockreader.disable_drop_data() }` -/')
    L.append(f'def fixedstructKeepAllBlocks (streamed : Bool) : Bool := {"!streamed" if m[0].strip() else "streamed"}')
    return 9


def generate(repo):
    br = strip_comments(open(os.path.join(repo, 'src/readers/blockreader.rs')).read())
    sp = strip_comments(open(os.path.join(repo, 'src/readers/syslogprocessor.rs')).read())
    sr = strip_comments(open(os.path.join(repo, 'src/readers/syslinereader.rs')).read())
    lr = strip_comments(open(os.path.join(repo, 'src/readers/linereader.rs')).read())
    fd = strip_comments(open(os.path.join(repo, 'src/readers/filedecompressor.rs')).read())
    fxr = strip_comments(open(os.path.join(repo, 'src/readers/fixedstructreader.rs')).read())
    cm = strip_comments(open(os.path.join(repo, 'src/common.rs')).read())
    L = ['-- GENERATED by /verif/gen/s4gen.py (gen_stream.py) from src/readers/{blockreader,syslogprocessor,'
         'syslinereader,linereader,filedecompressor,fixedstructreader}.rs, src/common.rs — do not edit',
         'namespace S4V.Gen.Stream', '']

    # ---- gz: fill loop with BUF_SZ sub-reads
    _, gz, _ = find_fn(br, 'read_block_FileGz')
    fgz = flat(gz)
    m = re.search(r'const BUF_SZ: usize = ([^;]+);', fgz)
    need(m is not None, 'read_block_FileGz: BUF_SZ not found')
    gz_buf = int_lit(m.group(1))
    need('let bytes_read_expect: usize = blocksz_u;' in fgz, 'read_block_FileGz: bytes_read_expect changed')
    need('while bytes_read_actual < bytes_read_expect { let readsz: usize = match bytes_read_expect - bytes_read_actual < BUF_SZ '
         '{ true => bytes_read_expect - bytes_read_actual, false => BUF_SZ, };' in fgz,
         'read_block_FileGz: fill loop / readsz left the expected shape')
    need('.read(buf[..readsz].as_mut()) { Ok(size_) if size_ == 0 => {' in fgz, 'read_block_FileGz: read call changed')
    need('block[bytes_read_actual..bytes_read_actual + size_].copy_from_slice(&buf[..size_]); bytes_read_actual += size_;' in fgz,
         'read_block_FileGz: copy into block changed')
    lookback_shape(gz, 'read_block_FileGz')
    L.append('/-- `read_block_FileGz`: size of the intermediate buffer of the fill loop -/')
    L.append(f'def GZ_BUF_SZ : Nat := {gz_buf}')

    # ---- bz2: fill loop reading straight into the block
    _, bz, _ = find_fn(br, 'read_block_FileBz2')
    fbz = flat(bz)
    bz_fill = ('while bytes_read < blocksz_u { match reader.read(&mut block[bytes_read..]) { Ok(size) => { '
               'self.count_bytes_read += size as Count; bytes_read += size; if size == 0 {') in fbz
    need(bz_fill, 'read_block_FileBz2: fill loop left the expected shape')
    lookback_shape(bz, 'read_block_FileBz2')
    L.append('/-- `read_block_FileBz2` calls `read` until the block is full -/')
    L.append('def BZ2_FILL_LOOP : Bool := true')

    # ---- lz4: is there a fill loop?
    _, lz, _ = find_fn(br, 'read_block_FileLz4')
    flz = flat(lz)
    n_read = len(re.findall(r'reader\.read\(', flz))
    need(n_read == 1, f'read_block_FileLz4: expected exactly one reader.read call, found {n_read}')
    # (a) one `read` per Block, the returned size only counted
    single = ('block.resize(blocksz_u, 0); match reader.read(&mut block.as_mut_slice()) { Ok(size) => { '
              'self.count_bytes_read += size as Count; } Err(err) => {') in flz
    # (b) `read` into the unfilled rest of the Block until it is full or the stream ends. The whole
    # loop is compared literally: the slice must start at `size_total`, the only exits are
    # `Ok(0)`, `Err` and the loop condition (no `break` after a successful read), and every
    # successful read advances `size_total` by what was returned.
    looped = ('block.resize(blocksz_u, 0); let mut read_result: std::io::Result<usize> = Ok(0); '
              'let mut size_total: usize = 0; while size_total < blocksz_u { '
              'match reader.read(&mut block.as_mut_slice()[size_total..]) { Ok(0) => break, '
              'Ok(size_) => { size_total += size_; read_result = Ok(size_total); } '
              'Err(err) => { read_result = Err(err); break; } } } '
              'match read_result { Ok(size) => { self.count_bytes_read += size as Count; } Err(err) => {') in flz
    need(single != looped, 'read_block_FileLz4: neither the single-read nor the fill-loop shape')
    if looped:
        need(len(re.findall(r'\bsize_total\b', flz)) == 5 and len(re.findall(r'\bbreak\b', flz)) == 2,
             'read_block_FileLz4: size_total / break used outside the fill loop')
    need('let mut block = Block::with_capacity(blocksz_u); block.resize(blocksz_u, 0);' in flz,
         'read_block_FileLz4: block allocation / resize changed')
    lookback_shape(lz, 'read_block_FileLz4')
    L.append('/-- `read_block_FileLz4`: `true` iff `read` is called, each time into the unfilled rest of the')
    L.append('block, until the block is full or the stream ends (`Ok(0) => break`: the block keeps its zero')
    L.append('padding); `false` iff the block is `resize`d to its expected length and `read` is called ONCE')
    L.append('(the returned size is only counted) -/')
    L.append(f'def LZ4_FILL_LOOP : Bool := {"true" if looped else "false"}')

    # ---- pre-pass buffers in `new`
    _, new, _ = find_fn(br, 'new')
    fnew = flat(new)
    pre = re.findall(r'const BUF_SZ: usize = ([^;]+); let mut buf: \[u8; BUF_SZ\] = \[0; BUF_SZ\]; let mut _loop_count: usize = 0; '
                     r'loop \{ match (\w+)\.read\(&mut buf\) \{ Ok\(sz\) => \{ if sz == 0 \{ break; \} count_bytes_read \+= sz as Count; '
                     r'filesz_uncompressed \+= sz as FileSz; \}', fnew)
    need(sorted(p[1] for p in pre) == ['bz2_decoder', 'lz4_decoder'], 'BlockReader::new: bz2/lz4 size pre-pass left the expected shape')
    need(len(set(p[0] for p in pre)) == 1, 'BlockReader::new: pre-pass buffers differ')
    L.append('/-- `BlockReader::new`: buffer of the bz2 / lz4 pre-pass that learns the decompressed size -/')
    L.append(f'def PREPASS_BUF_SZ : Nat := {int_lit(pre[0][0])}')

    # ---- xz split loop in `new`
    xz_incl = 'while blockoffset <= ((buffer.len() / blocksz_u) as BlockOffset) {' in fnew
    xz_excl = 'while blockoffset < ((buffer.len() / blocksz_u) as BlockOffset) {' in fnew
    need(xz_incl != xz_excl, 'BlockReader::new: xz split loop head left the expected shape')
    need('let a: usize = (blockoffset * blocksz) as usize; let b: usize = a + (std::cmp::min(blocksz_u, buffer.len() - a)); '
         'block.extend_from_slice(&buffer[a..b]);' in fnew, 'BlockReader::new: xz split slice changed')
    need('if buffer.is_empty() { break; }' in fnew, 'BlockReader::new: xz empty-buffer break missing')
    L.append('/-- `BlockReader::new` (xz): the split loop runs `while blockoffset <= len / blocksz` (inclusive) -/')
    L.append(f'def XZ_SPLIT_INCLUSIVE : Bool := {"true" if xz_incl else "false"}')

    # ---- read_block: Done above blockoffset_last, before any storage is consulted
    _, rb, _ = find_fn(br, 'read_block')
    frb = flat(rb)
    need('self.read_block_last = blockoffset; if blockoffset > self.blockoffset_last() { return ResultS3ReadBlock::Done; }' in frb,
         'read_block: Done-above-last guard left the expected shape')
    need('self.read_blocks_reread_error += 1; self.read_blocks_miss += 1; self.blocks_read.remove(&blockoffset); break;' in frb,
         'read_block: reread path changed')

    # ---- drop_block removes from `blocks` and the LRU cache whatever try_unwrap says
    _, db, _ = find_fn(br, 'drop_block')
    fdb = flat(db)
    need('match self .blocks .remove(&blockoffset) {' in fdb and '.read_block_lru_cache .pop(&blockoffset)' in fdb,
         'drop_block: removal from blocks / LRU left the expected shape')

    # ---- drop_data_try: guard and distance
    _, ddt, _ = find_fn(sp, 'drop_data_try')
    m = re.search(r'let bo_first: BlockOffset = \(\*syslinep\)\.blockoffset_first\(\); if bo_first > (\d+) \{ '
                  r'return self\.drop_data\(bo_first - (\d+)\); \} false', flat(ddt))
    need(m is not None, 'syslogprocessor.rs::drop_data_try left the expected shape')
    L.append('/-- `SyslogProcessor::drop_data_try`: `if bo_first > GUARD { drop_data(bo_first - BACK) }` -/')
    L.append(f'def DROP_TRY_GUARD : Nat := {int(m.group(1))}')
    L.append(f'def DROP_TRY_BACK : Nat := {int(m.group(2))}')
    _, dd, _ = find_fn(sp, 'drop_data')
    need('if blockoffset == self.drop_block_last { return false; } if self .syslinereader .drop_data(blockoffset) '
         '{ self.drop_block_last = blockoffset; return true; } false' in flat(dd),
         'syslogprocessor.rs::drop_data left the expected shape')
    # the skip compares with `drop_block_last`, which `SyslogProcessor::new` initialises with a literal: a target equal to
    # that initial value is skipped although no drop at it has happened yet
    mi = re.findall(r'\bdrop_block_last\s*:\s*(\d+)\s*,', sp)
    need(len(mi) == 1, 'syslogprocessor.rs: expected exactly one literal initialiser `drop_block_last: <n>,`')
    need(len(re.findall(r'self\.drop_block_last\s*=', sp)) == 1, 'syslogprocessor.rs: drop_block_last is assigned somewhere else than in drop_data')
    L.append('/-- `SyslogProcessor::drop_data` returns at once `if blockoffset == self.drop_block_last`; `drop_block_last` starts at this value')
    L.append('(`SyslogProcessor::new`) and is assigned only after a `syslinereader.drop_data(blockoffset)` that returned `true`: a drop whose target')
    L.append('equals the initial value never runs -/')
    L.append(f'def DROP_BLOCK_LAST_INIT : Nat := {int(mi[0])}')

    # ---- syslinereader.drop_data: which syslines; drop_sysline removes before try_unwrap
    _, sdd, _ = find_fn(sr, 'drop_data')
    need('.filter(|(_, s)| (*s).blockoffset_last() <= blockoffset)' in flat(sdd),
         'syslinereader.rs::drop_data: filter left the expected shape')
    _, sds, _ = find_fn(sr, 'drop_sysline')
    fs = flat(sds)
    i_rm, i_tu = fs.find('.syslines .remove(fileoffset)'), fs.find('match Arc::try_unwrap(syslinep)')
    need(0 <= i_rm < i_tu, 'syslinereader.rs::drop_sysline: remove-then-try_unwrap order changed')
    fs2 = re.sub(r'#\[cfg\(test\)\] \{[^{}]*\} ', '', fs)
    need('Ok(sysline) => { self.drop_sysline_ok += 1; if self.linereader.drop_lines(sysline.lines) { ret = true; } } '
         'Err(_syslinep) => { self.drop_sysline_errors += 1; }' in fs2,
         'syslinereader.rs::drop_sysline: arms changed')
    L.append('/-- `SyslineReader::drop_sysline` removes the entry from `syslines` before `Arc::try_unwrap`;')
    L.append('when the unwrap fails the lines of that message are not dropped and nothing refers to them again -/')
    L.append('def SYSLINE_REMOVED_BEFORE_UNWRAP : Bool := true')

    # ---- linereader.drop_line: all parts but the last
    _, dl, _ = find_fn(lr, 'drop_line')
    fl = re.sub(r'#\[cfg\(test\)\] \{[^{}]*\} ', '', flat(dl))
    need('let take_ = match line.lineparts.len() { 0 => 0, val => val - 1, }; for linepart in line .lineparts .into_iter() .take(take_) '
         '{ let bo = linepart.blockoffset(); drop(linepart); if self .blockreader .drop_block(bo) { ret = true; } }' in fl,
         'linereader.rs::drop_line: part loop left the expected shape')
    L.append('/-- `LineReader::drop_line` drops the blocks of all parts except the last `LINE_DROP_KEEP_PARTS` -/')
    L.append('def LINE_DROP_KEEP_PARTS : Nat := 1')

    # ---- drop path reaches every line of a dropped message
    # (1) syslinereader.drop_data collects the keys of ALL syslines passing the filter and calls drop_sysline on each
    fsdd = flat(sdd)
    need('for (fo, _) in self .syslines .iter() .filter(|(_, s)| (*s).blockoffset_last() <= blockoffset) { drop_fo.push(*fo); }' in fsdd
         and 'for fo in drop_fo.iter() { if !self.drop_sysline(fo) { ret = false; } }' in fsdd
         and len(re.findall(r'self\.drop_sysline\(', fsdd)) == 1,
         'syslinereader.rs::drop_data: collect / drop_sysline loops left the expected shape')
    # (2) drop_sysline hands the WHOLE `lines` vector of the unwrapped Sysline to drop_lines (checked above: the
    #     `Ok(sysline)` arm is `self.linereader.drop_lines(sysline.lines)`), and `Sysline.lines` is the vector
    #     every line of the message is pushed to
    sy = strip_comments(open(os.path.join(repo, 'src/data/sysline.rs')).read())
    need(re.search(r'pub\(crate\) lines: Lines,', flat(sy)) is not None or re.search(r'\blines: Lines,', flat(sy)) is not None,
         'sysline.rs: field `lines: Lines` not found')
    need(len(re.findall(r'\.drop_lines\(', fs2)) == 1 and 'drop_lines(sysline.lines)' in fs2,
         'syslinereader.rs::drop_sysline: drop_lines is not called once with sysline.lines')
    L.append('/-- `SyslineReader::drop_data` calls `drop_sysline` for every stored sysline whose last block is `<=` the')
    L.append('target, and `drop_sysline` passes ALL lines of the unwrapped sysline (`sysline.lines`) to `drop_lines` -/')
    L.append('def DROP_SYSLINE_PASSES_ALL_LINES : Bool := true')
    # (3) drop_lines: every line visited, or a short-circuit
    _, dls, _ = find_fn(lr, 'drop_lines')
    visits_all = drop_lines_shape(dls)
    # (4) what `drop_line` / `drop_block` return (decides where a short-circuiting drop_lines stops):
    #     drop_line: `ret` starts false, set true only when a `drop_block` call returns true;
    #     drop_block: `ret` starts true, set false only in the `Err` arm of `Arc::try_unwrap`
    need(len(re.findall(r'\bret = true;', fl)) == 1 and fl.lstrip().startswith('let mut ret = false;') and 'ret = false' not in fl.replace('let mut ret = false;', '', 1),
         'linereader.rs::drop_line: return value left the expected shape')
    need('let mut ret = true;' in fdb and len(re.findall(r'\bret = false;', fdb)) == 1
         and re.search(r'Err\(_blockp\) => \{ self\.dropped_blocks_err \+= 1; ret = false; \}', fdb) is not None,
         'blockreader.rs::drop_block: return value left the expected shape')
    L.append('/-- `LineReader::drop_lines`: `true` iff it is the loop `for linep in lines { if self.drop_line(linep) { ret = true } }`')
    L.append('that calls `drop_line` on EVERY line of the message; `false` iff it stops at the first line whose `drop_line`')
    L.append('returned `true` (`.any(..)`, `||`-fold, early `return` / `break`), leaving the later lines in `lines`.')
    L.append('(`drop_line` returns `true` iff one of its `drop_block` calls did, i.e. the line has a part in an earlier block;')
    L.append('`drop_block` returns `true` unless `Arc::try_unwrap` of the block fails.) -/')
    L.append(f'def DROP_LINES_VISITS_ALL : Bool := {"true" if visits_all else "false"}')

    # ---- decompress_to_ntf copy loops
    _, ntf, _ = find_fn(fd, 'decompress_to_ntf')
    fn_ = flat(ntf)
    m = re.search(r'const BUF_SZ: usize = ([^;]+);', fn_)
    need(m is not None, 'decompress_to_ntf: BUF_SZ not found')
    n_copy = len(re.findall(r'bufwriter\.write_all\(&buf\[\.\.(?:bytes_read|num_bytes)\]\)', fn_))
    need(n_copy == 4, f'decompress_to_ntf: expected 4 read/write_all copy loops (tar, bz2, gz, lz4), found {n_copy}')
    # BlockReader::new, gz arm: the only refusal by size compares the size of the FILE ON DISK with GZ_MAX_SZ; no limit is put on the
    # uncompressed size the trailer announces (a streamed reader needs none). A limit on the uncompressed size refuses every .gz log
    # that inflates beyond it although the same bytes print as a plain file (seeded change C05-e)
    _, bn, _ = find_fn(br, 'new')
    bnf = flat(strip_trace(bn))
    mz = re.search(r'const GZ_MAX_SZ: FileSz = ([^;]+);', br)
    need(mz is not None, 'blockreader.rs: GZ_MAX_SZ not found')
    cmps = re.findall(r'if (\w+) > BlockReader::GZ_MAX_SZ', bnf)
    need(len(cmps) >= 1, 'BlockReader::new: no comparison with GZ_MAX_SZ found')
    gz_limit_on_disk_size = cmps == ['filesz']
    L.append('/-- `BlockReader::new` (gz): the size limit `GZ_MAX_SZ` is compared with the size of the .gz file on disk only (`true`); `false`: also / instead')
    L.append('with another quantity (e.g. the uncompressed size read from the trailer) -/')
    L.append(f'def GZ_LIMIT_ON_DISK_SIZE_ONLY : Bool := {"true" if gz_limit_on_disk_size else "false"}')
    L.append(f'def GZ_MAX_SZ : Nat := {int_lit(mz.group(1))}')
    L.append('/-- `decompress_to_ntf`: buffer of the copy loops -/')
    L.append(f'def NTF_BUF_SZ : Nat := {int_lit(m.group(1))}')
    # every `break` of the function: the tar member search stops at the member found; each of the four copy loops may
    # only stop on a read of 0 bytes. A loop that also stops on a SHORT read (`bytes_read < BUF_SZ`) truncates the
    # temporary file whenever the decoder returns less than a full buffer before the end (lz4_flex never reads across
    # a frame block boundary; seeded change C05-d)
    fnt = flat(strip_trace(ntf))
    brks = [fnt[max(0, mm.start() - 48):mm.end()] for mm in re.finditer(r'\bbreak\b', fnt)]
    zero = [b for b in brks if re.search(r'if (?:bytes_read|num_bytes) == 0 \{ break$', b) or re.search(r'Ok\(0\) => (?:\{ )?break$', b)]
    member = [b for b in brks if re.search(r'entry_opt = Some\(entry\); break$', b)]
    need(len(member) == 1, f'decompress_to_ntf: expected one `break` at the tar member found, found {len(member)}')
    need(len(zero) == 4, f'decompress_to_ntf: expected 4 copy loops stopping on a read of 0 bytes, found {len(zero)}')
    only_eof = len(brks) == len(zero) + len(member)
    L.append('/-- `decompress_to_ntf`: the copy loops stop ONLY on a read of 0 bytes (`true`); `false`: some loop has a further')
    L.append('`break` (e.g. on a read shorter than the buffer) -/')
    L.append(f'def NTF_COPY_STOPS_ONLY_AT_EOF : Bool := {"true" if only_eof else "false"}')
    L.append('')
    L.append('/-! ### which files are one-way streams, and what the readers above do about it -/')
    L.append('')
    extra = stream_search_facts(br, sp, sr, lr, fxr, cm, L)
    L.append('')
    L.append('end S4V.Gen.Stream')
    return '\n'.join(L) + '\n', {'facts': 12 + extra}
