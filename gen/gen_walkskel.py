"""Generate S4V/Gen/WalkSkel.lean (+ WalkSkelMutants.lean): the decision skeleton of `process_path`
(src/readers/filepreprocessor.rs) and of the stdin splice in `cli_process_args` (src/bin/s4.rs), as DATA.

Translated (whole-body shape checks; GenError when the source leaves the subset):
  * prologue: `canonicalize()` error arms (NotFound / PermissionDenied / other) and what each returns;
  * the `std_path.is_file()` branch: classification literal, `Filetype` arm returns `[FileValid(path, ..)]`,
    `Archive(Tar)` arm returns `process_path_tar(<path>, <flag>, fta)` unchanged;
  * the result vectors declared before the walk loop (`paths` + at most one other = a DEFERRED list);
  * the jwalk options; the loop body as an ordered list of steps (error entry -> continue; not-a-file block with
    the `is_dir` skip; classification literal; the tar arm: arguments, the vector its results are pushed to, in
    order, then `continue`; the final `match filetype` with all 37 rows checked, and the vector it pushes to);
  * the epilogue after the loop (nothing / append the deferred vector), no sort;
  * `cli_process_args`: the `"-"` arm (guard on `stdin_check`, mark, stdin block inside the arm or after the
    argument loop), `_ => paths.push(path.clone())`, every modification of `paths` counted;
  * `main`: `for path in paths.iter() { for r in process_path(path, <lit>) { processed_paths.push(r) } }` handed to
    `processing_loop` (flag literal, iteration order of arguments and results).
Mutants: the same translation of the source text with ONE edit each (`MUTANTS`).
"""
import os
import re
from rs import GenError, strip_comments, find_fn, match_arms, match_close, lean_bytes
from gen_path import strip_trace

FPP = 'src/readers/filepreprocessor.rs'
S4 = 'src/bin/s4.rs'
ARCHS = ['Normal', 'Bz2', 'Gz', 'Lz4', 'Tar', 'Xz']


def need(c, msg):
    if not c:
        raise GenError(msg)


def flat(s):
    return re.sub(r'\s+', ' ', strip_trace(s)).strip()


def bl(x):
    return 'true' if x else 'false'


class Cur:
    """cursor over flattened text: eat regexes in sequence"""

    def __init__(self, s, where):
        self.s, self.i, self.where = s, 0, where

    def ws(self):
        while self.i < len(self.s) and self.s[self.i] == ' ':
            self.i += 1

    def opt(self, pat):
        self.ws()
        m = re.compile(pat).match(self.s, self.i)
        if m:
            self.i = m.end()
        return m

    def eat(self, pat, what):
        m = self.opt(pat)
        need(m, f"{self.where}: expected {what}; found {self.s[self.i:self.i + 90]!r}")
        return m

    def block(self, what):
        """at `{`: return inner text, move past `}`"""
        self.ws()
        need(self.i < len(self.s) and self.s[self.i] == '{', f"{self.where}: expected a block for {what}")
        e = match_close(self.s, self.i)
        inner = self.s[self.i + 1:e]
        self.i = e + 1
        return inner.strip()

    def done(self):
        self.ws()
        return self.i >= len(self.s)


def flag_expr(a, where):
    a = a.strip()
    if a == 'unparseable_are_text':
        return (True, False)
    if a in ('true', 'false'):
        return (False, a == 'true')
    raise GenError(f"{where}: flag argument is neither the parameter nor a literal: {a[:40]!r}")


VEC_DECL = r'let mut (\w+): Vec<ProcessPathResult> = Vec::<ProcessPathResult>::new\(\);'
CANON = (
    r'let mut std_path: PathBuf = PathBuf::from\(path\); std_path = match std_path\.canonicalize\(\) \{ Ok\(val\) => val, Err\(err\) => \{ '
    r'match err\.kind\(\) \{ std::io::ErrorKind::NotFound => \{ return vec!\[ProcessPathResult::(\w+)\(path\.clone\(\)\)\]; \} '
    r'std::io::ErrorKind::PermissionDenied => \{ return vec!\[ProcessPathResult::(\w+)\(path\.clone\(\)\)\]; \} '
    r'_ => \{ let err_string = error_to_string\(&err, path\); return vec!\[ProcessPathResult::(\w+)\(path\.clone\(\), err_string\)\]; \} \} \} \};')
NAMED = (
    r'let result: PathToFiletypeResult = pathbuf_to_filetype\(&std_path, (?P<lit>true|false)\); match result \{ '
    r'PathToFiletypeResult::Filetype\(filetype\) => \{ debug_assert!\(!filetype\.is_archived\(\)\); '
    r'let paths: Vec<ProcessPathResult> = vec!\[ProcessPathResult::FileValid\(path\.clone\(\), filetype\)\]; return paths; \} '
    r'PathToFiletypeResult::Archive\(archive, fta\) => \{ match archive \{ FileTypeArchiveMultiple::Tar => \{ '
    r'let results = process_path_tar\( (?P<a1>[^,]+), (?P<a2>[^,]+), fta,? \); return results; \} \} \} \}')
ERRS = {'FileErrNotExist': '.notExist', 'FileErrNoPermissions': '.noPermissions', 'FileErr': '.err'}


def filetype_match(inner, vecs, where):
    """the final `match filetype { .. }` of the loop body -> the vector all three arms push to"""
    arms = match_arms(inner)
    need(len(arms) == 3, f"{where}: final `match filetype` has {len(arms)} arms, expected 3 (valid / encoding / Unparsable)")
    want_valid = set()
    for fam, extra in (('Evtx', ''), ('FixedStruct', ', fixedstruct_type: _'), ('Journal', ''), ('Text', ', encoding_type: FileTypeTextEncoding::Utf8Ascii')):
        for a in ARCHS:
            want_valid.add(f'FileType::{fam}{{ archival_type: FileTypeArchive::{a}{extra} }}')
    want_enc = {f'ft @ FileType::Text{{ archival_type: FileTypeArchive::{a}, encoding_type: FileTypeTextEncoding::{e} }}'
                for a in ARCHS for e in ('Utf16', 'Utf32')}
    sinks = []
    alts = lambda p: {x.strip() for x in p.split('|') if x.strip()}  # noqa: E731
    need(alts(arms[0][0]) == want_valid, f"{where}: the FileValid arm does not list exactly the 24 readable (family, archival type) rows")
    m = re.fullmatch(r'(\w+)\.push\(ProcessPathResult::FileValid\(fpath_entry, filetype\)\);', arms[0][1].strip())
    need(m, f"{where}: FileValid arm body left the shape: {arms[0][1].strip()[:80]!r}")
    sinks.append(m.group(1))
    need(alts(arms[1][0]) == want_enc, f"{where}: the encoding arm does not list exactly the 12 Utf16/Utf32 rows")
    m = re.fullmatch(r'let et: String = match ft\.encoding_type\(\) \{ Some\(e\) => e\.to_string\(\), None => String::from\(""\), \}; '
                     r'(\w+)\.push\(ProcessPathResult::FileErrNotSupported\( fpath_entry, Some\(format!\("Encoding \{\}", et\)\), \)\);', arms[1][1].strip())
    need(m, f"{where}: encoding arm body left the shape")
    sinks.append(m.group(1))
    need(alts(arms[2][0]) == {'FileType::Unparsable'}, f"{where}: third arm is not FileType::Unparsable")
    m = re.fullmatch(r'(\w+)\.push\(ProcessPathResult::FileErrNotSupported\( fpath_entry, None, \)\);', arms[2][1].strip())
    need(m, f"{where}: Unparsable arm is not <vec>.push(FileErrNotSupported(fpath_entry, None))")
    sinks.append(m.group(1))
    need(len(set(sinks)) == 1 and sinks[0] in vecs, f"{where}: the three arms push to different / unknown vectors {sinks}")
    return sinks[0]


def process_path_skel(src):
    sig, body, _ = find_fn(src, 'process_path')
    need(re.search(r'\(\s*path\s*:\s*&FPath\s*,\s*unparseable_are_text\s*:\s*bool\s*\)\s*->\s*Vec<ProcessPathResult>', sig),
         "process_path: signature changed")
    W = 'process_path'
    c = Cur(flat(body), W)
    m = c.eat(CANON, 'the canonicalize prologue with its three error arms')
    for g in m.groups():
        need(g in ERRS, f"{W}: canonicalize error arm returns {g}")
    canon = [ERRS[g] for g in m.groups()]
    c.eat(r'if std_path\.is_file\(\)', '`if std_path.is_file()` as the first check')
    named = c.block('named branch')
    nm = re.fullmatch(NAMED, named)
    need(nm, f"{W}: named-file branch left the expected shape")
    need(nm.group('a1').strip() == 'path', f"{W}: named branch hands {nm.group('a1')!r} to process_path_tar")
    named_flag = flag_expr(nm.group('a2'), W + ' named branch')
    # result vectors
    vecs = []
    while True:
        m = c.opt(VEC_DECL)
        if not m:
            break
        vecs.append(m.group(1))
    need(vecs[:1] == ['paths'] and len(vecs) <= 2, f"{W}: result vectors before the loop are {vecs}; expected `paths` and at most one more")
    deferred = vecs[1] if len(vecs) == 2 else None

    def sink(name, what):
        need(name in vecs, f"{W}: {what} pushes to unknown vector {name!r}")
        return '.paths' if name == 'paths' else '.deferred'

    m = c.eat(r'for entry in jwalk::WalkDir::new\(path\.as_str\(\)\)((?: \.\w+\((?:true|false)\))*)', 'the jwalk loop head')
    opts = dict(re.findall(r'\.(\w+)\((true|false)\)', m.group(1)))
    need(set(opts) <= {'follow_links', 'skip_hidden', 'sort'}, f"{W}: unknown jwalk option in {sorted(opts)}")
    loop = Cur(c.block('walk loop'), W + ' loop')
    steps = []
    loop.eat(r'let path_entry = match entry \{ Ok\(val\) => \{ val \} Err\(_err\) => \{ continue; \} \};', '`Err(_) => continue` as the first step')
    steps.append('.errContinue')
    loop.eat(r'let std_path_entry: &Path = &path_entry\.path\(\); let fpath_entry: FPath = path_to_fpath\(std_path_entry\);', 'entry path bindings')
    if loop.opt(r'if !path_entry \.file_type\(\) \.is_file\(\)'):
        nf = Cur(loop.block('not-a-file block'), W + ' not-a-file block')
        dirskip = bool(nf.opt(r'if path_entry \.file_type\(\) \.is_dir\(\) \{ continue; \}'))
        m = nf.eat(r'(\w+)\.push\(ProcessPathResult::FileErrNotAFile\(fpath_entry\)\); continue;', 'push FileErrNotAFile; continue')
        need(nf.done(), f"{W}: extra statements in the not-a-file block")
        steps.append(f'.notFile {bl(dirskip)} {sink(m.group(1), "not-a-file block")}')
    m = loop.eat(r'let result: PathToFiletypeResult = path_to_filetype\(std_path_entry, (true|false)\);', 'classification of the entry with a literal flag')
    steps.append(f'.classify {m.group(1)}')
    m = loop.eat(
        r'let filetype: FileType = match result \{ PathToFiletypeResult::Filetype\(filetype\) => filetype, '
        r'PathToFiletypeResult::Archive\(archive, fta\) => \{ let results: Vec<ProcessPathResult>; '
        r'match archive \{ FileTypeArchiveMultiple::Tar => \{ results = process_path_tar\( (?P<a1>[^,]+), (?P<a2>[^,]+), fta,? \); \} \} '
        r'for result in results\.into_iter\(\) \{ (?P<v>\w+)\.push\(result\); \} continue; \} \};', 'the tar arm (call, push every result in order, continue)')
    need(m.group('a1').strip() == '&path_to_fpath(std_path_entry)', f"{W}: walk arm hands {m.group('a1')!r} to process_path_tar")
    pp, lit = flag_expr(m.group('a2'), W + ' walk arm')
    steps.append(f'.tarArm {bl(pp)} {bl(lit)} {sink(m.group("v"), "tar arm")}')
    loop.eat(r'match filetype', 'final `match filetype`')
    steps.append(f'.pushByType {sink(filetype_match(loop.block("match filetype"), vecs, W), "match filetype")}')
    need(loop.done(), f"{W}: statements after the final match in the loop body: {loop.s[loop.i:loop.i + 60]!r}")
    # epilogue
    after = []
    while True:
        m = c.opt(r'for result in (\w+)\.into_iter\(\) \{ paths\.push\(result\); \}') or c.opt(r'paths\.extend\((\w+)\);') or c.opt(r'paths\.append\(&mut (\w+)\);')
        if not m:
            break
        need(deferred is not None and m.group(1) == deferred, f"{W}: epilogue appends unknown vector {m.group(1)!r}")
        after.append('.appendDeferred')
    c.eat(r'paths$', '`paths` as the returned value right after the loop (no sort, no further pushes)')
    need(len(after) <= 1, f"{W}: deferred vector appended more than once")
    return {
        'canon': canon, 'namedLit': nm.group('lit') == 'true', 'namedFlag': named_flag,
        'opts': {k: opts.get(k) == 'true' for k in ('follow_links', 'skip_hidden', 'sort')},
        'optsSet': {k: (k in opts) for k in ('follow_links', 'skip_hidden', 'sort')},
        'steps': steps, 'after': after, 'hasDeferred': deferred is not None,
    }


STDIN_BLOCK = (r'for result in std::io::stdin\(\) \.lock\(\) \.lines\(\) \{ match result \{ Ok\(line\) => \{ paths\.push\(line\); \} '
               r'Err\(err\) => \{ eprintln!\("[^"]*", err\); break; \} \} \}')


def splice_skel(s4):
    m = re.search(r'const\s+PATHS_ON_STDIN\s*:\s*&str\s*=\s*"([^"\\]*)"\s*;', s4)
    need(m, "s4.rs: PATHS_ON_STDIN is not a plain &str constant")
    dash = m.group(1)
    _, body, _ = find_fn(s4, 'cli_process_args')
    fb = flat(body)
    W = 'cli_process_args'
    i = fb.find('let mut paths: Vec<FPath>')
    need(i >= 0 and fb.count('let mut paths: Vec<FPath>') == 1, f"{W}: `let mut paths: Vec<FPath>` not found exactly once")
    c = Cur(fb[i:], W)
    c.eat(r'let mut paths: Vec<FPath> = Vec::<FPath>::with_capacity\([^;]*\); let mut stdin_check = false; for path in args\.paths\.iter\(\)', 'the path-argument loop head')
    lp = Cur(c.block('argument loop'), W)
    lp.eat(r'match path\.as_str\(\)', '`match path.as_str()`')
    arms = match_arms(lp.block('match'))
    need(lp.done(), f"{W}: statements after the match in the argument loop")
    need([p.strip() for p, _ in arms] == ['PATHS_ON_STDIN', '_'], f"{W}: arms are not PATHS_ON_STDIN / _")
    need(arms[1][1].strip().rstrip(',') == 'paths.push(path.clone())', f"{W}: `_` arm is not paths.push(path.clone())")
    d = Cur(arms[0][1].strip(), W + ' "-" arm')
    guard = bool(d.opt(r'if stdin_check \{ (e_wrn!\("[^"]*", PATHS_ON_STDIN\); )?continue; \}'))
    marks = bool(d.opt(r'stdin_check = true;'))
    in_arm = bool(d.opt(STDIN_BLOCK))
    need(d.done(), f"{W}: the \"-\" arm has statements outside the subset: {d.s[d.i:d.i + 60]!r}")
    after = False
    if c.opt(r'if stdin_check \{ ' + STDIN_BLOCK + r' \}'):
        after = True
    need(len(re.findall(r'std::io::stdin\(\)', fb)) == (1 if (in_arm or after) else 0) and not (in_arm and after),
         f"{W}: stdin is read somewhere the translator does not look")
    nmod = len(re.findall(r'\bpaths\.(push|insert|extend|append|sort\w*|reverse|dedup\w*|retain|swap|truncate|clear|remove)\(', fb))
    need(nmod == 1 + (1 if (in_arm or after) else 0), f"{W}: `paths` is modified {nmod} times; the translator saw only the argument loop / stdin block")
    return {'dash': dash, 'guard': guard, 'marks': marks, 'inArm': in_arm, 'after': after}


MAIN_LOOP = (r'let mut processed_paths: ProcessPathResults = ProcessPathResults::with_capacity\([^;]*\); '
             r'for path in paths\.iter\(\)(?P<rev>\.rev\(\))? \{ let ppaths: ProcessPathResults = process_path\(path, (?P<lit>true|false)\); '
             r'for ppresult in ppaths\.into_iter\(\)(?P<rev2>\.rev\(\))? \{ processed_paths\.push\(ppresult\); \} \} '
             r'let ret: bool = processing_loop\( processed_paths,')


def main_skel(s4):
    """`main`: every path argument expanded by process_path(path, <lit>), results pushed in order, handed to processing_loop"""
    _, body, _ = find_fn(s4, 'main')
    fb = flat(body)
    m = re.search(MAIN_LOOP, fb)
    need(m, "main: the loop `for path in paths.iter() { process_path(path, <lit>) -> processed_paths.push(..) }` followed by "
            "`processing_loop(processed_paths, ..)` left the expected shape")
    need(len(re.findall(r'\bprocessed_paths\b', fb)) == 3 and len(re.findall(r'\bprocess_path\(', fb)) == 1,
         "main: `processed_paths` / `process_path` used somewhere the translator does not look")
    return {'lit': m.group('lit') == 'true', 'argsRev': bool(m.group('rev')), 'resRev': bool(m.group('rev2'))}


TYPES = '''
/-- a result vector of `process_path`: the returned `paths`, or one more vector declared before the loop -/
inductive Sink where
  | paths | deferred
  deriving DecidableEq, Repr

/-- the one-element results of the canonicalize error arms -/
inductive ErrRes where
  | notExist | noPermissions | err
  deriving DecidableEq, Repr

/-- one statement of the walk-loop body, in source order -/
inductive LoopStep where
  /-- `Err(_err) => continue` -/
  | errContinue
  /-- `if !file_type().is_file() { [if is_dir { continue; }] <sink>.push(FileErrNotAFile); continue; }` -/
  | notFile (dirSkip : Bool) (sink : Sink)
  /-- `path_to_filetype(std_path_entry, <lit>)` -/
  | classify (ua : Bool)
  /-- `Archive(Tar) => { results = process_path_tar(&path_to_fpath(entry), <flag>, fta); for r in results { <sink>.push(r) } continue }` -/
  | tarArm (passesParam lit : Bool) (sink : Sink)
  /-- final `match filetype`: 24 readable rows -> FileValid, 12 Utf16/32 rows -> NotSupported(Some), Unparsable -> NotSupported(None) -/
  | pushByType (sink : Sink)
  deriving DecidableEq, Repr

inductive After where
  /-- `for result in <deferred>.into_iter() { paths.push(result); }` -/
  | appendDeferred
  deriving DecidableEq, Repr

structure Skel where
  /-- what `canonicalize()` failing with NotFound / PermissionDenied / anything else returns -/
  canonNotFound : ErrRes
  canonDenied : ErrRes
  canonOther : ErrRes
  /-- `pathbuf_to_filetype(&std_path, <this>)` in the `std_path.is_file()` branch -/
  namedLit : Bool
  /-- `process_path_tar(path, <flag>, fta)` in the named branch: passes the parameter / the literal -/
  namedTarPasses : Bool
  namedTarLit : Bool
  followLinks : Bool
  skipHiddenFalse : Bool
  sorted : Bool
  steps : List LoopStep
  after : List After
  deriving DecidableEq, Repr

/-- the `PATHS_ON_STDIN` arm of the argument loop in `cli_process_args` -/
structure Splice where
  dash : List UInt8
  /-- `if stdin_check { continue; }` first in the arm -/
  secondSkipped : Bool
  /-- `stdin_check = true;` -/
  marks : Bool
  /-- the `for result in stdin().lock().lines()` block is inside the arm -/
  readsInArm : Bool
  /-- the block is after the argument loop, under `if stdin_check` -/
  readsAfterLoop : Bool
  deriving DecidableEq, Repr

/-- `main`: `for path in paths.iter()[.rev()] { for r in process_path(path, <flag>)[.rev()] { processed_paths.push(r) } }` -/
structure MainLoop where
  flag : Bool
  argsReversed : Bool
  resultsReversed : Bool
  deriving DecidableEq, Repr
'''


def render_skel(k, name='skel'):
    L = [f'def {name} : Skel where']
    L.append(f'  canonNotFound := {k["canon"][0]}')
    L.append(f'  canonDenied := {k["canon"][1]}')
    L.append(f'  canonOther := {k["canon"][2]}')
    L.append(f'  namedLit := {bl(k["namedLit"])}')
    L.append(f'  namedTarPasses := {bl(k["namedFlag"][0])}')
    L.append(f'  namedTarLit := {bl(k["namedFlag"][1])}')
    L.append(f'  followLinks := {bl(k["opts"]["follow_links"])}')
    L.append(f'  skipHiddenFalse := {bl(k["optsSet"]["skip_hidden"] and not k["opts"]["skip_hidden"])}')
    L.append(f'  sorted := {bl(k["opts"]["sort"])}')
    L.append('  steps := [' + ', '.join(k['steps']) + ']')
    L.append('  after := [' + ', '.join(k['after']) + ']')
    return L


def render_splice(s, name='splice'):
    return [f'def {name} : Splice := ⟨{lean_bytes(s["dash"])}, {bl(s["guard"])}, {bl(s["marks"])}, {bl(s["inArm"])}, {bl(s["after"])}⟩']


def render_main(m, name='mainLoop'):
    return [f'def {name} : MainLoop := ⟨{bl(m["lit"])}, {bl(m["argsRev"])}, {bl(m["resRev"])}⟩']


def read(repo, f):
    return strip_comments(open(os.path.join(repo, f)).read())


def generate(repo):
    k = process_path_skel(read(repo, FPP))
    s = splice_skel(read(repo, S4))
    mn = main_skel(read(repo, S4))
    L = ['-- GENERATED by /verif/gen/s4gen.py (gen_walkskel.py) from src/readers/filepreprocessor.rs, src/bin/s4.rs — do not edit',
         'namespace S4V.Gen.WalkSkel', TYPES]
    L += render_skel(k) + [''] + render_splice(s) + [''] + render_main(mn) + ['', 'end S4V.Gen.WalkSkel']
    return '\n'.join(L) + '\n', {'steps': len(k['steps']), 'after': len(k['after'])}


# ---------------------------------------------------------------- mutants
# (name, what, file, function, [(regex on the comment-free function text, replacement)]); each regex must match exactly once
PUSH_LOOP = r'for result in results\.into_iter\(\) \{\s*paths\.push\(result\);\s*\}'
MUTANTS = [
    ('tarDeferred', 'process_path: a .tar met in the walk is expanded into a second vector appended after the loop (seeded C01-c)', FPP, 'process_path',
     [(r'(let mut paths: Vec<ProcessPathResult> = Vec::<ProcessPathResult>::new\(\);)', r'\1 let mut tars: Vec<ProcessPathResult> = Vec::<ProcessPathResult>::new();'),
      (PUSH_LOOP, 'for result in results.into_iter() { tars.push(result); }'),
      (r'\n    paths\n\Z', '\n    for result in tars.into_iter() { paths.push(result); }\n    paths\n')]),
    ('walkedAreText', 'process_path: walked files classified with `unparseable_are_text = true`', FPP, 'process_path',
     [(r'path_to_filetype\(std_path_entry, false\)', 'path_to_filetype(std_path_entry, true)')]),
    ('dirsAsFiles', 'process_path: the `!is_file()` block removed, directories are classified and pushed like files', FPP, 'process_path',
     [(r'if !path_entry\s*\.file_type\(\)\s*\.is_file\(\)\s*\{(?:[^{}]|\{[^{}]*\})*\}', '')]),
    ('dirsNotAFile', 'process_path: the `is_dir() { continue; }` skip removed, directories are listed as FileErrNotAFile', FPP, 'process_path',
     [(r'if path_entry\s*\.file_type\(\)\s*\.is_dir\(\)\s*\{\s*continue;\s*\}', '')]),
    ('namedNotText', 'process_path: an explicitly named file classified with `false`', FPP, 'process_path',
     [(r'pathbuf_to_filetype\(&std_path, true\)', 'pathbuf_to_filetype(&std_path, false)')]),
    ('walkTarFlagTrue', 'process_path: the walk arm hands `true` to process_path_tar', FPP, 'process_path',
     [(r'(&path_to_fpath\(std_path_entry\),\s*)unparseable_are_text', r'\1true')]),
]
STDIN_SRC = r'for result in std::io::stdin\(\)\s*\.lock\(\)\s*\.lines\(\)\s*\{\s*match result \{(?:[^{}]|\{(?:[^{}]|\{[^{}]*\})*\})*\}\s*\}'
SPLICE_MUTANTS = [
    ('stdinAfterLoop', 'cli_process_args: the stdin block moved out of the "-" arm to after the argument loop (seeded C15-c / C01-b)', S4, 'cli_process_args',
     [(r'(?s)(?P<blk>' + STDIN_SRC + r')(?P<mid>\s*\}\s*_ => paths\.push\(path\.clone\(\)\),\s*\}\s*\})', r'\g<mid> if stdin_check { \g<blk> }')]),
    ('secondDashReads', 'cli_process_args: the `if stdin_check { .. continue; }` guard removed', S4, 'cli_process_args',
     [(r'if stdin_check \{(?:[^{}"]|"[^"]*"|\{:\?\})*continue;\s*\}', '')]),
]


MAIN_MUTANTS = [
    ('argsReversed', 'main: `for path in paths.iter().rev()`', S4, 'main',
     [(r'for path in paths\.iter\(\) \{', 'for path in paths.iter().rev() {')]),
    ('mainNotText', 'main: `process_path(path, false)`', S4, 'main',
     [(r'process_path\(path, true\)', 'process_path(path, false)')]),
]


def mutate(src, name, fname, edits):
    sig, body, start = find_fn(src, fname)
    end = start + len(sig) + len(body) + 2
    fn = src[start:end - 1].rstrip()  # up to and excluding the closing brace
    need(src[end - 1] == '}', f'mutant {name}: function end not found')
    fn = fn + '\n'
    for pat, rep in edits:
        n = len(re.findall(pat, fn))
        need(n == 1, f'mutant {name}: the pattern {pat[:60]!r} matches {n} times in {fname} (the source left the shape the mutant edits)')
        fn = re.sub(pat, rep, fn, count=1)
    return src[:start] + fn + src[end - 1:]


def generate_mutants(repo):
    fpp, s4 = read(repo, FPP), read(repo, S4)
    base_k, base_s = process_path_skel(fpp), splice_skel(s4)
    L = ['-- GENERATED by /verif/gen/s4gen.py (gen_walkskel.py) from src/readers/filepreprocessor.rs, src/bin/s4.rs — do not edit',
         '-- the skeleton re-translated from the source text with ONE edit each (gen_walkskel.py `MUTANTS`): counter-models',
         'import S4V.Gen.WalkSkel', 'namespace S4V.Gen.WalkSkelMutants', 'open S4V.Gen.WalkSkel', '']
    for name, what, _f, fname, edits in MUTANTS:
        k = process_path_skel(mutate(fpp, name, fname, edits))
        need(k != base_k, f'mutant {name}: the edit does not change the translated skeleton')
        L.append(f'-- mutant `{name}`: {what}')
        L += render_skel(k, name) + ['']
    for name, what, _f, fname, edits in SPLICE_MUTANTS:
        s = splice_skel(mutate(s4, name, fname, edits))
        need(s != base_s, f'mutant {name}: the edit does not change the translated splice')
        L.append(f'-- mutant `{name}`: {what}')
        L += render_splice(s, name) + ['']
    base_m = main_skel(s4)
    for name, what, _f, fname, edits in MAIN_MUTANTS:
        mm = main_skel(mutate(s4, name, fname, edits))
        need(mm != base_m, f'mutant {name}: the edit does not change the translated main loop')
        L.append(f'-- mutant `{name}`: {what}')
        L += render_main(mm, name) + ['']
    L.append('end S4V.Gen.WalkSkelMutants')
    return '\n'.join(L) + '\n', {'mutants': len(MUTANTS) + len(SPLICE_MUTANTS) + len(MAIN_MUTANTS)}
