"""Generate S4V/Gen/Tmp.lean: the order of temporary-file operations in
src/readers/filedecompressor.rs (create / list) and src/bin/s4.rs (drop the
reader / send the final summary; what the SIGINT handler does)."""
import os
import re
from rs import GenError, strip_comments, find_fn
from gen_path import strip_trace


def generate(repo):
    fd = strip_comments(open(os.path.join(repo, 'src/readers/filedecompressor.rs')).read())
    s4 = strip_comments(open(os.path.join(repo, 'src/bin/s4.rs')).read())
    _, body, _ = find_fn(fd, 'decompress_to_ntf')
    flat = re.sub(r'\s+', ' ', strip_trace(body))
    i_lock = flat.find('NAMED_TEMP_FILES).write()')
    i_create = flat.find('.tempfile()')
    i_push = flat.find('.push_back(fpath_ntf)')
    if min(i_lock, i_create, i_push) < 0:
        raise GenError("decompress_to_ntf: lock / tempfile() / push_back(fpath_ntf) not all found")
    if not i_create < i_push:
        raise GenError("decompress_to_ntf: the path is listed before the file is created")
    under_lock = i_lock < i_create
    if under_lock:
        # the guard must be a named binding that lives until after the push
        m = re.search(r'let mut (\w+) = match \(&\*NAMED_TEMP_FILES\)\.write\(\)', flat)
        if not m or flat.find(f'drop({m.group(1)})') < i_push:
            raise GenError("decompress_to_ntf: lock taken before creation but not held (as a named guard) until the path is listed")

    # the closed flag: set by the handler while it holds the NAMED_TEMP_FILES lock; tested by
    # decompress_to_ntf under the same lock, before the file is created (early return)
    i_closed = flat.find('NAMED_TEMP_FILES_CLOSED.load(')
    refuses = False
    if i_closed >= 0:
        m = re.search(r'if NAMED_TEMP_FILES_CLOSED\.load\(Ordering::SeqCst\) \{ let ioerr = Error::new\( ErrorKind::Interrupted, "[^"]*" \); '
                      r'return err_from_err_path_result_dtn!\( &ioerr, &fpath, Some\("[^"]*"\) \); \}', flat)
        if not m:
            raise GenError("decompress_to_ntf: NAMED_TEMP_FILES_CLOSED is read but not as `if NAMED_TEMP_FILES_CLOSED.load(SeqCst) { return Err(Interrupted) }`")
        if not (under_lock and i_lock < m.start() < i_create):
            raise GenError("decompress_to_ntf: the NAMED_TEMP_FILES_CLOSED test is not between taking the lock and creating the file")
        refuses = True

    def drop_before_summary(fn, reader):
        _, b, _ = find_fn(s4, fn)
        f = re.sub(r'\s+', ' ', strip_trace(b))
        k = f.rfind('ChanDatum::FileSummary(')
        if k < 0:
            raise GenError(f"{fn}: final FileSummary send not found")
        j = f.rfind(f'let summary = {reader}.summary_complete();', 0, k)
        if j < 0:
            raise GenError(f"{fn}: `let summary = {reader}.summary_complete();` before the final send not found")
        return f'drop({reader});' in f[j:k]
    d1 = drop_before_summary('exec_evtxprocessor', 'evtxreader')
    d2 = drop_before_summary('exec_journalprocessor', 'journalreader')
    _, hb, _ = find_fn(s4, 'set_signal_handler')
    h = re.sub(r'\s+', ' ', strip_trace(hb))
    removes = bool(re.search(r'for fpath in named_temp_files\.iter\(\) \{ match std::fs::remove_file\(fpath\)', h))
    sets_exit = '*exit_early = true;' in h
    takes_ntf_lock = 'NAMED_TEMP_FILES).write()' in h
    chan_first = 0 <= h.find('MAP_PATHID_CHANRECVDATUM.write()') < h.find('NAMED_TEMP_FILES).write()')
    i_hlock = h.find('NAMED_TEMP_FILES).write()')
    i_store = h.find('NAMED_TEMP_FILES_CLOSED.store(true')
    i_remove = h.find('for fpath in named_temp_files.iter()')
    # the guard must be the named binding `named_temp_files`, alive while the flag is set and the files are removed
    handler_closes = (0 <= i_hlock < i_store and re.search(r'let named_temp_files = match \(&\*NAMED_TEMP_FILES\)\.write\(\)', h) is not None
                      and 'drop(named_temp_files)' not in h[:max(i_store, i_remove)])
    if refuses and not handler_closes:
        raise GenError("set_signal_handler: decompress_to_ntf tests NAMED_TEMP_FILES_CLOSED but the handler does not set it while holding the NAMED_TEMP_FILES lock")
    if not (removes and sets_exit and takes_ntf_lock):
        raise GenError("set_signal_handler: does not (lock NAMED_TEMP_FILES, remove every listed file, set EXIT_EARLY)")
    # main does not join the workers
    _, pl, _ = find_fn(s4, 'processing_loop')
    joins = '.join()' in pl
    # the handler must be installed whenever a worker may be spawned: every kind of container (compressed AND tar-archived journal / evtx)
    # creates temporary files, so any narrower condition leaves some runs without a handler (seeded change C18-c)
    plflat = re.sub(r'\s+', ' ', strip_trace(pl))
    hi = plflat.find('match set_signal_handler()')
    if hi < 0:
        raise GenError("processing_loop: `match set_signal_handler()` not found")
    guards = re.findall(r'if ([^{}]*?) \{ match set_signal_handler\(\)', plflat)
    handler_always = guards == ['!map_pathid_path.is_empty()'] or (not guards)
    spawn_i = plflat.find('.spawn(move || exec_fileprocessor_thread')
    if spawn_i >= 0 and spawn_i < hi:
        handler_always = False      # installed only after threads were spawned
    L = ['-- GENERATED by /verif/gen/s4gen.py — do not edit',
         'namespace S4V.Gen.Tmp', '',
         '/-- `decompress_to_ntf` holds the NAMED_TEMP_FILES lock from before `tempfile()` until the path is listed -/',
         f'def createUnderLock : Bool := {"true" if under_lock else "false"}',
         '/-- the handler sets NAMED_TEMP_FILES_CLOSED under the NAMED_TEMP_FILES lock and `decompress_to_ntf` tests it under the same lock before creating the file -/',
         f'def createRefusedAfterHandler : Bool := {"true" if (refuses and handler_closes) else "false"}',
         '/-- evtx and journal workers drop their reader (and its NamedTempFile) before sending the final FileSummary -/',
         f'def dropBeforeSummary : Bool := {"true" if (d1 and d2) else "false"}',
         '/-- the SIGINT handler takes the channel-map write lock before anything else -/',
         f'def handlerTakesChannelLockFirst : Bool := {"true" if chan_first else "false"}',
         '/-- `processing_loop` joins the worker threads before returning -/',
         f'def mainJoinsWorkers : Bool := {"true" if joins else "false"}',
         '/-- `processing_loop` installs the SIGINT handler whenever there is any path to process, before any worker thread is spawned (`true`);',
         '`false`: under a narrower condition (some runs that create temporary files have no handler), or after the spawn -/',
         f'def handlerInstalledWheneverWorkers : Bool := {"true" if handler_always else "false"}',
         '', 'end S4V.Gen.Tmp']
    return '\n'.join(L) + '\n', {'createUnderLock': under_lock, 'dropBeforeSummary': d1 and d2, 'createRefusedAfterHandler': refuses and handler_closes}
