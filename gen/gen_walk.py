"""Generate S4V/Gen/WalkTar.lean: how `process_path` hands `.tar` files to `process_path_tar`
and what `process_path_tar` does per archive member (src/readers/filepreprocessor.rs), the
sub-path separator (src/readers/blockreader.rs) and the flag `main` passes (src/bin/s4.rs).

Extracted, each with a shape check (GenError when the source leaves the shape):
  * the 2nd argument (`unparseable_are_text`) of the two `process_path_tar(..)` calls in `process_path`:
    the explicitly-named-file branch (`if std_path.is_file() { .. }`) and the directory-walk loop;
    each is either the function's own parameter or a `true`/`false` literal;
  * the 1st argument of both calls (`path` / `&path_to_fpath(std_path_entry)`), that the walk arm appends
    every result in order and `continue`s, that the named arm returns the results unchanged;
  * the member loop of `process_path_tar`: iteration error -> `FileErr(path)`, `!etype.is_file()` -> skip,
    `entry.size() == 0` -> `FileErrEmpty(path + SEP + lossy(subpath), Unparsable)`, member type from
    `path_to_filetype(&subpath, unparseable_are_text)`, full path `path SEP lossy(subpath)`, and the
    (family, archival type) -> result table of the final `match`;
  * `SUBPATH_SEP`; the literal `main` passes to `process_path`.
"""
import os
import re
from rs import GenError, strip_comments, find_fn, match_arms, match_close, lean_bytes
from gen_path import strip_trace

ARCHS = ['Normal', 'Bz2', 'Gz', 'Lz4', 'Tar', 'Xz']
ARCH = {'Normal': 'normal', 'Bz2': 'bz2', 'Gz': 'gz', 'Lz4': 'lz4', 'Tar': 'tar', 'Xz': 'xz'}
FAMS = {'Evtx': 'evtx', 'FixedStruct': 'fixedStruct', 'Journal': 'journal', 'Text': 'text'}


def flat(s: str) -> str:
    return re.sub(r'\s+', ' ', strip_trace(s)).strip()


def flag_expr(arg: str, where: str):
    """-> (passes_parameter, literal)"""
    a = arg.strip()
    if a == 'unparseable_are_text':
        return True, False
    if a in ('true', 'false'):
        return False, a == 'true'
    raise GenError(f"{where}: 2nd argument of process_path_tar is neither the parameter `unparseable_are_text` "
                   f"nor a bool literal: {a[:60]!r}")


def block_at(src: str, pat: str, where: str, start: int = 0):
    m = re.compile(pat).search(src, start)
    if not m:
        raise GenError(f"{where}: pattern not found: {pat}")
    b = src.index('{', m.end() - 1)
    e = match_close(src, b)
    return src[b + 1:e], m.start(), e + 1


def process_path_shape(src: str):
    sig, body, _ = find_fn(src, 'process_path')
    body = strip_trace(body)
    if not re.search(r'\(\s*path\s*:\s*&FPath\s*,\s*unparseable_are_text\s*:\s*bool\s*\)', sig):
        raise GenError("process_path: signature is not (path: &FPath, unparseable_are_text: bool)")
    if re.search(r'\bunparseable_are_text\s*=[^=]', body) or re.search(r'\blet\s+(mut\s+)?unparseable_are_text\b', body):
        raise GenError("process_path: the parameter `unparseable_are_text` is reassigned or shadowed")
    calls = list(re.finditer(r'\bprocess_path_tar\s*\(', body))
    if len(calls) != 2:
        raise GenError(f"process_path: expected 2 calls of process_path_tar, found {len(calls)}")
    # ---- the named-file branch
    named, nstart, nend = block_at(body, r'if\s+std_path\.is_file\(\)\s*\{', 'process_path named branch')
    loop, lstart, _ = block_at(body, r'for\s+entry\s+in\s+jwalk::WalkDir::new\(path\.as_str\(\)\)[^{]*\{', 'process_path walk loop')
    if not (nend <= lstart):
        raise GenError("process_path: the walk loop does not follow the `std_path.is_file()` branch")
    if not (nstart < calls[0].start() < nend and calls[1].start() > lstart):
        raise GenError("process_path: the process_path_tar calls are not one in the named branch and one in the walk loop")
    nf = flat(named)
    m = re.fullmatch(
        r'let result: PathToFiletypeResult = pathbuf_to_filetype\(&std_path, true\); match result \{ '
        r'PathToFiletypeResult::Filetype\(filetype\) => \{ debug_assert!\(!filetype\.is_archived\(\)\); '
        r'let paths: Vec<ProcessPathResult> = vec!\[ProcessPathResult::FileValid\(path\.clone\(\), filetype\)\]; return paths; \} '
        r'PathToFiletypeResult::Archive\(archive, fta\) => \{ match archive \{ FileTypeArchiveMultiple::Tar => \{ '
        r'let results = process_path_tar\( (?P<a1>[^,]+), (?P<a2>[^,]+), fta,? \); return results; \} \} \} \}', nf)
    if not m:
        raise GenError("process_path: named-file branch left the expected shape "
                       "(classify canonical name with `true`; Filetype -> FileValid(path); Archive(Tar) -> return process_path_tar(path, <flag>, fta))")
    if m.group('a1').strip() != 'path':
        raise GenError(f"process_path: named branch hands {m.group('a1').strip()!r} (not `path`) to process_path_tar")
    named_flag = flag_expr(m.group('a2'), 'process_path named branch')
    # ---- the walk arm
    lf = flat(loop)
    m = re.search(
        r'let std_path_entry: &Path = &path_entry\.path\(\); let fpath_entry: FPath = path_to_fpath\(std_path_entry\); '
        r'if !path_entry \.file_type\(\) \.is_file\(\) \{ if path_entry \.file_type\(\) \.is_dir\(\) \{ continue; \} '
        r'paths\.push\(ProcessPathResult::FileErrNotAFile\(fpath_entry\)\); continue; \} '
        r'let result: PathToFiletypeResult = path_to_filetype\(std_path_entry, false\); '
        r'let filetype: FileType = match result \{ PathToFiletypeResult::Filetype\(filetype\) => filetype, '
        r'PathToFiletypeResult::Archive\(archive, fta\) => \{ let results: Vec<ProcessPathResult>; '
        r'match archive \{ FileTypeArchiveMultiple::Tar => \{ results = process_path_tar\( (?P<a1>[^,]+), (?P<a2>[^,]+), fta,? \); \} \} '
        r'for result in results\.into_iter\(\) \{ paths\.push\(result\); \} continue; \} \};', lf)
    if not m:
        raise GenError("process_path: walk-loop tar arm left the expected shape "
                       "(classify entry with `false`; Archive(Tar) -> results = process_path_tar(&path_to_fpath(std_path_entry), <flag>, fta); "
                       "push every result in order; continue)")
    if m.group('a1').strip() != '&path_to_fpath(std_path_entry)':
        raise GenError(f"process_path: walk arm hands {m.group('a1').strip()!r} to process_path_tar")
    walk_flag = flag_expr(m.group('a2'), 'process_path walk arm')
    return named_flag, walk_flag


TAR_OPEN_UNWRAPS = None

PRE_LOOP = (
    r'(#\[cfg\(all\(debug_assertions,\s?not\(test\)\)\)\] \{.*?\} \} )?'
    r'(?P<open>let file: File = File::open\(path\)\.unwrap\(\); |'
    r'let file: File = match File::open\(path\) \{ Ok\(val\) => val, Err\(err\) => \{ '
    r'let err_string = error_to_string\(&err, path\); return vec!\[ProcessPathResult::FileErr\(path\.clone\(\), err_string\)\]; \} \}; )'
    r'let mut archive: tar::Archive<File> = tar::Archive::<File>::new\(file\); '
    r'let entry_iter: tar::Entries<File> = match archive\.entries\(\) \{ Ok\(val\) => val, Err\(err\) => \{ '
    r'let err_string = error_to_string\(&err, path\); return vec!\[ProcessPathResult::FileErr\(path\.clone\(\), err_string\)\]; \} \}; '
    r'let mut results = Vec::<ProcessPathResult>::new\(\); ')

LOOP_HEAD = (
    r'let entry: tar::Entry<File> = match entry_res \{ Ok\(val\) => val, Err\(err\) => \{ '
    r'let err_string = error_to_string\(&err, path\); results\.push\(ProcessPathResult::FileErr\(path\.clone\(\), err_string\)\); continue; \} \}; '
    r'let header: &tar::Header = entry\.header\(\); let etype: tar::EntryType = header\.entry_type\(\); '
    r'if !etype\.is_file\(\) \{ continue; \} '
    r'let subpath: Cow<Path> = match entry\.path\(\) \{ Ok\(val\) => val, Err\(err\) => \{ '
    r'let err_string = error_to_string\(&err, path\); results\.push\(ProcessPathResult::FileErr\(path\.clone\(\), err_string ?\)\); continue; \} \}; '
    r'if entry\.size\(\) == 0 \{ let subfpath: FPath = path\.clone\(\) \+ &String::from\(SUBPATH_SEP\) \+ subpath\.to_string_lossy\(\)\.as_ref\(\); '
    r'results\.push\(ProcessPathResult::FileErrEmpty\(subfpath, FileType::Unparsable\)\); continue; \} '
    r'let subfpath: FPath = subpath \.to_string_lossy\(\) \.to_string\(\); '
    r'let pathtofileresult = path_to_filetype\(&subpath, (?P<flag>\w+)\); '
    r'let mut fullpath: FPath = String::with_capacity\([^;]*\); '
    r'fullpath\.push_str\(path\.as_str\(\)\); fullpath\.push\(SUBPATH_SEP\); fullpath\.push_str\(subfpath\.as_str\(\)\); '
    r'let result: ProcessPathResult; match pathtofileresult \{(?P<match>.*)\} results\.push\(result\);')

NOT_SUP = (r'result = ProcessPathResult::FileErrNotSupported\( fullpath, Some\(String::from\( '
           r'format!\("(?P<pre>[^"{}]*)\{\}(?P<post>[^"{}]*)", at\) \)\) \);')


def tar_shape(src: str):
    sig, body, _ = find_fn(src, 'process_path_tar')
    if not re.search(r'\(\s*path\s*:\s*&FPath\s*,\s*unparseable_are_text\s*:\s*bool\s*,\s*_filetypearchive\s*:\s*FileTypeArchive\s*,?\s*\)', sig):
        raise GenError("process_path_tar: signature is not (path: &FPath, unparseable_are_text: bool, _filetypearchive: FileTypeArchive)")
    if re.search(r'\bunparseable_are_text\s*=[^=]', body) or re.search(r'\blet\s+(mut\s+)?unparseable_are_text\b', body):
        raise GenError("process_path_tar: the parameter `unparseable_are_text` is reassigned or shadowed")
    fb = flat(body)
    loop_text, lstart, lend = block_at(fb, r'for \(_i, entry_res\) in entry_iter\.enumerate\(\) \{', 'process_path_tar member loop')
    pm = re.fullmatch(PRE_LOOP, fb[:lstart])
    global TAR_OPEN_UNWRAPS
    TAR_OPEN_UNWRAPS = bool(pm) and pm.group('open').rstrip().endswith('.unwrap();')
    if not pm or not re.fullmatch(
            r' (#\[cfg\(any\(debug_assertions, test\)\)\] \{ for \(i, result\) in results\.iter\(\)\.enumerate\(\) \{ \} \} )?results', fb[lend:]):
        raise GenError("process_path_tar: prologue/epilogue left the expected shape (open, tar::Archive::entries, loop, return results)")
    lm = re.fullmatch(LOOP_HEAD, loop_text.strip())
    if not lm:
        raise GenError("process_path_tar: member loop left the expected shape (iteration error -> FileErr; `!etype.is_file()` -> continue; "
                       "`entry.size() == 0` -> FileErrEmpty(path SEP lossy(subpath), Unparsable); path_to_filetype(&subpath, <flag>); "
                       "fullpath = path SEP lossy(subpath); match; results.push(result))")
    if lm.group('flag') != 'unparseable_are_text':
        raise GenError(f"process_path_tar: members are classified with {lm.group('flag')!r}, not the parameter `unparseable_are_text`")
    outer = match_arms(lm.group('match'))
    if [p.strip() for p, _ in outer] != ['PathToFiletypeResult::Filetype(filetype)', 'PathToFiletypeResult::Archive(..)']:
        raise GenError("process_path_tar: outer match arms are not Filetype(filetype) / Archive(..)")
    nm = re.fullmatch(r'result = ProcessPathResult::FileErrNotSupported\( fullpath, Some\(String::from\("(?P<msg>[^"\\]*)"\)\),? \);', outer[1][1].strip())
    if not nm:
        raise GenError("process_path_tar: Archive(..) arm is not FileErrNotSupported(fullpath, Some(<literal>))")
    nested_msg = nm.group('msg')
    im = re.fullmatch(r'match filetype \{(?P<inner>.*)\}', outer[0][1].strip())
    if not im:
        raise GenError("process_path_tar: Filetype arm is not a single `match filetype { .. }`")
    rows = {}
    msgs = set()
    unparsable = False
    for pat, val in match_arms(im.group('inner')):
        val = val.strip()
        alts = [a.strip() for a in pat.split('|')]
        if alts == ['FileType::Unparsable']:
            if val != 'result = ProcessPathResult::FileErrNotSupported(fullpath, None);':
                raise GenError("process_path_tar: Unparsable arm is not FileErrNotSupported(fullpath, None)")
            unparsable = True
            continue
        for alt in alts:
            am = re.fullmatch(r'FileType::(\w+) ?\{ archival_type: (at @ )?FileTypeArchive::(\w+)(?P<rest>(, [^}]*)?),? \}', alt)
            if not am or am.group(1) not in FAMS or am.group(3) not in ARCH:
                raise GenError(f"process_path_tar: pattern outside the subset: {alt[:80]}")
            fam, bound, arch, rest = am.group(1), bool(am.group(2)), am.group(3), am.group('rest').strip(', ')
            if (fam, arch) in rows:
                raise GenError(f"process_path_tar: duplicate row {fam}/{arch}")
            vm = re.fullmatch(NOT_SUP, val)
            if vm:
                if not bound:
                    raise GenError(f"process_path_tar: row {fam}/{arch} formats `at` without binding it")
                msgs.add((vm.group('pre'), vm.group('post')))
                rows[(fam, arch)] = False
                continue
            vm = re.fullmatch(r'result = ProcessPathResult::FileValid\( fullpath, FileType::(\w+) \{ archival_type: FileTypeArchive::(\w+)(?P<rest>(, [^}]*)?),? \} \);', val)
            if vm:
                if len(alts) != 1 or vm.group(1) != fam or vm.group(2) != 'Tar':
                    raise GenError(f"process_path_tar: row {fam}/{arch} is FileValid of another family or not archival_type Tar")
                # the other field must be bound by the pattern and carried over
                want = {'Evtx': ('..', ''), 'Journal': ('', ''), 'FixedStruct': ('fixedstruct_type: ft', 'fixedstruct_type: ft'),
                        'Text': ('encoding_type: et', 'encoding_type: et')}[fam]
                if (rest, vm.group('rest').strip(', ')) != want:
                    raise GenError(f"process_path_tar: row {fam}/{arch} does not carry the remaining field over unchanged")
                rows[(fam, arch)] = True
                continue
            raise GenError(f"process_path_tar: row {fam}/{arch} body outside the subset: {val[:100]}")
    if not unparsable:
        raise GenError("process_path_tar: no FileType::Unparsable arm")
    missing = [(f, a) for f in FAMS for a in ARCHS if (f, a) not in rows]
    if missing:
        raise GenError(f"process_path_tar: rows missing from the match: {missing[:4]}")
    if len(msgs) != 1:
        raise GenError("process_path_tar: the `cannot extract` message differs between rows")
    (pre, post), = msgs
    return rows, pre, post, nested_msg


def generate(repo: str):
    src = strip_comments(open(os.path.join(repo, 'src/readers/filepreprocessor.rs')).read())
    (named_p, named_l), (walk_p, walk_l) = process_path_shape(src)
    rows, pre, post, nested = tar_shape(src)
    # SUBPATH_SEP
    if not re.search(r'use\s+crate::readers::blockreader::SUBPATH_SEP\s*;', src):
        raise GenError("filepreprocessor.rs does not import SUBPATH_SEP from blockreader")
    br = strip_comments(open(os.path.join(repo, 'src/readers/blockreader.rs')).read())
    m = re.search(r"pub\s+const\s+SUBPATH_SEP\s*:\s*char\s*=\s*'([^'\\])'\s*;", br)
    if not m or ord(m.group(1)) > 127:
        raise GenError("SUBPATH_SEP is not a plain ASCII char constant")
    sep = m.group(1)
    # what main passes
    s4 = strip_comments(open(os.path.join(repo, 'src/bin/s4.rs')).read())
    ms = re.findall(r'\bprocess_path\s*\(([^()]*)\)', s4)
    if len(ms) != 1:
        raise GenError(f"s4.rs: expected one call of process_path, found {len(ms)}")
    args = [a.strip() for a in ms[0].split(',')]
    if len(args) != 2 or args[0] != 'path' or args[1] not in ('true', 'false'):
        raise GenError(f"s4.rs: process_path call is not process_path(path, <bool literal>): {ms[0]!r}")
    main_flag = args[1] == 'true'

    b = lambda x: 'true' if x else 'false'  # noqa: E731
    L = []
    L.append('-- GENERATED by /verif/gen/s4gen.py (gen_walk.py) from src/readers/filepreprocessor.rs, blockreader.rs, bin/s4.rs — do not edit')
    L.append('import S4V.Model.PathTypes')
    L.append('namespace S4V.Gen.WalkTar')
    L.append('open S4V.Model.PathTypes')
    L.append('')
    L.append('/-- the `FileType` variants that carry an `archival_type` -/')
    L.append('inductive Family where')
    L.append('  | evtx | fixedStruct | journal | text')
    L.append('  deriving DecidableEq, Repr, Inhabited')
    L.append('')
    L.append('/-- directory-walk arm of `process_path`: `process_path_tar(&path_to_fpath(std_path_entry), <this>, fta)`;')
    L.append('`true` iff `<this>` is the function\'s own parameter `unparseable_are_text` -/')
    L.append(f'def walkTarPassesFlag : Bool := {b(walk_p)}')
    L.append('/-- the literal passed instead (meaningful only when `walkTarPassesFlag = false`) -/')
    L.append(f'def walkTarFlagLit : Bool := {b(walk_l)}')
    L.append('/-- explicitly-named-file branch of `process_path`: `process_path_tar(path, <this>, fta)` -/')
    L.append(f'def namedTarPassesFlag : Bool := {b(named_p)}')
    L.append(f'def namedTarFlagLit : Bool := {b(named_l)}')
    L.append('/-- `main` (src/bin/s4.rs): `process_path(path, <this>)` -/')
    L.append(f'def mainUnparseableAreText : Bool := {b(main_flag)}')
    L.append('')
    L.append('/-- `process_path_tar` opens the archive with `File::open(path).unwrap()` (`true`: an archive that cannot be opened aborts')
    L.append('the program) or answers a failed open with one `FileErr` (`false`) -/')
    L.append(f'def tarOpenUnwraps : Bool := {b(TAR_OPEN_UNWRAPS)}')
    L.append('/-- `process_path_tar`: `if !etype.is_file() { continue; }` -/')
    L.append('def tarSkipsNonRegular : Bool := true')
    L.append('/-- `process_path_tar`: `entry.size() == 0` gives `FileErrEmpty(path SEP lossy(subpath), Unparsable)`, before any classification -/')
    L.append('def tarZeroSizeIsEmpty : Bool := true')
    L.append('/-- `process_path_tar`: the member type is `path_to_filetype(&subpath, unparseable_are_text)` (its own parameter) -/')
    L.append('def tarMemberUsesFlag : Bool := true')
    L.append(f'/-- `SUBPATH_SEP` = {sep!r} -/')
    L.append(f'def subpathSep : List UInt8 := {lean_bytes(sep)}')
    L.append('')
    L.append('/-- final `match` of `process_path_tar`: (family, archival type of the member\'s own classification) ↦')
    L.append('`true`: `FileValid(fullpath, <family>{ archival_type: Tar, other field unchanged })`;')
    L.append('`false`: `FileErrNotSupported(fullpath, Some("cannot extract <at> type …"))` -/')
    L.append('def tarMemberRows : List ((Family × Arch) × Bool) := [')
    L.append(',\n'.join(f'  ((.{FAMS[f]}, .{ARCH[a]}), {b(rows[(f, a)])})' for f in FAMS for a in ARCHS))
    L.append(']')
    L.append('')
    L.append(f'def tarMsgCannotPre : String := {lean_str_lit(pre)}')
    L.append(f'def tarMsgCannotPost : String := {lean_str_lit(post)}')
    L.append(f'def tarMsgNested : String := {lean_str_lit(nested)}')
    L.append('')
    L.append('end S4V.Gen.WalkTar')
    return '\n'.join(L) + '\n', {'walk_passes_flag': walk_p, 'named_passes_flag': named_p, 'rows': len(rows)}


def lean_str_lit(s: str) -> str:
    if any(ord(c) < 32 or ord(c) > 126 or c in '"\\' for c in s):
        raise GenError(f"message literal outside printable ASCII: {s!r}")
    return '"' + s + '"'
