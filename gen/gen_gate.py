"""Generate S4V/Gen/Gate.lean (+ GateMutants.lean): the decision skeleton of the block-zero acceptance
gate of `SyslogProcessor` (src/readers/syslogprocessor.rs) as Lean DATA that the interpreter of
`S4V.Model.GateSkel` runs:

* `process_stage0_valid_file_check`      -> `stage0 : Checks`   (the comparison, its verdict, the final verdict)
* `process_stage1_blockzero_analysis`    -> pinned: returns `self.blockzero_analysis()` on both paths
* `blockzero_analysis`                   -> `analysis : List Step` (file-size check, the three calls in source
  order, which of them return early on `!is_ok()`, the tail call); `is_ok` pinned to `matches!(FileOk)`
* `blockzero_analysis_bytes`             -> `bytes : Checks` (each check in source order: comparison with its two
  operands or the all-NUL test with its `take` bound, and the verdict it returns; `require_sz` inlined)
* `blockzero_analysis_lines`             -> `lines : Collect` (map consulted and its key, initial `fo` / `found`,
  the loop: conjuncts of the `while` condition, `found += n` of the `Found` arm (which yields `fo_next`),
  of the partial arm, the `break` test after the match; the final `match <cmp> { true => .., false => .. }`)
* `blockzero_analysis_syslines`          -> `syslines : Syslines` (the same for pass one, the early return after
  it, the verdict of a failed `dt_patterns_analysis`, the guard / resets / loop of pass two, the final match)

Every function body (comments, trace macros and `debug_assert*!` removed, whitespace flattened) must
match its template below as a WHOLE; anything else raises GenError naming the function.
"""
import os
import re
from rs import GenError, strip_comments, find_fn
from gen_search import flat

SPF = 'src/readers/syslogprocessor.rs'
RES = ['FileOk', 'FileErrEmpty', 'FileErrTooSmall', 'FileErrNullBytes', 'FileErrNoLinesFound', 'FileErrNoSyslinesFound']
CMP = {'<': 'lt', '<=': 'le', '>': 'gt', '>=': 'ge', '==': 'eq', '!=': 'ne'}
R_CMP = r'(<=|>=|==|!=|<|>)'
R_RES = r'FileProcessingResultBlockZero::(\w+)'
MAPS = {'BLOCKZERO_ANALYSIS_LINE_COUNT_MIN_MAP': '.line', 'BLOCKZERO_ANALYSIS_SYSLINE_COUNT_MIN_MAP': '.sysline'}


def need(c, msg):
    if not c:
        raise GenError(msg)


def res(name, where):
    need(name in RES, f'{where}: verdict {name} is not one of {RES}')
    return '.' + name


def esc(t):
    """template -> regex: literal text with `⟦name:regex⟧` holes"""
    out = []
    i = 0
    for m in re.finditer(r'⟦(\w+):(.*?)⟧', t):
        out.append(re.escape(t[i:m.start()]))
        out.append(f'(?P<{m.group(1)}>{m.group(2)})')
        i = m.end()
    out.append(re.escape(t[i:]))
    return ''.join(out)


def whole(t, text, where):
    m = re.fullmatch(esc(t), text)
    need(m, f'{SPF}: {where} left the expected shape')
    return m


OPD_SIMPLE = {
    'found': '.found', 'found_min': '.foundMin', 'blocksz0': '.blocksz0',
    'self.filesz()': '.filesz', 'self.syslinereader.filesz()': '.filesz', 'self.blocksz()': '.blocksz',
    'Self::BLOCKZERO_ANALYSIS_BYTES_MIN': '.bytesMin', 'Self::BLOCKZERO_ANALYSIS_BYTES_NULL_MAX': '.nullMax',
    'self.syslinereader.linereader.block_offset_at_file_offset(fo)': '.boFo',
    'self.syslinereader.block_offset_at_file_offset(fo)': '.boFo',
}


def opd(s, where, env=None):
    s = s.strip()
    if env and s in env:
        return env[s]
    if s in OPD_SIMPLE:
        return OPD_SIMPLE[s]
    if re.fullmatch(r'\d+', s):
        return f'(.lit {s})'
    m = re.fullmatch(r'std::cmp::min\((.+), (.+)\)', s)
    if m:
        return f'(.min {opd(m.group(1), where, env)} {opd(m.group(2), where, env)})'
    raise GenError(f'{SPF}: {where}: operand {s!r} outside the subset')


def cond(s, where, env=None):
    m = re.fullmatch(r'(.+?) ' + R_CMP + r' (.+)', s.strip())
    need(m, f'{SPF}: {where}: condition {s!r} is not `a <cmp> b`')
    return f'⟨.{CMP[m.group(2)]}, {opd(m.group(1), where, env)}, {opd(m.group(3), where, env)}⟩'


READ0 = ('let blockp: BlockP = match self.syslinereader.linereader.blockreader.read_block(0) { '
         'ResultS3ReadBlock::Found(blockp_) => blockp_, ResultS3ReadBlock::Done => { return FileProcessingResultBlockZero::FileErrEmpty; } '
         'ResultS3ReadBlock::Err(err) => { self.set_error(&err); return FileProcessingResultBlockZero::FileErrIoPath(err); } }; '
         'let blocksz0: BlockSz = (*blockp).len() as BlockSz; ')
ERRARM = '(⟦E:ResultS3\\w+Find⟧::Err(err), _) => { self.set_error(&err); return FileProcessingResultBlockZero::FileErrIoPath(err); } }; '
FINAL = ('let fpr: FileProcessingResultBlockZero = match ⟦fcond:[^{}]+?⟧ { true => FileProcessingResultBlockZero::⟦ftrue:\\w+⟧, '
         'false => FileProcessingResultBlockZero::⟦ffalse:\\w+⟧, }; ')


def body_of(sp, name):
    _, body, _ = find_fn(sp, name)
    return flat(body)


def gen_stage0(sp):
    t = body_of(sp, 'process_stage0_valid_file_check')
    m = whole('self.assert_stage(ProcessingStage::Stage0ValidFileCheck); self.processingstage = ProcessingStage::Stage0ValidFileCheck; '
              'if ⟦c:[^{}]+?⟧ { return FileProcessingResultBlockZero::⟦r:\\w+⟧; } FileProcessingResultBlockZero::⟦f:\\w+⟧', t, 'process_stage0_valid_file_check')
    w = 'process_stage0_valid_file_check'
    return f'⟨[.cmp {cond(m["c"], w)} {res(m["r"], w)}], {res(m["f"], w)}⟩'


def pin_stage1(sp):
    t = body_of(sp, 'process_stage1_blockzero_analysis')
    whole('self.assert_stage(ProcessingStage::Stage0ValidFileCheck); self.processingstage = ProcessingStage::Stage1BlockzeroAnalysis; '
          'let result: FileProcessingResultBlockZero = self.blockzero_analysis(); match result { FileProcessingResult::FileOk => {} _ => { return result; } } result',
          t, 'process_stage1_blockzero_analysis')


def pin_is_ok(repo):
    c = strip_comments(open(os.path.join(repo, 'src/common.rs')).read())
    need(re.search(r'pub const fn is_ok\(&self\) -> bool \{\s*matches!\(\*self, FileProcessingResult::FileOk\)\s*\}', c),
         'src/common.rs: FileProcessingResult::is_ok is not `matches!(*self, FileProcessingResult::FileOk)`')


def gen_analysis(sp):
    w = 'blockzero_analysis'
    t = body_of(sp, w)
    pre = ('assert!(!self.blockzero_analysis_done, "blockzero_analysis_lines should only be completed once."); self.blockzero_analysis_done = true; '
           'self.assert_stage(ProcessingStage::Stage1BlockzeroAnalysis); ')
    need(t.startswith(pre), f'{SPF}: {w} prologue left the expected shape')
    t = t[len(pre):]
    steps = []
    while True:
        m = re.match(r'if ([^{}]+?) \{ return ' + R_RES + r'; \} ', t)
        if m:
            steps.append(f'.check {cond(m.group(1), w)} {res(m.group(2), w)}')
            t = t[m.end():]
            continue
        m = re.match(r'let result: FileProcessingResultBlockZero = self\.blockzero_analysis_(\w+)\(\); ', t)
        need(m and m.group(1) in ('bytes', 'lines', 'syslines'), f'{SPF}: {w}: statement at {t[:60]!r} outside the subset')
        t = t[m.end():]
        if t == 'result':
            steps.append(f'.tail .{m.group(1)}')
            break
        m2 = re.match(r'if !result\.is_ok\(\) \{ return result; \};? ', t)
        if m2:
            steps.append(f'.callRet .{m.group(1)}')
            t = t[m2.end():]
        else:
            steps.append(f'.callIgnore .{m.group(1)}')
    return '[' + ', '.join(steps) + ']'


def gen_bytes(sp):
    w = 'blockzero_analysis_bytes'
    t = body_of(sp, w)
    pre = 'self.assert_stage(ProcessingStage::Stage1BlockzeroAnalysis); ' + READ0
    need(t.startswith(pre), f'{SPF}: {w} prologue (read_block(0), blocksz0) left the expected shape')
    t = t[len(pre):]
    m = re.match(r'let require_sz: BlockSz = ([^;]+); ', t)
    need(m, f'{SPF}: {w}: `let require_sz` not found')
    env = {'require_sz': opd(m.group(1), w)}
    t = t[m.end():]
    checks = []
    while True:
        m = re.match(r'if \(\*blockp\)\.iter\(\)\.take\(([^()]+)\)\.all\(\|&b\| b == 0\) \{ return ' + R_RES + r'; \} ', t)
        if m:
            checks.append(f'.allNull {opd(m.group(1), w, env)} {res(m.group(2), w)}')
            t = t[m.end():]
            continue
        m = re.match(r'if ([^{}]+?) \{ return ' + R_RES + r'; \} ', t)
        if m:
            checks.append(f'.cmp {cond(m.group(1), w, env)} {res(m.group(2), w)}')
            t = t[m.end():]
            continue
        break
    m = re.fullmatch(R_RES, t)
    need(m, f'{SPF}: {w}: tail {t[:60]!r} outside the subset')
    return '⟨[' + ', '.join(checks) + f'], {res(m.group(1), w)}⟩'


def conds(s, w):
    return '[' + ', '.join(cond(c, w) for c in s.split(' && ')) + ']'


LOOP_LINES = ('while ⟦wc:[^{}]+?⟧ { fo = match self.syslinereader.linereader.find_line_in_block(fo) { '
              '(ResultS3LineFind::Found((fo_next, _linep)), _) => { found += ⟦fi:\\d+⟧; fo_next } '
              '(ResultS3LineFind::Done, partial) => { match partial { Some(_) => { found += ⟦pi:\\d+⟧; _partial_found = true; }, None => {} } break; } '
              + ERRARM + '⟦post:(if [^{}]+? \\{ break; \\} )*⟧} ')
LOOP_SYSL = ('while ⟦wcN:[^{}]+?⟧ { fo = match self.syslinereader.find_sysline_in_block(fo) { '
             '(ResultS3SyslineFind::Found((fo_next, _slinep)), _) => { found += ⟦fiN:\\d+⟧; fo_next } '
             '(ResultS3SyslineFind::Done, partial_found) => { ⟦pfN:(if partial_found \\{ found \\+= \\d+; \\} )?⟧break; } '
             + ERRARM.replace('⟦E:', '⟦EN:') + '⟦postN:(if [^{}]+? \\{ break; \\} )*⟧} ')


def loop(wc, fi, pi, post, w):
    posts = re.findall(r'if ([^{}]+?) \{ break; \} ', post)
    return f'⟨{conds(wc, w)}, {fi}, {pi}, [' + ', '.join(cond(p, w) for p in posts) + ']⟩'


def final(m, w):
    return f'⟨{cond(m["fcond"], w)}, {res(m["ftrue"], w)}, {res(m["ffalse"], w)}⟩'


def gen_lines(sp):
    w = 'blockzero_analysis_lines'
    t = body_of(sp, w)
    m = whole('self.assert_stage(ProcessingStage::Stage1BlockzeroAnalysis); ' + READ0 +
              'let mut _partial_found = false; let mut fo: FileOffset = ⟦fo0:\\d+⟧; let mut found: Count = ⟦found0:\\d+⟧; '
              'let found_min: Count = *⟦map:\\w+⟧.get(&⟦key:\\w+⟧).unwrap(); ' + LOOP_LINES + FINAL + 'fpr', t, w)
    need(m['map'] in MAPS, f'{SPF}: {w}: unknown threshold map {m["map"]}')
    need(m['E'] == 'ResultS3LineFind', f'{SPF}: {w}: error arm type')
    return (f'{{ map := {MAPS[m["map"]]}, key := {opd(m["key"], w)}, fo0 := {m["fo0"]}, found0 := {m["found0"]},\n'
            f'    loop := {loop(m["wc"], m["fi"], m["pi"], m["post"], w)},\n    final := {final(m, w)} }}')


def pf_inc(s):
    m = re.search(r'found \+= (\d+);', s)
    return m.group(1) if m else '0'


def gen_syslines(sp):
    w = 'blockzero_analysis_syslines'
    t = body_of(sp, w)
    L1 = LOOP_SYSL.replace('N:', '1:').replace('N⟧', '1⟧')
    L2 = LOOP_SYSL.replace('N:', '2:').replace('N⟧', '2⟧')
    m = whole('self.assert_stage(ProcessingStage::Stage1BlockzeroAnalysis); ' + READ0 +
              'let mut fo: FileOffset = ⟦fo0:\\d+⟧; let mut found: Count = ⟦found0:\\d+⟧; '
              'let found_min: Count = *⟦map:\\w+⟧.get(&⟦key:\\w+⟧).unwrap(); ' + L1 +
              '⟦early:(if [^{}]+? \\{ return FileProcessingResultBlockZero::\\w+; \\} )*⟧'
              'let patt_count_a = self.syslinereader.dt_patterns_counts_in_use(); '
              'if !self.syslinereader.dt_patterns_analysis() { return FileProcessingResultBlockZero::⟦afail:\\w+⟧; } '
              'let _patt_count_b = self.syslinereader.dt_patterns_counts_in_use(); '
              'if patt_count_a > ⟦guard:\\d+⟧ { self.syslinereader.clear_syslines(); found = ⟦rfound:\\d+⟧; fo = ⟦rfo:\\d+⟧; ' + L2 + '} else { } ' +
              FINAL +
              'if cfg!(debug_assertions) && self.syslinereader.dt_patterns_counts_in_use() != 1 { } '
              'if self.syslinereader.is_streamed_file() && !self.syslinereader.dt_pattern_has_year() { self.syslinereader.linereader.blockreader.disable_drop_data(); } fpr',
              t, w)
    need(m['map'] in MAPS, f'{SPF}: {w}: unknown threshold map {m["map"]}')
    early = ['.cmp ' + cond(c, w) + ' ' + res(r, w) for c, r in re.findall(r'if ([^{}]+?) \{ return ' + R_RES + r'; \} ', m['early'])]
    return (f'{{ map := {MAPS[m["map"]]}, key := {opd(m["key"], w)}, fo0 := {m["fo0"]}, found0 := {m["found0"]},\n'
            f'    loop := {loop(m["wc1"], m["fi1"], pf_inc(m["pf1"]), m["post1"], w)},\n'
            f'    early := [{", ".join(early)}],\n'
            f'    analysisFail := {res(m["afail"], w)},\n'
            f'    pass2Guard := {m["guard"]}, pass2Found0 := {m["rfound"]}, pass2Fo0 := {m["rfo"]},\n'
            f'    pass2 := {loop(m["wc2"], m["fi2"], pf_inc(m["pf2"]), m["post2"], w)},\n'
            f'    final := {final(m, w)} }}')


def skel(repo, sp):
    pin_is_ok(repo)
    need(re.search(r'pub type FileProcessingResultBlockZero = FileProcessingResult<', sp),
         SPF + ': FileProcessingResultBlockZero is not an alias of FileProcessingResult')
    pin_stage1(sp)
    return [('stage0', 'Checks', gen_stage0(sp)), ('analysis', 'List Step', gen_analysis(sp)), ('bytes', 'Checks', gen_bytes(sp)),
            ('lines', 'Collect', gen_lines(sp)), ('syslines', 'Syslines', gen_syslines(sp))]


TYPES = '''
/-- `FileProcessingResultBlockZero` (the verdicts the gate can return without I/O errors) -/
inductive Res where
  | FileOk | FileErrEmpty | FileErrTooSmall | FileErrNullBytes | FileErrNoLinesFound | FileErrNoSyslinesFound
  deriving DecidableEq, Repr, Inhabited

inductive Cmp where
  | lt | le | gt | ge | eq | ne
  deriving DecidableEq, Repr

/-- operands of the comparisons: counters, sizes, constants (`boFo` = `block_offset_at_file_offset(fo)`) -/
inductive Opd where
  | filesz | blocksz0 | blocksz | found | foundMin | boFo | bytesMin | nullMax
  | lit (n : Nat)
  | min (a b : Opd)
  deriving Repr

/-- `a <cmp> b` -/
structure Cond where
  cmp : Cmp
  lhs : Opd
  rhs : Opd
  deriving Repr

inductive MapName where
  | line | sysline
  deriving DecidableEq, Repr

/-- `if <cond> { return <ret>; }` / `if blockp.iter().take(<n>).all(|&b| b == 0) { return <ret>; }` -/
inductive Check where
  | cmp (c : Cond) (ret : Res)
  | allNull (take : Opd) (ret : Res)
  deriving Repr

/-- early-return checks in source order, then the verdict of falling through -/
structure Checks where
  checks : List Check
  final : Res
  deriving Repr

inductive Fn where
  | bytes | lines | syslines
  deriving DecidableEq, Repr

/-- statements of `blockzero_analysis` -/
inductive Step where
  | check (c : Cond) (ret : Res)
  | callRet (f : Fn)       -- `let result = self.f(); if !result.is_ok() { return result; }`
  | callIgnore (f : Fn)    -- `let result = self.f();` (verdict dropped)
  | tail (f : Fn)          -- `let result = self.f(); result`
  deriving Repr

/-- `while c₁ && c₂ … { fo = match find(fo) { Found((fo_next, _)) => { found += foundInc; fo_next }
Done+partial => { found += partialInc; break } Done => break }; if p { break; } … }` -/
structure Loop where
  whileConds : List Cond
  foundInc : Nat
  partialInc : Nat
  postBreak : List Cond
  deriving Repr

/-- `match <cond> { true => ifTrue, false => ifFalse }` -/
structure Final where
  cond : Cond
  ifTrue : Res
  ifFalse : Res
  deriving Repr

structure Collect where
  map : MapName
  key : Opd
  fo0 : Nat
  found0 : Nat
  loop : Loop
  final : Final
  deriving Repr

structure Syslines where
  map : MapName
  key : Opd
  fo0 : Nat
  found0 : Nat
  loop : Loop
  early : List Check
  analysisFail : Res
  pass2Guard : Nat
  pass2Found0 : Nat
  pass2Fo0 : Nat
  pass2 : Loop
  final : Final
  deriving Repr

structure Skel where
  stage0 : Checks
  analysis : List Step
  bytes : Checks
  lines : Collect
  syslines : Syslines
  deriving Repr
'''


def render(items, ns_types=''):
    L = []
    for name, ty, val in items:
        L.append(f'def {name} : {ns_types}{ty} :=\n  {val}\n')
    return L


def generate(repo):
    sp = strip_comments(open(os.path.join(repo, SPF)).read())
    items = skel(repo, sp)
    L = ['-- GENERATED by /verif/gen/s4gen.py (gen_gate.py) from src/readers/syslogprocessor.rs — do not edit',
         'namespace S4V.Gen.Gate', TYPES]
    L += render(items)
    L.append('def skel : Skel := ⟨stage0, analysis, bytes, lines, syslines⟩\n')
    L.append('end S4V.Gen.Gate')
    return '\n'.join(L) + '\n', {'functions': 6}


# ---------------------------------------------------------------- mutants (counter-models)
# (name, what, function the edit applies to, [(regex on that function's comment-free text, replacement)]); each regex must match exactly once
MUTANTS = [
    ('tooSmallLe', 'blockzero_analysis_bytes: `blocksz0 < require_sz` -> `blocksz0 <= require_sz`', 'blockzero_analysis_bytes',
     [(r'if blocksz0 < require_sz \{', 'if blocksz0 <= require_sz {')]),
    ('syslFinalGt', 'blockzero_analysis_syslines: final `found >= found_min` -> `found > found_min`', 'blockzero_analysis_syslines',
     [(r'= match found >= found_min \{', '= match found > found_min {')]),
    ('linesLoopBlock', 'blockzero_analysis_lines: `if 0 != block_offset(fo) { break; }` -> `if 0 == …` (stops after the first line inside block zero)', 'blockzero_analysis_lines',
     [(r'if 0 != self\s*\.syslinereader\s*\.linereader\s*\.block_offset_at_file_offset\(fo\)', 'if 0 == self.syslinereader.linereader.block_offset_at_file_offset(fo)')]),
    ('syslWrongMap', 'blockzero_analysis_syslines: consults BLOCKZERO_ANALYSIS_LINE_COUNT_MIN_MAP', 'blockzero_analysis_syslines',
     [(r'\*BLOCKZERO_ANALYSIS_SYSLINE_COUNT_MIN_MAP', '*BLOCKZERO_ANALYSIS_LINE_COUNT_MIN_MAP')]),
    ('bytesOrder', 'blockzero_analysis_bytes: the NUL-bytes check moved before the too-small check', 'blockzero_analysis_bytes',
     [(r'(if blocksz0 < require_sz \{[^{}]*\})(\s*)(if \(\*blockp\)\.iter\(\)\.take\(Self::BLOCKZERO_ANALYSIS_BYTES_NULL_MAX\)\.all\(\|&b\| b == 0\) \{[^{}]*\})', r'\3\2\1')]),
    ('callOrder', 'blockzero_analysis: `blockzero_analysis_lines` called before `blockzero_analysis_bytes`', 'blockzero_analysis',
     [(r'self\.blockzero_analysis_bytes\(\);', 'self.blockzero_analysis_LINES();'), (r'self\.blockzero_analysis_lines\(\);', 'self.blockzero_analysis_bytes();'),
      (r'self\.blockzero_analysis_LINES\(\);', 'self.blockzero_analysis_lines();')]),
    ('tooSmallDropped', 'blockzero_analysis_bytes: the `return FileErrTooSmall` check removed', 'blockzero_analysis_bytes',
     [(r'if blocksz0 < require_sz \{[^{}]*\}', '')]),
    ('linesRetDropped', 'blockzero_analysis: the early return after `blockzero_analysis_lines` removed', 'blockzero_analysis',
     [(r'(self\.blockzero_analysis_lines\(\);)\s*if !result\.is_ok\(\) \{(?:[^{}]|\{:\?\})*\};', r'\1')]),
    ('partialNotCounted', 'blockzero_analysis_syslines (pass one): `if partial_found { found += 1; }` removed', 'blockzero_analysis_syslines',
     [(r'\A((?:.|\n)*?)if partial_found \{\s*found \+= 1;\s*\}', r'\1')]),
]


def generate_mutants(repo):
    sp0 = strip_comments(open(os.path.join(repo, SPF)).read())
    base = skel(repo, sp0)
    L = ['-- GENERATED by /verif/gen/s4gen.py (gen_gate.py) from src/readers/syslogprocessor.rs — do not edit',
         '-- the gate skeleton re-translated from the source with ONE edit each (gen_gate.py `MUTANTS`): counter-models',
         'import S4V.Gen.Gate', 'namespace S4V.Gen.GateMutants', 'open S4V.Gen.Gate', '']
    for name, what, fname, edits in MUTANTS:
        sig, body, start = find_fn(sp0, fname)
        end = start + len(sig) + len(body) + 2
        fn = sp0[start:end]
        for pat, rep in edits:
            n = len(re.findall(pat, fn))
            need(n == 1, f'mutant {name}: the pattern {pat!r} matches {n} times in {fname} (the source left the shape the mutant edits)')
            fn = re.sub(pat, rep, fn, count=1)
        items = skel(repo, sp0[:start] + fn + sp0[end:])
        changed = [a[0] for a, b in zip(items, base) if a != b]
        need(changed, f'mutant {name}: the edit does not change the translated skeleton')
        L.append(f'-- mutant `{name}`: {what}')
        L.append(f'namespace {name}')
        L += render([it for it in items if it[0] in changed])
        L.append('def skel : Skel := ⟨' + ', '.join((n if n in changed else 'S4V.Gen.Gate.' + n) for n, _, _ in items) + '⟩')
        L.append(f'end {name}\n')
    L.append('end S4V.Gen.GateMutants')
    return '\n'.join(L) + '\n', {'mutants': len(MUTANTS)}
