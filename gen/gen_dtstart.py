"""Generate S4V/Gen/DtStart.lean: the `range_regex` (`start`, `end`) of every
`DTPD!` row of `DATETIME_PARSE_DATAS` (src/data/datetime.rs).

`Line::get_boxptrs(a, b)` has exactly one caller
(`SyslineReader::parse_datetime_in_line`), which passes
`a = dtpd.range_regex.start`, `b = min(line.len(), dtpd.range_regex.end)`.
The proofs about `get_boxptrs` need to know which `a` can occur, so this module
extracts the `start`/`end` literals and shape-checks
  * the `DTPD!` macro (which positional argument becomes `range_regex.start`),
  * that `DateTimeParseInstr { … }` is only ever built by that macro,
  * that every element of `DATETIME_PARSE_DATAS` is a `DTPD!(…)` invocation and
    their number is `DATETIME_PARSE_DATAS_LEN`,
  * the one call site of `get_boxptrs`.
"""
import os
import re
from rs import GenError, strip_comments, int_lit


def _skip_literal(src, i):
    """if a string / raw string / char literal starts at src[i] return the index
    just past it, else None"""
    c = src[i]
    if c == 'r' and (i == 0 or not (src[i - 1].isalnum() or src[i - 1] == '_')):
        m = re.match(r'r(#*)"', src[i:i + 12])
        if m:
            end = src.find('"' + m.group(1), i + len(m.group(0)))
            if end < 0:
                raise GenError('unterminated raw string')
            return end + 1 + len(m.group(1))
    if c == '"':
        j = i + 1
        while j < len(src) and src[j] != '"':
            if src[j] == '\\':
                j += 1
            j += 1
        return j + 1
    if c == "'":
        m = re.match(r"'(\\.[^']*|[^\\'])'", src[i:])
        if m:
            return i + len(m.group(0))
    return None


def match_close(src, i):
    """index of the bracket closing src[i]; aware of raw strings (the test-case
    strings in the DTPD! rows contain `"` and brackets inside `r#"…"#`)"""
    cl = {'{': '}', '(': ')', '[': ']'}
    stack = []
    n = len(src)
    while i < n:
        j = _skip_literal(src, i)
        if j is not None:
            i = j
            continue
        c = src[i]
        if c in cl:
            stack.append(cl[c])
        elif c in ')]}':
            if not stack or stack.pop() != c:
                raise GenError('unbalanced bracket')
            if not stack:
                return i
        i += 1
    raise GenError('unbalanced bracket')


def split_top(src, sep=','):
    """split at top-level `sep` (outside brackets and string/raw-string/char literals)"""
    parts, cur, depth = [], [], 0
    i, n = 0, len(src)
    while i < n:
        j = _skip_literal(src, i)
        if j is not None:
            cur.append(src[i:j])
            i = j
            continue
        c = src[i]
        if c in '([{':
            depth += 1
        elif c in ')]}':
            depth -= 1
        if depth == 0 and c == sep:
            parts.append(''.join(cur))
            cur = []
        else:
            cur.append(c)
        i += 1
    if ''.join(cur).strip():
        parts.append(''.join(cur))
    return parts

MACRO_PARAMS = ['$dtr:expr', '$dtfs:expr', '$sib:literal', '$sie:literal',
                '$cgn_first:ident', '$cgn_last:ident', '$test_cases:expr', '$line_num:expr']


def _src_files(repo):
    """non-test Rust sources of the library and binary"""
    out = []
    for root, dirs, files in os.walk(os.path.join(repo, 'src')):
        dirs[:] = [d for d in dirs if d != 'tests']
        for f in files:
            if f.endswith('.rs'):
                out.append(os.path.join(root, f))
    return sorted(out)


def generate(repo):
    where = 'datetime.rs'
    src = strip_comments(open(os.path.join(repo, 'src/data/datetime.rs')).read())

    # --- the macro: positional parameters and what they initialise
    m = re.search(r'macro_rules!\s*DTPD\s*\{', src)
    if not m:
        raise GenError(f'{where}: macro_rules! DTPD not found')
    mb = src.index('{', m.start())
    body = src[mb + 1:match_close(src, mb)]
    p0 = body.index('(')
    p1 = match_close(body, p0)
    params = [re.sub(r'\s+', '', p) for p in split_top(body[p0 + 1:p1]) if p.strip()]
    if params != MACRO_PARAMS:
        raise GenError(f'{where}: DTPD! parameters changed: {params}')
    if body[p1 + 1:].count('=>') != 1:
        raise GenError(f'{where}: DTPD! has more than one rule')
    expansion = re.sub(r'\s+', ' ', body[p1 + 1:])
    if not re.search(r'range_regex: RangeLineIndex \{ start: \$sib, end: \$sie, \}', expansion):
        raise GenError(f'{where}: DTPD! no longer sets range_regex {{ start: $sib, end: $sie }}')
    i_start = MACRO_PARAMS.index('$sib:literal')
    i_end = MACRO_PARAMS.index('$sie:literal')

    # --- RangeLineIndex = Range<LineIndex> (start inclusive, end exclusive), LineIndex = usize
    lsrc = strip_comments(open(os.path.join(repo, 'src/data/line.rs')).read())
    if not re.search(r'pub type RangeLineIndex\s*=\s*std::ops::Range<LineIndex>\s*;', lsrc):
        raise GenError('line.rs: RangeLineIndex is no longer std::ops::Range<LineIndex>')

    # --- the table
    mlen = re.search(r'pub const DATETIME_PARSE_DATAS_LEN\s*:\s*usize\s*=\s*([^;]+);', src)
    if not mlen:
        raise GenError(f'{where}: DATETIME_PARSE_DATAS_LEN not found')
    n_decl = int_lit(mlen.group(1))
    mt = re.search(r'pub const DATETIME_PARSE_DATAS\s*:\s*\[DateTimeParseInstr;\s*DATETIME_PARSE_DATAS_LEN\]\s*=\s*\[', src)
    if not mt:
        raise GenError(f'{where}: DATETIME_PARSE_DATAS declaration changed shape')
    tb = mt.end() - 1
    te = match_close(src, tb)
    rows = [r.strip() for r in split_top(src[tb + 1:te]) if r.strip()]
    starts, ends = [], []
    for k, row in enumerate(rows):
        mm = re.match(r'DTPD!\s*\(', row)
        if not mm or match_close(row, mm.end() - 1) != len(row) - 1:
            raise GenError(f'{where}: DATETIME_PARSE_DATAS[{k}] is not a DTPD!(…) invocation: {row[:60]!r}')
        args = [a.strip() for a in split_top(row[mm.end():-1]) if a.strip()]
        if len(args) != len(MACRO_PARAMS):
            raise GenError(f'{where}: DATETIME_PARSE_DATAS[{k}] has {len(args)} arguments, expected {len(MACRO_PARAMS)}')
        for a in (args[i_start], args[i_end]):
            if not re.fullmatch(r'[0-9][0-9_]*(usize)?', a):
                raise GenError(f'{where}: DATETIME_PARSE_DATAS[{k}]: range bound {a!r} is not an integer literal')
        starts.append(int_lit(args[i_start]))
        ends.append(int_lit(args[i_end]))
    if len(rows) != n_decl:
        raise GenError(f'{where}: {len(rows)} rows but DATETIME_PARSE_DATAS_LEN = {n_decl}')

    # --- nothing else builds a DateTimeParseInstr / invokes DTPD!, and range_regex is never assigned
    n_rows_elsewhere = 0
    for path in _src_files(repo):
        s = strip_comments(open(path).read())
        rel = os.path.relpath(path, repo)
        # a struct literal, not a `-> &DateTimeParseInstr {` return type before a fn body
        lits = sum(1 for ml in re.finditer(r'\bDateTimeParseInstr\s*\{', s)
                   if not re.search(r'->\s*&?\s*$', s[max(0, ml.start() - 8):ml.start()]))
        # `struct DateTimeParseInstr<'a> {`/impl blocks carry generics or `for`; a struct literal does not
        if rel == 'src/data/datetime.rs':
            if lits != 1:
                raise GenError(f'{rel}: DateTimeParseInstr {{…}} literal appears {lits} times (expected only inside DTPD!)')
            n_rows_elsewhere += len(re.findall(r'\bDTPD!\s*\(', s)) - len(rows)
        else:
            if lits:
                raise GenError(f'{rel}: builds a DateTimeParseInstr outside DTPD!')
            n_rows_elsewhere += len(re.findall(r'\bDTPD!\s*\(', s))
        if re.search(r'range_regex(\.start|\.end)?\s*(=[^=]|\+=|-=)', s.replace('range_regex: RangeLineIndex', '')):
            raise GenError(f'{rel}: range_regex is assigned')
    if n_rows_elsewhere != 0:
        raise GenError(f'DTPD! invoked {n_rows_elsewhere} time(s) outside DATETIME_PARSE_DATAS')

    # --- the one caller of get_boxptrs
    calls = []
    for path in _src_files(repo):
        s = strip_comments(open(path).read())
        for mc in re.finditer(r'\.get_boxptrs\s*\(', s):
            e = match_close(s, mc.end() - 1)
            calls.append((os.path.relpath(path, repo), re.sub(r'\s+', ' ', s[mc.end():e]).strip()))
    want = [('src/readers/syslinereader.rs', 'dtpd.range_regex.start as LineIndex, slice_end as LineIndex')]
    if calls != want:
        raise GenError(f'get_boxptrs call sites changed: {calls}')
    ssrc = re.sub(r'\s+', ' ', strip_comments(open(os.path.join(repo, 'src/readers/syslinereader.rs')).read()))
    if 'let slice_end: usize = min(line.len(), dtpd.range_regex.end); if dtpd.range_regex.start >= slice_end {' not in ssrc:
        raise GenError('syslinereader.rs: slice_end computation / start >= slice_end guard changed')

    def lst(v):
        out, cur = [], '  ['
        for i, x in enumerate(v):
            t = str(x) + (', ' if i + 1 < len(v) else '')
            if len(cur) + len(t) > 96:
                out.append(cur.rstrip())
                cur = '   '
            cur += t
        out.append(cur + ']')
        return '\n'.join(out)

    L = ['-- GENERATED by /verif/gen/s4gen.py from src/data/datetime.rs — do not edit',
         'namespace S4V.Gen.DtStart', '',
         '/-- `DATETIME_PARSE_DATAS_LEN` -/',
         f'def parseDatasLen : Nat := {n_decl}', '',
         '/-- `range_regex.start` (3rd argument of `DTPD!`) of every row of `DATETIME_PARSE_DATAS`, in order.',
         'The only call of `Line::get_boxptrs(a, b)` passes `a = dtpd.range_regex.start`. -/',
         'def rangeStarts : List Nat :=', lst(starts), '',
         '/-- `range_regex.end` (4th argument of `DTPD!`); the call passes `b = min(line.len(), end)`',
         'after checking `start < b`. -/',
         'def rangeEnds : List Nat :=', lst(ends), '',
         'end S4V.Gen.DtStart']
    return '\n'.join(L) + '\n', {'rows': len(rows), 'nonzero_starts': sum(1 for s in starts if s != 0),
                                   'max_end': max(ends)}
