#!/usr/bin/env python3
"""Tie A: regenerate S4V/Gen/*.lean from /repo's working tree.

usage: s4gen.py [--repo /repo] [--out /verif/lean/S4V/Gen] [module ...]
Exit status 0 when every requested module was generated; 2 when an item left
the translator's subset (message names the item). Files are rewritten only
when their content changes so `lake build` stays incremental.
"""
import hashlib
import json
import os
import sys

sys.path.insert(0, os.path.dirname(os.path.abspath(__file__)))
from rs import GenError  # noqa: E402
import gen_path  # noqa: E402

MODULES = {
    'PathTables': gen_path.generate,
}

try:
    import gen_fixed
    MODULES['Fixed'] = gen_fixed.generate
except ImportError:
    pass
try:
    import gen_coord
    MODULES['Coord'] = gen_coord.generate
except ImportError:
    pass
try:
    import gen_print
    MODULES['Print'] = gen_print.generate
except ImportError:
    pass
try:
    import gen_walk
    MODULES['WalkTar'] = gen_walk.generate
except ImportError:
    pass
try:
    import gen_consts
    MODULES['Consts'] = gen_consts.generate
except ImportError:
    pass
try:
    import gen_filter
    MODULES['Filter'] = gen_filter.generate
except ImportError:
    pass
try:
    import gen_blocks
    MODULES['Blocks'] = gen_blocks.generate
except ImportError:
    pass
try:
    import gen_time
    MODULES['TimeTables'] = gen_time.generate
except ImportError:
    pass
try:
    import gen_cli
    MODULES['CliTables'] = gen_cli.generate
except ImportError:
    pass
try:
    import gen_journal
    MODULES['Journal'] = gen_journal.generate
    MODULES['JournalSkel'] = gen_journal.generate_skel
    MODULES['JournalSkelMutants'] = gen_journal.generate_skel_mutants
except ImportError:
    pass
try:
    import gen_tmp
    MODULES['Tmp'] = gen_tmp.generate
except ImportError:
    pass
try:
    import gen_dtstart
    MODULES['DtStart'] = gen_dtstart.generate
except ImportError:
    pass
try:
    import gen_stream
    MODULES['Stream'] = gen_stream.generate
except ImportError:
    pass
try:
    import gen_keys
    MODULES['Keys'] = gen_keys.generate
except ImportError:
    pass
try:
    import gen_year
    MODULES['Year'] = gen_year.generate
except ImportError:
    pass
try:
    import gen_regex
    MODULES['Regex'] = gen_regex.generate
except ImportError:
    pass
try:
    import gen_patsel
    MODULES['PatSel'] = gen_patsel.generate
except ImportError:
    pass
try:
    import gen_syslcache
    MODULES['SyslCache'] = gen_syslcache.generate
except ImportError:
    pass
try:
    import gen_fixedrender
    MODULES['FixedRender'] = gen_fixedrender.generate
except ImportError:
    pass


try:
    import gen_layoutdetect
    MODULES['LayoutDetect'] = gen_layoutdetect.generate
except ImportError:
    pass

try:
    import gen_search
    MODULES['Search'] = gen_search.generate
except ImportError:
    pass

try:
    import gen_journalrender
    MODULES['JournalRender'] = gen_journalrender.generate
except ImportError:
    pass

try:
    import gen_worker
    MODULES['Worker'] = gen_worker.generate
except ImportError:
    pass

try:
    import gen_tarmember
    MODULES['TarMember'] = gen_tarmember.generate
except ImportError:
    pass

try:
    import gen_fixedwalk
    MODULES['FixedWalk'] = gen_fixedwalk.generate
except ImportError:
    pass

try:
    import gen_summary
    MODULES['Summary'] = gen_summary.generate
except ImportError:
    pass

try:
    import gen_cliitems
    MODULES['CliItems'] = gen_cliitems.generate
except ImportError:
    pass

try:
    import gen_captures
    MODULES['Captures'] = gen_captures.generate
except ImportError:
    pass

try:
    import gen_lines
    MODULES['Lines'] = gen_lines.generate
    MODULES['LinesMutants'] = gen_lines.generate_mutants
    MODULES['Lines2'] = gen_lines.generate2
    MODULES['Lines2Mutants'] = gen_lines.generate_mutants2
except ImportError:
    pass

try:
    import gen_evtx
    MODULES['Evtx'] = gen_evtx.generate
except ImportError:
    pass

try:
    import gen_gate
    MODULES['Gate'] = gen_gate.generate
    MODULES['GateMutants'] = gen_gate.generate_mutants
except ImportError:
    pass

try:
    import gen_walkskel
    MODULES['WalkSkel'] = gen_walkskel.generate
    MODULES['WalkSkelMutants'] = gen_walkskel.generate_mutants
except ImportError:
    pass

def main():
    args = sys.argv[1:]
    repo = '/repo'
    out = os.path.join(os.path.dirname(os.path.abspath(__file__)), '..', 'lean', 'S4V', 'Gen')
    mods = []
    i = 0
    while i < len(args):
        if args[i] == '--repo':
            repo = args[i + 1]; i += 2
        elif args[i] == '--out':
            out = args[i + 1]; i += 2
        else:
            mods.append(args[i]); i += 1
    if not mods:
        mods = list(MODULES)
    os.makedirs(out, exist_ok=True)
    status = {}
    rc = 0
    for m in mods:
        path = os.path.join(out, m + '.lean')
        try:
            text, info = MODULES[m](repo)
        except GenError as e:
            status[m] = {'ok': False, 'error': str(e)}
            rc = 2
            # make the broken tie visible to lake: a file that cannot compile
            text = ('-- GENERATION FAILED: ' + str(e).replace('\n', ' ') + '\n'
                    '#eval (show Nat from "translator failed: item left the subset")\n')
            info = {}
        old = None
        if os.path.exists(path):
            with open(path) as f:
                old = f.read()
        if old != text:
            with open(path, 'w') as f:
                f.write(text)
        if m not in status:
            status[m] = {'ok': True, 'sha256': hashlib.sha256(text.encode()).hexdigest()[:16],
                         'changed': old != text, **info}
    print(json.dumps(status))
    sys.exit(rc)


if __name__ == '__main__':
    main()
