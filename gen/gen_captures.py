"""Generate S4V/Gen/Captures.lean from src/data/datetime.rs (Tie A for C04, slice CapXlate):

`captures_to_buffer_bytes` translated into DATA — the statements of the function in source order in a
small statement language (see the `inductive`s emitted below): per DTFSS field the
`match dtfs.<field> { Variant => { … } }` arms with their buffer writes (copy of a capture group,
literal bytes, fill/default values, the 13-arm padding table of the fraction with each arm's literal,
the U+2212 handling, the month / zone table look-ups) and the `T` pushed between date and time.

What the translator does with the Rust text:
* tracing macros (`defn!/defo!/defx!/deo!/de_wrn!/de_err!`) and the debug-only `debug_assert*!` /
  `debug_panic!` calls are removed (the model describes the release build);
* `let x = <pure expression>` is inlined at its uses (`x` = a capture group's bytes, a length, the
  year string …); an `.unwrap()` at the `let` is kept in place as the statement `need <group>`;
* everything else must be one of the statement / expression forms listed in `Parser`; any other
  token sequence raises GenError naming it.

The three `copy_*_to_buffer!` macros are shape-checked (write at `at`, advance `at` by the length).
"""
import os
import re
import sys

from rs import GenError, strip_comments, match_close, find_fn
import gen_time

GROUPS = {'CGN_YEAR': 'year', 'CGN_MONTH': 'month', 'CGN_DAY': 'day', 'CGN_HOUR': 'hour', 'CGN_MINUTE': 'minute',
          'CGN_SECOND': 'second', 'CGN_FRACTIONAL': 'fractional', 'CGN_TZ': 'tz', 'CGN_EPOCH': 'epoch'}
FIELD_ENUM = {f: ty for f, ty in gen_time.FIELDS}
KONSTS = ['YEAR_FALLBACKDUMMY', 'MINUS_SIGN', 'HYPHEN_MINUS']
NOOP_MACROS = ['defn', 'defo', 'defx', 'defñ', 'deo', 'de_wrn', 'de_err', 'debug_assert', 'debug_assert_eq', 'debug_assert_ne',
               'debug_assert_ge', 'debug_assert_le', 'debug_assert_gt', 'debug_assert_lt', 'debug_panic']


def strip_noops(block, empty_args=('panic',)):
    """remove the no-op (release build) macro calls; empty the argument list of `panic!`"""
    out = []
    i = 0
    pat = re.compile(r'(?<![\w!])(' + '|'.join(NOOP_MACROS + list(empty_args)) + r')!\s*\(')
    while True:
        m = pat.search(block, i)
        if not m:
            out.append(block[i:])
            break
        out.append(block[i:m.start()])
        p = block.find('(', m.start())
        e = match_close(block, p)
        i = e + 1
        if m.group(1) in empty_args:
            out.append(m.group(1) + '!()')
            continue
        while i < len(block) and block[i] in ' \t':
            i += 1
        if i < len(block) and block[i] == ';':
            i += 1
    return ''.join(out)


TOKEN = re.compile(r'''\s*(?:
    (b"(?:[^"\\]|\\.)*") | (b'(?:[^'\\]|\\.)') | ("(?:[^"\\]|\\.)*") |
    ([A-Za-z_]\w*(?:::[A-Za-z_]\w*)*!?) | (\d+) | (=>|->|\+=|\.\.|[{}()\[\],;:.&|=+\#<>\-])
)''', re.X)


def tokenize(s, where):
    out = []
    pos = 0
    s = s.rstrip()
    while pos < len(s):
        m = TOKEN.match(s, pos)
        if not m:
            raise GenError(f"{where}: cannot tokenise at {s[pos:pos + 40]!r}")
        pos = m.end()
        out.append(m.group(m.lastindex))
    return out


def byte_lit(tok, where):
    """b'x' -> int"""
    body = gen_time.unescape(tok[2:-1], where)
    if len(body) != 1 or ord(body) > 255:
        raise GenError(f"{where}: byte literal {tok} is not one byte")
    return ord(body)


def bytes_lit(tok, where):
    body = gen_time.unescape(tok[2:-1], where)
    if any(ord(c) > 255 for c in body):
        raise GenError(f"{where}: byte string {tok} has a non-byte character")
    return [ord(c) for c in body]


GROUP_BYTES = r'captures \. name \( (CGN_\w+) \) \. as_ref \( \) \. unwrap \( \) \. as_bytes \( \)'
GROUP_OPT = r'captures \. name \( (CGN_\w+) \) \. as_ref \( \)'


class Parser:
    """recursive descent over the token list of the function body.

    scope: name -> ('slice', lean-slice) | ('len', lean-slice) | ('year',) | ('offset', lean-slice) | ('at',)"""

    def __init__(self, toks, where):
        self.t = toks
        self.i = 0
        self.where = where

    # ---- token helpers
    def peek(self, k=0):
        return self.t[self.i + k] if self.i + k < len(self.t) else None

    def fail(self, msg):
        ctx = ' '.join(self.t[max(0, self.i - 6):self.i + 14])
        raise GenError(f"{self.where}: {msg} near `{ctx}`")

    def expect(self, tok):
        if self.peek() != tok:
            self.fail(f"expected `{tok}`")
        self.i += 1

    def until(self, stops, depth_open='([', depth_close=')]'):
        """tokens up to (not including) the first of `stops` at bracket depth 0 (parens and square brackets)"""
        d = 0
        j = self.i
        while j < len(self.t):
            x = self.t[j]
            if d == 0 and x in stops:
                break
            if x in depth_open:
                d += 1
            elif x in depth_close:
                d -= 1
            j += 1
        if j >= len(self.t):
            self.fail(f"no `{'`/`'.join(stops)}` found")
        out = self.t[self.i:j]
        self.i = j
        return out

    def group(self, cgn):
        if cgn not in GROUPS:
            self.fail(f"unknown capture group constant {cgn}")
        return GROUPS[cgn]

    # ---- expressions
    def slice_expr(self, toks, scope):
        """a `&[u8]` expression -> (lean Slice, [groups unwrapped here])"""
        s = ' '.join(toks)
        s = re.sub(r' ,$', '', s)
        m = re.fullmatch(GROUP_BYTES, s)
        if m:
            g = self.group(m.group(1))
            return f'.grp .{g}', [g]
        m = re.fullmatch(r'(b"(?:[^"\\]|\\.)*")', s)
        if m:
            return '.lit [' + ', '.join(map(str, bytes_lit(m.group(1), self.where))) + ']', []
        m = re.fullmatch(r"& \[ (b'(?:[^'\\]|\\.)') \]", s)
        if m:
            return f'.lit [{byte_lit(m.group(1), self.where)}]', []
        m = re.fullmatch(r'(\w+)', s)
        if m and m.group(1) in ('MINUS_SIGN', 'HYPHEN_MINUS'):
            return f'.konst .{m.group(1)}', []
        if m and scope.get(m.group(1), (None,))[0] == 'slice':
            return scope[m.group(1)][1], []
        m = re.fullmatch(r'(\w+) \. as_bytes \( \)', s)
        if m:
            n = m.group(1)
            if n == 'YEAR_FALLBACKDUMMY':
                return '.konst .YEAR_FALLBACKDUMMY', []
            if n == 'tz_offset_string':
                return '.tzOffsetString', []
            if scope.get(n, (None,))[0] == 'slice':
                return scope[n][1], []
            if scope.get(n, (None,))[0] == 'yearstr':
                return '.yearString', []
        m = re.fullmatch(r'& (\w+) \[ \.\. (\d+) \]', s)
        if m and scope.get(m.group(1), (None,))[0] == 'slice':
            return f'.pfx {m.group(2)} ({scope[m.group(1)][1]})', []
        m = re.fullmatch(r'& (b"(?:[^"\\]|\\.)*") \[ \.\. (\d+) - (\w+) \]', s)
        if m and scope.get(m.group(3), (None,))[0] == 'len':
            return ('.pfxSub [' + ', '.join(map(str, bytes_lit(m.group(1), self.where))) + f'] {m.group(2)} ({scope[m.group(3)][1]})'), []
        m = re.fullmatch(r'(\w+) \[ (\w+) \.\. \] \. as_bytes \( \)', s)
        if m and scope.get(m.group(1), (None,))[0] == 'slice' and scope.get(m.group(2), (None,))[0] == 'offset':
            if scope[m.group(2)][1] != scope[m.group(1)][1]:
                self.fail(f"offset {m.group(2)} is not an offset into {m.group(1)}")
            return f'.fromSecondChar ({scope[m.group(1)][1]})', []
        self.fail(f"slice expression `{s}` outside the subset")

    def byte_expr(self, toks, scope):
        s = ' '.join(toks)
        m = re.fullmatch(r"(b'(?:[^'\\]|\\.)')", s)
        if m:
            return f'.lit {byte_lit(m.group(1), self.where)}'
        m = re.fullmatch(r'(\w+) \[ (\d+) \]', s)
        if m and scope.get(m.group(1), (None,))[0] == 'slice':
            return f'.idx ({scope[m.group(1)][1]}) {m.group(2)}'
        self.fail(f"byte expression `{s}` outside the subset")

    def macro_args(self):
        """`( a , b , c )` after a macro name -> list of token lists"""
        self.expect('(')
        args = []
        while True:
            a = self.until([',', ')'])
            if a:
                args.append(a)
            if self.peek() == ',':
                self.i += 1
                continue
            self.expect(')')
            break
        if self.peek() == ';':
            self.i += 1
        return args

    # ---- statements
    def block(self, scope):
        """`{ stmt* }` -> list of lean statements"""
        self.expect('{')
        out = self.stmts(dict(scope))
        self.expect('}')
        return out

    def stmts(self, scope):
        out = []
        while self.peek() is not None and self.peek() != '}':
            out.extend(self.stmt(scope))
        return out

    def stmt(self, scope):
        x = self.peek()
        if x == '#':
            self.i += 1
            self.expect('[')
            self.until([']'], depth_open='(', depth_close=')')
            self.expect(']')
            return []
        if x == 'copy_capturegroup_to_buffer!':
            self.i += 1
            a = self.macro_args()
            if [' '.join(v) for v in a[1:]] != ['captures', 'buffer', 'at'] or len(a[0]) != 1:
                self.fail("copy_capturegroup_to_buffer! arguments are not (CGN_x, captures, buffer, at)")
            return [f'.copyGroup .{self.group(a[0][0])}']
        if x == 'copy_slice_to_buffer!':
            self.i += 1
            a = self.macro_args()
            if [' '.join(v) for v in a[1:]] != ['buffer', 'at']:
                self.fail("copy_slice_to_buffer! arguments are not (slice, buffer, at)")
            e, needs = self.slice_expr(a[0], scope)
            return [f'.need .{g}' for g in needs] + [f'.copySlice ({e})']
        if x == 'copy_u8_to_buffer!':
            self.i += 1
            a = self.macro_args()
            if [' '.join(v) for v in a[1:]] != ['buffer', 'at']:
                self.fail("copy_u8_to_buffer! arguments are not (u8, buffer, at)")
            return [f'.copyByte ({self.byte_expr(a[0], scope)})']
        if x == 'panic!':
            self.i += 1
            self.macro_args()
            return ['.panic']
        if x == 'let':
            return self.let(scope)
        if x == 'match':
            return self.match(scope)
        if x == 'if':
            return self.if_(scope)
        if x == 'month_bB_to_month_m_bytes':
            self.i += 1
            a = self.macro_args()
            if len(a) != 2:
                self.fail("month_bB_to_month_m_bytes call does not have two arguments")
            e, needs = self.slice_expr(a[0], scope)
            m = re.fullmatch(r'& mut buffer \[ at \.\. at \+ (\d+) \]', ' '.join(a[1]))
            if not m:
                self.fail("month_bB_to_month_m_bytes destination is not `&mut buffer[at..at + N]`")
            w = m.group(1)
            nxt = self.t[self.i:self.i + 4]
            if nxt != ['at', '+=', w, ';']:
                self.fail(f"month_bB_to_month_m_bytes is not followed by `at += {w};`")
            self.i += 4
            return [f'.need .{g}' for g in needs] + [f'.monthTable ({e}) {w}']
        self.fail(f"statement starting with `{x}` outside the subset")

    def let(self, scope):
        self.expect('let')
        toks = self.until([';'], depth_open='([{', depth_close=')]}')
        self.expect(';')
        s = ' '.join(toks)
        m = re.fullmatch(r'(\w+)(?: : & \[ u8 \])? = ' + GROUP_BYTES, s)
        if m:
            g = self.group(m.group(2))
            scope[m.group(1)] = ('slice', f'.grp .{g}')
            return [f'.need .{g}']
        m = re.fullmatch(r'(\w+)(?: : & \[ u8 \])? = match ' + GROUP_OPT +
                         r' \{ Some \( (\w+) \) => \{ \3 \. as_bytes \( \) \} ,? ?None => \{ panic! \( \) ;? ?\} ,? ?\}', s)
        if m:
            g = self.group(m.group(2))
            scope[m.group(1)] = ('slice', f'.grp .{g}')
            return [f'.need .{g}']
        m = re.fullmatch(r'(\w+)(?: : usize)? = (\w+) \. len \( \)', s)
        if m and scope.get(m.group(2), (None,))[0] == 'slice':
            scope[m.group(1)] = ('len', scope[m.group(2)][1])
            return []
        m = re.fullmatch(r'(\w+)(?: : String)? = (\w+) \. to_string \( \)', s)
        if m and scope.get(m.group(2), (None,))[0] == 'year':
            scope[m.group(1)] = ('yearstr',)
            return []
        m = re.fullmatch(r'(\w+)(?: : & str)? = match u8_to_str \( ' + GROUP_BYTES +
                         r' ,? ?\) \{ Some \( (\w+) \) => \3 , None => \{ "" \} ,? ?\}', s)
        if m:
            g = self.group(m.group(2))
            scope[m.group(1)] = ('slice', f'.strOrEmpty (.grp .{g})')
            return [f'.need .{g}']
        self.fail(f"`let {s}` outside the subset")

    def arms(self, scope, binder=None):
        """`{ pat => body , … }` -> list of (pattern tokens, lean statements); `binder(pat, scope)` may extend the arm's scope"""
        self.expect('{')
        out = []
        while self.peek() != '}':
            if self.peek() == '|':
                self.i += 1
            pat = self.until(['=>'])
            self.expect('=>')
            sc = dict(scope)
            if binder:
                binder(pat, sc)
            if self.peek() == '{':
                body = self.block(sc)
            else:
                # a single macro statement up to the `,`
                save = self.i
                body = self.stmt(sc)
                if self.i == save:
                    self.fail("empty arm body")
            if self.peek() == ',':
                self.i += 1
            out.append((pat, body))
        self.expect('}')
        return out

    def bool_arms(self, scope):
        a = self.arms(scope)
        d = {' '.join(p): b for p, b in a}
        if len(a) != 2 or set(d) != {'true', 'false'}:
            self.fail("boolean match does not have exactly the arms `true` and `false`")
        return d['true'], d['false']

    def match(self, scope):
        self.expect('match')
        scrut = ' '.join(self.until(['{']))
        m = re.fullmatch(r'dtfs \. (\w+)', scrut)
        if m:
            f = m.group(1)
            if f not in FIELD_ENUM:
                self.fail(f"dtfs.{f} is not a DTFSSet enum field")
            ty = FIELD_ENUM[f]
            arms = self.arms(scope)
            seen = []
            out = []
            for pat, body in arms:
                vs = [v for v in pat if v != '|']
                pv = []
                for v in vs:
                    mm = re.fullmatch(ty + r'::(\w+)', v)
                    if not mm or mm.group(1) not in gen_time.ENUMS[ty]:
                        self.fail(f"pattern `{v}` of `match dtfs.{f}` is not a {ty} variant")
                    if mm.group(1) in seen:
                        self.fail(f"variant {v} matched twice")
                    seen.append(mm.group(1))
                    pv.append(f'.{f} .{gen_time.lean_variant(mm.group(1))}')
                out.append(('[' + ', '.join(pv) + ']', body))
            if sorted(seen) != sorted(gen_time.ENUMS[ty]):
                self.fail(f"`match dtfs.{f}` does not list every {ty} variant")
            return [('matchField', f, out)]
        m = re.fullmatch(GROUP_OPT, scrut)
        if m:
            g = self.group(m.group(1))

            def bind(pat, sc):
                mm = re.fullmatch(r'Some \( (\w+) \)', ' '.join(pat))
                if mm:
                    sc[mm.group(1)] = ('slice', f'.grp .{g}')
            a = self.arms(scope, bind)
            d = {(' '.join(p) if p == ['None'] else 'Some'): b for p, b in a if p == ['None'] or re.fullmatch(r'Some \( \w+ \)', ' '.join(p))}
            if len(a) != 2 or set(d) != {'Some', 'None'}:
                self.fail("match on a capture group does not have exactly the arms `Some(x)` and `None`")
            return [('two', f'.matchGroup .{g}', d['Some'], d['None'])]
        if scrut == 'year_opt':
            def bind(pat, sc):
                mm = re.fullmatch(r'Some \( (\w+) \)', ' '.join(pat))
                if mm:
                    sc[mm.group(1)] = ('year',)
            a = self.arms(scope, bind)
            d = {(' '.join(p) if p == ['None'] else 'Some'): b for p, b in a if p == ['None'] or re.fullmatch(r'Some \( \w+ \)', ' '.join(p))}
            if len(a) != 2 or set(d) != {'Some', 'None'}:
                self.fail("match year_opt does not have exactly the arms `Some(year)` and `None`")
            return [('two', '.matchYearOpt', d['Some'], d['None'])]
        m = re.fullmatch(r'(\w+) \. len \( \)', scrut)
        ln = None
        if m and scope.get(m.group(1), (None,))[0] == 'slice':
            ln = scope[m.group(1)][1]
        elif re.fullmatch(r'\w+', scrut) and scope.get(scrut, (None,))[0] == 'len':
            ln = scope[scrut][1]
        if ln is not None:
            arms = self.arms(scope)
            out = []
            for k, (pat, body) in enumerate(arms):
                ps = ' '.join(pat)
                if re.fullmatch(r'\d+(?: \| \d+)*', ps):
                    out.append(('some [' + ', '.join(p for p in pat if p != '|') + ']', body))
                elif re.fullmatch(r'_\w*', ps):
                    if k != len(arms) - 1:
                        self.fail("catch-all length arm is not the last arm")
                    out.append(('none', body))
                else:
                    self.fail(f"length pattern `{ps}` outside the subset")
            if not out or out[-1][0] != 'none':
                self.fail("length match has no catch-all arm")
            return [('matchLen', ln, out)]
        m = re.fullmatch(r'(\w+) \[ (\d+) \]', scrut)
        if m and scope.get(m.group(1), (None,))[0] == 'slice':
            arms = self.arms(scope)
            out = []
            for k, (pat, body) in enumerate(arms):
                ps = ' '.join(pat)
                if all(re.fullmatch(r"b'(?:[^'\\]|\\.)'", p) for p in pat if p != '|') and pat:
                    out.append(('some [' + ', '.join(str(byte_lit(p, self.where)) for p in pat if p != '|') + ']', body))
                elif re.fullmatch(r'_\w*', ps):
                    if k != len(arms) - 1:
                        self.fail("catch-all byte arm is not the last arm")
                    out.append(('none', body))
                else:
                    self.fail(f"byte pattern `{ps}` outside the subset")
            if not out or out[-1][0] != 'none':
                self.fail("byte match has no catch-all arm")
            return [('matchByte', f'.idx ({scope[m.group(1)][1]}) {m.group(2)}', out)]
        m = re.fullmatch(r'(\w+) \. starts_with \( (\w+) \)', scrut)
        if m and scope.get(m.group(1), (None,))[0] == 'slice':
            p, _ = self.slice_expr([m.group(2)], scope)
            t, f = self.bool_arms(scope)
            return [('two', f'.matchStartsWith ({scope[m.group(1)][1]}) ({p})', t, f)]
        m = re.fullmatch(r'(\w+) \. is_empty \( \)', scrut)
        if m and scope.get(m.group(1), (None,))[0] == 'slice':
            t, f = self.bool_arms(scope)
            return [('two', f'.matchIsEmpty ({scope[m.group(1)][1]})', t, f)]
        m = re.fullmatch(r'std::str::from_utf8 \( & (\w+) \)', scrut)
        if m and scope.get(m.group(1), (None,))[0] == 'slice':
            src = scope[m.group(1)][1]

            def bind(pat, sc):
                mm = re.fullmatch(r'Ok \( (\w+) \)', ' '.join(pat))
                if mm:
                    sc[mm.group(1)] = ('slice', src)
            a = self.arms(scope, bind)
            d = {}
            for p, b in a:
                ps = ' '.join(p)
                if re.fullmatch(r'Ok \( \w+ \)', ps):
                    d['Ok'] = b
                elif re.fullmatch(r'Err \( \w+ \)', ps):
                    d['Err'] = b
            if len(a) != 2 or set(d) != {'Ok', 'Err'}:
                self.fail("match from_utf8 does not have exactly the arms `Ok(x)` and `Err(e)`")
            return [('two', f'.matchUtf8 ({src})', d['Ok'], d['Err'])]
        m = re.fullmatch(r'(\w+) \. char_indices \( \) \. nth \( 1 \)', scrut)
        if m and scope.get(m.group(1), (None,))[0] == 'slice':
            src = scope[m.group(1)][1]

            def bind(pat, sc):
                mm = re.fullmatch(r'Some \( \( (\w+) , _\w* \) \)', ' '.join(pat))
                if mm:
                    sc[mm.group(1)] = ('offset', src)
            a = self.arms(scope, bind)
            d = {}
            for p, b in a:
                ps = ' '.join(p)
                if re.fullmatch(r'Some \( \( \w+ , _\w* \) \)', ps):
                    d['Some'] = b
                elif ps == 'None':
                    d['None'] = b
            if len(a) != 2 or set(d) != {'Some', 'None'}:
                self.fail("match char_indices().nth(1) does not have exactly the arms `Some((offset, _))` and `None`")
            return [('two', f'.matchSecondChar ({src})', d['Some'], d['None'])]
        m = re.fullmatch(r'MAP_TZZ_TO_TZz \. get_entry \( (\w+) \)', scrut)
        if m and scope.get(m.group(1), (None,))[0] == 'slice':
            key = scope[m.group(1)][1]

            def bind(pat, sc):
                mm = re.fullmatch(r'Some \( \( _\w* , (\w+) \) \)', ' '.join(pat))
                if mm:
                    sc[mm.group(1)] = ('slice', f'.tzValue ({key})')
            a = self.arms(scope, bind)
            d = {}
            for p, b in a:
                ps = ' '.join(p)
                if re.fullmatch(r'Some \( \( _\w* , \w+ \) \)', ps):
                    d['Some'] = b
                elif ps == 'None':
                    d['None'] = b
            if len(a) != 2 or set(d) != {'Some', 'None'}:
                self.fail("match MAP_TZZ_TO_TZz.get_entry does not have exactly the arms `Some((_, value))` and `None`")
            return [('two', f'.matchTzTable ({key})', d['Some'], d['None'])]
        self.fail(f"`match {scrut}` outside the subset")

    def if_(self, scope):
        self.expect('if')
        cond = ' '.join(self.until(['{']))
        m = re.fullmatch(r'(\w+) \. is_empty \( \)', cond)
        if m and scope.get(m.group(1), (None,))[0] == 'slice':
            t = self.block(scope)
            self.expect('else')
            f = self.block(scope)
            return [('two', f'.matchIsEmpty ({scope[m.group(1)][1]})', t, f)]
        # `if len <op> N { … } else if … { … } else { … }` (a missing final `else` is the empty block)
        m = re.fullmatch(r'(\w+)( \. len \( \))? (< =|> =|= =|<|>) (\d+)', cond)
        if m:
            n = m.group(1)
            if m.group(2) and scope.get(n, (None,))[0] == 'slice':
                ln = scope[n][1]
            elif not m.group(2) and scope.get(n, (None,))[0] == 'len':
                ln = scope[n][1]
            else:
                self.fail(f"`if {cond}`: {n} is not a length in scope")
            op = {'<': 'lt', '< =': 'le', '>': 'gt', '> =': 'ge', '= =': 'eq'}[m.group(3)]
            t = self.block(scope)
            f = []
            if self.peek() == 'else':
                self.i += 1
                f = self.if_(scope) if self.peek() == 'if' else self.block(scope)
            return [('two', f'.ifLen ({ln}) .{op} {m.group(4)}', t, f)]
        self.fail(f"`if {cond}` outside the subset")


# ------------------------------------------------------------------ Lean rendering

def render_list(stmts, ind):
    if not stmts:
        return '[]'
    pad = ' ' * ind
    return '[\n' + ',\n'.join(pad + '  ' + render(s, ind + 2) for s in stmts) + ']'


def render(s, ind):
    if isinstance(s, str):
        return s
    kind = s[0]
    pad = ' ' * ind
    if kind == 'two':
        return f'{s[1]}\n{pad}  {render_list(s[2], ind + 2)}\n{pad}  {render_list(s[3], ind + 2)}'
    if kind == 'matchField':
        arms = ',\n'.join(f'{pad}  ({p}, {render_list(b, ind + 4)})' for p, b in s[2])
        return f'.matchField .{s[1]} [\n{arms}]'
    if kind in ('matchLen', 'matchByte'):
        arms = ',\n'.join(f'{pad}  ({p}, {render_list(b, ind + 4)})' for p, b in s[2])
        return f'.{kind} ({s[1]}) [\n{arms}]'
    raise GenError(f"internal: cannot render {s!r}")


PRELUDE = '''-- GENERATED by /verif/gen/s4gen.py (gen_captures.py) from src/data/datetime.rs — do not edit
import S4V.Gen.TimeTables
namespace S4V.Gen.Captures
open S4V.Gen.TimeTables

/-! ### the statement language -/

/-- the named capture groups `CGN_*` the function reads -/
inductive Grp where
  | year | month | day | hour | minute | second | fractional | tz | epoch
  deriving DecidableEq, Repr, Inhabited

/-- the `DTFSSet` enum fields -/
inductive Field where
  | year | month | day | hour | minute | second | fractional | tz | epoch
  deriving DecidableEq, Repr, Inhabited

/-- a value of one of the fields: the patterns of `match dtfs.<field> { … }` -/
inductive FieldVal where
  | year (v : DTFS_Year) | month (v : DTFS_Month) | day (v : DTFS_Day) | hour (v : DTFS_Hour) | minute (v : DTFS_Minute)
  | second (v : DTFS_Second) | fractional (v : DTFS_Fractional) | tz (v : DTFS_Tz) | epoch (v : DTFS_Epoch)
  deriving DecidableEq, Repr, Inhabited

/-- byte-string constants referenced by name (values in `S4V.Gen.TimeTables`) -/
inductive Konst where
  | YEAR_FALLBACKDUMMY | MINUS_SIGN | HYPHEN_MINUS
  deriving DecidableEq, Repr, Inhabited

/-- `&[u8]` expressions:
`grp g` = `captures.name(CGN_g).as_ref().unwrap().as_bytes()` (also the `match_` of a `Some(match_)` arm),
`lit` = `b"…"` / `&[b'…']`, `tzOffsetString` = `tz_offset_string.as_bytes()`, `yearString` =
`year.to_string().as_bytes()`, `pfx n s` = `&s[..n]`, `fromSecondChar s` = `val[offset..]` with `offset` from
`val.char_indices().nth(1)`, `strOrEmpty s` = `match u8_to_str(s) { Some(val) => val, None => "" }`,
`tzValue k` = the value bound by `Some((_, v))` of `MAP_TZZ_TO_TZz.get_entry(k)`,
`pfxSub b n s` = `&b"…"[..n - s.len()]` (not used by the current source; accepted so that an `if`/`else`
rewrite of the padding table regenerates data instead of leaving the subset) -/
inductive Slice where
  | grp (g : Grp) | lit (b : List UInt8) | konst (k : Konst) | tzOffsetString | yearString
  | pfx (n : Nat) (s : Slice) | fromSecondChar (s : Slice) | strOrEmpty (s : Slice) | tzValue (k : Slice)
  | pfxSub (b : List UInt8) (n : Nat) (s : Slice)
  deriving DecidableEq, Repr, Inhabited

/-- comparison operators of `if x.len() <op> N` -/
inductive Cmp where
  | lt | le | gt | ge | eq
  deriving DecidableEq, Repr, Inhabited

/-- `u8` expressions: `b'x'`, `s[i]` -/
inductive Byte where
  | lit (b : UInt8) | idx (s : Slice) (i : Nat)
  deriving DecidableEq, Repr, Inhabited

/-- statements, in source order. Arms are in source order, first match wins; `none` as a pattern is the
catch-all (`_` / `_val`).
* `need g`            `let x = captures.name(CGN_g).as_ref().unwrap().as_bytes()` (panics when the group is absent)
* `copyGroup g`       `copy_capturegroup_to_buffer!(CGN_g, captures, buffer, at)`
* `copySlice s`       `copy_slice_to_buffer!(s, buffer, at)`
* `copyByte b`        `copy_u8_to_buffer!(b, buffer, at)`
* `monthTable s w`    `month_bB_to_month_m_bytes(s, &mut buffer[at..at + w]); at += w;`
* `matchField f arms` `match dtfs.f { A | B => {…} … }`
* `matchGroup g s n`  `match captures.name(CGN_g).as_ref() { Some(match_) => s, None => n }`
* `matchYearOpt s n`  `match year_opt { Some(year) => s, None => n }`
* `matchLen s arms`   `match s.len() { 1 => …, 10 | 11 | 12 => …, _ => … }`
* `matchByte b arms`  `match b { b' ' => …, _ => … }`
* `matchStartsWith s p t f`  `match s.starts_with(p) { true => t, false => f }`
* `matchIsEmpty s t f`       `if s.is_empty() { t } else { f }` / `match s.is_empty() { true => t, false => f }`
* `matchUtf8 s ok err`       `match std::str::from_utf8(&s) { Ok(val) => ok, Err(_) => err }`
* `matchSecondChar s sm n`   `match val.char_indices().nth(1) { Some((offset, _)) => sm, None => n }`
* `matchTzTable k sm n`      `match MAP_TZZ_TO_TZz.get_entry(k) { Some((_, tz_offset_val)) => sm, None => n }`
* `ifLen s op n t e`         `if s.len() <op> n { t } else { e }` (not used by the current source) -/
inductive Stmt where
  | need (g : Grp) | copyGroup (g : Grp) | copySlice (s : Slice) | copyByte (b : Byte) | panic
  | monthTable (s : Slice) (width : Nat)
  | matchField (f : Field) (arms : List (List FieldVal × List Stmt))
  | matchGroup (g : Grp) (some none : List Stmt)
  | matchYearOpt (some none : List Stmt)
  | matchLen (s : Slice) (arms : List (Option (List Nat) × List Stmt))
  | matchByte (b : Byte) (arms : List (Option (List UInt8) × List Stmt))
  | matchStartsWith (s p : Slice) (t f : List Stmt)
  | matchIsEmpty (s : Slice) (t f : List Stmt)
  | matchUtf8 (s : Slice) (ok err : List Stmt)
  | matchSecondChar (s : Slice) (some none : List Stmt)
  | matchTzTable (k : Slice) (some none : List Stmt)
  | ifLen (s : Slice) (op : Cmp) (n : Nat) (t e : List Stmt)
  deriving Repr, Inhabited

/-! ### `captures_to_buffer_bytes` of the current source -/
'''

SIG = (r'fn captures_to_buffer_bytes \( buffer : & mut \[ u8 \] , captures : & regex::bytes::Captures , '
       r'year_opt : & Option < Year > , tz_offset_string : & String , dtfs : & DTFSSet ,? ?\) -> usize')

MACROS = {
    'copy_capturegroup_to_buffer': (
        r'\( \$ name : ident , \$ captures : ident , \$ buffer : ident , \$ at : ident \) => \{ \{ '
        r'let len_ : usize = \$ captures \. name \( \$ name \) \. as_ref \( \) \. unwrap \( \) \. as_bytes \( \) \. len \( \) ; '
        r'\$ buffer \[ \$ at \.\. \$ at \+ len_ \] \. copy_from_slice \( \$ captures \. name \( \$ name \) \. as_ref \( \) \. unwrap \( \) \. as_bytes \( \) ,? ?\) ; '
        r'\$ at \+= len_ ; \} \} ;'),
    'copy_slice_to_buffer': (
        r'\( \$ u8_slice : expr , \$ buffer : ident , \$ at : ident \) => \{ \{ let len_ : usize = \$ u8_slice \. len \( \) ; '
        r'\$ buffer \[ \$ at \.\. \$ at \+ len_ \] \. copy_from_slice \( \$ u8_slice \) ; \$ at \+= len_ ; \} \} ;'),
    'copy_u8_to_buffer': (
        r'\( \$ u8_ : expr , \$ buffer : ident , \$ at : ident \) => \{ \{ \$ buffer \[ \$ at \] = \$ u8_ ; \$ at \+= 1 ; \} \} ;'),
}

TOPLEVEL = ['epoch', 'year', 'month', 'day', None, 'hour', 'minute', 'second', 'fractional', 'tz']


def check_macros(src):
    for name, want in MACROS.items():
        m = re.search(r'macro_rules!\s*' + name + r'\s*\{', src)
        if not m:
            raise GenError(f"datetime.rs: macro {name}! not found")
        i = m.end() - 1
        body = strip_noops(src[i + 1:match_close(src, i)], empty_args=())
        toks = re.findall(r'\$|[A-Za-z_]\w*|\d+|=>|\+=|\.\.|[{}()\[\],;:.&|=+]', body)
        if not re.fullmatch(want, ' '.join(toks)):
            raise GenError(f"macro {name}! is not the modelled `write at $at, advance $at by the length`: {' '.join(toks)[:200]}")


def translate(src, fn='captures_to_buffer_bytes'):
    """comment-free datetime.rs text -> (list of (def name, statement), info)"""
    check_macros(src)
    sig, body, _ = find_fn(src, fn)
    sig_t = ' '.join(tokenize(sig, fn + ' signature'))
    if not re.fullmatch(SIG, sig_t):
        raise GenError(f"{fn}: signature differs from the modelled one: {sig_t}")
    toks = tokenize(strip_noops(body), fn)
    p = Parser(toks, fn)
    if p.t[:8] != ['let', 'mut', 'at', ':', 'usize', '=', '0', ';']:
        p.fail("body does not start with `let mut at: usize = 0;`")
    p.i = 8
    scope = {}
    top = []
    while p.peek() is not None and not (p.peek() == 'at' and p.peek(1) is None):
        top.extend(p.stmt(scope))
    if p.peek() != 'at' or p.peek(1) is not None:
        p.fail("body does not end with the expression `at`")
    # the top level is: one `match dtfs.<field>` per field in the modelled order, `T` after the day
    shape = []
    for s in top:
        if isinstance(s, tuple) and s[0] == 'matchField':
            shape.append(s[1])
        elif isinstance(s, str) and s.startswith('.copyByte'):
            shape.append(None)
        else:
            raise GenError(f"{fn}: top-level statement {str(s)[:60]} is neither `match dtfs.<field>` nor a separator byte")
    if len(shape) != len(TOPLEVEL) or [x is None for x in shape] != [x is None for x in TOPLEVEL]:
        raise GenError(f"{fn}: top-level statements {shape} are not nine field matches with one separator after the fourth")
    if sorted(x for x in shape if x) != sorted(x for x in TOPLEVEL if x):
        raise GenError(f"{fn}: top-level field matches {shape} do not cover every DTFSSet field exactly once")
    names = []
    for s, f in zip(top, shape):
        names.append((('s_' + f) if f else 's_sep', s))
    return names, {'fields_in_order': [x or 'T' for x in shape]}


def count_nodes(s):
    if isinstance(s, str):
        return 1
    n = 1
    for part in s[2:]:
        if isinstance(part, list):
            for x in part:
                if isinstance(x, tuple) and len(x) == 2 and isinstance(x[1], list):
                    n += sum(count_nodes(y) for y in x[1])
                else:
                    n += count_nodes(x)
    return n


def emit_defs(names, suffix=''):
    L = []
    for n, s in names:
        L.append(f'def {n}{suffix} : Stmt :=\n  {render(s, 2)}\n')
    L.append(f'/-- the body of `captures_to_buffer_bytes`, statements in source order -/')
    L.append(f'def body{suffix} : List Stmt := [' + ', '.join(n + suffix for n, _ in names) + ']')
    return '\n'.join(L)


def generate(repo):
    path = os.path.join(repo, 'src/data/datetime.rs')
    src = strip_comments(open(path).read())
    names, info = translate(src)
    text = PRELUDE + '\n' + emit_defs(names) + '\n\nend S4V.Gen.Captures\n'
    info['statements'] = sum(count_nodes(s) for _, s in names)
    return text, info


if __name__ == '__main__':
    t, i = generate(sys.argv[1] if len(sys.argv) > 1 else '/repo')
    print(i)
