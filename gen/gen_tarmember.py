"""Generate S4V/Gen/TarMember.lean: HOW a member of a `.tar` is selected when a listed entry
`archive|member` is read back.

Sites (each with a shape check; GenError when the source leaves the shape):
  * `process_path_tar` (src/readers/filepreprocessor.rs): which accessor gives the LISTED name
    (`entry.path()` / `entry.header().path()`), that the listed string is its `to_string_lossy()`, that only
    `is_file()` entries are listed, that the full name is `path SUBPATH_SEP name`;
  * `BlockReader::new`, tar arm (src/readers/blockreader.rs): how the full name is split (`rsplit_once` / `split_once`
    of `SUBPATH_SEP`; no separator -> `Err`), the lookup loop: iteration error -> `continue`, candidate accessor,
    `to_string_lossy`, the comparison against the sub-path, optional entry-type filter, `break` at the first hit,
    what is stored (`filesz_actual = entry.header().size()`, `entry_index`), and that no hit leaves `filesz 0`
    (no error);
  * `read_block_FileTar`: the member is re-found by `entry_iter.nth(self.tar.entry_index)` over the same kind of
    iterator (`entries_with_seek`), `nth` -> `None` is an `Err`, size 0 is `Done`, data by `read_exact`;
  * `decompress_to_ntf`, tar arm (src/readers/filedecompressor.rs): the same split and loop; no hit -> `Ok(None)`;
    the data is `entry.read` until 0.
"""
import os
import re
from rs import GenError, strip_comments, find_fn, lean_bytes
from gen_path import strip_trace


def flat(s: str) -> str:
    return re.sub(r'\s+', ' ', strip_trace(s)).strip()


ACC = {'entry.path()': 'entryPath', 'entry.header().path()': 'headerPath'}
ACC_RE = r'(?P<acc>entry\.path\(\)|entry\.header\(\)\.path\(\))'

# `if <cond> { continue; }` : the candidate `subfpath` is skipped when <cond> holds
CONDS = [
    (r'subpath != &subfpath', 'eq'),
    (r'&subfpath != subpath', 'eq'),
    (r'\*subpath != subfpath', 'eq'),
    (r'subfpath != \*subpath', 'eq'),
    (r'!\(subpath == &subfpath\)', 'eq'),
    (r'!subfpath\.ends_with\(subpath(\.as_str\(\))?\)', 'strEndsWith'),
    (r'!subfpath\.starts_with\(subpath(\.as_str\(\))?\)', 'strStartsWith'),
    (r'!subfpath\.contains\(subpath(\.as_str\(\))?\)', 'strContains'),
    (r'!Path::new\(&subfpath\)\.ends_with\(subpath\)', 'pathEndsWith'),
    (r'!subpath_cow\.ends_with\(subpath\)', 'pathEndsWith'),
]

TYPE_FILTER = r'(?P<tf>if !entry\.header\(\)\.entry_type\(\)\.is_file\(\) \{ continue; \} )?'

LOOP_COMMON = (
    r'let entry: tar::Entry<File> = match entry_res \{ Ok\(val\) => val, Err\(_err\) => \{ continue; \} \}; '
    + TYPE_FILTER +
    r'let subpath_cow: Cow<Path> = match ' + ACC_RE + r' \{ Ok\(val\) => val, Err\(_err\) => \{ continue; \} \}; '
    r'let subfpath: FPath = subpath_cow \.to_string_lossy\(\) \.to_string\(\); '
    r'if (?P<cond>[^{}]+?) \{ continue; \} ')

SPLIT = (r'let \(path_, subpath_\) = match (?P<var>\w+)\.(?P<split>rsplit_once|split_once)\(SUBPATH_SEP\) \{ Some\(val\) => val, '
         r'None => \{ return (?P<ret>Result|DecompressToNtfResult)::Err\(Error::new\( ErrorKind::InvalidInput, format!\( '
         r'"[^"]*", \w+, SUBPATH_SEP, \w+ \), \)\); \} \}; ')

BR_NEW = (
    r'FileType::FixedStruct\{ archival_type: FileTypeArchive::Tar, \.\. \} \| FileType::Text\{ archival_type: FileTypeArchive::Tar, \.\. \} => \{ '
    r'blocksz = blocksz_; filesz_actual = 0; let mut checksum: TarChecksum = 0; let mut mtime: TarMTime = 0; '
    r'let subpath: &String = subpath_opt\.as_ref\(\)\.unwrap\(\); '
    r'let mut archive: TarHandle = BlockReader::open_tar\(path_std\)\?; '
    r'let entry_iter: tar::Entries<File> = match archive\.(?P<iter>entries_with_seek|entries)\(\) \{ Ok\(val\) => val, Err\(err\) => \{ return Result::Err\(err\); \} \}; '
    r'let mut entry_index: usize = 0; '
    r'for \(index, entry_res\) in entry_iter\.enumerate\(\) \{ entry_index = index; '
    + LOOP_COMMON +
    r'filesz_actual = match entry\.header\(\)\.size\(\) \{ Ok\(val\) => val, Err\(err\) => \{ return err_from_err_path_result::<BlockReader>\(&err, &path, Some\("[^"]*"\)\); \} \}; '
    r'checksum = match entry\.header\(\)\.cksum\(\) \{ Ok\(val\) => val, Err\(_err\) => \{ 0 \} \}; '
    r'mtime = match entry\.header\(\)\.mtime\(\) \{ Ok\(val\) => val, Err\(_err\) => \{ 0 \} \}; '
    r'(?P<brk>break; )?\} '
    r'tar_opt = Some\(TarData \{ filesz: filesz_actual, entry_index, checksum, mtime, \}\); \}')

BR_SPLIT = (r'let mut path: FPath = path; let mut subpath_opt: Option<FPath> = None; let path_subpath: FPath = path\.clone\(\); '
            r'if filetype\.is_archived\(\) \{ ' + SPLIT +
            r'subpath_opt = Some\(subpath_\.to_string\(\)\); path = FPath::from\(path_\); \} '
            r'let path = path\.clone\(\); let path_std: &Path = Path::new\(&path\);')

READ_BLOCK = (
    r'let path_ = self\.path\.clone\(\); let path_std: &Path = Path::new\(&path_\); '
    r'let mut archive: TarHandle = match BlockReader::open_tar\(path_std\) \{ Ok\(val\) => val, Err\(err\) => \{ return err_from_err_path_results3\([^;]*\); \} \}; '
    r'let mut entry = \{ let index = self \.tar \.as_ref\(\) \.unwrap\(\) \.entry_index; '
    r'let mut entry_iter: tar::Entries<File> = match archive\.(?P<iter>entries_with_seek|entries)\(\) \{ Ok\(val\) => val, Err\(err\) => \{ return err_from_err_path_results3\([^;]*\); \} \}; '
    r'match entry_iter\.nth\(index\) \{ Some\(entry_res\) => match entry_res \{ Ok\(entry\) => entry, Err\(err\) => \{ return err_from_err_path_results3\(.*?\); \} \}, '
    r'None => \{ return ResultS3ReadBlock::Err\(Error::new\( ErrorKind::UnexpectedEof, .*?\)\); \} \} \}; '
    r'if self\.filesz_actual == 0 \{ return ResultS3ReadBlock::Done; \} '
    r'let mut bo_at: BlockOffset = 0; let blockoffset_last: BlockOffset = self\.blockoffset_last\(\); '
    r'while bo_at <= blockoffset_last \{ let cap: usize = self\.blocksz_at_blockoffset\(&bo_at\) as usize; let mut block: Block = vec!\[0; cap\]; '
    r'match entry\.read_exact\(block\.as_mut_slice\(\)\) \{ Ok\(_\) => \{\} Err\(err\) => \{ ')

NTF = (
    r'FileTypeArchive::Tar => \{ ' + SPLIT +
    r'let subpath_opt = Some\(subpath_\.to_string\(\)\); let subpath: &String = subpath_opt\.as_ref\(\)\.unwrap\(\); '
    r'let fpath_tar: FPath = FPath::from\(path_\); let path_tar = fpath_to_path\(&fpath_tar\); '
    r'let mut archive: TarHandle = BlockReader::open_tar\(path_tar\)\?; '
    r'let entry_iter: tar::Entries<File> = match archive\.(?P<iter>entries_with_seek|entries)\(\) \{ Ok\(val\) => val, Err\(err\) => \{ return err_from_err_path_result_dtn!\([^;]*\); \} \}; '
    r'let mut entry_opt: Option<tar::Entry<File>> = None; let mut filesz_header: FileSz = 0; '
    r'for \(_index, entry_res\) in entry_iter\.enumerate\(\) \{ '
    + LOOP_COMMON +
    r'filesz_header = match entry\.header\(\)\.size\(\) \{ Ok\(val\) => val, Err\(err\) => \{ return err_from_err_path_result_dtn!\([^;]*\); \} \}; '
    r'let _checksum: TarChecksum = match entry\.header\(\)\.cksum\(\) \{ Ok\(val\) => val, Err\(_err\) => \{ 0 \} \}; '
    r'let mtime: TarMTime = match entry\.header\(\)\.mtime\(\) \{ Ok\(val\) => val, Err\(_err\) => \{ 0 \} \}; '
    r'mtime_opt = match mtime \{ 0 => None, _ => \{ Some\(seconds_to_systemtime\(&mtime\)\) \}, \}; '
    r'entry_opt = Some\(entry\); (?P<brk>break; )?\} '
    r'let mut entry = match entry_opt \{ None => \{ return (?P<none>Ok\(None\)|[^;]*); \} Some\(entry\) => entry, \}; '
    r'let mut bufwriter: BufWriter<File> = BufWriter::new\(file_ntf\); let mut bytes_written: usize = 0; '
    r'loop \{ match entry\.read\(&mut buf\) \{ Ok\(num_bytes\) => \{ bytes_written \+= num_bytes; if num_bytes == 0 \{ break; \} '
    r'match bufwriter\.write_all\(&buf\[\.\.num_bytes\]\) \{')

LIST = (
    r'let header: &tar::Header = entry\.header\(\); let etype: tar::EntryType = header\.entry_type\(\); '
    r'(?P<tf>if !etype\.is_file\(\) \{ continue; \} )?'
    r'let subpath: Cow<Path> = match ' + ACC_RE + r' \{ Ok\(val\) => val, Err\(err\) => \{ .*? continue; \} \}; '
    r'if entry\.size\(\) == 0 \{ let subfpath: FPath = path\.clone\(\) \+ &String::from\(SUBPATH_SEP\) \+ subpath\.to_string_lossy\(\)\.as_ref\(\); '
    r'results\.push\(ProcessPathResult::FileErrEmpty\(subfpath, FileType::Unparsable\)\); continue; \} '
    r'let subfpath: FPath = subpath \.to_string_lossy\(\) \.to_string\(\); '
    r'let pathtofileresult = path_to_filetype\(&subpath, \w+\); '
    r'let mut fullpath: FPath = String::with_capacity\([^;]*\); '
    r'fullpath\.push_str\(path\.as_str\(\)\); fullpath\.push\(SUBPATH_SEP\); fullpath\.push_str\(subfpath\.as_str\(\)\); ')


def cond_of(cond: str, where: str) -> str:
    c = cond.strip()
    for pat, name in CONDS:
        if re.fullmatch(pat, c):
            return name
    raise GenError(f"{where}: the member comparison `if {c} {{ continue; }}` is outside the subset "
                   "(equality / ends_with / starts_with / contains of the lossy candidate against the sub-path)")


def site(m, where: str):
    return {
        'acc': ACC[m.group('acc')],
        'cmp': cond_of(m.group('cond'), where),
        'first': bool(m.group('brk')),
        'regular': bool(m.group('tf')),
    }


def generate(repo: str):
    br = strip_comments(open(os.path.join(repo, 'src/readers/blockreader.rs')).read())
    fd = strip_comments(open(os.path.join(repo, 'src/readers/filedecompressor.rs')).read())
    fp = strip_comments(open(os.path.join(repo, 'src/readers/filepreprocessor.rs')).read())

    m = re.search(r"pub\s+const\s+SUBPATH_SEP\s*:\s*char\s*=\s*'([^'\\])'\s*;", br)
    if not m or ord(m.group(1)) > 127:
        raise GenError("SUBPATH_SEP is not a plain ASCII char constant")
    sep = m.group(1)
    for name, text in (('filedecompressor.rs', fd), ('filepreprocessor.rs', fp)):
        if not re.search(r'\bSUBPATH_SEP\b', text.split('fn ', 1)[0]):
            raise GenError(f"{name} does not import SUBPATH_SEP from blockreader")

    # ---- BlockReader::new
    _, body, _ = find_fn(br, 'new')
    if 'TarData' not in body:
        raise GenError("blockreader.rs: the first `fn new` is not BlockReader::new (no TarData)")
    fb = flat(body)
    ms = list(re.finditer(BR_SPLIT, fb))
    if len(ms) != 1:
        raise GenError("BlockReader::new: the `path|subpath` split left the expected shape "
                       "(if filetype.is_archived() { (path_, subpath_) = path.[r]split_once(SUBPATH_SEP) or Err(InvalidInput); "
                       "subpath_opt = Some(subpath_); path = path_ })")
    br_split_last = ms[0].group('split') == 'rsplit_once'
    if ms[0].group('var') != 'path' or ms[0].group('ret') != 'Result':
        raise GenError("BlockReader::new: split is not of `path` / does not return Result::Err")
    ms = list(re.finditer(BR_NEW, fb))
    if len(ms) != 1:
        raise GenError("BlockReader::new: tar arm left the expected shape (open_tar; entries; for (index, entry_res) { entry_index = index; "
                       "Err -> continue; candidate name; lossy; compare -> continue; filesz_actual = header().size(); [break] }; "
                       "tar_opt = TarData{ filesz: filesz_actual, entry_index, .. })")
    brm = ms[0]
    br_site = site(brm, 'BlockReader::new')
    if fb.count('subpath_opt') != 4:
        raise GenError("BlockReader::new: `subpath_opt` is used in an unexpected place")

    # ---- read_block_FileTar
    _, body, _ = find_fn(br, 'read_block_FileTar')
    rb = flat(body)
    rm = re.search(READ_BLOCK, rb)
    if not rm:
        raise GenError("read_block_FileTar left the expected shape (open_tar(self.path); entries; nth(self.tar.entry_index): "
                       "None/Err -> Err; filesz_actual == 0 -> Done; read_exact per block)")
    if rm.group('iter') != brm.group('iter'):
        raise GenError("read_block_FileTar iterates the archive differently from BlockReader::new (entries vs entries_with_seek): "
                       "entry_index may not denote the same member")
    # nothing else writes entry_index
    assigns = re.findall(r'(?<![\w.])entry_index\s*=[^=]', br)
    if len(assigns) != 1:
        raise GenError(f"blockreader.rs: expected exactly one assignment `entry_index = index`, found {len(assigns)}")

    # ---- decompress_to_ntf
    _, body, _ = find_fn(fd, 'decompress_to_ntf')
    nb = flat(body)
    ms = list(re.finditer(NTF, nb))
    if len(ms) != 1:
        raise GenError("decompress_to_ntf: tar arm left the expected shape (split fpath at SUBPATH_SEP; open_tar; entries; loop: "
                       "Err -> continue; candidate name; lossy; compare -> continue; entry_opt = Some(entry); [break]; "
                       "None -> return ..; copy entry.read() to the temporary file)")
    nm = ms[0]
    ntf_site = site(nm, 'decompress_to_ntf')
    ntf_split_last = nm.group('split') == 'rsplit_once'
    if nm.group('var') != 'fpath' or nm.group('ret') != 'DecompressToNtfResult':
        raise GenError("decompress_to_ntf: split is not of `fpath` / does not return DecompressToNtfResult::Err")
    if not re.search(r'let fpath: FPath = path_to_fpath\(path_std\);', nb):
        raise GenError("decompress_to_ntf: `fpath` is not path_to_fpath(path_std)")
    if nm.group('iter') != brm.group('iter'):
        raise GenError("decompress_to_ntf iterates the archive differently from BlockReader::new")
    none_ret = nm.group('none').strip()
    if none_ret == 'Ok(None)':
        ntf_nomatch = 'okNone'
    elif re.match(r'(DecompressToNtfResult::)?Err\(|err_from_err_path_result_dtn!', none_ret):
        ntf_nomatch = 'err'
    else:
        raise GenError(f"decompress_to_ntf: what is returned when no member matches is outside the subset: {none_ret[:60]!r}")

    # ---- process_path_tar
    _, body, _ = find_fn(fp, 'process_path_tar')
    lb = flat(body)
    lm = re.search(LIST, lb)
    if not lm:
        raise GenError("process_path_tar: member loop left the expected shape (entry type filter; name accessor; "
                       "size 0 -> FileErrEmpty(path SEP lossy); fullpath = path SEP lossy(name))")
    list_acc = ACC[lm.group('acc')]
    list_regular = bool(lm.group('tf'))

    b = lambda x: 'true' if x else 'false'  # noqa: E731

    def site_lit(s):
        return f"⟨.{s['acc']}, .{s['cmp']}, {b(s['first'])}, {b(s['regular'])}⟩"

    L = []
    L.append('-- GENERATED by /verif/gen/s4gen.py (gen_tarmember.py) from src/readers/blockreader.rs, filedecompressor.rs, filepreprocessor.rs — do not edit')
    L.append('namespace S4V.Gen.TarMember')
    L.append('')
    L.append('/-- which accessor of a `tar::Entry` gives a member\'s name: `entry.path()` (GNU long-name record / pax `path`, else the')
    L.append('header field) or `entry.header().path()` (the header field only: 100 bytes, ustar prefix joined) -/')
    L.append('inductive NameAcc where')
    L.append('  | entryPath | headerPath')
    L.append('  deriving DecidableEq, Repr, Inhabited')
    L.append('')
    L.append('/-- how the lossy candidate name is compared with the wanted sub-path (the candidate is skipped when this fails) -/')
    L.append('inductive Cmp where')
    L.append('  | eq | strEndsWith | pathEndsWith | strStartsWith | strContains')
    L.append('  deriving DecidableEq, Repr, Inhabited')
    L.append('')
    L.append('/-- one member-lookup loop: `acc` candidate name accessor, `cmp` comparison, `firstWins` the loop `break`s at the first')
    L.append('hit, `regularOnly` entries that are not regular files are skipped before the comparison -/')
    L.append('structure LookupSite where')
    L.append('  acc : NameAcc')
    L.append('  cmp : Cmp')
    L.append('  firstWins : Bool')
    L.append('  regularOnly : Bool')
    L.append('  deriving DecidableEq, Repr, Inhabited')
    L.append('')
    L.append('/-- what a reader answers when no member matches -/')
    L.append('inductive NoMatch where')
    L.append('  | zeroSize   -- a reader of size 0 over the LAST entry iterated (`BlockReader::new`: `TarData{ filesz: 0, entry_index }`)')
    L.append('  | okNone     -- `Ok(None)`: nothing extracted')
    L.append('  | err        -- an `Err`')
    L.append('  deriving DecidableEq, Repr, Inhabited')
    L.append('')
    L.append(f'/-- `SUBPATH_SEP` = {sep!r} -/')
    L.append(f'def subpathSep : List UInt8 := {lean_bytes(sep)}')
    L.append('')
    L.append('/-- `process_path_tar`: the listed member name is `to_string_lossy` of this accessor -/')
    L.append(f'def listAcc : NameAcc := .{list_acc}')
    L.append('/-- `process_path_tar`: `if !etype.is_file() { continue; }` precedes the listing -/')
    L.append(f'def listRegularOnly : Bool := {b(list_regular)}')
    L.append('')
    L.append('/-- `BlockReader::new`, tar arm: the loop that finds the member -/')
    L.append(f'def brNewSite : LookupSite := {site_lit(br_site)}')
    L.append('/-- `BlockReader::new`: the full name is split at the LAST separator (`rsplit_once`; `false`: `split_once`, the first) -/')
    L.append(f'def brSplitAtLast : Bool := {b(br_split_last)}')
    L.append('/-- `BlockReader::new`: no member matches -/')
    L.append('def brNoMatch : NoMatch := .zeroSize')
    L.append('/-- `read_block_FileTar`: the member is `entries.nth(self.tar.entry_index)` of a fresh iteration of the same kind;')
    L.append('`nth` -> `None` is an `Err`; `filesz_actual == 0` is `Done`; the data is read with `read_exact` -/')
    L.append('def readBlockByStoredIndex : Bool := true')
    L.append('')
    L.append('/-- `decompress_to_ntf`, tar arm: the loop that finds the member -/')
    L.append(f'def ntfSite : LookupSite := {site_lit(ntf_site)}')
    L.append(f'def ntfSplitAtLast : Bool := {b(ntf_split_last)}')
    L.append('/-- `decompress_to_ntf`: no member matches -/')
    L.append(f'def ntfNoMatch : NoMatch := .{ntf_nomatch}')
    L.append('')
    L.append('end S4V.Gen.TarMember')
    return '\n'.join(L) + '\n', {'br': br_site, 'ntf': ntf_site, 'list_acc': list_acc, 'split_last': [br_split_last, ntf_split_last]}
