"""Generate S4V/Gen/JournalRender.lean: the structural facts of the ten journal renderings
(`src/readers/journalreader.rs` `next_dispatch`, `next_short`, `next_export`, `next_verbose`,
`next_cat`, `get_source_realtime_timestamp`, `get_monotonic_usec`; `src/data/journal.rs`
separators, `DT_USES_SOURCE_OVERRIDE`, `realtime_or_source_realtime_timestamp_to_datetimel`,
`realtime_timestamp_to_datetimel`) as constants and small tables the hand model
`S4V.Model.JournalRender` consumes.

Every function body (comments, trace macros and debug assertions removed, whitespace flattened)
must contain the literal shapes below, otherwise GenError naming the item. Where an edit is
plausible (another cap, a key constant, the fallback order `SYSLOG_IDENTIFIER`/`_COMM` or
`_PID`/`SYSLOG_PID`, a bracket or separator, a strftime pattern, the early `break` tuple, the
`Err`/`ErrIgnore` of an entry without MESSAGE, the verbose field order, a missing terminator, a
buffer that is no longer local to the call) the shape is translated into a constant/table, so the
edit regenerates a different model and the theorems that unfold it fail."""
import os
import re
from rs import GenError, strip_comments, find_fn, match_close
from gen_path import strip_trace


def need(cond, msg):
    if not cond:
        raise GenError(msg)


def strip_dbg(s):
    """debug_assert*!(…) are no-ops in the release build"""
    out, i = [], 0
    pat = re.compile(r'\bdebug_assert\w*!\s*\(')
    while True:
        m = pat.search(s, i)
        if not m:
            out.append(s[i:])
            break
        out.append(s[i:m.start()])
        p = s.find('(', m.start())
        i = match_close(s, p) + 1
        while i < len(s) and s[i] in ' \t\n':
            i += 1
        if i < len(s) and s[i] == ';':
            i += 1
    return ''.join(out)


def flat(s):
    s = re.sub(r'\s+', ' ', strip_trace(strip_dbg(s))).strip()
    s = re.sub(r' ?\. ?(?=\w)', '.', s)
    s = re.sub(r'\( ', '(', s)
    s = re.sub(r' \)', ')', s)
    s = re.sub(r',\s*\)', ')', s)
    s = s.replace('#[cfg(test)] &self.force_error_range_opt', '')
    s = re.sub(r',\s*\)', ')', s)
    s = re.sub(r',\s*\}', ' }', s)
    s = re.sub(r' +', ' ', s)
    return s


def unescape(lit, where):
    """Rust string/byte-string literal body -> bytes (only the escapes that occur)"""
    out = bytearray()
    i = 0
    while i < len(lit):
        c = lit[i]
        if c == '\\':
            need(i + 1 < len(lit), f'{where}: dangling backslash')
            e = lit[i + 1]
            tbl = {'n': 10, 'r': 13, 't': 9, '0': 0, '\\': 92, '"': 34, "'": 39}
            if e in tbl:
                out.append(tbl[e]); i += 2
            elif e == 'x':
                out.append(int(lit[i + 2:i + 4], 16)); i += 4
            else:
                raise GenError(f'{where}: escape \\{e} outside the translator\'s subset')
        else:
            out += c.encode('utf-8'); i += 1
    return bytes(out)


def const_str(src, name, where):
    m = re.search(r'\bconst\s+' + re.escape(name) + r'\s*:\s*&(?:\'static\s+)?str\s*=\s*"((?:[^"\\]|\\.)*)"\s*;', src)
    need(m, f'{where}: const {name}: &str = "…" not found')
    return unescape(m.group(1), f'{where}: {name}')


def const_char_u8(src, name, where):
    """pub const X_U8: u8 = X_C as u8;  pub const X_C: char = '…';"""
    m = re.search(r'\bconst\s+' + re.escape(name) + r'\s*:\s*u8\s*=\s*(\w+)\s+as\s+u8\s*;', src)
    need(m, f'{where}: const {name}: u8 = <CHAR> as u8 not found')
    c = m.group(1)
    m2 = re.search(r'\bconst\s+' + re.escape(c) + r"\s*:\s*char\s*=\s*'((?:[^'\\]|\\.)+)'\s*;", src)
    need(m2, f'{where}: const {c}: char not found')
    b = unescape(m2.group(1), f'{where}: {c}')
    need(len(b) == 1, f'{where}: {c} is not one byte')
    return b[0]


def key_bytes(jr, name):
    """KEY_X_BYTES: &[u8] = KEY_X.as_bytes()  ->  the bytes of KEY_X"""
    m = re.search(r'\bconst\s+' + re.escape(name) + r'\s*:\s*&\[u8\]\s*=\s*(\w+)\.as_bytes\(\)\s*;', jr)
    need(m, f'journalreader.rs: const {name}: &[u8] = <KEY>.as_bytes() not found')
    return const_str(jr, m.group(1), 'journalreader.rs')


def lean_bytes(b):
    return '[' + ', '.join(str(x) for x in b) + ']'


def show(b):
    return ''.join(chr(x) if 32 <= x < 127 and chr(x) not in '`"\\' else '\\x%02x' % x for x in b)


def byte_lit(tok, syms, where):
    """b'x' | SYMBOL -> byte"""
    m = re.fullmatch(r"b'((?:[^'\\]|\\.)+)'", tok)
    if m:
        b = unescape(m.group(1), where)
        need(len(b) == 1, f'{where}: byte literal {tok}')
        return b[0]
    need(tok in syms, f'{where}: unknown byte symbol {tok}')
    return syms[tok]


COMMON = (r'match self\.next_common\(rts_filter_before\) \{ ResultNextCommon::Found\(\(rt, srt, dt\)\) => \{ realtime_timestamp = rt; '
          r'source_realtime_timestamp = srt; dt_uses_source = dt; \} ResultNextCommon::Done => \{ return ResultNext::Done; \} '
          r'ResultNextCommon::Err\(err\) => \{ return ResultNext::Err\(err\); \} ResultNextCommon::ErrIgnore\(err\) => \{ return ResultNext::ErrIgnore\(err\); \} \}')
ENUM_CALL = (r'Self::call_sd_journal_enumerate_available_data\(&mut self\.journal_handle_ptr, &mut self\.journal_api_ptr, &mut self\.api_calls, '
             r'&mut self\.api_call_errors, &self\.path\)')
CURSOR_CALL = r'Self::call_sd_journal_get_cursor\(&mut self\.journal_handle_ptr, &mut self\.journal_api_ptr, &mut self\.api_calls, &mut self\.api_call_errors\)'
TO_DT = r'realtime_or_source_realtime_timestamp_to_datetimel\(&self\.fixed_offset, &realtime_timestamp, &source_realtime_timestamp\)'

# strftime specifiers the hand model's renderer implements
OVR = {'None': 0, 'RealtimeTimestamp': 1, 'SourceRealtimeTimestamp': 2}
KNOWN_SPECS = {'a', 'b', 'd', 'H', 'M', 'S', 'Y', 'm', 'z', 'Z', 's', '6f'}


def check_fmt(fmt, name):
    s = fmt.decode('utf-8')
    i = 0
    while i < len(s):
        if s[i] == '%':
            m = re.match(r'%(6f|[A-Za-z%])', s[i:])
            need(m, f'{name}: malformed strftime specifier at {s[i:]!r}')
            need(m.group(1) in KNOWN_SPECS, f'{name}: strftime specifier %{m.group(1)} is outside the model\'s renderer')
            i += len(m.group(0))
        else:
            need(ord(s[i]) < 128, f'{name}: non-ASCII literal in strftime pattern')
            i += 1


def generate(repo):
    jr_raw = open(os.path.join(repo, 'src/readers/journalreader.rs')).read()
    jr = strip_comments(jr_raw)
    jd = strip_comments(open(os.path.join(repo, 'src/data/journal.rs')).read())

    # ---- separators (data/journal.rs)
    FIELD_MID = const_char_u8(jd, 'FIELD_MID_U8', 'journal.rs')
    FIELD_END = const_char_u8(jd, 'FIELD_END_U8', 'journal.rs')
    ENTRY_END = const_char_u8(jd, 'ENTRY_END_U8', 'journal.rs')
    syms = {'FIELD_MID_U8': FIELD_MID, 'FIELD_END_U8': FIELD_END, 'ENTRY_END_U8': ENTRY_END}

    # ---- keys
    K = {}
    for n in ('KEY_HOSTNAME_BYTES', 'KEY_SYSLOG_IDENTIFIER_BYTES', 'KEY_SYSLOG_PID_BYTES', 'KEY_COMM_BYTES', 'KEY_PID_BYTES',
              'KEY_MESSAGE_BYTES', 'KEY_SELINUX_CONTEXT_BYTES', 'KEY_SOURCE_REALTIME_TIMESTAMP_BYTES', 'KEY__MONOTONIC_TIMESTAMP_BYTES',
              'KEY__REALTIME_TIMESTAMP_BYTES'):
        K[n] = key_bytes(jr, n)
    for n in ('KEY__CURSOR', 'KEY__REALTIME_TIMESTAMP', 'KEY_SOURCE_REALTIME_TIMESTAMP', 'KEY_MESSAGE', 'FIELD_BEG_VERBOSE'):
        K[n] = const_str(jr, n, 'journalreader.rs')
    m = re.search(r'pub static ref KEY_MESSAGE_CSTR: CString = CString::new\((\w+)\)\.unwrap\(\);', jr)
    need(m and m.group(1) == 'KEY_MESSAGE', 'journalreader.rs: KEY_MESSAGE_CSTR is not CString::new(KEY_MESSAGE)')
    m = re.search(r'pub static ref KEY_SOURCE_REALTIME_TIMESTAMP_CSTR: CString = CString::new\((\w+)\)\.unwrap\(\);', jr)
    need(m and m.group(1) == 'KEY_SOURCE_REALTIME_TIMESTAMP', 'journalreader.rs: KEY_SOURCE_REALTIME_TIMESTAMP_CSTR is not CString::new(KEY_SOURCE_REALTIME_TIMESTAMP)')
    need(K['KEY_MESSAGE'] == K['KEY_MESSAGE_BYTES'], 'KEY_MESSAGE / KEY_MESSAGE_BYTES differ')
    need(K['KEY_SOURCE_REALTIME_TIMESTAMP'] == K['KEY_SOURCE_REALTIME_TIMESTAMP_BYTES'], 'KEY_SOURCE_REALTIME_TIMESTAMP / _BYTES differ')
    need(K['KEY__REALTIME_TIMESTAMP'] == K['KEY__REALTIME_TIMESTAMP_BYTES'], 'KEY__REALTIME_TIMESTAMP / _BYTES differ')
    for n, b in K.items():
        if n != 'FIELD_BEG_VERBOSE':
            need(b and FIELD_MID not in b and 0 not in b, f'{n}: empty, or contains the key/value separator or NUL')

    # ---- formats
    FM = {}
    for n in ('DATETIME_FORMAT_SHORT', 'DATETIME_FORMAT_SHORT_PRECISE', 'DATETIME_FORMAT_SHORT_ISO', 'DATETIME_FORMAT_SHORT_ISO_PRECISE',
              'DATETIME_FORMAT_SHORT_FULL', 'DATETIME_FORMAT_SHORT_UNIX', 'DATETIME_FORMAT_VERBOSE'):
        FM[n] = const_str(jr, n, 'journalreader.rs')
        check_fmt(FM[n], n)

    # ---- the enum and its dispatch
    m = re.search(r'pub enum JournalOutput \{([^}]*)\}', jr)
    need(m, 'journalreader.rs: enum JournalOutput not found')
    variants = [v.strip() for v in re.sub(r'#\[[^\]]*\]', '', m.group(1)).split(',') if v.strip()]
    need(len(variants) == len(set(variants)) and all(re.fullmatch(r'[A-Z]\w*', v) for v in variants), 'enum JournalOutput: variants outside the subset')
    _, disp_body, _ = find_fn(jr, 'fmt', 0)
    names = {}
    for mm in re.finditer(r'JournalOutput::(\w+) => write!\(f, "([^"]*)"\)', jr):
        names[mm.group(1)] = mm.group(2)
    need(set(names) == set(variants), 'impl Display for JournalOutput: not one `write!(f, "…")` arm per variant')
    _, nd, _ = find_fn(jr, 'next_dispatch')
    nd = flat(nd)
    need(nd.startswith('match self.journal_output {'), 'next_dispatch: not a `match self.journal_output`')
    disp = {}
    for mm in re.finditer(r'JournalOutput::(\w+) => \{ self\.(next_\w+)\(rts_filter_before(?:, (&""|\w+), (true|false))?\) \},?', nd):
        v, fn, fmt, mono = mm.groups()
        need(v not in disp, f'next_dispatch: variant {v} twice')
        if fn == 'next_short':
            need(fmt is not None, f'next_dispatch: {v}: next_short without format')
            if fmt == '&""':
                fb = b''
            else:
                need(fmt in FM, f'next_dispatch: {v}: unknown format constant {fmt}')
                fb = FM[fmt]
            need((mono == 'true') == (fb == b''), f'next_dispatch: {v}: is_monotonic and an empty format must go together')
            disp[v] = ('short', fb, mono == 'true')
        else:
            need(fmt is None and fn in ('next_verbose', 'next_export', 'next_cat'), f'next_dispatch: {v}: unexpected call {fn}')
            disp[v] = (fn[5:], b'', False)
    need(set(disp) == set(variants), f'next_dispatch: arms {sorted(disp)} do not cover the variants {variants}')
    need(nd.count('JournalOutput::') == len(variants), 'next_dispatch: extra arms')

    # ---- dating source (data/journal.rs)
    m = re.search(r'pub const DT_USES_SOURCE_OVERRIDE\s*:\s*Option<DtUsesSource>\s*=\s*(None|Some\(\s*DtUsesSource::(\w+)\s*\))\s*;', jd)
    need(m, 'journal.rs: DT_USES_SOURCE_OVERRIDE not found')
    override = m.group(2) or 'None'
    need(override in ('None', 'RealtimeTimestamp', 'SourceRealtimeTimestamp'), f'journal.rs: DT_USES_SOURCE_OVERRIDE = {override}')
    _, rs, _ = find_fn(jd, 'realtime_or_source_realtime_timestamp_to_datetimel')
    rs = flat(rs)
    need(re.fullmatch(r'let actual_epoch_microseconds = match DT_USES_SOURCE_OVERRIDE \{ Some\(dt_uses_sources\) => \{ match dt_uses_sources \{ '
                      r'DtUsesSource::SourceRealtimeTimestamp => \{ match source_realtime_timestamp \{ Some\(source_realtime_timestamp\) => source_realtime_timestamp, None => realtime_timestamp \} \} '
                      r'DtUsesSource::RealtimeTimestamp => \{ realtime_timestamp \} \} \} '
                      r'None => \{ match source_realtime_timestamp \{ Some\(source_realtime_timestamp\) => source_realtime_timestamp, None => realtime_timestamp \} \} \}; '
                      r'realtime_timestamp_to_datetimel\(fixed_offset, actual_epoch_microseconds\)', rs),
         'journal.rs: realtime_or_source_realtime_timestamp_to_datetimel left the shape the translator knows')
    _, rt, _ = find_fn(jd, 'realtime_timestamp_to_datetimel')
    rt = flat(rt)
    need(re.fullmatch(r'let duration: StdDuration = StdDuration::from_micros\(\*realtime_timestamp\); let st: SystemTime = SystemTime::UNIX_EPOCH \+ duration; '
                      r'let dtu: DateTime<Utc> = DateTime::<Utc>::from\(st\); let dtu = dtu\.with_timezone\(fixedoffset\); dtu', rt),
         'journal.rs: realtime_timestamp_to_datetimel left the shape the translator knows')
    need(re.search(r'pub type EpochMicroseconds = u64;', jd) and re.search(r'pub type MonotonicMicroseconds = u64;', jd), 'journal.rs: microsecond types are not u64')

    # ---- get_source_realtime_timestamp
    _, gs, _ = find_fn(jr, 'get_source_realtime_timestamp')
    gs = flat(gs)
    need(re.fullmatch(r'let data: &\[u8\] = match Self::call_sd_journal_get_data\(&mut self\.journal_handle_ptr, &mut self\.journal_api_ptr, &mut self\.api_calls, '
                      r'&mut self\.api_call_errors, &KEY_SOURCE_REALTIME_TIMESTAMP_CSTR, &self\.path\) \{ Result::Ok\(data\) => data, Result::Err\(_e\) => \{ self\.api_call_errors -= 1; return None; \} \}; '
                      r'let value: &\[u8\] = match data\.find_byte\(b\'=\'\) \{ Some\(at\) => \{ let b = std::cmp::min\(at \+ 1, data\.len\(\)\); &data\[b\.\.\] \}, None => return None \}; '
                      r'let value_s: &str = match std::str::from_utf8\(value\) \{ Ok\(s\) => s, Err\(_e\) => return None \}; '
                      r'let source_realtime_timestamp: EpochMicroseconds = match EpochMicroseconds::from_str\(value_s\) \{ Ok\(ts\) => ts, Err\(_e\) => return None \}; '
                      r'Some\(source_realtime_timestamp\)', gs),
         'get_source_realtime_timestamp left the shape the translator knows')

    # ---- get_monotonic_usec: None iff either API call fails
    _, gm, _ = find_fn(jr, 'get_monotonic_usec')
    gm = flat(gm)
    need(re.fullmatch(r'let boot_id_opt = match Self::call_sd_id128_get_boot\([^()]*\) \{ Result::Ok\(bid\) => Some\(bid\), Result::Err\(_err\) => \{ return None; \} \}; '
                      r'match Self::call_sd_journal_get_monotonic_usec\([^()]*boot_id_opt, &self\.path\) \{ Result::Ok\(mu\) => \{ Some\(mu\) \} Result::Err\(_err\) => \{ None \} \}', gm),
         'get_monotonic_usec left the shape the translator knows')

    # ================= next_short
    _, ns_raw, _ = find_fn(jr, 'next_short')
    ns = flat(ns_raw)
    m = re.match(r'let mut buffer: Vec<u8> = Vec::with_capacity\(Self::BUF_DEFAULT_MEDIUM_SZ\); let realtime_timestamp: EpochMicroseconds; '
                 r'let source_realtime_timestamp: EpochMicrosecondsOpt; let dt_uses_source: DtUsesSource; ' + COMMON + ' ', ns)
    need(m, 'next_short: prologue (a buffer local to the call, next_common dispatch) not found')
    rest = ns[m.end():]
    slots = re.findall(r'let mut data_(\w+): Option<&\[u8\]> = None;', rest)
    need(slots == ['hostname', 'syslog_identifier', 'syslog_pid', 'comm', 'pid', 'message'], f'next_short: the data_* slots are {slots}')
    need(re.findall(r'let mut key_(\w+)_found: bool = false;', rest) == slots, 'next_short: key_*_found flags do not match the data_* slots')
    m = re.search(r'let mut emerg_stop_data_enumerate = 0; while emerg_stop_data_enumerate < (\d+) \{ emerg_stop_data_enumerate \+= 1; let data = match ' + ENUM_CALL +
                  r' \{ ResultS3::Found\(d\) => d, ResultS3::Err\(_err\) => \{ continue; \} ResultS3::Done => \{ break; \} \}; '
                  r'let keyn: usize; let key = match data\.find_byte\(FIELD_MID_U8\) \{ Some\(pos\) => \{ keyn = pos \+ 1; &data\[\.\.keyn - 1\] \} None => \{ continue; \} \}; '
                  r'match key \{ (.*?) _ => \{\} \} '
                  r'match \(key_hostname_found, key_syslog_identifier_found, key_syslog_pid_found, key_comm_found, key_pid_found, key_message_found\) '
                  r'\{ \(([^()]*)\) => \{ break; \} _ => \{\} \} \} ', rest)
    need(m, 'next_short: the enumeration loop (cap, `=` split, key match, early break) left the shape the translator knows')
    cap_short = int(m.group(1))
    arms = re.findall(r'(\w+) => \{ key_(\w+)_found = true; data_(\w+) = Some\(&data\[keyn\.\.\]\); \}', m.group(2))
    need(re.fullmatch(r'((\w+) => \{ key_(\w+)_found = true; data_(\w+) = Some\(&data\[keyn\.\.\]\); \} ?)+', m.group(2).strip() + ' '),
         'next_short: a key arm does something else than set its flag and slot')
    need(len(arms) == 6 and all(a[1] == a[2] for a in arms) and sorted(a[1] for a in arms) == sorted(slots), f'next_short: key arms {arms}')
    slot_key = {}
    for kn, s, _ in arms:
        need(kn in K, f'next_short: key constant {kn} unknown')
        slot_key[s] = K[kn]
    need(len(set(slot_key.values())) == 6, 'next_short: two slots share a key')
    brk = [t.strip() for t in m.group(3).split(',')]
    need(len(brk) == 6 and all(t in ('true', '_') for t in brk), f'next_short: early-break tuple {brk}')
    after = rest[m.end():]
    # timestamp part
    m = re.match(r'let dt_a: usize; let dt_b: usize; let dt = ' + TO_DT + r'; if !is_monotonic \{ let dts: String = dt\.format\(datetime_format\)\.to_string\(\); '
                 r'let dtsb: &\[u8\] = dts\.as_str\(\)\.as_bytes\(\); buffer\.push_str\(dtsb\); dt_a = 0; dt_b = dtsb\.len\(\); \} else \{ '
                 r'match self\.get_monotonic_usec\(\) \{ Some\(mu\) => \{ buffer\.push\((b\'[^\']+\')\); let mud = mu as f64 / (\d+)\.0; '
                 r'buffer\.push_str\(format!\("\{:>(\d+)\.(\d+)\}", mud\)\); dt_a = match buffer\.find_byteset\(b"0123456789"\) \{ Some\(pos\) => pos, None => 1 \}; '
                 r'dt_b = buffer\.len\(\); buffer\.push\((b\'[^\']+\')\); \}, None => \{ buffer\.push_str\("[^"]*"\); dt_a = 0; dt_b = 0; \} \} \} ', after)
    need(m, 'next_short: the timestamp / monotonic part left the shape the translator knows')
    mono_open = byte_lit(m.group(1), syms, 'next_short monotonic')
    mono_div = int(m.group(2))
    mono_width, mono_prec = int(m.group(3)), int(m.group(4))
    mono_close = byte_lit(m.group(5), syms, 'next_short monotonic')
    need(mono_div == 10 ** mono_prec, f'next_short: monotonic divisor {mono_div} and precision {mono_prec} do not agree (the model prints the exact decimal)')
    mm = re.search(r'None => \{\s*(?:de_err!\([^;]*;\s*)?buffer\.push_str\("(\[ *\])"\);\s*dt_a = 0;', strip_comments(ns_raw))
    need(mm, 'next_short: the text written when the monotonic time is unavailable not found')
    mono_none = mm.group(1).encode()
    after = after[m.end():]
    # field segments
    segs = []
    pos = 0

    def writes(block, var, where):
        """`buffer.push(b'x'); buffer.push_str(var); buffer.push(b'y');` -> (pre, post)"""
        pre, post, seen = bytearray(), bytearray(), False
        for st in [s.strip() for s in block.split(';') if s.strip()]:
            m1 = re.fullmatch(r'buffer\.push\(([^()]+)\)', st)
            m2 = re.fullmatch(r'buffer\.push_str\("((?:[^"\\]|\\.)*)"\)', st)
            m3 = re.fullmatch(r'buffer\.push_str\((\w+)\)', st)
            if m1:
                (post if seen else pre).append(byte_lit(m1.group(1), syms, where))
            elif m2:
                (post if seen else pre).extend(unescape(m2.group(1), where))
            elif m3 and m3.group(1) == var and not seen:
                seen = True
            else:
                raise GenError(f'{where}: statement `{st}` outside the subset')
        need(seen, f'{where}: the value is not written')
        return bytes(pre), bytes(post)

    seg_pat = re.compile(r'if let Some\(data\) = data_(\w+) \{ ([^{}]*) \} |match data_(\w+) \{ Some\(data\) => \{ ([^{}]*) \} None => \{ if let Some\(data\) = data_(\w+) \{ ([^{}]*) \} \} \} ')
    while True:
        m = seg_pat.match(after, pos)
        if not m:
            break
        if m.group(1):
            segs.append([(m.group(1),) + writes(m.group(2), 'data', f'next_short field {m.group(1)}')])
        else:
            segs.append([(m.group(3),) + writes(m.group(4), 'data', f'next_short field {m.group(3)}'),
                         (m.group(5),) + writes(m.group(6), 'data', f'next_short field {m.group(5)}')])
        pos = m.end()
    used = [s for seg in segs for (s, _, _) in seg]
    need(sorted(used) == sorted(slots), f'next_short: the written slots {used} are not exactly the six collected slots')
    tail = after[pos:]
    m = re.fullmatch(r'buffer\.push\((\w+)\); self\.em_first_last_update_accepted_all\(dt_uses_source, &realtime_timestamp, &source_realtime_timestamp\); '
                     r'self\.events_accepted \+= 1; ResultNext::Found\(JournalEntry::new_with_date\(buffer, realtime_timestamp, source_realtime_timestamp, dt, dt_uses_source, dt_a, dt_b\)\)', tail)
    need(m, 'next_short: epilogue (terminator, Found(new_with_date(buffer, …))) left the shape the translator knows')
    short_term = byte_lit(m.group(1), syms, 'next_short terminator')

    # ================= next_export
    _, ne, _ = find_fn(jr, 'next_export')
    ne = flat(ne)
    m = re.fullmatch(r'let mut buffer: Vec<u8> = Vec::with_capacity\(Self::BUF_DEFAULT_LARGE_SZ\); let realtime_timestamp: EpochMicroseconds; '
                     r'let source_realtime_timestamp: EpochMicrosecondsOpt; let dt_uses_source: DtUsesSource; ' + COMMON + ' '
                     r'match ' + CURSOR_CALL + r' \{ Some\(cursor\) => \{ buffer\.push_str\((\w+)\); buffer\.push\((\w+)\); buffer\.push_str\(cursor\); buffer\.push\((\w+)\); \} None => \} '
                     r'buffer\.push_str\((\w+)\); buffer\.push\((\w+)\); buffer\.push_str\(&realtime_timestamp\.to_string\(\)\); buffer\.push\((\w+)\); '
                     r'match self\.get_monotonic_usec\(\) \{ Some\(m\) => \{ buffer\.push_str\((\w+)\); buffer\.push\((\w+)\); buffer\.push_str\(&m\.to_string\(\)\); buffer\.push\((\w+)\); \}, None => \{ \} \}; '
                     r'let mut emerg_stop_data_enumerate = 0; while emerg_stop_data_enumerate < (\d+) \{ emerg_stop_data_enumerate \+= 1; let data = match ' + ENUM_CALL +
                     r' \{ ResultS3::Found\(d\) => d, ResultS3::Done => break, ResultS3::Err\(_err\) => \{ continue; \} \}; buffer\.push_str\(data\); buffer\.push\((\w+)\); \} '
                     r'buffer\.push\((\w+)\); self\.em_first_last_update_accepted_all\(dt_uses_source, &realtime_timestamp, &source_realtime_timestamp\); self\.events_accepted \+= 1; '
                     r'ResultNext::Found\(JournalEntry::from_vec_nodt\(buffer, realtime_timestamp, source_realtime_timestamp, dt_uses_source, &self\.fixed_offset\)\)', ne)
    need(m, 'next_export left the shape the translator knows')
    g = m.groups()
    for kn in (g[0], g[3], g[6]):
        need(kn in K, f'next_export: key constant {kn} unknown')
    exp_cursor = (K[g[0]], byte_lit(g[1], syms, 'next_export'), byte_lit(g[2], syms, 'next_export'))
    exp_real = (K[g[3]], byte_lit(g[4], syms, 'next_export'), byte_lit(g[5], syms, 'next_export'))
    exp_mono = (K[g[6]], byte_lit(g[7], syms, 'next_export'), byte_lit(g[8], syms, 'next_export'))
    cap_export = int(g[9])
    exp_field_end = byte_lit(g[10], syms, 'next_export')
    exp_term = byte_lit(g[11], syms, 'next_export')

    # ================= next_verbose
    _, nv, _ = find_fn(jr, 'next_verbose')
    nv = flat(nv)

    def line(field_expr, value_expr):
        return (r'buffer\.push_str\((\w+)\); buffer\.push_str\(' + field_expr + r'\); buffer\.push\((\w+)\); buffer\.push_str\(' + value_expr + r'\); buffer\.push\((\w+)\);')
    m = re.fullmatch(r'let mut fields: HashMap<&\[u8\], &\[u8\]> = HashMap::new\(\); let realtime_timestamp: EpochMicroseconds; '
                     r'let source_realtime_timestamp: EpochMicrosecondsOpt; let dt_uses_source: DtUsesSource; ' + COMMON + ' '
                     r'let mut emerg_stop_data_enumerate = 0; while emerg_stop_data_enumerate < (\d+) \{ emerg_stop_data_enumerate \+= 1; let data = match ' + ENUM_CALL +
                     r' \{ ResultS3::Found\(d\) => d, ResultS3::Err\(err\) => \{ return ResultNext::Err\(err\); \} ResultS3::Done => \{ break; \} \}; '
                     r'let mid: usize = data\.find_byte\(FIELD_MID_U8\)\.unwrap_or\(data\.len\(\)\); let key = &data\[\.\.mid\]; let valb = std::cmp::min\(mid \+ 1, data\.len\(\)\); '
                     r'let mut value = &data\[valb\.\.\]; if key == (\w+) \{ while ((?:value\.ends_with\(b"[^"]*"\)(?: \|\| )?)+) \{ value = &value\[\.\.value\.len\(\) - 1\]; \} \} '
                     r'fields\.insert\(key, value\); \} '
                     r'let monotonic_usec_str: String; if !fields\.contains_key\(&\*(\w+)\) \{ match self\.get_monotonic_usec\(\) \{ Some\(m\) => \{ monotonic_usec_str = m\.to_string\(\); '
                     r'fields\.insert\(&\*(\w+), monotonic_usec_str\.as_bytes\(\)\); \}, None => \}; \} '
                     r'self\.em_first_last_update_accepted_all\(dt_uses_source, &realtime_timestamp, &source_realtime_timestamp\); self\.events_accepted \+= 1; '
                     r'let mut buffer: Vec<u8> = Vec::with_capacity\(Self::BUF_DEFAULT_LARGE_SZ\); let dt = ' + TO_DT + r'; '
                     r'let dts: String = dt\.format\((\w+)\)\.to_string\(\); let dtsb: &\[u8\] = dts\.as_str\(\)\.as_bytes\(\); buffer\.push_str\(dtsb\); '
                     r'let dt_a: usize = 0; let dt_b: usize = dtsb\.len\(\); buffer\.push\((b\'[^\']+\')\); '
                     r'match ' + CURSOR_CALL + r' \{ Some\(cursor\) => \{ buffer\.push\((b\'[^\']+\')\); buffer\.push_str\(cursor\); buffer\.push\((b\'[^\']+\')\); \} None => \{ \} \} '
                     r'buffer\.push\((\w+)\); '
                     r'let source_realtime_timestamp_field: Option<&\[u8\]> = match fields\.remove\(&\*(\w+)\) \{ Some\(s\) => \{ Some\(s\) \} None => \{ None \} \}; '
                     r'for field in &Self::FIELD_ORDER_VERBOSE \{ match fields\.remove\(field\) \{ Some\(value\) => \{ ' + line('field', 'value') + r' \} None => \{\} \} \} '
                     r'for \(field, value\) in fields\.into_iter\(\)\.sorted\(\) \{ ' + line('field', 'value') + r' \} '
                     r'match source_realtime_timestamp_field \{ Some\(s\) => \{ ' + line(r'(\w+)', 's') + r' \} None => \{ \} \} '
                     r'ResultNext::Found\(JournalEntry::from_vec\(buffer, realtime_timestamp, source_realtime_timestamp, dt, dt_uses_source, dt_a, dt_b\)\)', nv)
    need(m, 'next_verbose left the shape the translator knows')
    g = m.groups()
    cap_verbose = int(g[0])
    need(g[1] in K, f'next_verbose: trimmed key constant {g[1]} unknown')
    trim_key = K[g[1]]
    trim_set = b''.join(unescape(x, 'next_verbose trim') for x in re.findall(r'value\.ends_with\(b"([^"]*)"\)', g[2]))
    need(len(trim_set) == g[2].count('ends_with') and len(set(trim_set)) == len(trim_set), 'next_verbose: trim alternatives are not distinct single bytes')
    need(g[3] == g[4] and g[3] in K, 'next_verbose: the monotonic key tested and the one inserted differ')
    v_mono_key = K[g[3]]
    need(g[5] in FM, f'next_verbose: format constant {g[5]} unknown')
    v_fmt = FM[g[5]]
    v_sep = byte_lit(g[6], syms, 'next_verbose')
    v_copen, v_cclose = byte_lit(g[7], syms, 'next_verbose'), byte_lit(g[8], syms, 'next_verbose')
    v_hdr_end = byte_lit(g[9], syms, 'next_verbose')
    need(g[10] in K, 'next_verbose: set-aside key unknown')
    v_last_key = K[g[10]]
    lines3 = [g[11:14], g[14:17], (g[17], g[19], g[20])]
    need(g[18] in K and K[g[18]] == v_last_key, 'next_verbose: the key written last is not the key set aside')
    ls = set()
    for (beg, mid, end) in lines3:
        need(beg in K, f'next_verbose: line prefix {beg} unknown')
        ls.add((K[beg], byte_lit(mid, syms, 'next_verbose'), byte_lit(end, syms, 'next_verbose')))
    need(len(ls) == 1, 'next_verbose: the three field-line writers use different prefix/separator/terminator')
    v_beg, v_mid, v_end = ls.pop()
    m = re.search(r'const FIELD_ORDER_VERBOSE: \[&\'static \[u8\]; (\d+)\] = \[([^\]]*)\];', jr)
    need(m, 'FIELD_ORDER_VERBOSE not found')
    order = []
    for it in [x.strip() for x in m.group(2).split(',') if x.strip()]:
        mm = re.fullmatch(r'b"((?:[^"\\]|\\.)*)"', it)
        if mm:
            order.append(unescape(mm.group(1), 'FIELD_ORDER_VERBOSE'))
        else:
            need(it in K, f'FIELD_ORDER_VERBOSE: item {it} outside the subset')
            order.append(K[it])
    need(len(order) == int(m.group(1)), 'FIELD_ORDER_VERBOSE: declared length differs')

    # ================= next_cat
    _, nc, _ = find_fn(jr, 'next_cat')
    nc = flat(nc)
    m = re.fullmatch(r'let mut buffer: Vec<u8> = Vec::with_capacity\(Self::BUF_DEFAULT_SMALL_SZ\); let realtime_timestamp: EpochMicroseconds; '
                     r'let source_realtime_timestamp: EpochMicrosecondsOpt; let dt_uses_source: DtUsesSource; ' + COMMON + ' '
                     r'let dt = ' + TO_DT + r'; let data = match Self::call_sd_journal_get_data\(&mut self\.journal_handle_ptr, &mut self\.journal_api_ptr, &mut self\.api_calls, '
                     r'&mut self\.api_call_errors, &\*KEY_MESSAGE_CSTR, &self\.path\) \{ Result::Ok\(d\) => d, Result::Err\(err\) => \{ return ResultNext::(ErrIgnore|Err)\(err\); \} \}; '
                     r'let mut value: &\[u8\] = data; match data\.find_byte\(FIELD_MID_U8\) \{ Some\(pos\) => value = &data\[pos \+ 1\.\.\], None => \{ \} \} '
                     r'buffer\.push_str\(value\); buffer\.push\((\w+)\); self\.em_first_last_update_accepted_all\(dt_uses_source, &realtime_timestamp, &source_realtime_timestamp\); '
                     r'self\.events_accepted \+= 1; ResultNext::Found\(JournalEntry::new_with_date\(buffer, realtime_timestamp, source_realtime_timestamp, dt, dt_uses_source, 0, 0\)\)', nc)
    need(m, 'next_cat left the shape the translator knows')
    cat_skip = m.group(1) == 'ErrIgnore'
    cat_term = byte_lit(m.group(2), syms, 'next_cat')

    # ---- no rendering state in the reader: no Vec<u8> / buffer field in `struct JournalReader`
    m = re.search(r'pub struct JournalReader \{(.*?)\n\}', jr, re.S)
    need(m, 'struct JournalReader not found')
    struct_fields = re.findall(r'(\w+)\s*:\s*([^,\n]+),', re.sub(r'#\[[^\]]*\]', '', m.group(1)))
    stateful = [n for n, t in struct_fields if re.search(r'Vec<u8>|Bytes\b|String\b(?!>)', t) and n not in ('path',)]
    # `error: Option<String>` and `path: FPath` are not rendering buffers
    stateful = [n for n in stateful if n not in ('error',)]
    buffer_local = not stateful
    need(len(re.findall(r'let mut buffer: Vec<u8> = Vec::with_capacity', jr)) == 4, 'the four renderers do not each create their own buffer')

    slot_lean = {'hostname': '.hostname', 'syslog_identifier': '.ident', 'syslog_pid': '.syslogPid', 'comm': '.comm', 'pid': '.pid', 'message': '.message'}

    def B(b):
        return lean_bytes(b)

    L = ['-- GENERATED by /verif/gen/s4gen.py (gen_journalrender.py) — do not edit',
         'namespace S4V.Gen.JournalRender', '',
         'abbrev Bytes := List UInt8', '',
         '/-- `enum JournalOutput`, in declaration order -/',
         'inductive Mode where']
    for v in variants:
        L.append(f'  | {v}')
    L += ['  deriving DecidableEq, Repr, Inhabited', '',
          'def allModes : List Mode := [' + ', '.join('.' + v for v in variants) + ']', '',
          '/-- `impl Display for JournalOutput` (the `--journal-output` spelling) -/',
          'def modeName : Mode → String']
    for v in variants:
        L.append(f'  | .{v} => "{names[v]}"')
    L += ['', '/-- the six values `next_short` collects -/',
          'inductive Slot where', '  | hostname | ident | syslogPid | comm | pid | message', '  deriving DecidableEq, Repr, Inhabited', '',
          '/-- which renderer `next_dispatch` calls: `short fmt isMonotonic` | verbose | export | cat -/',
          'inductive Renderer where', '  | short (fmt : Bytes) (mono : Bool)', '  | verbose | export | cat', '  deriving DecidableEq, Repr', '',
          'def dispatch : Mode → Renderer']
    for v in variants:
        kind, fb, mono = disp[v]
        if kind == 'short':
            L.append(f'  | .{v} => .short {B(fb)} {"true" if mono else "false"}   -- "{show(fb)}"')
        else:
            L.append(f'  | .{v} => .{kind}')
    L += ['',
          f'def FIELD_MID : UInt8 := {FIELD_MID}   -- {show(bytes([FIELD_MID]))!r}',
          f'def FIELD_END : UInt8 := {FIELD_END}',
          f'def ENTRY_END : UInt8 := {ENTRY_END}', '',
          '/-- `DT_USES_SOURCE_OVERRIDE`: 0 = None (prefer `_SOURCE_REALTIME_TIMESTAMP`), 1 = Some(RealtimeTimestamp), 2 = Some(SourceRealtimeTimestamp) -/',
          f'def DT_OVERRIDE : Nat := {OVR[override]}   -- {override}',
          f'def KEY_SOURCE_REALTIME : Bytes := {B(K["KEY_SOURCE_REALTIME_TIMESTAMP"])}   -- {show(K["KEY_SOURCE_REALTIME_TIMESTAMP"])}',
          f'def KEY_MESSAGE : Bytes := {B(K["KEY_MESSAGE"])}   -- {show(K["KEY_MESSAGE"])} (`next_cat` asks libsystemd for this field)', '',
          '/-- every renderer builds its text in a buffer created inside the call (no `Vec<u8>` kept in `JournalReader`) -/',
          f'def BUFFER_LOCAL : Bool := {"true" if buffer_local else "false"}', '',
          '-- ---- next_short',
          f'def SHORT_CAP : Nat := {cap_short}',
          '/-- key of each slot (the `match key` arms) -/',
          'def slotKey : Slot → Bytes']
    for s in slots:
        L.append(f'  | {slot_lean[s]} => {B(slot_key[s])}   -- {show(slot_key[s])}')
    L += ['/-- the order of the `match key` arms -/',
          'def SHORT_ARMS : List Slot := [' + ', '.join(slot_lean[a[1]] for a in arms) + ']',
          '/-- the early `break`: all of these slots have been seen -/',
          'def SHORT_BREAK_NEEDS : List Slot := [' + ', '.join(slot_lean[s] for s, t in zip(slots, brk) if t == 'true') + ']',
          '/-- what follows the timestamp: per segment the alternatives in fallback order, each `(slot, bytes before, bytes after)`;',
          '    the first alternative whose slot is present is written, none if no slot is present -/',
          'def SHORT_SEGS : List (List (Slot × Bytes × Bytes)) := [']
    for i, seg in enumerate(segs):
        L.append('  [' + ', '.join(f'({slot_lean[s]}, {B(pre)}, {B(post)})' for (s, pre, post) in seg) + ']' + (',' if i + 1 < len(segs) else ''))
    L += ['  ]',
          f'def SHORT_TERM : UInt8 := {short_term}',
          f'def MONO_OPEN : UInt8 := {mono_open}',
          f'def MONO_CLOSE : UInt8 := {mono_close}',
          f'def MONO_WIDTH : Nat := {mono_width}',
          f'def MONO_PREC : Nat := {mono_prec}',
          f'def MONO_DIV : Nat := {mono_div}',
          f'def MONO_NONE : Bytes := {B(mono_none)}   -- "{show(mono_none)}"', '',
          '-- ---- next_export',
          f'def EXPORT_CAP : Nat := {cap_export}',
          f'def EXPORT_CURSOR : Bytes × UInt8 × UInt8 := ({B(exp_cursor[0])}, {exp_cursor[1]}, {exp_cursor[2]})   -- {show(exp_cursor[0])}',
          f'def EXPORT_REALTIME : Bytes × UInt8 × UInt8 := ({B(exp_real[0])}, {exp_real[1]}, {exp_real[2]})   -- {show(exp_real[0])}',
          f'def EXPORT_MONOTONIC : Bytes × UInt8 × UInt8 := ({B(exp_mono[0])}, {exp_mono[1]}, {exp_mono[2]})   -- {show(exp_mono[0])}',
          f'def EXPORT_FIELD_END : UInt8 := {exp_field_end}',
          f'def EXPORT_TERM : UInt8 := {exp_term}', '',
          '-- ---- next_verbose',
          f'def VERBOSE_CAP : Nat := {cap_verbose}',
          f'def VERBOSE_FMT : Bytes := {B(v_fmt)}   -- "{show(v_fmt)}"',
          f'def VERBOSE_SEP : UInt8 := {v_sep}',
          f'def VERBOSE_CURSOR_OPEN : UInt8 := {v_copen}',
          f'def VERBOSE_CURSOR_CLOSE : UInt8 := {v_cclose}',
          f'def VERBOSE_HEADER_END : UInt8 := {v_hdr_end}',
          f'def VERBOSE_BEG : Bytes := {B(v_beg)}',
          f'def VERBOSE_MID : UInt8 := {v_mid}',
          f'def VERBOSE_END : UInt8 := {v_end}',
          f'def VERBOSE_TRIM_KEY : Bytes := {B(trim_key)}   -- {show(trim_key)}',
          f'def VERBOSE_TRIM_SET : Bytes := {B(trim_set)}',
          f'def VERBOSE_MONO_KEY : Bytes := {B(v_mono_key)}   -- {show(v_mono_key)}',
          f'def VERBOSE_LAST_KEY : Bytes := {B(v_last_key)}   -- {show(v_last_key)}',
          f'/-- `FIELD_ORDER_VERBOSE` ({len(order)} keys) -/',
          'def VERBOSE_ORDER : List Bytes := [']
    for i, o in enumerate(order):
        L.append(f'  {B(o)}' + (',' if i + 1 < len(order) else '') + f'   -- {show(o)}')
    L += ['  ]', '',
          '-- ---- next_cat',
          '/-- an entry without MESSAGE: `ErrIgnore` (skipped, the run goes on) rather than `Err` (the run stops) -/',
          f'def CAT_MISSING_IS_SKIP : Bool := {"true" if cat_skip else "false"}',
          f'def CAT_TERM : UInt8 := {cat_term}',
          '', 'end S4V.Gen.JournalRender']
    info = {'modes': len(variants), 'caps': [cap_short, cap_export, cap_verbose], 'verbose_order': len(order), 'override': override,
            'cat_missing_is_skip': cat_skip, 'buffer_local': buffer_local}
    return '\n'.join(L) + '\n', info
