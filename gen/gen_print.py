"""Generate S4V/Gen/Print.lean from src/printer/printers.rs:

* the print buffer constants (`BUFFER_USE`, `BUFFER_CAP`) and that the printer's buffer is created
  with exactly that capacity;
* the counter updates (`$printed += …`, `$flushed += 1`) of the buffer/colour macros, shape-checked
  against the sequence the model's `stepM` implements;
* for every `print_*` function of `PrinterLogMessage` (and `print_line`): the ORDER of the tuple in
  its final `PrinterLogMessageResult::Ok((_, _))`, the order in which the no-colour text printers
  take `print_line`'s result apart, and that every macro invocation passes `printed, flushed` in
  that order;
* the per-linepart body of `print_color_line_highlight_dt!` translated to a Lean function
  (`hlPartSegs`): conditions, slice bounds and colour of each written slice.

Anything outside the expected shapes raises GenError naming the item."""
import os
import re
from rs import GenError, strip_comments, find_fn, match_close, split_top, int_lit

SYSLINE_FNS = ['print_sysline_', 'print_sysline_prependdate', 'print_sysline_prependfile',
               'print_sysline_prependfile_prependdate', 'print_sysline_color', 'print_sysline_prependdate_color',
               'print_sysline_prependfile_color', 'print_sysline_prependfile_prependdate_color']
OTHER_FNS = ['print_fixedstruct_', 'print_fixedstruct_prependdate', 'print_fixedstruct_prependfile',
             'print_fixedstruct_prependfile_prependdate', 'print_fixedstruct_color', 'print_fixedstruct_prependdate_color',
             'print_fixedstruct_prependfile_color', 'print_fixedstruct_prependfile_prependdate_color',
             'print_evtx_', 'print_evtx_prepend', 'print_evtx_color', 'print_evtx_prepend_color',
             'print_journalentry_', 'print_journalentry_prepend', 'print_journalentry_color', 'print_journalentry_prepend_color']
NOCOLOR_SYSLINE = SYSLINE_FNS[:4]

MACROS = ['buffer_flush_or_seterr', 'buffer_flush_or_return', 'buffer_flush_nostats', 'buffer_write_or_return',
          'setcolor_or_return', 'print_color_line', 'print_color_line_highlight_dt']

# the `+=` statements of each macro, in source order, as the model implements them
EXPECT_ADDS = {
    'buffer_flush_or_seterr': [('$printed', '$buffer.len()'), ('$flushed', '1'), ('$flushed', '1')],
    'buffer_flush_or_return': [],
    'buffer_write_or_return': [('$printed', '$slice_.len()'), ('$flushed', '1'),          # !BUFFER_USE arm
                               ('$printed', '$buffer.len()'), ('$flushed', '1'), ('$flushed', '1'),  # buffer written out / error
                               ('$printed', '$slice_.len()'), ('$flushed', '1')],          # slice larger than the buffer
    'setcolor_or_return': [('$flushed', '1')],
    'print_color_line': [],
    'print_color_line_highlight_dt': [('at', 'slice.len() as LineIndex')],
}
COUNTED = ('buffer_flush_or_return', 'buffer_write_or_return', 'setcolor_or_return', 'print_color_line',
           'print_color_line_highlight_dt', 'buffer_flush_or_seterr')
SPEC = {'color_spec_default': 0, 'color_spec_sysline': 1, 'color_spec_datetime': 2}


def ws(s):
    return re.sub(r'\s+', ' ', s).strip()


def find_macro(src, name):
    m = re.search(r'macro_rules!\s+' + name + r'\s*\{', src)
    if not m:
        raise GenError(f"printers.rs: macro {name} not found")
    b = m.end() - 1
    e = match_close(src, b)
    inner = src[b + 1:e]
    # single rule `( params ) => {{ body }}`
    p = inner.find('(')
    pe = match_close(inner, p)
    params = [ws(x) for x in split_top(inner[p + 1:pe])]
    rest = inner[pe + 1:]
    mm = re.match(r'\s*=>\s*\{', rest)
    if not mm:
        raise GenError(f"macro {name}: not a single `(…) => {{…}}` rule")
    bb = pe + 1 + mm.end() - 1
    be = match_close(inner, bb)
    tail = inner[be + 1:].strip().rstrip(';').strip()
    if tail:
        raise GenError(f"macro {name}: more than one rule")
    body = inner[bb + 1:be]
    # the body is `{{ … }}`: take the inner block
    st = body.strip()
    if not st.startswith('{') or match_close(st, 0) != len(st) - 1:
        raise GenError(f"macro {name}: body is not `{{{{ … }}}}`")
    return params, st[1:-1]


def strip_macro_calls(body, pat):
    """remove invocations `name!( … );` whose name matches pat"""
    out = []
    i = 0
    rx = re.compile(r'\b(' + pat + r')!\s*\(')
    while True:
        m = rx.search(body, i)
        if not m:
            out.append(body[i:])
            break
        out.append(body[i:m.start()])
        e = match_close(body, m.end() - 1)
        j = e + 1
        while j < len(body) and body[j].isspace():
            j += 1
        if j < len(body) and body[j] == ';':
            j += 1
        i = j
    return ''.join(out)


def invocations(body, name):
    res = []
    for m in re.finditer(r'\b' + name + r'!\s*\(', body):
        e = match_close(body, m.end() - 1)
        res.append([ws(x) for x in split_top(body[m.end():e])])
    return res


def ret_order(body, where):
    """order of the tuple of the only `PrinterLogMessageResult::Ok((_, _))` expression, which must
    be the function's final expression; every `return` must return an `Err`"""
    oks = list(re.finditer(r'PrinterLogMessageResult::Ok\(\s*\(([^()]*)\)\s*\)', body))
    finals = [m for m in oks if not re.match(r'\s*=>', body[m.end():])]
    if len(finals) != 1:
        raise GenError(f"{where}: expected exactly one `PrinterLogMessageResult::Ok((…))` result expression, found {len(finals)}")
    m = finals[0]
    if body[m.end():].strip() != '':
        raise GenError(f"{where}: `PrinterLogMessageResult::Ok((…))` is not the final expression")
    if re.search(r'return\s*$', body[:m.start()]):
        pass
    for r in re.finditer(r'\breturn\b\s*([^;]*);', body):
        if not re.match(r'PrinterLogMessageResult::Err\(\s*err\s*\)$', ws(r.group(1))):
            raise GenError(f"{where}: `return {ws(r.group(1))[:60]}` is not `return PrinterLogMessageResult::Err(err)`")
    t = [ws(x) for x in m.group(1).split(',')]
    if t == ['printed', 'flushed']:
        return True
    if t == ['flushed', 'printed']:
        return False
    raise GenError(f"{where}: result tuple ({', '.join(t)}) is not a permutation of (printed, flushed)")


def line_destructure(body, where):
    """`match self.print_line(linep, &mut stdout_lock) { Ok((A, B)) => { printed += X; flushed += Y; } Err(err) => {…} }`:
    True when the first component is added to `printed` and the second to `flushed`"""
    ms = list(re.finditer(r'match\s+self\.print_line\(\s*linep\s*,\s*&mut\s+stdout_lock\s*\)\s*\{', body))
    if len(ms) != 1:
        raise GenError(f"{where}: expected exactly one `match self.print_line(linep, &mut stdout_lock)`, found {len(ms)}")
    b = ms[0].end() - 1
    e = match_close(body, b)
    inner = ws(body[b + 1:e])
    m = re.match(r'PrinterLogMessageResult::Ok\(\s*\(\s*(\w+)\s*,\s*(\w+)\s*\)\s*\) => \{ (\w+) \+= (\w+); (\w+) \+= (\w+); \} '
                 r'PrinterLogMessageResult::Err\(err\) => \{ buffer_flush_nostats!\(stdout_lock, self\.buffer\); '
                 r'return PrinterLogMessageResult::Err\(err\); \}$', inner)
    if not m:
        raise GenError(f"{where}: arms of `match self.print_line(…)` left the expected shape: {inner[:160]}")
    a, bb, v1, x1, v2, x2 = m.groups()
    if a == bb:
        raise GenError(f"{where}: `Ok(({a}, {bb}))` binds one name twice")
    adds = {v1: x1, v2: x2}
    if set(adds) != {'printed', 'flushed'} or set(adds.values()) != {a, bb}:
        raise GenError(f"{where}: the result of print_line is not added once to `printed` and once to `flushed`: {inner[:120]}")
    return adds['printed'] == a and adds['flushed'] == bb


def check_counter_args(body, where):
    """every counting macro invoked in a print function gets `…, printed, flushed` last"""
    n = 0
    for name in COUNTED:
        for args in invocations(body, name):
            n += 1
            if args[-2:] != ['printed', 'flushed']:
                raise GenError(f"{where}: {name}!(… {', '.join(args[-2:])}) does not end in `printed, flushed`")
    for v in ('printed', 'flushed'):
        if len(re.findall(r'let\s+mut\s+' + v + r'\s*:\s*usize\s*=\s*0\s*;', body)) != 1:
            raise GenError(f"{where}: `let mut {v}: usize = 0;` not found exactly once")
    return n


# ---------------------------------------------------------------- print_color_line_highlight_dt!

VAR = {'at': 'at_', 'at_end': 'at_end', '$dt_beg': 'dt_beg', '$dt_end': 'dt_end'}


def cond_lean(c, where):
    parts = [ws(x) for x in c.split('&&')]
    out = []
    for p in parts:
        m = re.match(r'^(\$?\w+)\s*(<=|<)\s*(\$?\w+)$', p)
        if not m or m.group(1) not in VAR or m.group(3) not in VAR:
            raise GenError(f"{where}: condition `{p}` outside the subset (x < y / x <= y over at, at_end, $dt_beg, $dt_end)")
        out.append(f"{VAR[m.group(1)]} {'≤' if m.group(2) == '<=' else '<'} {VAR[m.group(3)]}")
    return ' ∧ '.join(out)


def bound_lean(b, where):
    b = ws(b)
    if b == '':
        return None
    m = re.match(r'^\(?\s*(\$dt_beg|\$dt_end)\s*-\s*at\s*\)?$', b)
    if m and b.count('(') == b.count(')'):
        return f"({VAR[m.group(1)]} - at_)"
    m = re.match(r'^\(?\s*(\$dt_beg|\$dt_end|at|at_end)\s*\)?$', b)
    if m and b.count('(') == b.count(')'):
        return VAR[m.group(1)]
    raise GenError(f"{where}: slice bound `{b}` outside the subset (`($dt_beg - at)` / `($dt_end - at)` / a bare index / open)")


def triple(stmts, k, where):
    """stmts[k..k+3] = setcolor / write / flush on one slice; returns (spec, slice name)"""
    if k + 3 > len(stmts):
        raise GenError(f"{where}: incomplete setcolor/write/flush group")
    a, b, c = stmts[k:k + 3]
    m = re.match(r'^setcolor_or_return!\(\$self\.stdout_color, \$buffer, \$self\.(\w+), \$self\.color_spec_last, \$printed, \$flushed\)$', a)
    if not m or m.group(1) not in SPEC:
        raise GenError(f"{where}: expected setcolor_or_return!($self.stdout_color, $buffer, $self.color_spec_*, $self.color_spec_last, $printed, $flushed), got `{a[:100]}`")
    w = re.match(r'^buffer_write_or_return!\(\$self\.stdout_color, \$buffer, (\w+), \$printed, \$flushed\)$', b)
    if not w:
        raise GenError(f"{where}: expected buffer_write_or_return!($self.stdout_color, $buffer, <slice>, $printed, $flushed), got `{b[:100]}`")
    if c != 'buffer_flush_or_return!($self.stdout_color, $buffer, $printed, $flushed)':
        raise GenError(f"{where}: expected buffer_flush_or_return!($self.stdout_color, $buffer, $printed, $flushed), got `{c[:100]}`")
    return SPEC[m.group(1)], w.group(1)


def split_stmts(body):
    """top-level statements of a block: `…;` or `if … { … }`"""
    out = []
    i, n = 0, len(body)
    while i < n:
        while i < n and body[i].isspace():
            i += 1
        if i >= n:
            break
        if body.startswith('if', i) and not (body[i + 2].isalnum() or body[i + 2] == '_'):
            b = body.find('{', i)
            e = match_close(body, b)
            out.append(ws(body[i:e + 1]))
            i = e + 1
            continue
        j = i
        depth = 0
        while j < n:
            c = body[j]
            if c in '([{':
                j = match_close(body, j)
            elif c == ';' and depth == 0:
                break
            j += 1
        out.append(ws(body[i:j]))
        i = j + 1
    return out


def branch_lean(body, where):
    stmts = split_stmts(body)
    lets = {}
    order = []
    segs = []
    k = 0
    while k < len(stmts):
        s = stmts[k]
        m = re.match(r'^let (\w+) = &slice\[(.*?)\.\.(.*?)\]$', s)
        if m:
            name = m.group(1)
            lo, hi = bound_lean(m.group(2), where), bound_lean(m.group(3), where)
            if name in lets or name == 'slice':
                raise GenError(f"{where}: slice `{name}` bound twice")
            e = 'slice'
            if hi is not None:
                e = f"{e}.take {hi}"
            if lo is not None:
                e = f"({e}).drop {lo}" if hi is not None else f"{e}.drop {lo}"
            lets[name] = e
            order.append(name)
            k += 1
            continue
        m = re.match(r'^if !(\w+)\.is_empty\(\) \{(.*)\}$', s)
        if m:
            inner = split_stmts(m.group(2))
            spec, nm = triple(inner, 0, where)
            if len(inner) != 3 or nm != m.group(1) or nm not in lets:
                raise GenError(f"{where}: `if !{m.group(1)}.is_empty()` does not guard exactly one setcolor/write/flush of that slice")
            segs.append((spec, True, nm))
            k += 1
            continue
        spec, nm = triple(stmts, k, where)
        if nm != 'slice':
            raise GenError(f"{where}: unguarded write of `{nm}` (only the whole `slice` is written without an emptiness test)")
        segs.append((spec, False, 'slice'))
        k += 3
    used = [nm for _, _, nm in segs if nm != 'slice']
    if sorted(used) != sorted(order):
        raise GenError(f"{where}: slices bound {order} but written {used}")
    L = []
    for nm in order:
        L.append(f"    let {nm} := {lets[nm]}")
    L.append('    [' + ', '.join(f"⟨{sp}, {'true' if g else 'false'}, {nm}⟩" for sp, g, nm in segs) + ']')
    return '\n'.join(L)


def highlight_fn(src):
    where = 'print_color_line_highlight_dt!'
    params, body = find_macro(src, 'print_color_line_highlight_dt')
    if params != ['$self:expr', '$buffer:expr', '$linep:expr', '$dt_beg:expr', '$dt_end:expr', '$printed:expr', '$flushed:expr']:
        raise GenError(f"{where}: parameters changed: {params}")
    body = strip_macro_calls(body, r'debug_assert\w*')
    inner = body
    m = re.match(r'^\s*let mut at: LineIndex = 0;\s*for linepart in \(\*\$linep\)\.lineparts\.iter\(\) \{', inner)
    if not m:
        raise GenError(f"{where}: does not start with `let mut at: LineIndex = 0; for linepart in (*$linep).lineparts.iter() {{`")
    lb = m.end() - 1
    le = match_close(inner, lb)
    if inner[le + 1:].strip() != '':
        raise GenError(f"{where}: statements after the loop")
    loop = inner[lb + 1:le]
    m = re.match(r'^\s*let slice: &\[u8\] = linepart\.as_slice\(\);\s*let at_end: usize = at \+ slice\.len\(\);\s*', loop)
    if not m:
        raise GenError(f"{where}: loop does not start with `let slice … = linepart.as_slice(); let at_end … = at + slice.len();`")
    rest = loop[m.end():]
    m2 = re.search(r'\}\s*at \+= slice\.len\(\) as LineIndex;\s*$', rest)
    if not m2:
        raise GenError(f"{where}: loop does not end with `at += slice.len() as LineIndex;`")
    chain = rest[:m2.start() + 1]
    # if C {B} else if C {B} … else {B}
    arms = []
    i = 0
    while True:
        m = re.match(r'\s*if\s+', chain[i:])
        if not m:
            raise GenError(f"{where}: expected `if` at `{ws(chain[i:i + 40])}`")
        cb = chain.find('{', i)
        cond = chain[i + m.end():cb]
        ce = match_close(chain, cb)
        arms.append((cond_lean(cond, where), branch_lean(chain[cb + 1:ce], where)))
        j = ce + 1
        m = re.match(r'\s*else\s*', chain[j:])
        if not m:
            raise GenError(f"{where}: the chain of cases has no final `else`")
        j += m.end()
        if chain[j] == '{':
            ee = match_close(chain, j)
            if chain[ee + 1:].strip() != '':
                raise GenError(f"{where}: text after the final else block")
            arms.append((None, branch_lean(chain[j + 1:ee], where)))
            break
        i = j
    L = ['def hlPartSegs (at_ : Nat) (slice : List UInt8) (dt_beg dt_end : Nat) : List Seg :=',
         '  let at_end := at_ + slice.length']
    for n, (c, b) in enumerate(arms):
        if c is not None:
            L.append(('  if ' if n == 0 else '  else if ') + c + ' then')
        else:
            L.append('  else')
        L.append(b)
    return '\n'.join(L), len(arms)


def first_print_shapes(repo):
    """`processing_loop` (s4.rs), first print: how the file-name field is padded for `-w` and how the
    prepend separator joins the datetime format."""
    src = strip_comments(open(os.path.join(repo, 'src/bin/s4.rs')).read())
    fw = ws(src)
    # (1) padding measure of the two file-name fields (`-n` basename, `-p` path)
    by_cols = []
    for var in ('bname', 'path'):
        char_form = f'let prepend: String = format!("{{0:<1$}}{{2}}", {var}, prependname_width, cli_prepend_separator);'
        col_form = (f'let pad: usize = prependname_width .saturating_sub(unicode_width::UnicodeWidthStr::width({var}.as_str())); '
                    f'let prepend: String = format!("{{}}{{}}{{}}", {var}, " ".repeat(pad), cli_prepend_separator);')
        nchar, ncol = fw.count(char_form), fw.count(col_form)
        if (nchar, ncol) == (1, 0):
            by_cols.append(False)
        elif (nchar, ncol) == (0, 1):
            by_cols.append(True)
        else:
            raise GenError(f"s4.rs processing_loop: the `{var}` file-name field is neither `format!(\"{{0:<1$}}{{2}}\", …)` (pads by char count) "
                           f"nor name + \" \".repeat(width - display width) + separator")
    if by_cols[0] != by_cols[1]:
        raise GenError("s4.rs processing_loop: the -n and -p file-name fields are padded by different measures")
    nwidth = fw.count('prependname_width = std::cmp::max( prependname_width, unicode_width::UnicodeWidthStr::width(')
    if nwidth != 2:
        raise GenError("s4.rs processing_loop: prependname_width is not the max of UnicodeWidthStr::width over the printed names (2 sites)")
    # (1b) WHICH names the width ranges over: the sources with a message (`pathid_with_logmessages`), or all of them
    loop_printing = 'for pathid in pathid_with_logmessages.iter() { let path = match map_pathid_path.get(pathid) { Some(path_) => path_, None => continue, };'
    n_printing = 0
    n_other = 0
    for m in re.finditer(r'prependname_width = std::cmp::max\( prependname_width, unicode_width::UnicodeWidthStr::width\(', fw):
        head = fw[:m.start()]
        i_for = head.rfind('for ')
        seg = head[i_for:]
        if seg.startswith(loop_printing) and seg[len(loop_printing):].count('{') == seg[len(loop_printing):].count('}'):
            n_printing += 1
        else:
            n_other += 1
    if (n_printing, n_other) == (2, 0):
        over_printing = True
    elif n_printing == 0:
        over_printing = False
    else:
        raise GenError("s4.rs processing_loop: the -n and -p alignment widths range over different sets of sources")
    # (2) the prepend separator inside the strftime format
    lit = 'Some(ref s) => Some(s.to_owned() + cli_prepend_separator.replace(\'%\', "%%").as_str()),'
    raw = 'Some(ref s) => Some(s.to_owned() + cli_prepend_separator.as_str()),'
    if fw.count(lit) == 1 and fw.count(raw) == 0:
        sep_literal = True
    elif fw.count(raw) == 1 and fw.count(lit) == 0:
        sep_literal = False
    else:
        raise GenError("s4.rs processing_loop: prepend_date_format is neither fmt + separator nor fmt + separator.replace('%', \"%%\")")
    return by_cols[0], sep_literal, over_printing


def generate(repo):
    align_cols, sep_literal, align_printing = first_print_shapes(repo)
    src = strip_comments(open(os.path.join(repo, 'src/printer/printers.rs')).read())
    m = re.search(r'\bconst\s+BUFFER_CAP\s*:\s*usize\s*=\s*([^;]+);', src)
    if not m:
        raise GenError("printers.rs: const BUFFER_CAP: usize not found")
    cap = int_lit(m.group(1))
    m = re.search(r'\bconst\s+BUFFER_USE\s*:\s*bool\s*=\s*(true|false)\s*;', src)
    if not m:
        raise GenError("printers.rs: const BUFFER_USE: bool not found")
    use = m.group(1)
    if not re.search(r'buffer:\s*Vec::<u8>::with_capacity\(\s*if BUFFER_USE \{ BUFFER_CAP \} else\s+\{ 0 \}\s*\)', src):
        raise GenError("PrinterLogMessage::new: buffer is not `Vec::<u8>::with_capacity(if BUFFER_USE { BUFFER_CAP } else { 0 })`")
    # counter updates inside the macros
    for name, exp in EXPECT_ADDS.items():
        _, body = find_macro(src, name)
        adds = [(a, ws(b)) for a, b in re.findall(r'(\$?\w+)\s*\+=\s*([^;]+);', body)]
        if adds != exp:
            raise GenError(f"macro {name}: counter updates {adds} differ from the modelled {exp}")
    # the tests the model's stepM implements
    _, bw = find_macro(src, 'buffer_write_or_return')
    fw = ws(bw)
    for frag in ('let len: usize = $buffer.len(); let slice_len: usize = $slice_.len(); let cap: usize = $buffer.capacity(); '
                 'let remain: usize = cap - len; if slice_len <= remain { $buffer.extend_from_slice($slice_); } else { '
                 'match $stdout.write_all($buffer.as_slice()) { Ok(_) => { $printed += $buffer.len(); $flushed += 1; $buffer.clear(); }',
                 'if $slice_.len() > cap { match $stdout.write_all($slice_) { Ok(_) => { $printed += $slice_.len(); }',
                 '$flushed += 1; } else { $buffer.extend_from_slice($slice_); }',
                 'if ! BUFFER_USE {'):
        if frag not in fw:
            raise GenError("macro buffer_write_or_return: left the modelled shape near `" + frag[:70] + "…`")
    _, bf = find_macro(src, 'buffer_flush_or_seterr')
    ff = ws(bf)
    if not ff.startswith('if ! $buffer.is_empty() { match $stdout.write_all($buffer.as_slice()) { Ok(_) => { $printed += $buffer.len(); $buffer.clear(); '
                         'match $stdout.flush() { Ok(_) => {} Err(err) => { $error_ret = Some(err); } } $flushed += 1; }'):
        raise GenError("macro buffer_flush_or_seterr: left the modelled shape")
    _, sc = find_macro(src, 'setcolor_or_return')
    fs = ws(sc)
    if not (fs.startswith('buffer_flush_or_return!($stdout, $buffer, $printed, $flushed); if $color_spec != $color_spec_last {')
            and fs.endswith('$flushed += 1; $color_spec_last = $color_spec.clone(); }')):
        raise GenError("macro setcolor_or_return: left the modelled shape (flush; if spec != last { set_color; flush; flushed += 1; last = spec })")
    _, pc = find_macro(src, 'print_color_line')
    if ws(pc) != ('for linepart in (*$linep).lineparts.iter() { let slice: &[u8] = linepart.as_slice(); '
                  'buffer_write_or_return!($stdout_color, $buffer, slice, $printed, $flushed); } '
                  'buffer_flush_or_return!($stdout_color, $buffer, $printed, $flushed);'):
        raise GenError("macro print_color_line: left the modelled shape (write every linepart, then flush)")
    # print_line
    sig, body, _ = find_fn(src, 'print_line')
    rets = {'print_line': ret_order(body, 'print_line')}
    check_counter_args(body, 'print_line')
    if ws(body).find('for linepart in (*linep).lineparts.iter() { let slice: &[u8] = linepart.as_slice(); '
                     'buffer_write_or_return!(stdout_lock, self.buffer, slice, printed, flushed); }') < 0:
        raise GenError("print_line: left the modelled shape (write every linepart)")
    straight = {}
    ninv = 0
    for fn in SYSLINE_FNS + OTHER_FNS:
        sig, body, _ = find_fn(src, fn)
        rets[fn] = ret_order(body, fn)
        ninv += check_counter_args(body, fn)
        if fn in NOCOLOR_SYSLINE:
            straight[fn] = line_destructure(body, fn)
    hl, narms = highlight_fn(src)

    def b(x):
        return 'true' if x else 'false'
    L = ['-- GENERATED by /verif/gen/s4gen.py from src/printer/printers.rs — do not edit',
         'namespace S4V.Gen.Print', '',
         '/-- `const BUFFER_CAP: usize` — capacity of `PrinterLogMessage.buffer` (checked: the buffer is',
         'created `with_capacity(if BUFFER_USE { BUFFER_CAP } else { 0 })`) -/',
         f'def BUFFER_CAP : Nat := {cap}',
         f'def BUFFER_USE : Bool := {use}',
         '',
         '/-- the final expression of the function is `PrinterLogMessageResult::Ok((printed, flushed))`',
         '(`false`: `Ok((flushed, printed))`); every `return` returns an `Err` -/',
         'structure RetOrder where']
    names = ['print_line'] + SYSLINE_FNS + OTHER_FNS
    for fn in names:
        L.append(f'  {(fn + "plain") if fn.endswith("_") else fn} : Bool')
    L.append('  deriving DecidableEq, Repr')
    L.append('')
    L.append('def retPrintedFirst : RetOrder :=')
    L.append('  { ' + '\n    '.join(f'{(fn + "plain") if fn.endswith("_") else fn} := {b(rets[fn])}' for fn in names) + ' }')
    L.append('')
    L.append('/-- `RETURNS_PRINTED_FIRST`: the same for the eight text-log printers, in the order of the')
    L.append('`match (do_color, do_prepend_file, do_prepend_date)` helper names:')
    L.append('`_`, `_prependdate`, `_prependfile`, `_prependfile_prependdate`, then the four `_color` ones -/')
    L.append('def RETURNS_PRINTED_FIRST : List Bool := [' + ', '.join(b(rets[fn]) for fn in SYSLINE_FNS) + ']')
    L.append('')
    L.append('/-- the no-colour text-log printers take `print_line`\'s result apart as')
    L.append('`Ok((p, f)) => { printed += p; flushed += f; }` (`false`: the two are crossed) -/')
    L.append('structure LineAdd where')
    for fn in NOCOLOR_SYSLINE:
        L.append(f'  {(fn + "plain") if fn.endswith("_") else fn} : Bool')
    L.append('  deriving DecidableEq, Repr')
    L.append('')
    L.append('def lineAddStraight : LineAdd :=')
    L.append('  { ' + '\n    '.join(f'{(fn + "plain") if fn.endswith("_") else fn} := {b(straight[fn])}' for fn in NOCOLOR_SYSLINE) + ' }')
    L.append('')
    L.append('/-- one `setcolor_or_return!(spec); buffer_write_or_return!(bytes); buffer_flush_or_return!` group of')
    L.append('`print_color_line_highlight_dt!`; `spec`: 0 `color_spec_default`, 1 `color_spec_sysline`,')
    L.append('2 `color_spec_datetime`; `guarded`: the group sits under `if !bytes.is_empty()` -/')
    L.append('structure Seg where')
    L.append('  spec : Nat')
    L.append('  guarded : Bool')
    L.append('  bytes : List UInt8')
    L.append('  deriving DecidableEq, Repr')
    L.append('')
    L.append('/-- body of `for linepart in (*$linep).lineparts.iter()` in `print_color_line_highlight_dt!`')
    L.append('(`at_` = `at` on entry; the loop then does `at += slice.len()`) -/')
    L.append(hl)
    L.append('')
    L.append('/-- `processing_loop`, first print: with `-w` the file-name field is the name followed by')
    L.append('`prependname_width - UnicodeWidthStr::width(name)` spaces (`true`), or `format!("{0:<1$}", name, width)`,')
    L.append('which pads by `char` count (`false`); `prependname_width` is the max display width of the printed names -/')
    L.append(f'def ALIGN_PADS_BY_COLUMNS : Bool := {b(align_cols)}')
    L.append('/-- the `-w` width is the maximum over the sources that have a message at first print (`pathid_with_logmessages`), not over every source -/')
    L.append(f'def ALIGN_OVER_PRINTING_SOURCES : Bool := {b(align_printing)}')
    L.append('/-- the datetime field is strftime(format ++ separator with every `%` doubled) (`true`: the separator is')
    L.append('literal text) or strftime(format ++ separator) (`false`: a `%` in the separator is interpreted) -/')
    L.append(f'def PREPEND_SEPARATOR_LITERAL : Bool := {b(sep_literal)}')
    # the datetime field of a message is a function of THAT message's instant, the -d format and the zone only: the four
    # `datetime_to_string_*` take `&self` (no state to remember between messages) and read `.dt()` of their argument
    # (seeded change C13-d cached the last formatted field keyed on milliseconds)
    stateless = True
    for fn in ('datetime_to_string_sysline', 'datetime_to_string_fixedstruct', 'datetime_to_string_evtx', 'datetime_to_string_journalentry'):
        mm = re.search(r'fn ' + fn + r'\s*\(\s*(&mut self|&self)\s*,', src)
        if not mm:
            raise GenError(f'printers.rs: fn {fn}(&self, …) not found')
        _, fb, _ = find_fn(src, fn)
        fflat = re.sub(r'\s+', ' ', fb)
        ok = (mm.group(1) == '&self' and '.dt()' in fflat and '.with_timezone(&self.prepend_date_offset)' in fflat
              and 'self.prepend_date_format.as_str()' in fflat and not re.search(r'\bself\.\w+ = ', fflat)
              and not re.search(r'\b(static|thread_local|RefCell|Cell<|Mutex|lazy_static)\b', fflat) and 'return ' not in fflat)
        stateless = stateless and ok
    L.append('/-- the four `datetime_to_string_*`: `&self`, `x.dt().with_timezone(&self.prepend_date_offset).format(self.prepend_date_format.as_str())`, no')
    L.append('assignment to a field, no early `return`, no interior-mutable state (`true`) -/')
    L.append(f'def DT_FIELD_STATELESS : Bool := {b(stateless)}')
    L.append('')
    L.append('end S4V.Gen.Print')
    return '\n'.join(L) + '\n', {'BUFFER_CAP': cap, 'functions': len(names), 'macro_invocations_checked': ninv, 'highlight_cases': narms}
