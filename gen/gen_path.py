"""Generate S4V/Gen/PathTables.lean from src/readers/filepreprocessor.rs.

Extracts from `pathbuf_to_filetype_impl`: JUNK_CHARS, JUNK_CHARS_LEAD, the
suffix match table, the bare-name match table, the `starts_with`/`ends_with`
text rules; and from `process_path` whether jwalk's hidden-entry skipping is
overridden, whether links are followed and whether the walk is sorted.
"""
import os
import re
from rs import (GenError, strip_comments, find_fn, find_block_after, match_arms,
                str_lit, lean_bytes, match_close)

ARCH = {'Normal': 'normal', 'Bz2': 'bz2', 'Gz': 'gz', 'Lz4': 'lz4', 'Tar': 'tar', 'Xz': 'xz'}
FIXED = {'Acct': 'acct', 'AcctV3': 'acctV3', 'Lastlog': 'lastlog', 'Lastlogx': 'lastlogx',
         'Utmp': 'utmp', 'Utmpx': 'utmpx'}


def strip_trace(block: str) -> str:
    """remove def?!/de_*! tracing macro calls"""
    out = []
    i = 0
    pat = re.compile(r'\b(def1?[a-zñ]?|de[a-zñ]|de_err|de_wrn)!\s*\(')
    while True:
        m = pat.search(block, i)
        if not m:
            out.append(block[i:])
            break
        out.append(block[i:m.start()])
        p = block.find('(', m.start())
        e = match_close(block, p)
        i = e + 1
        # optional trailing ;
        while i < len(block) and block[i] in ' \t':
            i += 1
        if i < len(block) and block[i] == ';':
            i += 1
    return ''.join(out)


def classify_action(block: str, where: str) -> str:
    b = re.sub(r'\s+', ' ', strip_trace(block)).strip()
    if b == '':
        return '.nomatch'
    # recursive call with a compression container
    m = re.fullmatch(
        r'let ret = pathbuf_to_filetype_impl\( &pathbuf\.clone\(\)\.with_extension\(""\), '
        r'unparseable_are_text, Some\(FileTypeArchive::(\w+)\), \); return ret;', b)
    if m:
        return f'.compress .{ARCH[m.group(1)]}'
    m = re.fullmatch(r'let ret = PathToFiletypeResult::Filetype\( FileType::Evtx \{ archival_type: fta, \} \); return ret;', b)
    if m:
        return '.evtx'
    m = re.fullmatch(r'let ret = PathToFiletypeResult::Filetype\( FileType::Journal \{ archival_type: fta, \} \); return ret;', b)
    if m:
        return '.journal'
    m = re.fullmatch(r'let ret = PathToFiletypeResult::Archive\( FileTypeArchiveMultiple::Tar, fta, \); return ret;', b)
    if m:
        return '.tarArchive'
    m = re.fullmatch(r'let ret = PathToFiletypeResult::Filetype\( FileType::Text \{ archival_type: fta, '
                     r'encoding_type: FileTypeTextEncoding::Utf8Ascii,? \} \); return ret;', b)
    if m:
        return '.text'
    m = re.fullmatch(r'let ret = PathToFiletypeResult::Filetype\( FileType::FixedStruct \{ archival_type: fta, '
                     r'fixedstruct_type: FileTypeFixedStruct::(\w+), \} \); return ret;', b)
    if m:
        return f'.fixed .{FIXED[m.group(1)]}'
    m = re.fullmatch(r'match unparseable_are_text \{ true => \{ return RET_FALLBACK_TEXT; \} '
                     r'false => \{ return RET_FALLBACK_UNPARSABLE; \} \}', b)
    if m:
        return '.nonlog'
    raise GenError(f"{where}: match arm body outside the translator's subset: {b[:120]}")


def parse_table(fn_body: str, head_pat: str, where: str):
    inner, _ = find_block_after(fn_body, head_pat)
    rows = []
    for pat, val in match_arms(inner):
        act = classify_action(val, where)
        if pat.strip() == '_':
            if act != '.nomatch':
                raise GenError(f"{where}: default arm is not a fall-through")
            continue
        for alt in pat.split('|'):
            rows.append((str_lit(alt), act))
    keys = [k for k, _ in rows]
    if len(set(keys)) != len(keys):
        raise GenError(f"{where}: duplicate keys")
    return rows


def char_array(fn_body: str, name: str):
    m = re.search(r'const\s+' + name + r'\s*:\s*&\[char\]\s*=\s*&\[(.*?)\]\s*;', fn_body, re.S)
    if not m:
        raise GenError(f"{name} not found")
    chars = []
    rest = re.sub(r"'(\\.|[^'\\])'", lambda mm: (chars.append(mm.group(1)), '')[1], m.group(1))
    if rest.replace(',', '').strip():
        raise GenError(f"{name}: unsupported element {rest.strip()[:20]}")
    for c in chars:
        if len(c) != 1 or ord(c) > 127:
            raise GenError(f"{name}: non-ASCII or escaped junk char {c!r} (the byte model needs ASCII)")
    chars = [ord(c) for c in chars]
    return chars


def generate(repo: str):
    path = os.path.join(repo, 'src/readers/filepreprocessor.rs')
    src = strip_comments(open(path).read())
    _, body, _ = find_fn(src, 'pathbuf_to_filetype_impl')
    junk = char_array(body, 'JUNK_CHARS')
    junk_lead = char_array(body, 'JUNK_CHARS_LEAD')
    suffix = parse_table(body, r'match\s+file_suffix\.as_str\(\)\s*\{', 'suffix table')
    names = parse_table(body, r'match\s+file_name_s\s*\{', 'name table')
    for k, a in names:
        if a.startswith('.compress') or a == '.tarArchive':
            raise GenError(f"name table row {k!r} recurses or is an archive: outside the model")
    # the two recursive branches outside the table must have exactly this shape
    flat = re.sub(r'\s+', ' ', strip_trace(body))
    rec = (r'let ret = pathbuf_to_filetype_impl\( &pathbuf\.clone\(\)\.with_extension\(""\), '
           r'unparseable_are_text, Some\(fta\), \); return ret; \}')
    if not re.search(r'if file_suffix\.parse::<i32>\(\)\.is_ok\(\) \{ ' + rec, flat):
        raise GenError("numeric-suffix branch is not `recurse on with_extension(\"\") with Some(fta)`")
    if not re.search(r'if !file_suffix\.is_empty\(\) \{ ' + rec, flat):
        raise GenError("unmatched-suffix branch is not `recurse on with_extension(\"\") with Some(fta)`")
    # tail: log_/_log/default all return Text{fta}
    tail = flat[flat.index('if file_name_s.starts_with('):]
    text_ret = (r'let ret = PathToFiletypeResult::Filetype\( FileType::Text \{ archival_type: fta, '
                r'encoding_type: FileTypeTextEncoding::Utf8Ascii,? \} \);')
    if not re.fullmatch(r'if file_name_s\.starts_with\(".*?"\) \{ ' + text_ret + r' return ret; \} '
                        r'if file_name_s\.ends_with\(".*?"\) \{ ' + text_ret + r' return ret; \} ' + text_ret + r' ret',
                        tail.strip()):
        raise GenError("tail of pathbuf_to_filetype_impl (log_/_log/default) is not `return Text{fta}` three times")
    m1 = re.search(r'if\s+file_name_s\.starts_with\((".*?")\)', body)
    m2 = re.search(r'if\s+file_name_s\.ends_with\((".*?")\)', body)
    if not m1 or not m2:
        raise GenError("log_/_log rules not found")
    pre, suf = str_lit(m1.group(1)), str_lit(m2.group(1))
    # numeric-suffix rule present?
    numeric = bool(re.search(r'file_suffix\.parse::<i32>\(\)\.is_ok\(\)', body))
    # recursion on non-empty unmatched suffix present?
    strip_unknown = bool(re.search(r'if\s+!file_suffix\.is_empty\(\)', body))

    _, pp, _ = find_fn(src, 'process_path')
    skip_hidden_overridden = bool(re.search(r'\.skip_hidden\(\s*false\s*\)', pp))
    sort_true = bool(re.search(r'\.sort\(\s*true\s*\)', pp))
    follow = bool(re.search(r'\.follow_links\(\s*true\s*\)', pp))

    L = []
    L.append('-- GENERATED by /verif/gen/s4gen.py from src/readers/filepreprocessor.rs — do not edit')
    L.append('import S4V.Model.PathTypes')
    L.append('namespace S4V.Gen.PathTables')
    L.append('open S4V.Model.PathTypes')
    L.append('')
    L.append(f'def junkChars : List UInt8 := {junk}')
    L.append(f'def junkCharsLead : List UInt8 := {junk_lead}')
    L.append('')
    L.append('def suffixTable : List (List UInt8 × Act) := [')
    L.append(',\n'.join(f'  /- {k} -/ ({lean_bytes(k)}, {a})' for k, a in suffix))
    L.append(']')
    L.append('')
    L.append('def nameTable : List (List UInt8 × Act) := [')
    L.append(',\n'.join(f'  /- {k} -/ ({lean_bytes(k)}, {a})' for k, a in names))
    L.append(']')
    L.append('')
    L.append(f'def textPrefix : List UInt8 := {lean_bytes(pre)}')
    L.append(f'def textSuffix : List UInt8 := {lean_bytes(suf)}')
    L.append(f'def numericRule : Bool := {"true" if numeric else "false"}')
    L.append(f'def stripUnknownRule : Bool := {"true" if strip_unknown else "false"}')
    L.append(f'/-- `process_path` calls `.skip_hidden(false)` on the jwalk walker -/')
    L.append(f'def walkIncludesHidden : Bool := {"true" if skip_hidden_overridden else "false"}')
    L.append(f'def walkSorted : Bool := {"true" if sort_true else "false"}')
    L.append(f'def walkFollowsLinks : Bool := {"true" if follow else "false"}')
    L.append('')
    L.append('end S4V.Gen.PathTables')
    return '\n'.join(L) + '\n', {'suffix_rows': len(suffix), 'name_rows': len(names)}
