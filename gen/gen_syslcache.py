"""Generate S4V/Gen/SyslCache.lean: what `SyslineReader` (src/readers/syslinereader.rs)
keeps between calls and which of it each invalidation touches — the facts the
cached model `S4V.Model.SyslCached` is parameterised by.

* capacity of `find_sysline_lru_cache`, default enable state;
* `check_store`: order of the lookups (LRU, then `syslines_by_range`, then `syslines`), the
  by-range hit reads `self.syslines[fo]` (a panicking index) or a checked `.get`;
* `drop_sysline`: removes from `syslines`, pops the LRU at the message's begin offset, and
  whether it also removes the range from `syslines_by_range`;
* `remove_sysline` / `clear_syslines`: clear the LRU and remove from both maps;
* `insert_sysline`: inserts in both maps.
A source that leaves these shapes raises GenError (the generated file then cannot compile)."""
import os
import re
from rs import GenError, strip_comments, find_fn, int_lit
from gen_path import strip_trace


def flat_fn(src, name):
    try:
        _, body, _ = find_fn(src, name)
    except Exception as e:  # noqa: BLE001
        raise GenError(f"syslinereader.rs: fn {name} not found ({e})")
    return re.sub(r'\s+', ' ', strip_trace(body))


def nospace(s):
    return re.sub(r'\s+', '', s)


def generate(repo):
    sr = strip_comments(open(os.path.join(repo, 'src/readers/syslinereader.rs')).read())
    m = re.search(r'\bconst\s+FIND_SYSLINE_LRU_CACHE_SZ\s*:\s*usize\s*=\s*([^;]+);', sr)
    if not m:
        raise GenError("syslinereader.rs: const FIND_SYSLINE_LRU_CACHE_SZ not found")
    cap = int_lit(m.group(1).strip())
    if cap < 1:
        raise GenError("FIND_SYSLINE_LRU_CACHE_SZ < 1 (NonZeroUsize::new(..).unwrap() would panic)")
    m = re.search(r'\bconst\s+CACHE_ENABLE_DEFAULT\s*:\s*bool\s*=\s*(true|false)\s*;', sr)
    if not m:
        raise GenError("syslinereader.rs: const CACHE_ENABLE_DEFAULT not a bool literal")
    enable_default = m.group(1)
    new = nospace(flat_fn(sr, 'new'))
    if 'find_sysline_lru_cache_enabled:SyslineReader::CACHE_ENABLE_DEFAULT' not in new or \
       'SyslinesLRUCache::new(std::num::NonZeroUsize::new(SyslineReader::FIND_SYSLINE_LRU_CACHE_SZ).unwrap(),)' not in new:
        raise GenError("SyslineReader::new: LRU not built from FIND_SYSLINE_LRU_CACHE_SZ / CACHE_ENABLE_DEFAULT")

    # check_store: order of lookups and the by-range hit
    cs = nospace(flat_fn(sr, 'check_store'))
    i_lru = cs.find('.find_sysline_lru_cache.get(&fileoffset)')
    i_rng = cs.find('.syslines_by_range.get_key_value(&fileoffset)')
    i_sl = cs.find('.syslines.contains_key(&fileoffset)')
    if min(i_lru, i_rng, i_sl) < 0 or not (i_lru < i_rng < i_sl):
        raise GenError("check_store: lookups are not (LRU get, syslines_by_range.get_key_value, syslines.contains_key) in this order")
    if not cs.startswith('ifself.find_sysline_lru_cache_enabled{'):
        raise GenError("check_store: the LRU lookup is not guarded by find_sysline_lru_cache_enabled first")
    seg = cs[i_rng:i_sl]
    if 'letsyslinep:SyslineP=self.syslines[fo].clone();' in seg:
        indexes = True
    elif re.search(r'self\.syslines\.get\(fo\)', seg):
        indexes = False
    else:
        raise GenError("check_store: by-range hit neither indexes `self.syslines[fo]` nor uses `.get(fo)`")
    # puts of the two store-hit branches: by-range hit puts unconditionally (twice: last / not last)
    if seg.count('self.find_sysline_lru_cache.put(fileoffset,ResultS3SyslineFind::Found((fo_next,syslinep.clone())));') != 2 \
       or 'ifself.find_sysline_lru_cache_enabled' in seg:
        raise GenError("check_store: by-range hit no longer puts the answer in the LRU unconditionally")
    seg2 = cs[i_sl:]
    if seg2.count('self.find_sysline_lru_cache.put(fileoffset,ResultS3SyslineFind::Found((fo_next,syslinep.clone())));') != 2 \
       or seg2.count('ifself.find_sysline_lru_cache_enabled{') != 1 \
       or 'ifself.is_sysline_last(&syslinep){' not in seg2:
        raise GenError("check_store: syslines hit left the shape (put if last; else put if enabled)")

    # drop_sysline
    ds = nospace(flat_fn(sr, 'drop_sysline'))
    if 'matchself.syslines.remove(fileoffset)' not in ds:
        raise GenError("drop_sysline: does not remove from self.syslines")
    if 'self.find_sysline_lru_cache.pop(&(*syslinep).fileoffset_begin());' not in ds:
        raise GenError("drop_sysline: does not pop the LRU at the message's begin offset")
    if 'find_sysline_lru_cache.clear()' in ds or 'LRU_cache_disable' in ds:
        raise GenError("drop_sysline: clears the LRU (model pops one key)")
    drop_by_range = 'syslines_by_range' in ds
    if drop_by_range and 'self.syslines_by_range.remove(' not in ds:
        raise GenError("drop_sysline: mentions syslines_by_range but not as `.remove(range)`")
    dd = nospace(flat_fn(sr, 'drop_data'))
    if '.filter(|(_,s)|(*s).blockoffset_last()<=blockoffset)' not in dd or 'self.drop_sysline(fo)' not in dd:
        raise GenError("drop_data: does not drop exactly the syslines with blockoffset_last() <= blockoffset")

    # remove_sysline / clear_syslines / insert_sysline
    rm = nospace(flat_fn(sr, 'remove_sysline'))
    if not ('letcache_enable=self.LRU_cache_disable();' in rm and '.syslines.remove(&fileoffset);' in rm
            and 'self.syslines_by_range.remove(range);' in rm and 'ifcache_enable{self.LRU_cache_enable();}' in rm
            and 'start:fo_beg,end:fo_end1,' in rm):
        raise GenError("remove_sysline: left the shape (LRU disable; syslines.remove; syslines_by_range.remove(beg..end+1); LRU enable)")
    cl = nospace(flat_fn(sr, 'clear_syslines'))
    if not ('letcache_enable=self.LRU_cache_disable();' in cl and 'self.syslines.clear();' in cl
            and 'self.syslines_by_range=SyslinesRangeMap::new();' in cl and 'ifcache_enable{self.LRU_cache_enable();}' in cl):
        raise GenError("clear_syslines: left the shape (LRU disable; clear both maps; LRU enable)")
    dis = nospace(flat_fn(sr, 'LRU_cache_disable'))
    if 'self.find_sysline_lru_cache_enabled=false;self.find_sysline_lru_cache.clear();' not in dis:
        raise GenError("LRU_cache_disable: does not (disable, clear)")
    ins = nospace(flat_fn(sr, 'insert_sysline'))
    if not ('self.syslines.insert(fo_beg,syslinep.clone());' in ins
            and 'self.syslines_by_range.insert(fo_beg..fo_end1,fo_beg);' in ins):
        raise GenError("insert_sysline: does not insert (fo_beg -> sysline) and (fo_beg..fo_end+1 -> fo_beg)")

    def b(x):
        return 'true' if x else 'false'
    L = ['-- GENERATED by /verif/gen/s4gen.py — do not edit',
         'namespace S4V.Gen.SyslCache', '',
         '/-- `SyslineReader::FIND_SYSLINE_LRU_CACHE_SZ` -/',
         f'def FIND_SYSLINE_LRU_CACHE_SZ : Nat := {cap}',
         '/-- `SyslineReader::CACHE_ENABLE_DEFAULT` -/',
         f'def CACHE_ENABLE_DEFAULT : Bool := {enable_default}',
         '/-- `check_store`: a `syslines_by_range` hit reads `self.syslines[fo]` (panics when the key is gone) -/',
         f'def BY_RANGE_HIT_INDEXES_SYSLINES : Bool := {b(indexes)}',
         '/-- `drop_sysline` also removes the message\'s range from `syslines_by_range` -/',
         f'def DROP_REMOVES_BY_RANGE : Bool := {b(drop_by_range)}',
         '', 'end S4V.Gen.SyslCache']
    return '\n'.join(L) + '\n', {'constants': 4}
