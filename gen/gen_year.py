"""Generate S4V/Gen/Year.lean: the control skeleton of `SyslogProcessor::process_missing_year`
(src/readers/syslogprocessor.rs) and of its only caller `process_stage2_find_dt`, as data the
hand model `S4V.Model.Year` consumes.

The function body (comments, trace macros and `debug_assert!`s removed) is split into top-level
statements; EVERY statement of the prologue, of the loop body and of the jump action must be one
of the literal shapes below, otherwise GenError. What is emitted:

* the prologue facts (year taken from the mtime in `self.tz_offset`, `clear_syslines`, walk starts
  at `fileoffset_last()` with no previous message);
* `LOOP_STEPS`: the statement kinds of the loop body in source order;
* `DECISIONS`: the exits / the jump test between `fo_prev = begin` and `fo_prev -= charsz_fo`, in
  source order (so moving the start-of-file exit in front of the jump test regenerates a different
  list), with the comparison operators of the jump test, the year step, and the
  `Result_Filter_DateTime1` variants on which the `--dt-after` match breaks;
* where it is called from (stage 2, after block-zero analysis, only when the pattern has no year).
"""
import os
import re
from rs import GenError, strip_comments, find_fn, match_close, match_arms
from gen_path import strip_trace


def need(cond, msg):
    if not cond:
        raise GenError(msg)


def flat(s):
    s = re.sub(r'\s+', ' ', strip_trace(s)).strip()
    # method chains broken over lines: `self .syslinereader .clear_syslines()`
    s = re.sub(r' \.(?=\w)', '.', s)
    return s


def split_stmts(text, where):
    """top-level statements of a block body (flattened, comment-free). A statement that starts with
    `if` / `match` / `loop` / `while` / `for` ends with its (last) block; any other ends at the
    top-level `;`. A trailing expression without `;` is returned as is."""
    out = []
    i, n = 0, len(text)
    while True:
        while i < n and text[i].isspace():
            i += 1
        if i >= n:
            break
        m = re.match(r'(if|match|loop|while|for)\b', text[i:])
        if m:
            j = i
            while True:
                b = text.find('{', j)
                need(b >= 0, f'{where}: block statement without a body: {text[i:i + 60]!r}')
                # the head of the statement must not contain a `;`
                need(';' not in text[j:b], f'{where}: unexpected `;` in the head of {text[i:i + 60]!r}')
                e = match_close(text, b)
                j = e + 1
                mm = re.match(r'\s*else\b', text[j:])
                if m.group(1) == 'if' and mm:
                    j += mm.end()
                    continue
                break
            out.append(text[i:j].strip())
            i = j
            # a block statement may be followed by a stray `;`
            mm = re.match(r'\s*;', text[i:])
            if mm:
                i += mm.end()
            continue
        depth = 0
        j = i
        while j < n:
            c = text[j]
            if c == '"':
                k = j + 1
                while k < n and text[k] != '"':
                    if text[k] == '\\':
                        k += 1
                    k += 1
                j = k + 1
                continue
            if c in '([{':
                depth += 1
            elif c in ')]}':
                depth -= 1
                need(depth >= 0, f'{where}: unbalanced bracket near {text[i:i + 60]!r}')
            elif c == ';' and depth == 0:
                break
            j += 1
        if j >= n:
            out.append(text[i:].strip())
            break
        out.append(text[i:j + 1].strip())
        i = j + 1
    return out


def block_of(stmt, head_pat, where):
    """`stmt` = head + `{ … }` exactly; returns the inner text"""
    m = re.match(head_pat + r' \{', stmt)
    need(m is not None, f'{where}: statement left the expected shape: {stmt[:120]!r}')
    b = m.end() - 1
    e = match_close(stmt, b)
    need(stmt[e + 1:].strip() in ('', ';'), f'{where}: unexpected text after the block: {stmt[e + 1:][:80]!r}')
    return stmt[b + 1:e].strip()


CMP = {'>': True, '>=': False}

# ---- literal shapes of the loop body (after `flat`)
S_SAVE = 'let fo_prev_prev: FileOffset = fo_prev;'
S_ADVANCE = 'fo_prev = (*syslinep).fileoffset_begin();'
S_START_EXIT = 'if fo_prev < charsz_fo { break; }'
S_STEP_BACK = 'fo_prev -= charsz_fo;'
S_GUARD = 'if fo_prev >= fo_prev_prev { break; }'
S_SET_PREV = 'syslinep_prev_opt = Some(syslinep.clone());'
S_EQUAL_AFTER = ('if filter_dt_after_opt.as_ref() == Some(syslinep.dt()) { break; }',
                 'if Some(syslinep.dt()) == filter_dt_after_opt.as_ref() { break; }',
                 'if filter_dt_after_opt.as_ref() == Some((*syslinep).dt()) { break; }')

W = 'syslogprocessor.rs::process_missing_year'


def classify_find(stmt):
    inner = block_of(stmt, r'let syslinep: SyslineP = match self\.syslinereader\.find_sysline_year\(fo_prev, &year_opt\)', W + ': find')
    arms = [(re.sub(r'\s+', ' ', p).strip(), re.sub(r'\s+', ' ', v).strip()) for p, v in match_arms(inner)]
    want = [('ResultS3SyslineFind::Found((_fo, syslinep))', 'syslinep'),
            ('ResultS3SyslineFind::Done', 'break;'),
            ('ResultS3SyslineFind::Err(err)', 'self.set_error(&err); return FileProcessingResultBlockZero::FileErrIoPath(err);')]
    need(sorted(arms) == sorted(want), f'{W}: arms of the find_sysline_year match left the expected shape: {arms!r}')


def classify_jump(stmt):
    """-> (later_strict, diff_strict, year_step)"""
    inner = block_of(stmt, r'match syslinep_prev_opt', W + ': jump test')
    arms = [(re.sub(r'\s+', ' ', p).strip(), re.sub(r'\s+', ' ', v).strip()) for p, v in match_arms(inner)]
    need(len(arms) == 2 and sorted(p for p, _ in arms) == ['None', 'Some(syslinep_prev)'],
         f'{W}: `match syslinep_prev_opt` arms are not Some(syslinep_prev) / None: {[p for p, _ in arms]!r}')
    d = dict(arms)
    need(d['None'] == '', f'{W}: the `None` arm of `match syslinep_prev_opt` is not empty: {d["None"]!r}')
    body = d['Some(syslinep_prev)']
    st = split_stmts(body, W + ': jump test')
    need(len(st) == 1, f'{W}: the `Some(syslinep_prev)` arm is not a single `if`: {body[:160]!r}')
    m = re.match(r'if \(\*syslinep\)\.dt\(\) (>=|>|<=|<|==|!=) \(\*syslinep_prev\)\.dt\(\)', st[0])
    need(m is not None and m.group(1) in CMP, f'{W}: outer comparison of the jump test left the expected shape: {st[0][:120]!r}')
    later_strict = CMP[m.group(1)]
    in1 = block_of(st[0], r'if \(\*syslinep\)\.dt\(\) (?:>=|>) \(\*syslinep_prev\)\.dt\(\)', W + ': jump test')
    st1 = split_stmts(in1, W + ': jump test')
    need(len(st1) == 2 and st1[0] == 'let diff: Duration = *(*syslinep).dt() - *(*syslinep_prev).dt();',
         f'{W}: `diff` is not `dt_cur - dt_prev` followed by one `if`: {in1[:200]!r}')
    m = re.match(r'if diff (>=|>|<=|<|==|!=) \*BACKWARDS_TIME_JUMP_MEANS_NEW_YEAR', st1[1])
    need(m is not None and m.group(1) in CMP, f'{W}: threshold comparison of the jump test left the expected shape: {st1[1][:120]!r}')
    diff_strict = CMP[m.group(1)]
    act = split_stmts(block_of(st1[1], r'if diff (?:>=|>) \*BACKWARDS_TIME_JUMP_MEANS_NEW_YEAR', W + ': jump action'), W + ': jump action')
    need(len(act) == 5, f'{W}: the jump action is not 5 statements: {act!r}')
    m = re.fullmatch(r'year_opt = Some\(year_opt\.unwrap\(\) - (\d+)\);', act[0])
    need(m is not None, f'{W}: jump action: year update left the expected shape: {act[0]!r}')
    step = -int(m.group(1))
    need(act[1] == 'self.syslinereader.remove_sysline(fo_prev);', f'{W}: jump action: expected remove_sysline(fo_prev), found {act[1]!r}')
    need(act[2] == 'fo_prev = fo_prev_prev;', f'{W}: jump action: expected `fo_prev = fo_prev_prev;` (retry the same offset), found {act[2]!r}')
    need(act[3] == 'syslinep_prev_opt = Some(syslinep_prev.clone());', f'{W}: jump action: expected the previous message to be kept, found {act[3]!r}')
    need(act[4] == 'continue;', f'{W}: jump action does not end with `continue;`: {act[4]!r}')
    return later_strict, diff_strict, step


def classify_after(stmt, variants):
    """-> (breaks_on, continues_on) in enum order"""
    inner = block_of(stmt, r'match dt_after_or_before\(syslinep\.dt\(\), filter_dt_after_opt\)', W + ': --dt-after test')
    seen = {}
    for p, v in match_arms(inner):
        v = re.sub(r'\s+', ' ', v).strip()
        need(v in ('break;', ''), f'{W}: --dt-after test: arm body is neither `break;` nor empty: {v!r}')
        for alt in p.split('|'):
            mm = re.fullmatch(r'\s*Result_Filter_DateTime1::(\w+)\s*', alt)
            need(mm is not None, f'{W}: --dt-after test: arm pattern {alt.strip()!r} is not a Result_Filter_DateTime1 variant')
            need(mm.group(1) not in seen, f'{W}: --dt-after test: variant {mm.group(1)} matched twice')
            seen[mm.group(1)] = (v == 'break;')
    need(sorted(seen) == sorted(variants), f'{W}: --dt-after test covers {sorted(seen)}, the enum has {sorted(variants)}')
    return [v for v in variants if seen[v]], [v for v in variants if not seen[v]]


def enum_variants(src, name, where):
    m = re.search(r'\bpub enum ' + name + r'\s*\{', src)
    need(m is not None, f'{where}: enum {name} not found')
    e = match_close(src, m.end() - 1)
    out = []
    for v in src[m.end():e].split(','):
        v = re.sub(r'#\[[^\]]*\]', '', v).strip()
        if v:
            need(re.fullmatch(r'\w+', v) is not None, f'{where}: enum {name}: variant {v!r} left the expected shape')
            out.append(v)
    return out


def generate(repo):
    sp = strip_comments(open(os.path.join(repo, 'src/readers/syslogprocessor.rs')).read())
    dd = strip_comments(open(os.path.join(repo, 'src/data/datetime.rs')).read())
    variants = enum_variants(dd, 'Result_Filter_DateTime1', 'datetime.rs')
    need(sorted(variants) == ['OccursAtOrAfter', 'OccursBefore', 'Pass'],
         f'datetime.rs: Result_Filter_DateTime1 variants changed: {variants}')

    need(len(re.findall(r'\bfn process_missing_year\b', sp)) == 1, 'syslogprocessor.rs: expected exactly one fn process_missing_year')
    sig, body, _ = find_fn(sp, 'process_missing_year')
    need(flat(sig) == 'fn process_missing_year( &mut self, mtime: SystemTime, filter_dt_after_opt: &DateTimeLOpt, ) -> FileProcessingResultBlockZero',
         f'{W}: signature changed: {flat(sig)!r}')
    stmts = [s for s in split_stmts(flat(body), W) if not re.match(r'debug_assert(_\w+)?!\s*\(', s)]

    # ---- prologue / epilogue
    pro = ['let dt_mtime: DateTimeL = systemtime_to_datetime(&self.tz_offset, &mtime);',
           'let year: Year = dt_mtime.date_naive().year() as Year;',
           'self.missing_year = Some(year);',
           'let mut year_opt: Option<Year> = Some(year);',
           'let charsz_fo: FileOffset = self.charsz() as FileOffset;',
           'self.syslinereader.clear_syslines();',
           'let mut fo_prev: FileOffset = self.fileoffset_last();',
           'let mut syslinep_prev_opt: Option<SyslineP> = None;']
    need(len(stmts) == len(pro) + 2, f'{W}: expected {len(pro)} prologue statements, one loop and the FileOk result; found {len(stmts)} statements')
    for got, want in zip(stmts, pro):
        need(got == want, f'{W}: prologue statement {got!r} is not {want!r}')
    need(stmts[-1] == 'FileProcessingResultBlockZero::FileOk', f'{W}: result after the loop is not FileOk: {stmts[-1]!r}')
    loop = split_stmts(block_of(stmts[-2], r'loop', W + ': loop'), W + ': loop')

    # ---- loop body: classify every statement
    steps = []
    jump = after = None
    for s in loop:
        if s.startswith('let syslinep: SyslineP = match'):
            classify_find(s)
            steps.append('find')
        elif s == S_SAVE:
            steps.append('saveOffset')
        elif s == S_ADVANCE:
            steps.append('advance')
        elif s.startswith('match syslinep_prev_opt'):
            need(jump is None, f'{W}: two jump tests')
            jump = classify_jump(s)
            steps.append('jump')
        elif s == S_START_EXIT:
            steps.append('startExit')
        elif s.startswith('match dt_after_or_before('):
            need(after is None, f'{W}: two --dt-after tests')
            after = classify_after(s, variants)
            steps.append('afterFilter')
        elif s in S_EQUAL_AFTER:
            steps.append('equalAfter')
        elif s == S_STEP_BACK:
            steps.append('stepBack')
        elif s == S_GUARD:
            steps.append('guard')
        elif s == S_SET_PREV:
            steps.append('setPrev')
        else:
            raise GenError(f'{W}: loop statement outside the known shapes: {s[:200]!r}')
    head, tail = ['find', 'saveOffset', 'advance'], ['stepBack', 'guard', 'setPrev']
    need(steps[:3] == head, f'{W}: the loop does not start with find / fo_prev_prev = fo_prev / fo_prev = begin: {steps}')
    need(steps[-3:] == tail, f'{W}: the loop does not end with fo_prev -= charsz / no-progress guard / syslinep_prev_opt = current: {steps}')
    decisions = steps[3:-3]
    for k in ('jump', 'startExit', 'afterFilter'):
        need(decisions.count(k) == 1, f'{W}: expected exactly one `{k}` step between `fo_prev = begin` and `fo_prev -= charsz_fo`: {steps}')
    need(all(k in ('jump', 'startExit', 'afterFilter', 'equalAfter') for k in decisions),
         f'{W}: structural step among the exits: {steps}')
    later_strict, diff_strict, year_step = jump
    breaks_on, continues_on = after
    jump_before_start = decisions.index('jump') < decisions.index('startExit')

    # ---- the caller
    callers = [m.start() for m in re.finditer(r'\.process_missing_year\(', sp)]
    need(len(callers) == 1, f'syslogprocessor.rs: expected exactly one call of process_missing_year, found {len(callers)}')
    for rel in ('src/bin/s4.rs', 'src/readers/syslinereader.rs'):
        other = strip_comments(open(os.path.join(repo, rel)).read())
        need('process_missing_year(' not in other, f'{rel}: unexpected call of process_missing_year')
    _, st2, _ = find_fn(sp, 'process_stage2_find_dt')
    want2 = ('self.assert_stage(ProcessingStage::Stage1BlockzeroAnalysis); self.processingstage = ProcessingStage::Stage2FindDt; '
             'if !self.syslinereader.dt_pattern_has_year() { let mtime: SystemTime = self.mtime(); '
             'match self.process_missing_year(mtime, filter_dt_after_opt) { FileProcessingResultBlockZero::FileOk => {} '
             'result => { return result; } } } FileProcessingResultBlockZero::FileOk')
    need(flat(st2) == want2, 'syslogprocessor.rs::process_stage2_find_dt left the expected shape: ' + flat(st2)[:300])
    _, st1, _ = find_fn(sp, 'process_stage1_blockzero_analysis')
    need('self.processingstage = ProcessingStage::Stage1BlockzeroAnalysis;' in flat(st1) and 'self.blockzero_analysis()' in flat(st1),
         'syslogprocessor.rs::process_stage1_blockzero_analysis left the expected shape')

    def b(x):
        return 'true' if x else 'false'

    def strs(xs):
        return '[' + ', '.join('"%s"' % x for x in xs) + ']'

    L = ['-- GENERATED by /verif/gen/s4gen.py (gen_year.py) from src/readers/syslogprocessor.rs, src/data/datetime.rs — do not edit',
         'namespace S4V.Gen.Year',
         '',
         '/-! ### `SyslogProcessor::process_missing_year`: prologue -/',
         '',
         '/-- `year = systemtime_to_datetime(&self.tz_offset, &mtime).date_naive().year()`; `year_opt = Some(year)` -/',
         'def YEAR_FROM_MTIME_IN_TZ : Bool := true',
         '/-- `self.syslinereader.clear_syslines()` runs before the walk (nothing stored by block-zero analysis survives) -/',
         'def CLEARS_SYSLINES_BEFORE_WALK : Bool := true',
         '/-- `fo_prev = self.fileoffset_last()`, `syslinep_prev_opt = None` -/',
         'def WALK_STARTS_AT_LAST_OFFSET : Bool := true',
         '',
         '/-! ### the loop body -/',
         '',
         '/-- the exits and the jump test that stand between `fo_prev = (*syslinep).fileoffset_begin()` and',
         '`fo_prev -= charsz_fo`:',
         '* `jump`        `match syslinep_prev_opt { Some(prev) => if dt_cur ⋈ dt_prev { if dt_cur - dt_prev ⋈ THRESHOLD { … continue } } None => {} }`',
         '* `startExit`   `if fo_prev < charsz_fo { break; }` (the message found begins the file)',
         '* `afterFilter` `match dt_after_or_before(syslinep.dt(), filter_dt_after_opt) { … => { break; } … => {} }`',
         '* `equalAfter`  `if filter_dt_after_opt.as_ref() == Some(syslinep.dt()) { break; }` -/',
         'inductive Decision where',
         '  | jump | startExit | afterFilter | equalAfter',
         '  deriving DecidableEq, Repr, Inhabited',
         '',
         '/-- statement kinds of the loop body in source order. `find` = `match find_sysline_year(fo_prev, &year_opt)`',
         'with `Found((_, s)) => s`, `Done => break`, `Err(e) => return FileErrIoPath(e)`; `saveOffset` =',
         '`let fo_prev_prev = fo_prev`; `advance` = `fo_prev = (*syslinep).fileoffset_begin()`; `stepBack` =',
         '`fo_prev -= charsz_fo`; `guard` = `if fo_prev >= fo_prev_prev { break; }`; `setPrev` =',
         '`syslinep_prev_opt = Some(syslinep.clone())` -/',
         f'def LOOP_STEPS : List String := {strs(steps)}',
         '/-- the decision steps in source order -/',
         'def DECISIONS : List Decision := [' + ', '.join('.' + d for d in decisions) + ']',
         '/-- derived from `DECISIONS`: the jump test stands before the start-of-file exit -/',
         f'def JUMP_TEST_BEFORE_START_EXIT : Bool := {b(jump_before_start)}',
         '/-- `find_sysline_year` returning `Done` ends the walk (`break`), `Err` returns `FileErrIoPath` -/',
         'def FIND_DONE_BREAKS : Bool := true',
         '/-- outer comparison of the jump test is `dt_cur > dt_prev` (`false`: `>=`) -/',
         f'def JUMP_LATER_STRICT : Bool := {b(later_strict)}',
         '/-- inner comparison is `dt_cur - dt_prev > BACKWARDS_TIME_JUMP_MEANS_NEW_YEAR` (`false`: `>=`) -/',
         f'def JUMP_DIFF_STRICT : Bool := {b(diff_strict)}',
         '/-- on a jump: `year_opt = Some(year_opt.unwrap() + JUMP_YEAR_STEP)` -/',
         f'def JUMP_YEAR_STEP : Int := {year_step}',
         '/-- on a jump: `remove_sysline(fo_prev)` (the message just stored), then `fo_prev = fo_prev_prev` (the same',
         'offset is searched again), `syslinep_prev_opt` keeps the previous message, `continue` -/',
         'def JUMP_REMOVES_SYSLINE : Bool := true',
         'def RETRY_SAME_OFFSET_AFTER_JUMP : Bool := true',
         'def JUMP_KEEPS_PREV : Bool := true',
         '/-- `Result_Filter_DateTime1` variants of `dt_after_or_before(syslinep.dt(), filter_dt_after_opt)` whose arm is `break` -/',
         f'def AFTER_FILTER_BREAKS_ON : List String := {strs(breaks_on)}',
         '/-- … and whose arm is empty -/',
         f'def AFTER_FILTER_CONTINUES_ON : List String := {strs(continues_on)}',
         '',
         '/-! ### the caller -/',
         '',
         '/-- the only call is in `process_stage2_find_dt` (asserts stage `Stage1BlockzeroAnalysis`, i.e. runs after',
         'block-zero analysis), guarded by `!self.syslinereader.dt_pattern_has_year()`, with `self.mtime()` and the',
         'caller\'s `filter_dt_after_opt`; a result other than `FileOk` is returned as is -/',
         'def CALLED_FROM : String := "process_stage2_find_dt"',
         'def CALLED_ONLY_WHEN_PATTERN_HAS_NO_YEAR : Bool := true',
         'def CALLED_AFTER_BLOCKZERO_ANALYSIS : Bool := true',
         '',
         'end S4V.Gen.Year']
    return '\n'.join(L) + '\n', {'facts': 17, 'decisions': decisions}
