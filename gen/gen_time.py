"""Generate S4V/Gen/TimeTables.lean from src/data/datetime.rs (Tie A for C04):

* the `DTFS_*` enums and every `DTFSS_*` set (enum fields + its `DTP_*` strftime pattern),
* `MAP_TZZ_TO_TZz` (all entries, source order), the month-name table used by
  `month_bB_to_month_m_bytes`, `YEAR_FALLBACKDUMMY`, `MINUS_SIGN`, `BUFLEN`,
* per `DTPD!` row of `DATETIME_PARSE_DATAS`: index, DTFSS name, range_regex, first/last
  capture-group names, and which named groups the (evaluated `concatcp!`) regex contains.

Side outputs (not Lean): `harness/src/time_rows.txt` — a render recipe per row for the
correspondence harness (regex parts -> field slots / sample literals), and the check of
`gen/ref/tz.json` (reference snapshot of the zone table; `--write-ref` recreates it).

Every item that leaves the shape parsed here raises GenError naming it.
"""
import json
import os
import re
import sys

from rs import GenError, strip_comments, match_close

HERE = os.path.dirname(os.path.abspath(__file__))

ENUMS = {
    'DTFS_Year': ['Y', 'y', '_fill', '_none'],
    'DTFS_Month': ['m', 'ms', 'b', 'B', '_none'],
    'DTFS_Day': ['_e_or_d', '_none'],
    'DTFS_Hour': ['H', 'k', 'I', 'l', '_none'],
    'DTFS_Minute': ['M', '_none'],
    'DTFS_Second': ['S', '_fill', '_none'],
    'DTFS_Fractional': ['f', '_none'],
    'DTFS_Tz': ['z', 'zc', 'zp', 'Z', '_fill', '_none'],
    'DTFS_Epoch': ['s', '_none'],
}
FIELDS = [('year', 'DTFS_Year'), ('month', 'DTFS_Month'), ('day', 'DTFS_Day'), ('hour', 'DTFS_Hour'),
          ('minute', 'DTFS_Minute'), ('second', 'DTFS_Second'), ('fractional', 'DTFS_Fractional'),
          ('tz', 'DTFS_Tz'), ('epoch', 'DTFS_Epoch')]
CGNS = ['year', 'month', 'day', 'dayIgnore', 'hour', 'minute', 'second', 'fractional', 'tz', 'epoch']


def lean_variant(v):
    """Rust variant -> Lean constructor name"""
    return {'_fill': 'fill', '_none': 'none_', '_e_or_d': 'e_or_d'}.get(v, v)


# ------------------------------------------------------------------ Rust string literals

def unescape(body, where):
    out = []
    i, n = 0, len(body)
    while i < n:
        c = body[i]
        if c != '\\':
            out.append(c)
            i += 1
            continue
        i += 1
        if i >= n:
            raise GenError(f"{where}: dangling backslash")
        e = body[i]
        if e == '\n':
            i += 1
            while i < n and body[i] in ' \t\r\n':
                i += 1
            continue
        simple = {'n': '\n', 't': '\t', 'r': '\r', '0': '\0', '\\': '\\', '"': '"', "'": "'"}
        if e in simple:
            out.append(simple[e])
            i += 1
        elif e == 'x':
            out.append(chr(int(body[i + 1:i + 3], 16)))
            i += 3
        elif e == 'u':
            j = body.index('}', i)
            out.append(chr(int(body[i + 2:j], 16)))
            i = j + 1
        else:
            raise GenError(f"{where}: unsupported escape \\{e}")
    return ''.join(out)


TOK = re.compile(r'\s*(?:(r(#*)"(?:.|\n)*?"\2)|("(?:[^"\\]|\\(?:.|\n))*")|(b"(?:[^"\\]|\\.)*")|([A-Za-z_]\w*!?)|([(),]))', re.S)


def tokens(s, where):
    pos = 0
    out = []
    s = s.strip()
    while pos < len(s):
        m = TOK.match(s, pos)
        if not m:
            raise GenError(f"{where}: cannot tokenise at {s[pos:pos + 40]!r}")
        pos = m.end()
        if m.group(1):
            raw = m.group(1)
            h = len(m.group(2))
            out.append(('str', raw[2 + h:len(raw) - 1 - h]))
        elif m.group(3):
            out.append(('str', unescape(m.group(3)[1:-1], where)))
        elif m.group(4):
            out.append(('bstr', unescape(m.group(4)[2:-1], where)))
        elif m.group(5):
            out.append(('id', m.group(5)))
        else:
            out.append(('p', m.group(6)))
    return out


class Consts:
    """`const NAME: &T = <string literal | concatcp!(…)>;` evaluated on demand"""

    def __init__(self, src):
        self.src = src
        self.raw = {}
        for m in re.finditer(r'\b(?:pub(?:\([^)]*\))?\s+)?const\s+(\w+)\s*:\s*&\s*(?:\'\w+\s+)?[\w:\[\]; ]+?\s*=\s*', src):
            name = m.group(1)
            j = m.end()
            # expression runs to the `;` at depth 0 outside strings
            k = j
            depth = 0
            while k < len(src):
                c = src[k]
                if c == '"' or (c == 'r' and re.match(r'r#*"', src[k:k + 6])) or (c == 'b' and src[k + 1:k + 2] == '"'):
                    mm = TOK.match(src, k)
                    if not mm:
                        raise GenError(f"const {name}: bad literal")
                    k = mm.end()
                    continue
                if c in '([{':
                    depth += 1
                elif c in ')]}':
                    depth -= 1
                elif c == ';' and depth == 0:
                    break
                k += 1
            self.raw.setdefault(name, src[j:k])
        self.cache = {}

    def parts(self, expr, where):
        """expression -> list of ('id'|'str', value) top-level parts"""
        t = tokens(expr, where)
        if len(t) == 1 and t[0][0] in ('str', 'bstr', 'id'):
            return [t[0]]
        if t and t[0] == ('id', 'concatcp!') and t[1] == ('p', '(') and t[-1] == ('p', ')'):
            inner = t[2:-1]
            out = []
            expect_item = True
            for kind, v in inner:
                if expect_item:
                    if kind not in ('str', 'id'):
                        raise GenError(f"{where}: concatcp! argument {v!r} is neither a constant nor a string literal")
                    out.append((kind, v))
                    expect_item = False
                else:
                    if (kind, v) != ('p', ','):
                        raise GenError(f"{where}: concatcp! arguments not comma separated")
                    expect_item = True
            return out
        raise GenError(f"{where}: expression is not a string literal, a constant or concatcp!(…): {expr.strip()[:60]!r}")

    def value(self, name, stack=()):
        if name in self.cache:
            return self.cache[name]
        if name not in self.raw:
            raise GenError(f"constant {name} not found")
        if name in stack:
            raise GenError(f"constant {name} is recursive")
        v = ''.join(val if kind in ('str', 'bstr') else self.value(val, stack + (name,))
                    for kind, val in self.parts(self.raw[name], 'const ' + name))
        self.cache[name] = v
        return v


# ------------------------------------------------------------------ parsing datetime.rs

def parse_enums(src):
    for name, want in ENUMS.items():
        m = re.search(r'pub enum ' + name + r'\s*\{([^}]*)\}', src)
        if not m:
            raise GenError(f"datetime.rs: enum {name} not found")
        got = [v.strip() for v in m.group(1).split(',') if v.strip()]
        if got != want:
            raise GenError(f"datetime.rs: enum {name} variants {got} differ from the modelled {want}")


def parse_struct(src):
    m = re.search(r'pub struct DTFSSet<\'a>\s*\{([^}]*)\}', src)
    if not m:
        raise GenError("datetime.rs: struct DTFSSet not found")
    got = re.findall(r'pub\s+(\w+)\s*:\s*([^,]+),', m.group(1))
    want = [(f, t) for f, t in FIELDS] + [('pattern', "&'a DateTimePattern_str")]
    if [(f, t.strip()) for f, t in got] != want:
        raise GenError(f"datetime.rs: DTFSSet fields {got} differ from the modelled {want}")


def parse_dtfss(src, consts):
    sets = []
    for m in re.finditer(r'\bconst\s+(DTFSS_\w+)\s*:\s*DTFSSet\s*=\s*DTFSSet\s*\{([^}]*)\}\s*;', src):
        name, body = m.group(1), m.group(2)
        kv = re.findall(r'(\w+)\s*:\s*([\w:]+)\s*,', body)
        if [k for k, _ in kv] != [f for f, _ in FIELDS] + ['pattern']:
            raise GenError(f"{name}: fields {[k for k, _ in kv]} not the DTFSSet fields in order")
        vals = {}
        for (k, v), (f, ty) in zip(kv[:-1], FIELDS):
            mm = re.fullmatch(ty + r'::(\w+)', v)
            if not mm or mm.group(1) not in ENUMS[ty]:
                raise GenError(f"{name}.{k}: value {v} is not a {ty} variant")
            vals[f] = mm.group(1)
        pat = kv[-1][1]
        if not re.fullmatch(r'DTP_\w+', pat):
            raise GenError(f"{name}.pattern: {pat} is not a DTP_* constant")
        vals['pattern_name'] = pat
        vals['pattern'] = consts.value(pat)
        if not re.fullmatch(r'(%(Y|y|m|d|H|M|S|f|s|z|:z|#z)|[T.])+', vals['pattern']):
            raise GenError(f"{pat} = {vals['pattern']!r}: outside the modelled strftime subset (%Y %y %m %d %H %M %S %f %s %z %:z %#z, literals T and .)")
        sets.append((name, vals))
    if not sets:
        raise GenError("datetime.rs: no DTFSS_* constants found")
    # commented-out sets must not be picked up; duplicates are a compile error in Rust anyway
    names = [n for n, _ in sets]
    if len(set(names)) != len(names):
        raise GenError("datetime.rs: duplicate DTFSS_* constant")
    return sets


def parse_tz(src):
    m = re.search(r'pub static MAP_TZZ_TO_TZz\s*:\s*PhfMap<&\'static str, &\'static str>\s*=\s*phf_map!\s*\{', src)
    if not m:
        raise GenError("datetime.rs: MAP_TZZ_TO_TZz is not `pub static …: PhfMap<&'static str, &'static str> = phf_map! {`")
    i = m.end() - 1
    j = match_close(src, i)
    body = src[i + 1:j]
    entries = re.findall(r'"([^"\\]*)"\s*=>\s*"([^"\\]*)"\s*,', body)
    rest = re.sub(r'"([^"\\]*)"\s*=>\s*"([^"\\]*)"\s*,', '', body).strip()
    if rest:
        raise GenError(f"MAP_TZZ_TO_TZz: unparsed text {rest[:60]!r}")
    if not entries:
        raise GenError("MAP_TZZ_TO_TZz: no entries")
    keys = [k for k, _ in entries]
    if len(set(keys)) != len(keys):
        raise GenError("MAP_TZZ_TO_TZz: duplicate key")
    for k, v in entries:
        if not re.fullmatch(r'[A-Za-z]+', k):
            raise GenError(f"MAP_TZZ_TO_TZz: key {k!r} is not alphabetic")
    return entries


def parse_months(src, consts):
    m = re.search(r'fn month_bB_to_month_m_bytes\s*\(\s*data\s*:\s*&\[u8\]\s*,\s*buffer\s*:\s*&mut \[u8\]\s*,?\s*\)\s*\{', src)
    if not m:
        raise GenError("datetime.rs: fn month_bB_to_month_m_bytes(data: &[u8], buffer: &mut [u8]) not found")
    i = m.end() - 1
    body = src[i + 1:match_close(src, i)]
    mm = re.fullmatch(r'\s*match data \{(.*)\}\s*', body, re.S)
    if not mm:
        raise GenError("month_bB_to_month_m_bytes: body is not a single `match data {…}`")
    arms = mm.group(1)
    table = []
    pos = 0
    # a pattern is a `MONTH_*` constant or a byte-string literal `b"…"` (the repaired "May." arm is
    # written with literals); anything else (bindings, ranges, guards, slices …) is rejected below
    pat_re = r'(?:MONTH_\w+|b"(?:[^"\\]|\\.)*")'
    arm_re = re.compile(r'\s*((?:' + pat_re + r'\s*\|\s*)*' + pat_re + r')\s*=>\s*buffer\.copy_from_slice\((MONTH_\d\d_m)\)\s*,')
    one_re = re.compile(r'\s*(' + pat_re + r')\s*(\|)?')
    while True:
        a = arm_re.match(arms, pos)
        if not a:
            break
        pos = a.end()
        val = consts.value(a.group(2))
        if not re.fullmatch(r'(0[1-9]|1[0-2])', val):
            raise GenError(f"{a.group(2)} = {val!r} is not a two-digit month")
        # split the alternatives with the literal-aware pattern (a `|` inside b"…" is not a separator)
        alts = a.group(1)
        q = 0
        while q < len(alts):
            o = one_re.match(alts, q)
            if not o:
                raise GenError(f"month_bB_to_month_m_bytes: cannot split patterns {alts[q:q + 40]!r}")
            q = o.end()
            nm = o.group(1)
            if nm.startswith('b"'):
                lit = unescape(nm[2:-1], f"month_bB_to_month_m_bytes: literal {nm}")
                if not lit or any(ord(ch) >= 0x80 for ch in lit):
                    raise GenError(f"month_bB_to_month_m_bytes: literal {nm} is empty or not ASCII")
                table.append((lit, val, nm))
            else:
                table.append((consts.value(nm), val, nm))
    tail = arms[pos:].strip()
    if not re.fullmatch(r'data_\s*=>\s*\{\s*panic!\([^;]*\);\s*\}\s*,?', tail, re.S):
        raise GenError(f"month_bB_to_month_m_bytes: trailing arms not the modelled `data_ => panic!`: {tail[:80]!r}")
    if not table:
        raise GenError("month_bB_to_month_m_bytes: no arms")
    return table


def parse_rows(src, consts):
    m = re.search(r'pub const DATETIME_PARSE_DATAS\s*:\s*\[DateTimeParseInstr;\s*DATETIME_PARSE_DATAS_LEN\]\s*=\s*\[', src)
    if not m:
        raise GenError("datetime.rs: DATETIME_PARSE_DATAS array not found")
    i = m.end() - 1
    body = src[i + 1:match_close(src, i)]
    mlen = re.search(r'pub const DATETIME_PARSE_DATAS_LEN\s*:\s*usize\s*=\s*(\d+)\s*;', src)
    if not mlen:
        raise GenError("datetime.rs: DATETIME_PARSE_DATAS_LEN not found")
    rows = []
    pos = 0
    while True:
        mm = re.compile(r'\s*DTPD!\s*\(').match(body, pos)
        if not mm:
            break
        o = mm.end() - 1
        c = match_close(body, o)
        inner = body[o + 1:c]
        # first argument: up to the first top-level comma
        depth = 0
        k = 0
        while k < len(inner):
            ch = inner[k]
            if ch == '"' or (ch == 'r' and re.match(r'r#*"', inner[k:k + 6])):
                t = TOK.match(inner, k)
                k = t.end()
                continue
            if ch in '([{':
                depth += 1
            elif ch in ')]}':
                depth -= 1
            elif ch == ',' and depth == 0:
                break
            k += 1
        rx_expr = inner[:k]
        rest = inner[k + 1:]
        r2 = re.match(r'\s*(DTFSS_\w+)\s*,\s*(\d+)\s*,\s*(\d+)\s*,\s*(CGN_\w+)\s*,\s*(CGN_\w+)\s*,', rest)
        if not r2:
            raise GenError(f"DTPD! row {len(rows)}: arguments after the regex are not `DTFSS_x, start, end, CGN_first, CGN_last,`")
        where = f"DTPD! row {len(rows)}"
        parts = consts.parts(rx_expr, where)
        regex = ''.join(v if kd == 'str' else consts.value(v) for kd, v in parts)
        rows.append({'idx': len(rows), 'dtfss': r2.group(1), 'start': int(r2.group(2)), 'end': int(r2.group(3)),
                     'first': consts.value(r2.group(4)), 'last': consts.value(r2.group(5)), 'parts': parts, 'regex': regex})
        pos = c + 1
        mm2 = re.compile(r'\s*,').match(body, pos)
        if mm2:
            pos = mm2.end()
    if body[pos:].strip():
        raise GenError(f"DATETIME_PARSE_DATAS: unparsed text after row {len(rows)}: {body[pos:].strip()[:60]!r}")
    if len(rows) != int(mlen.group(1)):
        raise GenError(f"DATETIME_PARSE_DATAS: parsed {len(rows)} rows, DATETIME_PARSE_DATAS_LEN = {mlen.group(1)}")
    return rows


# ------------------------------------------------------------------ render recipes for the harness

# sample strings for the non-capturing regex parts, keyed by the part's regex TEXT (so a
# changed constant no longer matches and the row is reported unrenderable, not mis-rendered)
SAMPLES = {
    '^': [''], '': [''],
    r'[\[\(<{]': ['[', '(', '<', '{'], r'[\]\)>}]': [']', ')', '>', '}'],
    r'[ /\-]?': ['-', '/', ' ', ''], r'[ /\-\\]?': ['-', '/', ''], r'[ /\-]': ['-', '/', ' '],
    '[:]?': [':', ''], r'[:\-]?': [':', '-', ''], '[ T]?': ['T', ' ', ''], r'[ T\-]?': ['T', ' ', '-'],
    r'[ T\-:]?': ['T', ' ', ':'], r'[ T\-:_]?': ['T', ' ', '_'], r'[ T/\\\-:_]?': ['T', ' ', '/'],
    r'[\.,]': ['.', ','], r'[\.,]?': ['.', ','], '[,]?': [',', ''],
    '[[:blank:]]': [' ', '\t'], '[[:blank:]]?': [' ', ''], '([[:blank:]]|$)': [' '], r'[[:blank:]]{1,2}': [' ', '  '],
    r'([[:blank:]]{1,2})?': [' ', ''], '[[:blank:]]+': [' ', '  '], '[[:blank:]]*': [' ', ''], '[^[:blank:]]': ['x'],
    '.+': ['x y'], r'([[:^alpha:]]|$)': [' ', ']'], r'([[:^alpha:]]|^)': ['', ' '], r'([[:^alnum:]]|$)': [' ', ':'],
    r'(^|[[:^alnum:]])': ['', ' '], r'([^[[:alnum:]]\+\-]|$)': [' ', ':'], r'([[:^digit:]]|$)': [' ', 'x'], r'([[:^digit:]]|^)': ['', ' '],
    r'[[:digit:]]{1,3}': ['7', '123'], '(date|Date|DATE):': ['Date:', 'DATE:'],
    '(T|[[:blank:]]+)': ['T', ' '], ',': [','], '.': ['.'], ':': [':'], '>': ['>'], '[.,]': ['.', ','], '"': ['"'], '^<': ['<'],
    r'\]': [']'], r'^\[': ['['], r'msg=audit\(': ['msg=audit('], r':[[:digit:]]{1,5}\):': [':123):'], r'[,\.\| \t]': [',', ' '],
    r'[:\.]?': [':', '.'], r'[[:word:]]{1,20}': ['FOO'],
    '(START|END|Start|End|start|end)': ['START', 'end'],
    '"(TIMESTAMP|Timestamp|timestamp)"': ['"TIMESTAMP"', '"timestamp"'],
    '"(DATETIME|Datetime|datetime)"': ['"DATETIME"', '"datetime"'],
    '"(LOGTIME|LogTime|logTime|logtime)"': ['"LOGTIME"', '"logTime"'],
    '^(start|Start|START|end|End|END)[- ]?(date|Date|DATE)': ['Start-Date', 'END DATE'],
    '^((log|Log|LOG) (started|Started|STARTED|ended|Ended|ENDED))': ['Log started', 'LOG ENDED'],
    '(Started On|Started on|started on|STARTED|Started|started|Finished On|Finished on|finished on|FINISHED|Finished|finished)[:]?': ['Started on:', 'Finished'],
}
CGP_SLOTS = {'CGP_YEAR', 'CGP_YEARy', 'CGP_MONTHm', 'CGP_MONTHms', 'CGP_MONTHb', 'CGP_MONTHB', 'CGP_MONTHBb', 'CGP_DAYde', 'CGP_DAYa', 'CGP_DAYa3',
             'CGP_HOUR', 'CGP_HOURs', 'CGP_HOURh', 'CGP_MINUTE', 'CGP_SECOND', 'CGP_FRACTIONAL', 'CGP_FRACTIONAL3', 'CGP_FRACTIONAL6', 'CGP_FRACTIONAL9',
             'CGP_TZz', 'CGP_TZzc', 'CGP_TZzp', 'CGP_TZZ', 'CGP_TZZ_U', 'CGP_EPOCH'}


def recipe(row, consts):
    """list of segments: ('F', cgp-name) | ('L', [samples]); None when a part has no sample"""
    segs = []
    for kd, v in row['parts']:
        if kd == 'id' and v in CGP_SLOTS:
            segs.append(('F', v))
            continue
        text = v if kd == 'str' else consts.value(v)
        if '(?P<' in text:
            return None, f"part {v} has a capture group but is not a known CGP_* slot"
        if kd == 'id' and v == 'RP_LEVELS':
            segs.append(('L', ['INFO', 'warn']))
            continue
        if text not in SAMPLES:
            return None, f"no sample for part {text!r}"
        segs.append(('L', SAMPLES[text]))
    return segs, None


# ------------------------------------------------------------------ Lean output

def lbytes(s):
    return '[' + ', '.join(str(b) for b in s.encode('utf-8')) + ']'


def lstr(s):
    return '"' + s.replace('\\', '\\\\').replace('"', '\\"') + '"'


def generate(repo):
    path = os.path.join(repo, 'src/data/datetime.rs')
    src = strip_comments(open(path).read())
    consts = Consts(src)
    parse_enums(src)
    parse_struct(src)
    sets = parse_dtfss(src, consts)
    setnames = {n for n, _ in sets}
    tz = parse_tz(src)
    months = parse_months(src, consts)
    rows = parse_rows(src, consts)
    for r in rows:
        if r['dtfss'] not in setnames:
            raise GenError(f"DTPD! row {r['idx']}: unknown set {r['dtfss']}")
        if r['first'] not in CGNS or r['last'] not in CGNS:
            raise GenError(f"DTPD! row {r['idx']}: cgn_first/last {r['first']}/{r['last']} not a known capture group name")
        r['groups'] = re.findall(r'\(\?P<(\w+)>', r['regex'])
        for g in r['groups']:
            if g not in CGNS:
                raise GenError(f"DTPD! row {r['idx']}: regex has unknown capture group {g}")
    dummy = consts.value('YEAR_FALLBACKDUMMY')
    if not re.fullmatch(r'\d{4}', dummy):
        raise GenError(f"YEAR_FALLBACKDUMMY = {dummy!r} is not four digits")
    mm = re.search(r'const MINUS_SIGN\s*:\s*&\[u8\]\s*=\s*"([^"]*)"\.as_bytes\(\)\s*;', src)
    mh = re.search(r'const HYPHEN_MINUS\s*:\s*&\[u8\]\s*=\s*"([^"]*)"\.as_bytes\(\)\s*;', src)
    if not mm or not mh:
        raise GenError('datetime.rs: MINUS_SIGN / HYPHEN_MINUS are not `"…".as_bytes()`')
    minus, hyphen = mm.group(1), mh.group(1)
    mb = re.search(r'const BUFLEN\s*:\s*usize\s*=\s*(\d+)\s*;', src)
    if not mb:
        raise GenError("datetime.rs: BUFLEN not found in bytes_to_regex_to_datetime")
    buflen = int(mb.group(1))

    # reference snapshot of the zone table
    ref_path = os.path.join(HERE, 'ref', 'tz.json')
    cur = [[k, v] for k, v in tz]
    if os.environ.get('S4GEN_WRITE_REF') == '1' or not os.path.exists(ref_path):
        os.makedirs(os.path.dirname(ref_path), exist_ok=True)
        with open(ref_path, 'w') as f:
            json.dump(cur, f, indent=0)
    ref = json.load(open(ref_path))
    if ref != cur:
        a = dict(map(tuple, ref))
        b = dict(cur)
        diff = [k for k in list(a) + [k for k in b if k not in a] if a.get(k) != b.get(k)]
        if not diff:
            diff = ['<order>']
        raise GenError(f"MAP_TZZ_TO_TZz differs from the reference snapshot gen/ref/tz.json at {diff[:6]} "
                       "(an intentional table change needs the snapshot updated in the same review: S4GEN_WRITE_REF=1)")

    L = ['-- GENERATED by /verif/gen/s4gen.py (gen_time.py) from src/data/datetime.rs — do not edit',
         'namespace S4V.Gen.TimeTables', '']
    for name, vs in ENUMS.items():
        L.append(f'/-- `{name}` -/')
        L.append(f'inductive {name} where')
        for v in vs:
            L.append(f'  | {lean_variant(v)}')
        L.append('deriving DecidableEq, Repr, Inhabited')
        L.append('')
    L.append('/-- `DTFSSet`; `pattern` = the bytes of the `DTP_*` strftime string -/')
    L.append('structure DTFSSet where')
    for f, ty in FIELDS:
        L.append(f'  {f} : {ty}')
    L.append('  pattern : List UInt8')
    L.append('deriving DecidableEq, Repr, Inhabited')
    L.append('')
    pats = []
    for _, v in sets:
        if (v['pattern_name'], v['pattern']) not in pats:
            pats.append((v['pattern_name'], v['pattern']))
    for pn, pv in pats:
        L.append(f'/-- `{pn}` = {lstr(pv)} -/')
        L.append(f'def {pn} : List UInt8 := {lbytes(pv)}')
        L.append(f'def {pn}_str : String := {lstr(pv)}')
    L.append('')
    for name, v in sets:
        fields = ', '.join(f'{f} := .{lean_variant(v[f])}' for f, _ in FIELDS)
        L.append(f'def {name} : DTFSSet := {{ {fields}, pattern := {v["pattern_name"]} }}')
    L.append('')
    L.append('/-- every `DTFSS_*` constant, in source order -/')
    L.append('def allDTFSS : List (String × DTFSSet) := [')
    L.append(',\n'.join(f'  ({lstr(n)}, {n})' for n, _ in sets))
    L.append(']')
    L.append('')
    L.append('/-- the distinct strftime patterns in use -/')
    L.append('def allPatterns : List (List UInt8) := [' + ', '.join(pn for pn, _ in pats) + ']')
    L.append('')
    L.append('/-- `MAP_TZZ_TO_TZz`, all entries in source order -/')
    L.append('def tzTable : List (String × String) := [')
    L.append(',\n'.join(f'  ({lstr(k)}, {lstr(v)})' for k, v in tz))
    L.append(']')
    L.append('/-- the same table as UTF-8 bytes -/')
    L.append('def tzTableB : List (List UInt8 × List UInt8) := [')
    L.append(',\n'.join(f'  ({lbytes(k)}, {lbytes(v)})' for k, v in tz))
    L.append(']')
    L.append('')
    L.append('/-- arms of `month_bB_to_month_m_bytes` in match order: accepted name -> two-digit month -/')
    L.append('def monthNames : List (String × String) := [')
    L.append(',\n'.join(f'  ({lstr(k)}, {lstr(v)})' for k, v, _ in months))
    L.append(']')
    L.append('def monthNamesB : List (List UInt8 × List UInt8) := [')
    L.append(',\n'.join(f'  ({lbytes(k)}, {lbytes(v)})' for k, v, _ in months))
    L.append(']')
    L.append('')
    L.append(f'def YEAR_FALLBACKDUMMY : List UInt8 := {lbytes(dummy)}')
    L.append(f'/-- U+2212 MINUS SIGN as UTF-8 -/\ndef MINUS_SIGN : List UInt8 := {lbytes(minus)}')
    L.append(f'def HYPHEN_MINUS : List UInt8 := {lbytes(hyphen)}')
    L.append(f'/-- `BUFLEN` in `bytes_to_regex_to_datetime` -/\ndef BUFLEN : Nat := {buflen}')
    L.append('')
    L.append('/-- one `DTPD!` row of `DATETIME_PARSE_DATAS` -/')
    L.append('structure Row where')
    L.append('  idx : Nat\n  dtfsName : String\n  dtfs : DTFSSet\n  rangeStart : Nat\n  rangeEnd : Nat\n  cgnFirst : String\n  cgnLast : String')
    L.append('  /-- the regex text contains the named group … -/')
    L.append('  hasYearGroup : Bool\n  hasTzGroup : Bool\n  hasFractionalGroup : Bool')
    L.append('deriving Repr')
    L.append('')
    L.append('def rows : List Row := [')
    rl = []
    for r in rows:
        g = r['groups']
        rl.append(f'  ⟨{r["idx"]}, {lstr(r["dtfss"])}, {r["dtfss"]}, {r["start"]}, {r["end"]}, {lstr(r["first"])}, {lstr(r["last"])}, '
                  f'{"true" if "year" in g else "false"}, {"true" if "tz" in g else "false"}, {"true" if "fractional" in g else "false"}⟩')
    L.append(',\n'.join(rl))
    L.append(']')
    L.append('')
    L.append('end S4V.Gen.TimeTables')
    text = '\n'.join(L) + '\n'

    # render recipes for the harness
    rec_lines = []
    unrenderable = []
    for r in rows:
        segs, why = recipe(r, consts)
        if segs is None:
            unrenderable.append((r['idx'], why))
            rec_lines.append(f'{r["idx"]}\t{r["dtfss"]}\t{r["start"]}\t{r["end"]}\t-')
            continue
        enc = ' '.join(('F:' + v) if k == 'F' else ('L:' + ','.join((s.encode().hex() or '-') for s in v)) for k, v in segs)
        rec_lines.append(f'{r["idx"]}\t{r["dtfss"]}\t{r["start"]}\t{r["end"]}\t{enc}')
    hpath = os.path.join(HERE, '..', 'harness', 'src', 'time_rows.txt')
    rec_text = '# GENERATED by gen/gen_time.py — idx<TAB>DTFSS<TAB>range start<TAB>range end<TAB>segments (F:<CGP> | L:<hex samples>)\n' + '\n'.join(rec_lines) + '\n'
    old = open(hpath).read() if os.path.exists(hpath) else None
    if old != rec_text:
        with open(hpath, 'w') as f:
            f.write(rec_text)
    info = {'dtfss_sets': len(sets), 'patterns': len(pats), 'tz_entries': len(tz), 'month_names': len(months), 'rows': len(rows),
            'rows_unrenderable': len(unrenderable), 'unrenderable': [f'{i}: {w}' for i, w in unrenderable][:8]}
    return text, info


if __name__ == '__main__':
    t, i = generate(sys.argv[1] if len(sys.argv) > 1 else '/repo')
    print(json.dumps(i))
