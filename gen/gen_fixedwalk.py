"""Generate S4V/Gen/FixedWalk.lean: everything the FixedWalk slice unfolds, re-read from
src/readers/blockreader.rs (`read_data`, `read_data_to_buffer`), src/readers/fixedstructreader.rs
(`preprocess_timevalues`, `process_entry_at`, `drop_entry`, `remove_cache_entry`, `insert_cache_entry`,
`fileoffset_first`, `is_last`, `new`) and src/bin/s4.rs (`exec_fixedstructprocessor`).

Two kinds of output:
* index arithmetic TRANSLATED from the Rust expressions (clamp of the end offset, the `Done` test, block
  offset / index of the exclusive end, the length `n` and the source range of every `copy_from_slice`
  of the three `ReadDataParts` arms, offsets read by the preprocess loop, the floor of the offset in
  `process_entry_at`, the block range of `drop_entry` and of the `block_use_count` map, `is_last`);
* control-flow SKELETON facts with shape checks: the case order of `read_data`, the many-blocks loop, the
  order of the tests in the preprocess loop and which counter each `continue` bumps, the order of
  "take next / match this" in the map scan, key removal, cache removal, the three `Err` / `Done` exits,
  the worker loop's arms.
A source that leaves these shapes raises GenError (the generated file then cannot compile)."""
import os
import re
from rs import GenError, strip_comments, find_fn, match_close
from gen_path import strip_trace


def flat(s):
    return re.sub(r'\s+', ' ', s).strip()


def nospace(s):
    return re.sub(r'\s+', '', s)


def strip_asserts(block):
    """remove debug_assert*!(..); calls (compiled out of release builds)"""
    out = []
    i = 0
    pat = re.compile(r'\bdebug_assert\w*!\s*\(')
    while True:
        m = pat.search(block, i)
        if not m:
            out.append(block[i:])
            break
        out.append(block[i:m.start()])
        p = block.find('(', m.start())
        e = match_close(block, p)
        i = e + 1
        while i < len(block) and block[i] in ' \t\n':
            i += 1
        if i < len(block) and block[i] == ';':
            i += 1
    return ''.join(out)


def body_of(src, name, what):
    try:
        _, body, _ = find_fn(src, name)
    except Exception as e:  # noqa: BLE001
        raise GenError(f"{what}: fn {name} not found ({e})")
    return strip_asserts(strip_trace(body))


# --- tiny expression translator: identifiers, integer literals, + - , X.len(), (*X).len(), `as T` dropped
def expr(e, env, where):
    s = e.strip()
    s = re.sub(r'\s+as\s+\w+', '', s)
    s = re.sub(r'\(\*(\w+)\)\.len\(\)', r'LEN', s)
    s = re.sub(r'\w+\[\s*(?:0|len_\s*-\s*1)\s*\]\.len\(\)', r'LEN', s)
    s = re.sub(r'\b\w+\.len\(\)', r'LEN', s)
    toks = re.findall(r'\w+|[-+()]', s)
    if ''.join(toks) != nospace(s):
        raise GenError(f"{where}: expression {e!r} outside the subset")
    out = []
    for t in toks:
        if t in '+-()':
            out.append(t)
        elif t.isdigit():
            out.append(t)
        elif t == 'LEN':
            out.append('len')
        elif t in env:
            out.append(env[t])
        else:
            raise GenError(f"{where}: unknown identifier {t!r} in {e!r}")
    return ' '.join(out)


COPY = re.compile(
    r'let n = (?P<n>[^;]+); '
    r'read_data_to_buffer_len_check!\(buffer\.len\(\), at \+ n, self\.path\); '
    r'buffer\[(?P<dst>[^\]]*)\]\.copy_from_slice\(&(?P<src>[^;]*?)\.as_slice\(\)\[(?P<rng>[^\]]*)\]\); '
    r'at \+= n;')


def copy_step(text, where):
    """one `let n = ..; len_check; buffer[..].copy_from_slice(&blk[..]); at += n;` -> (n, dstFromAt, srcBeg, srcEnd)"""
    m = COPY.search(text)
    if not m:
        raise GenError(f"{where}: not `let n = E; len_check(at + n); buffer[D].copy_from_slice(&B.as_slice()[R]); at += n;`")
    env = {'bi1': 'bi1', 'bi2': 'bi2'}
    n = expr(m.group('n'), env, where)
    dst = nospace(m.group('dst'))
    if dst == '..at+n':
        dst_from_at = False
    elif dst == 'at..at+n':
        dst_from_at = True
    else:
        raise GenError(f"{where}: destination range {dst!r} is neither `..at + n` nor `at..at + n`")
    rng = m.group('rng')
    if '..' not in rng:
        raise GenError(f"{where}: source range {rng!r}")
    a, b = rng.split('..', 1)
    env2 = {'bi1': 'bi1', 'bi2': 'bi2', 'n': 'n'}
    beg = expr(a, env2, where) if a.strip() else '0'
    end = expr(b, env2, where) if b.strip() else 'len'
    return n, dst_from_at, beg, end, m.end()


def generate(repo):
    br = strip_comments(open(os.path.join(repo, 'src/readers/blockreader.rs')).read())
    fs = strip_comments(open(os.path.join(repo, 'src/readers/fixedstructreader.rs')).read())
    s4 = strip_comments(open(os.path.join(repo, 'src/bin/s4.rs')).read())
    fx = strip_comments(open(os.path.join(repo, 'src/data/fixedstruct.rs')).read())

    # ------------------------------------------------------------------ read_data
    rd = flat(body_of(br, 'read_data', 'blockreader.rs'))
    rdn = nospace(rd)
    m = re.search(r'let fileoffset_end: FileOffset = (.*?);', rd)
    if not m:
        raise GenError("read_data: `let fileoffset_end: FileOffset = …` not found")
    clamp = nospace(m.group(1))
    if clamp == 'std::cmp::min(fileoffset_end,self.filesz())':
        rd_end = 'min e fsz'
    elif clamp == 'fileoffset_end':
        rd_end = 'e'
    else:
        raise GenError(f"read_data: end offset is {clamp!r}, not min(fileoffset_end, filesz)")
    m = re.search(r'if fileoffset_beg (>=|>|==|<=|<) fileoffset_end \{ return ResultReadData::Done; \}', rd)
    if not m:
        raise GenError("read_data: `if fileoffset_beg OP fileoffset_end { return Done }` not found")
    op = {'>=': '≥', '>': '>', '==': '=', '<=': '≤', '<': '<'}[m.group(1)]
    # first block: Found -> go on, Done -> Done, Err -> Err
    if not re.search(r'let mut bo1: BlockOffset = self\.block_offset_at_file_offset_self\(fileoffset_beg\); '
                     r'let blockp1 = match self\.read_block\(bo1\) \{ ResultS3ReadBlock::Found\(blockp\) => \{ blockp \} '
                     r'ResultS3ReadBlock::Done => \{ return ResultReadData::Done; \} '
                     r'ResultS3ReadBlock::Err\(err\) => \{ return ResultReadData::Err\(err\); \} \};', rd):
        raise GenError("read_data: first `read_block(bo1)` is not Found->go on / Done->Done / Err->Err")
    if 'letbi1:BlockIndex=self.block_index_at_file_offset_self(fileoffset_beg);' not in rdn or \
       'letmutbi2:BlockIndex=self.block_index_at_file_offset_self(fileoffset_end);' not in rdn:
        raise GenError("read_data: bi1 / bi2 are not block_index_at_file_offset_self(beg / end)")
    m = re.search(r'let bo2: BlockOffset = match bi2 \{ 0 => \{ bi2 = (.*?); (.*?) \} _ => (.*?), \};', rd)
    if not m:
        raise GenError("read_data: `let bo2 = match bi2 { 0 => { bi2 = …; … } _ => …, }` not found")
    env = {'self.blocksz': 'bs', 'self.block_offset_at_file_offset_self(fileoffset_end)': 'boEnd'}

    def tr(e):
        e = re.sub(r'\s+as\s+\w+', '', e.strip())
        for k, v in env.items():
            e = e.replace(k, v)
        if not re.fullmatch(r'[\w\s+\-]+', e):
            raise GenError(f"read_data: expression {e!r} outside the subset")
        return e
    bi2_zero, bo2_zero, bo2_else = tr(m.group(1)), tr(m.group(2)), tr(m.group(3))
    # case order after bo2
    tail = rd[m.end():]
    cases = re.findall(r'if (bo1 == bo2|bo1 == bo_last|oneblock|bo1 \+ 1 == bo2) \{', tail)
    if cases != ['bo1 == bo2', 'bo1 == bo_last', 'oneblock', 'bo1 + 1 == bo2']:
        raise GenError(f"read_data: case order {cases} is not [bo1 == bo2, bo1 == bo_last, oneblock, bo1 + 1 == bo2]")
    one = r'\{ bi2 = std::cmp::min\(bi2, \(\*blockp1\)\.len\(\) as BlockIndex\); let rd: ReadData = \(ReadDataParts::One\(blockp1\), bi1, bi2\); return ResultReadData::Found\(rd\); \}'
    if len(re.findall(one, tail)) != 2:
        raise GenError("read_data: the two One arms are not `bi2 = min(bi2, blockp1.len()); Found(One(blockp1), bi1, bi2)`")
    if not re.search(r'if oneblock \{ return ResultReadData::Done; \}', tail):
        raise GenError("read_data: `if oneblock { return Done }` not found")
    two = re.search(r'if bo1 \+ 1 == bo2 \{ let blockp2 = match self\.read_block\(bo2\) \{ ResultS3ReadBlock::Found\(blockp\) => \{ blockp \} '
                    r'ResultS3ReadBlock::Done => \{ let err = Error::new\(.*?\); return ResultReadData::Err\(err\); \} '
                    r'ResultS3ReadBlock::Err\(err\) => \{ return ResultReadData::Err\(err\); \} \}; '
                    r'if bo2 == bo_last \{ bi2 = std::cmp::min\(bi2, \(\*blockp2\)\.len\(\) as BlockIndex\); \} '
                    r'let rd: ReadData = \(ReadDataParts::Two\(blockp1, blockp2\), bi1, bi2\); return ResultReadData::Found\(rd\); \}', tail)
    if not two:
        raise GenError("read_data: the Two arm left its shape (read_block(bo2): Found / Done->Err / Err; min only at bo_last)")
    many = re.search(r'blockps\.push\(blockp1\); bo1 \+= 1; while bo1 (<=|<) bo2 \{ match self\.read_block\(bo1\) \{ '
                     r'ResultS3ReadBlock::Found\(blockp\) => \{ blockps\.push\(blockp\); \} '
                     r'ResultS3ReadBlock::Done => \{ break; \} '
                     r'ResultS3ReadBlock::Err\(err\) => \{ return ResultReadData::Err\(err\); \} \}; bo1 \+= 1; \} '
                     r'bi2 = std::cmp::min\(bi2, blockps\.last\(\)\.unwrap\(\)\.len\(\) as BlockIndex\); '
                     r'let rd: ReadData = \(ReadDataParts::Many\(blockps\), bi1, bi2\); ResultReadData::Found\(rd\)', tail)
    if not many:
        raise GenError("read_data: the Many arm left its shape (push blockp1; bo1 += 1; while bo1 <= bo2 {read_block: push / break / Err}; min with last)")
    many_incl = many.group(1) == '<='

    # ------------------------------------------------------------------ read_data_to_buffer
    rb = flat(body_of(br, 'read_data_to_buffer', 'blockreader.rs'))
    if not rb.startswith('read_data_to_buffer_len_check!(buffer.len(), 1, self.path);'):
        raise GenError("read_data_to_buffer: does not start with the `len_check!(buffer.len(), 1)`")
    mm = re.search(r'macro_rules!\s*read_data_to_buffer_len_check\s*\{\s*\(\$arg1:expr,\s*\$arg2:expr,\s*\$path:expr\)\s*=>\s*\(\s*if\s*\$arg1\s*(<=|<)\s*\$arg2\s*\{', br)
    if not mm:
        raise GenError("read_data_to_buffer_len_check!: not `if $arg1 < $arg2 { … return Err }`")
    lencheck_strict = mm.group(1) == '<'
    if not re.search(r'let readdata: ReadData = match self\.read_data\( fileoffset_beg, fileoffset_end, oneblock, \) \{ '
                     r'ResultReadData::Found\(readdata\) => readdata, ResultReadData::Done => \{ return ResultReadDataToBuffer::Done; \} '
                     r'ResultReadData::Err\(err\) => \{ return ResultReadDataToBuffer::Err\(err\); \} \};', rb):
        raise GenError("read_data_to_buffer: `match self.read_data(beg, end, oneblock)` left its shape")
    if 'let mut at: usize = 0; let bi1: usize = readdata.1; let bi2: usize = readdata.2;' not in rb:
        raise GenError("read_data_to_buffer: at / bi1 / bi2 initialisation changed")
    i1 = rb.find('ReadDataParts::One(blockp) => {')
    i2 = rb.find('ReadDataParts::Two(blockp1, blockp2) => {')
    i3 = rb.find('ReadDataParts::Many(blockps) => {')
    if not (0 <= i1 < i2 < i3):
        raise GenError("read_data_to_buffer: arms One / Two / Many not found in this order")
    arm1, arm2, arm3 = rb[i1:i2], rb[i2:i3], rb[i3:]
    steps = {}
    steps['one'] = copy_step(arm1, 'read_data_to_buffer One')[:4]
    if 'blockp' not in COPY.search(arm1).group('src'):
        raise GenError("read_data_to_buffer One: source is not blockp")
    for arm, nm in ((arm2, 'Two'), (arm3, 'Many')):
        if not re.search(r'if oneblock \{ return ResultReadDataToBuffer::Done; \}', arm):
            raise GenError(f"read_data_to_buffer {nm}: `if oneblock {{ return Done }}` not found")
    a = copy_step(arm2, 'read_data_to_buffer Two first')
    if nospace(COPY.search(arm2).group('src')) != '(*blockp1)':
        raise GenError("read_data_to_buffer Two first: source is not blockp1")
    rest2 = arm2[a[4]:]
    b = copy_step(rest2, 'read_data_to_buffer Two last')
    if nospace(COPY.search(rest2).group('src')) != '(*blockp2)':
        raise GenError("read_data_to_buffer Two last: source is not blockp2")
    steps['twoFirst'], steps['twoLast'] = a[:4], b[:4]
    if 'let len_: usize = blockps.len();' not in arm3:
        raise GenError("read_data_to_buffer Many: `let len_ = blockps.len()` not found")
    a = copy_step(arm3, 'read_data_to_buffer Many first')
    if nospace(COPY.search(arm3).group('src')) != 'blockps[0]':
        raise GenError("read_data_to_buffer Many first: source is not blockps[0]")
    rest3 = arm3[a[4]:]
    mm = re.match(r'\s*for blockp in blockps\.iter\(\)\.skip\((\d+)\)\.take\(len_ - (\d+)\) \{', rest3)
    if not mm:
        raise GenError("read_data_to_buffer Many: middle loop is not `for blockp in blockps.iter().skip(K).take(len_ - J)`")
    mid_skip, mid_less = int(mm.group(1)), int(mm.group(2))
    b = copy_step(rest3, 'read_data_to_buffer Many middle')
    if nospace(COPY.search(rest3).group('src')) != 'blockp':
        raise GenError("read_data_to_buffer Many middle: source is not blockp")
    rest4 = rest3[b[4]:]
    c = copy_step(rest4, 'read_data_to_buffer Many last')
    if nospace(COPY.search(rest4).group('src')) != 'blockps[len_-1]':
        raise GenError("read_data_to_buffer Many last: source is not blockps[len_ - 1]")
    steps['manyFirst'], steps['manyMid'], steps['manyLast'] = a[:4], b[:4], c[:4]
    if not rb.endswith('ResultReadDataToBuffer::Found(at)'):
        raise GenError("read_data_to_buffer: does not end with Found(at)")

    # ------------------------------------------------------------------ preprocess_timevalues
    pt = flat(body_of(fs, 'preprocess_timevalues', 'fixedstructreader.rs'))
    m = re.search(r'let beg: FileOffset = (.*?); let end: FileOffset = (.*?); match blockreader\.read_data_to_buffer\( beg, end, (true|false), slice_, \) \{ '
                  r'ResultReadDataToBuffer::Found\(_readn\) => \{ \} '
                  r'ResultReadDataToBuffer::Err\(err\) => \{ return ResultTvFo::Err\(err\); \} '
                  r'ResultReadDataToBuffer::Done => \{ break; \} \}', pt)
    if not m:
        raise GenError("preprocess_timevalues: the read of the time value (beg, end, oneblock, Found / Err->Err / Done->break) left its shape")
    envp = {'fo': 'fo', 'tv_offset': 'tvOff', 'tv_sz': 'tvSz', 'beg': 'beg'}
    tv_beg = expr(m.group(1), envp, 'preprocess_timevalues beg')
    tv_end = expr(m.group(2), envp, 'preprocess_timevalues end')
    pre_oneblock = m.group(3)
    if 'let slice_: &mut [u8] = &mut buffer[..tv_sz]; let mut fo: FileOffset = 0; let mut tv_pair_prev: Option<tv_pair_type> = None; loop {' not in pt:
        raise GenError("preprocess_timevalues: slice_ = buffer[..tv_sz]; fo = 0; tv_pair_prev = None; loop — changed")
    if 'let entry_sz: FileOffset = fixedstruct_type.size() as FileOffset;' not in pt or \
       'let tv_sz: usize = fixedstruct_type.size_tv(); let tv_offset: usize = fixedstruct_type.offset_tv();' not in pt:
        raise GenError("preprocess_timevalues: entry_sz / tv_sz / tv_offset are not size() / size_tv() / offset_tv()")
    loop = pt[m.end():]
    marks = [
        ('invalid', r'let tv_pair: tv_pair_type = match fixedstruct_type\.tv_pair_from_buffer\( slice_, \) \{ Some\(pair\) => pair, None => \{ fo \+= entry_sz; invalid \+= 1; continue; \} \};'),
        ('null', r'if tv_pair == tv_pair_type\(0, 0\) \{ fo \+= entry_sz; continue; \}'),
        ('ooo', r'match tv_pair_prev \{ Some\(tv_pair_prev\) => \{ if tv_pair (<=|<|>=|>) tv_pair_prev \{ out_of_order \+= 1; \} \} None => \{\} \}'),
        ('prev', r'tv_pair_prev = Some\(tv_pair\);'),
        ('total', r'total_entries \+= 1;'),
        ('after', r'if let Some\(tv_filter\) = tv_filter_after \{ if tv_pair (?:<=|<|>=|>) tv_filter \{ fo \+= entry_sz; valid_no_pass_filter \+= 1; continue; \} \}'),
        ('before', r'if let Some\(tv_filter\) = tv_filter_before \{ if tv_pair (?:<=|<|>=|>) tv_filter \{ fo \+= entry_sz; valid_no_pass_filter \+= 1; continue; \} \}'),
        ('insert', r'map_tv_pair_fo\.insert\(\(tv_pair, fo\), fo\);|map_tv_pair_fo\.insert\(tv_pair, fo\);'),
        ('advance', r'fo \+= entry_sz; \}'),
    ]
    pos = []
    ooo_op = None
    for name, pat in marks:
        mm = re.search(pat, loop)
        if not mm:
            raise GenError(f"preprocess_timevalues: step `{name}` not found in the loop body")
        if name == 'ooo':
            ooo_op = mm.group(1)
        pos.append(mm.start())
    if pos != sorted(pos):
        raise GenError("preprocess_timevalues: the loop steps are not in the order " + ', '.join(n for n, _ in marks))
    if not re.search(r'ResultTvFo::Ok\( \(total_entries, invalid, valid_no_pass_filter, out_of_order, map_tv_pair_fo\) \)', pt):
        raise GenError("preprocess_timevalues: result tuple is not (total_entries, invalid, valid_no_pass_filter, out_of_order, map)")

    def lex(a, b, op):
        lt = f"({a}.1 < {b}.1 ∨ ({a}.1 = {b}.1 ∧ {a}.2 < {b}.2))"
        gt = f"({b}.1 < {a}.1 ∨ ({a}.1 = {b}.1 ∧ {b}.2 < {a}.2))"
        eq = f"({a} = {b})"
        return {'<': lt, '>': gt, '<=': f"({lt} ∨ {eq})", '>=': f"({gt} ∨ {eq})"}[op]

    # ------------------------------------------------------------------ process_entry_at
    pe = flat(body_of(fs, 'process_entry_at', 'fixedstructreader.rs'))
    m = re.search(r'let fileoffset: FileOffset = (.*?);', pe)
    if not m or nospace(m.group(1)) != 'fo-(fo%sz)':
        raise GenError("process_entry_at: `let fileoffset = fo - (fo % sz)` not found")
    m = re.search(r'if fileoffset (>=|>) self\.filesz\(\) \{ return ResultS3FixedStructFind::Done; \}', pe)
    if not m:
        raise GenError("process_entry_at: `if fileoffset >= self.filesz() { return Done }` not found")
    pe_done_ge = m.group(1) == '>='
    scan = re.search(r'let fo_next: FileOffset = \{ let mut fo_next_: FileOffset = (.*?); let mut next_pair: bool = false; '
                     r'let mut tv_pair_at_opt: Option<\(tv_pair_type, FileOffset\)> = None; '
                     r'for \(tv_pair_at, fo_at\) in self\.map_tvpair_fo\.iter\(\) \{ (.*?) \} '
                     r'match tv_pair_at_opt \{ Some\(tv_pair_at\) => \{ (.*?) \} None => \{ \} \} fo_next_ \};', pe)
    if not scan:
        raise GenError("process_entry_at: the `fo_next` block (default, scan of map_tvpair_fo, removal) left its shape")
    if nospace(scan.group(1)) != 'self.filesz()':
        raise GenError("process_entry_at: default of fo_next_ is not self.filesz()")
    take = r'if next_pair \{ fo_next_ = \*fo_at; break; \}'
    hit = r'if &fileoffset == fo_at \{ tv_pair_at_opt = Some\(\*tv_pair_at\); next_pair = true; \}'
    sb = scan.group(2)
    if re.fullmatch(take + ' ' + hit, sb):
        next_first = True
    elif re.fullmatch(hit + ' ' + take, sb):
        next_first = False
    else:
        raise GenError("process_entry_at: scan body is not {take-next; match-this} in either order")
    rem = nospace(scan.group(3))
    if rem == 'self.map_tvpair_fo.remove(&tv_pair_at);':
        removes = True
    elif rem == '':
        removes = False
    else:
        raise GenError(f"process_entry_at: unexpected removal statement {rem!r}")
    after_scan = pe[scan.end():]
    cache = re.match(r' if let Some\(fixedstruct\) = self\.remove_cache_entry\(fileoffset\) \{ self\.dt_first_last_update\(fixedstruct\.dt\(\)\); '
                     r'(self\.drop_entry\(&fixedstruct\); )?return ResultS3FixedStructFind::Found\(\(fo_next, fixedstruct\)\); \}', after_scan)
    if not cache:
        raise GenError("process_entry_at: the cache lookup does not directly follow the map scan / left its shape")
    cache_drops = cache.group(1) is not None
    rest = after_scan[cache.end():]
    if not re.match(r' if buffer\.len\(\) < sz as usize \{ return ResultS3FixedStructFind::Err\(\( None, Error::new\(', rest):
        raise GenError("process_entry_at: buffer-size check `buffer.len() < sz => Err((None, …))` not found after the cache lookup")
    if 'let slice_: &mut [u8] = &mut buffer[..sz as usize]; slice_.iter_mut().for_each(|m| *m = 0);' not in rest:
        raise GenError("process_entry_at: the slice is not buffer[..sz] zeroed before the read")
    m = re.search(r'match self\.blockreader\.read_data_to_buffer\( (.*?), (.*?), (true|false), slice_, \) \{ '
                  r'ResultReadDataToBuffer::Found\(val\) => val, '
                  r'ResultReadDataToBuffer::Done => \{ return ResultS3FixedStructFind::Done; \} '
                  r'ResultReadDataToBuffer::Err\(err\) => \{ self\.set_error\(&err\); return ResultS3FixedStructFind::Err\(\(None, err\)\); \} \};', rest)
    if not m:
        raise GenError("process_entry_at: read of the record (beg, end, oneblock; Found / Done->Done / Err->Err(None)) left its shape")
    envr = {'fileoffset': 'fo', 'sz': 'sz'}
    rec_beg = expr(m.group(1), envr, 'process_entry_at read beg')
    rec_end = expr(m.group(2), envr, 'process_entry_at read end')
    rec_oneblock = m.group(3)
    rest2 = rest[m.end():]
    m = re.search(r'let fs: FixedStruct = match FixedStruct::new\( fileoffset, &self\.tz_offset, &slice_, self\.fixedstruct_type\(\), \) \{ '
                  r'Ok\(val\) => val, Err\(err\) => \{ return ResultS3FixedStructFind::Err\(\((Some\(fo_next\)|None), err\)\); \} \};', rest2)
    if not m:
        raise GenError("process_entry_at: `FixedStruct::new(fileoffset, tz, slice_, type)` Ok / Err((Some(fo_next)|None, err)) left its shape")
    new_err_continues = m.group(1) == 'Some(fo_next)'
    rest3 = rest2[m.end():]
    m = re.fullmatch(r' self\.entries_processed \+= 1; self\.dt_first_last_update\(fs\.dt\(\)\); (self\.drop_entry\(&fs\); )?ResultS3FixedStructFind::Found\(\(fo_next, fs\)\)', rest3)
    if not m:
        raise GenError("process_entry_at: tail is not `entries_processed += 1; dt_first_last_update; [drop_entry;] Found((fo_next, fs))`")
    fresh_drops = m.group(1) is not None

    rc = flat(body_of(fs, 'remove_cache_entry', 'fixedstructreader.rs'))
    if re.match(r'match self\.cache_entries\.remove\(&fileoffset\) \{ Some\(fixedstruct\) => \{ self\.entries_hits \+= 1; Some\(fixedstruct\) \} '
                r'None => \{ self\.entries_miss \+= 1; None \} \}$', rc):
        cache_removes = True
    elif re.match(r'match self\.cache_entries\.get\(&fileoffset\)', rc):
        cache_removes = False
    else:
        raise GenError("remove_cache_entry: not `match self.cache_entries.remove(&fileoffset) {Some => hits += 1, None => miss += 1}`")
    ic = flat(body_of(fs, 'insert_cache_entry', 'fixedstructreader.rs'))
    if not re.search(r'let fo_beg: FileOffset = entry\.fileoffset_begin\(\);.*self\.cache_entries \.insert\(fo_beg, entry\);.*self\.entries_processed \+= 1;', ic):
        raise GenError("insert_cache_entry: not `cache_entries.insert(entry.fileoffset_begin(), entry); … entries_processed += 1`")

    # drop_entry
    de = flat(body_of(fs, 'drop_entry', 'fixedstructreader.rs'))
    if 'let mut bo_at: BlockOffset = fixedstruct.blockoffset_begin(bsz); let bo_end: BlockOffset = fixedstruct.blockoffset_end(bsz);' not in de:
        raise GenError("drop_entry: bo_at / bo_end are not blockoffset_begin / blockoffset_end")
    m = re.search(r'while bo_at (<=|<) bo_end \{ match self\.block_use_count\.get_mut\(&bo_at\) \{ Some\(count\) => \{ if \*count (<=|<|==) (\d+) \{ '
                  r'if self \.blockreader \.drop_block\(bo_at\) \{ self\.blockoffset_drop_last = std::cmp::max\(bo_at, self\.blockoffset_drop_last\); '
                  r'self\.block_use_count\.remove\(&bo_at\); (?:#\[cfg\(test\)\] self\.dropped_blocks\.push_back\(bo_at\); )?dropped_ok \+= 1; \} else \{ dropped_err \+= 1; \} \} else \{ \*count -= 1; \} \} None => \{ \} \} bo_at \+= 1; \}', de)
    if not m:
        raise GenError("drop_entry: the loop `while bo_at <= bo_end { match block_use_count.get_mut … }` left its shape")
    drop_incl = m.group(1) == '<='
    drop_cmp = {'<=': '≤', '<': '<', '==': '='}[m.group(2)]
    drop_k = int(m.group(3))
    if not de.endswith('if dropped_ok > 0 { self.drop_entry_ok += 1; } if dropped_err > 0 { self.drop_entry_errors += 1; } dropped_ok'):
        raise GenError("drop_entry: counters epilogue changed")
    # blockoffset_begin / blockoffset_end / fileoffset_end of FixedStruct
    bb = nospace(body_of(fx, 'blockoffset_begin', 'fixedstruct.rs'))
    be = nospace(body_of(fx, 'blockoffset_end', 'fixedstruct.rs'))
    fe = nospace(body_of(fx, 'fileoffset_end', 'fixedstruct.rs'))
    if bb != 'BlockReader::block_offset_at_file_offset(self.fileoffset_begin(),blocksz)':
        raise GenError("FixedStruct::blockoffset_begin is not block_offset_at_file_offset(fileoffset_begin(), blocksz)")
    if be == 'BlockReader::block_offset_at_file_offset(self.fileoffset_end(),blocksz)':
        drop_end = 'fo + sz'
    elif be == 'BlockReader::block_offset_at_file_offset(self.fileoffset_end()-1,blocksz)':
        drop_end = 'fo + sz - 1'
    else:
        raise GenError("FixedStruct::blockoffset_end is not block_offset_at_file_offset(fileoffset_end()[ - 1], blocksz)")
    if fe != 'self.fileoffset+(self.len()asFileOffset)':
        raise GenError("FixedStruct::fileoffset_end is not fileoffset + len()")

    # new: streamed => disable_drop_data; first_entry_fileoffset; block_use_count; cache fill
    nw = flat(body_of(fs, 'new', 'fixedstructreader.rs'))
    i_dis = nw.find('if blockreader.is_streamed_file() { blockreader.disable_drop_data(); }')
    i_pre = nw.find('FixedStructReader::preprocess_fixedstructtype( &mut blockreader, &filetype_fixedstruct, false, )')
    i_tv = nw.find('FixedStructReader::preprocess_timevalues( &mut blockreader, fixedstruct_type, &dt_filter_after, &dt_filter_before, )')
    if i_dis < 0:
        keep_streamed = False
    else:
        keep_streamed = True
    if i_pre < 0 or i_tv < 0 or not (i_pre < i_tv) or (keep_streamed and not i_dis < i_pre):
        raise GenError("FixedStructReader::new: order [disable_drop_data,] preprocess_fixedstructtype(.., false), preprocess_timevalues changed")
    m = re.search(r'for \(_tv_pair, fo\) in map_tvpair_fo\.iter\(\) \{ let bo_beg: BlockOffset = BlockReader::block_offset_at_file_offset\(\*fo, blocksz\); '
                  r'let fo_end: FileOffset = (.*?); let bo_end: BlockOffset = BlockReader::block_offset_at_file_offset\((.*?), blocksz\); '
                  r'for bo in bo_beg\.\.(bo_end\+1|bo_end) \{ match block_use_count\.get_mut\(&bo\) \{ Some\(count\) => \{ let count_ = \*count \+ 1; \*count = count_; \} '
                  r'None => \{ block_use_count\.insert\(bo, 1\); \} \} \} \}', nw)
    if not m:
        raise GenError("FixedStructReader::new: the block_use_count loop left its shape")
    if nospace(m.group(1)) != '*fo+fixedstruct_type.size()asFileOffset' or nospace(m.group(2)) != 'fo_end':
        raise GenError("FixedStructReader::new: fo_end of the block_use_count loop is not fo + size()")
    use_incl = m.group(3) == 'bo_end+1'
    if not re.search(r'let mut first_entry_fileoffset: FileOffset = blockreader\.filesz\(\); for \(_tv_pair, fo\) in map_tvpair_fo\.iter\(\) \{ '
                     r'if &first_entry_fileoffset > fo \{ first_entry_fileoffset = \*fo; \} \}', nw):
        raise GenError("FixedStructReader::new: first_entry_fileoffset is not the minimum offset of the map (start filesz)")
    m = re.search(r'if map_tvpair_fo\.is_empty\(\) \{ if valid_no_filter > 0 \{ return ResultFixedStructReaderNew::FileErrNoFixedStructWithinDtFilters; \} '
                  r'return ResultFixedStructReaderNew::FileErrNoValidFixedStruct; \}', nw)
    if not m:
        raise GenError("FixedStructReader::new: the empty-map exits changed")
    if not re.search(r'for \(fo, fixedstructptr\) in list_entries\.into_iter\(\) \{ match FixedStruct::from_fixedstructptr\( fo, &tz_offset, fixedstructptr \) \{ '
                     r'Ok\(fixedstruct\) => \{ if fixedstructreader\.map_tvpair_fo\.iter\(\)\.find\(\|\(_tv_pair, fo2\)\| &fo == \*fo2\)\.is_some\(\) \{ '
                     r'fixedstructreader\.insert_cache_entry\(fixedstruct\); \} else \{ \} \} Err\(err\) => \{ fixedstructreader\.set_error\(&err\); \} \} \}', nw):
        raise GenError("FixedStructReader::new: the cache fill (entries of score_file whose offset is in the map) left its shape")
    # score_file: the cached offset is the running offset `fo2 = fo` of a full read of (fo, fo + size, oneblock)
    sf = flat(body_of(fs, 'score_file', 'fixedstructreader.rs'))
    if not re.search(r'let utmp_sz: usize = fixedstructtype\.size\(\); let fo_end = fo \+ utmp_sz as FileOffset;', sf) or \
       not re.search(r'blockreader\.read_data_to_buffer\( fo, fo_end, oneblock, &mut buffer, \)', sf) or \
       not re.search(r'if buffer_read < utmp_sz \{ break; \} let fo2 = fo; fo \+= utmp_sz as FileOffset; let slice_ = &buffer\[\.\.buffer_read\];', sf) or \
       not re.search(r'found_entries\.push_back\(\(fo2, fixedstructptr\)\);', sf):
        raise GenError("score_file: cached entries are not (running offset fo2, record read from [fo, fo + size))")

    # is_last / fileoffset_first
    il = nospace(body_of(fs, 'is_last', 'fixedstructreader.rs'))
    if il != 'self.is_fileoffset_last(fixedstruct.fileoffset_end()-1)':
        raise GenError("is_last: not is_fileoffset_last(fileoffset_end() - 1)")
    ifl = nospace(body_of(fs, 'is_fileoffset_last', 'fixedstructreader.rs'))
    fl = nospace(body_of(br, 'fileoffset_last', 'blockreader.rs'))
    if ifl != 'self.fileoffset_last()==fileoffset' or fl != '(self.filesz()-1)asFileOffset':
        raise GenError("is_fileoffset_last / fileoffset_last changed")
    ff = flat(body_of(fs, 'fileoffset_first', 'fixedstructreader.rs'))
    if not re.search(r'self\.map_tvpair_fo\.iter\(\)\.min_by_key\(\|\(tv_pair, fo\)\| \(\*tv_pair, \*fo\)\)', ff):
        raise GenError("fileoffset_first: not `min_by_key((tv_pair, fo))` over map_tvpair_fo")

    # ------------------------------------------------------------------ worker loop
    ex = flat(body_of(s4, 'exec_fixedstructprocessor', 's4.rs'))
    if not re.search(r'let mut fo: FileOffset = match fixedstructreader\.fileoffset_first\(\) \{ Some\(fo\) => fo, None => \{', ex):
        raise GenError("exec_fixedstructprocessor: the walk does not start at fileoffset_first()")
    m = re.search(r'loop \{ let fo_next = match fixedstructreader\.process_entry_at\(fo, &mut buffer\) \{ '
                  r'ResultS3FixedStructFind::Found\(\(fo_, fixedstruct\)\) => \{ let is_last = fixedstructreader\.is_last\(&fixedstruct\); '
                  r'chan_send\( &chan_send_dt, ChanDatum::NewMessage\( LogMessage::FixedStruct\(fixedstruct\), is_last, \), &path \); fo_ \} '
                  r'ResultS3FixedStructFind::Done => \{ break; \} '
                  r'ResultS3FixedStructFind::Err\(\(fo_opt, err\)\) => \{ file_err = Some\(FileProcessingResultBlockZero::FileErrIoPath\(err\)\); '
                  r'match fo_opt \{ Some\(fo_\) => fo_, None => break, \} \} \}; fo = fo_next; \}', ex)
    if not m:
        raise GenError("exec_fixedstructprocessor: the process_entry_at loop left its shape (Found->send, next; Done->break; Err(Some)->next; Err(None)->break)")
    if 'let mut buffer: [u8; ENTRY_SZ_MAX] = [0; ENTRY_SZ_MAX];' not in ex:
        raise GenError("exec_fixedstructprocessor: buffer is not [u8; ENTRY_SZ_MAX]")
    m = re.search(r'pub const ENTRY_SZ_MAX: usize = max16\(\s*([\s\S]*?)\);', fx)
    entry_max_doc = 'max16 of the 16 record sizes' if m else 'see fixedstruct.rs'

    def bl(x):
        return 'true' if x else 'false'

    def stepdef(name, doc, st):
        n, dst_from_at, beg, end = st
        return [f'/-- {doc}: `let n = …` -/',
                f'def {name}N (bi1 bi2 len : Nat) : Nat := {n}',
                f'/-- … source range `[beg, end)` of the block -/',
                f'def {name}Beg (bi1 bi2 n len : Nat) : Nat := {beg}',
                f'def {name}End (bi1 bi2 n len : Nat) : Nat := {end}',
                f'/-- … destination `buffer[at .. at + n]` (true) or `buffer[.. at + n]` (false) -/',
                f'def {name}DstFromAt : Bool := {bl(dst_from_at)}']

    L = ['-- GENERATED by /verif/gen/s4gen.py (gen_fixedwalk.py) from src/readers/{blockreader,fixedstructreader}.rs, src/data/fixedstruct.rs, src/bin/s4.rs — do not edit',
         'set_option linter.unusedVariables false',
         'namespace S4V.Gen.FixedWalk', '',
         '/-! ### `BlockReader::read_data` -/', '',
         '/-- `let fileoffset_end = std::cmp::min(fileoffset_end, self.filesz())` -/',
         f'def rdEnd (e fsz : Nat) : Nat := {rd_end}',
         '/-- `if fileoffset_beg OP fileoffset_end { return Done }` -/',
         f'def rdEmpty (b e : Nat) : Bool := decide (b {op} e)',
         '/-- `let bo2 = match bi2 { 0 => { bi2 = …; … } _ => … }` with `boEnd = block_offset_at_file_offset(end)` -/',
         f'def rdBi2 (bi2 bs : Nat) : Nat := if bi2 = 0 then {bi2_zero} else bi2',
         f'def rdBo2 (bi2 boEnd : Nat) : Nat := if bi2 = 0 then {bo2_zero} else {bo2_else}',
         '/-- case order after `bo2`: `bo1 == bo2` → One, `bo1 == bo_last` → One, `oneblock` → Done, `bo1 + 1 == bo2` → Two, else Many;',
         'both One arms and the Many arm clamp `bi2` to the length of the last block, the Two arm only at `bo_last`;',
         '`read_block(bo1)`: Done → Done; `read_block(bo2)` of the Two arm: Done → Err (shape-checked) -/',
         'def RD_CASE_ORDER : List String := ["bo1 == bo2", "bo1 == bo_last", "oneblock", "bo1 + 1 == bo2"]',
         '/-- the Many arm: `bo1 += 1; while bo1 <= bo2 { read_block(bo1): Found → push, Done → break, Err → Err }` (true: `<=`) -/',
         f'def RD_MANY_LOOP_INCLUSIVE : Bool := {bl(many_incl)}',
         '',
         '/-! ### `BlockReader::read_data_to_buffer`: the copies of the three arms -/', '',
         '/-- `read_data_to_buffer_len_check!(len, need)`: `if len < need { return Err }` (true: `<`) -/',
         f'def LEN_CHECK_STRICT : Bool := {bl(lencheck_strict)}']
    L += stepdef('one', '`ReadDataParts::One(blockp)`', steps['one'])
    L += stepdef('twoFirst', '`ReadDataParts::Two`, first block', steps['twoFirst'])
    L += stepdef('twoLast', '`ReadDataParts::Two`, last block', steps['twoLast'])
    L += stepdef('manyFirst', '`ReadDataParts::Many`, `blockps[0]`', steps['manyFirst'])
    L += stepdef('manyMid', '`ReadDataParts::Many`, the middle blocks', steps['manyMid'])
    L += stepdef('manyLast', '`ReadDataParts::Many`, `blockps[len_ - 1]`', steps['manyLast'])
    L += ['/-- the middle loop is `blockps.iter().skip(MANY_MID_SKIP).take(len_ - MANY_MID_LESS)` -/',
          f'def MANY_MID_SKIP : Nat := {mid_skip}',
          f'def MANY_MID_LESS : Nat := {mid_less}',
          '',
          '/-! ### `FixedStructReader::preprocess_timevalues` -/', '',
          '/-- `let beg = …; let end = …; read_data_to_buffer(beg, end, oneblock, buffer[..tv_sz])` -/',
          f'def tvBeg (fo tvOff : Nat) : Nat := {tv_beg}',
          f'def tvEnd (beg tvSz : Nat) : Nat := {tv_end}',
          f'def PRE_ONEBLOCK : Bool := {pre_oneblock}',
          '/-- order of the loop body (each skip is `fo += entry_sz; [counter += 1;] continue`); `Done` of the read ends the loop, `Err` is returned -/',
          'def PRE_STEPS : List String := [' + ', '.join(f'"{n}"' for n, _ in marks) + ']',
          '/-- `if tv_pair OP tv_pair_prev { out_of_order += 1 }`; `tv_pair_prev` is the previous NON-NULL record (set before the window tests) -/',
          f'def fixedOutOfOrder (tv prev : Int × Int) : Bool := decide ({lex("tv", "prev", ooo_op)})',
          '',
          '/-! ### `FixedStructReader::process_entry_at`, `drop_entry`, `new` -/', '',
          '/-- `let fileoffset = fo - (fo % sz)` -/',
          'def peFloor (fo sz : Nat) : Nat := fo - (fo % sz)',
          '/-- `if fileoffset >= self.filesz() { return Done }` (true: `>=`) -/',
          f'def PE_DONE_GE : Bool := {bl(pe_done_ge)}',
          '/-- the scan of `map_tvpair_fo`: `if next_pair { fo_next_ = *fo_at; break }` comes BEFORE `if fileoffset == fo_at { …; next_pair = true }`',
          '(true), so the offset returned is the one of the NEXT pair; default `fo_next_ = filesz` -/',
          f'def WALK_NEXT_CHECK_FIRST : Bool := {bl(next_first)}',
          '/-- the key found by the scan is removed from `map_tvpair_fo` -/',
          f'def WALK_REMOVES_KEY : Bool := {bl(removes)}',
          '/-- `remove_cache_entry`: `cache_entries.remove(&fileoffset)` (the cached record is handed out once); checked right after the map scan -/',
          f'def CACHE_HIT_REMOVES : Bool := {bl(cache_removes)}',
          '/-- `drop_entry` is called on the cache-hit path / on the fresh-read path -/',
          f'def CACHE_HIT_DROPS : Bool := {bl(cache_drops)}',
          f'def FRESH_READ_DROPS : Bool := {bl(fresh_drops)}',
          '/-- the record is read with `read_data_to_buffer(beg, end, oneblock, buffer[..sz])` into a zeroed slice -/',
          f'def recBeg (fo sz : Nat) : Nat := {rec_beg}',
          f'def recEnd (fo sz : Nat) : Nat := {rec_end}',
          f'def REC_ONEBLOCK : Bool := {rec_oneblock}',
          '/-- `FixedStruct::new` failing returns `Err((Some(fo_next), err))` (true: the worker goes on with the next record) -/',
          f'def NEW_ERR_CONTINUES : Bool := {bl(new_err_continues)}',
          '/-- `drop_entry`: `bo_at = block(fo)`, `bo_end = block(DROP_END)`, `while bo_at <= bo_end` (true: `<=`),',
          '`if *count OP K { drop_block … remove } else { *count -= 1 }` -/',
          f'def dropEndFo (fo sz : Nat) : Nat := {drop_end}',
          f'def DROP_LOOP_INCLUSIVE : Bool := {bl(drop_incl)}',
          f'def dropWhen (count : Nat) : Bool := decide (count {drop_cmp} {drop_k})',
          '/-- `new`: `block_use_count` counts, per map entry, the blocks `block(fo) ..= block(fo + size)` (true: `bo_beg..bo_end+1`) -/',
          f'def USE_COUNT_INCLUSIVE : Bool := {bl(use_incl)}',
          '/-- `new`: `if blockreader.is_streamed_file() { blockreader.disable_drop_data() }` precedes every read -/',
          f'def STREAMED_KEEPS_BLOCKS : Bool := {bl(keep_streamed)}',
          '/-- `is_last`: `fileoffset_end() - 1 == filesz - 1` -/',
          'def isLastRec (fo sz fsz : Nat) : Bool := decide (fo + sz - 1 = fsz - 1)',
          '',
          '/-! ### `exec_fixedstructprocessor` -/', '',
          '/-- first offset `fileoffset_first()`; `Found((fo_, r))` → send, `fo = fo_`; `Done` → break; `Err((Some(fo_), _))` → `fo = fo_`;',
          '`Err((None, _))` → break (shape-checked) -/',
          'def WORKER_LOOP : List String := ["Found:send,next", "Done:break", "Err(Some):next", "Err(None):break"]',
          f'-- buffer of the worker: [u8; ENTRY_SZ_MAX] ({entry_max_doc})',
          '',
          'end S4V.Gen.FixedWalk']
    info = {'WALK_NEXT_CHECK_FIRST': next_first, 'WALK_REMOVES_KEY': removes, 'CACHE_HIT_REMOVES': cache_removes,
            'STREAMED_KEEPS_BLOCKS': keep_streamed}
    return '\n'.join(L) + '\n', info
