"""Generate S4V/Gen/FixedRender.lean: the text rendering of accounting records,
`FixedStruct::as_bytes` (src/data/fixedstruct.rs), for EVERY `FixedStructType` variant.

Each `match` arm of `as_bytes` is a straight sequence of `set_buffer_at_or_err_*!` macro invocations (plus
two recognised conditional blocks). The arm is translated into a *render program*: a list of ops, one
constructor per macro actually used:

  str bytes            set_buffer_at_or_err_str!(buffer, at, "literal")
  byte b               set_buffer_at_or_err_u8!(buffer, at, b'c')
  dtBeg / dtEnd        `dt_beg = at;` / `dt_end = at;`
  utType f p           set_buffer_at_or_err_ut_type_{i16,u16}!(buffer, at, V.f)
  num f claimed        set_buffer_at_or_err_number!(buffer, at, V.path, T)   (T = `claimed`; the macro only
                       uses T in a size assertion, the value is printed with the FIELD's own type)
  f32 ..               set_buffer_at_or_err_number_f32!(buffer, at, V.f, f32)
  bin4 f               set_buffer_at_or_err_number_bin4!(buffer, at, V.f, T)
  cstrn ..             set_buffer_at_or_err_cstrn!(buffer, at, V.f)
  flagNames f ..       the block `if V.f != 0 { str " ("; [if V.f & M::NAME != 0 { str "NAME|" }]*;
                       if buffer[at - 1] == b'|' { at -= 1; } str ")" }`
  addr ..              the block `if V.f[1..4].iter().all(|&x| x == 0) { str L4; ipv4!(.., V.f[0]) }
                       else { str L6; ipv6!(.., V.f) }`

Every field reference `V.a`, `V.a.b`, `V.a[0]` is resolved to (byte offset, primitive type) from the
`#[repr(C, ..)]` struct definitions with the layout machinery of gen_fixed.py (which re-checks every
`assertcp_eq!(offset_of!(..), N)` of the source). The body of every macro used is compared with the text
this translator was written against; a change raises GenError naming the macro. Anything outside the
recognised statement set raises GenError naming the arm.

Also emitted: for every layout the complete field list of the struct (name, offset, size, declared type,
padding flag), the implicit alignment holes, the indices of fields the program never reads (`omitted`),
the `UT_TYPE_VAL_TO_STR` table, and the size of the print buffer (`ENTRY_SZ_MAX * 2` in src/bin/s4.rs).

Target assumption (same as gen_fixed.py): x86_64 — little-endian, `c_char` = `i8` (`cCharSigned`).
"""
import os
import re
from rs import GenError, strip_comments, find_fn, match_close, match_arms, split_top, int_lit, lean_str, lean_bytes, str_lit
from gen_path import strip_trace
import gen_fixed as gf

W = gf.W
flat = gf.flat

C_CHAR_SIGNED = True   # x86_64

# ---------------------------------------------------------------------------------------------
# macro bodies this translator was written against (whitespace-flattened, tracing stripped)
MACROS = {
    'set_buffer_at_or_err_u8':
        '($buffer:ident, $at:ident, $b:expr) => ({{ if $at >= $buffer.len() { return InfoAsBytes::Fail($at); } '
        '$buffer[$at] = $b; $at += 1; }})',
    'set_buffer_at_or_err_i8':
        '($buffer:ident, $at:ident, $c:expr) => ({{ let c_: u8 = match ($c).try_into() { Ok(val) => val, Err(_) => 0, }; '
        'set_buffer_at_or_err_u8!($buffer, $at, c_); }})',
    'set_buffer_at_or_err_u8_array':
        '($buffer:ident, $at:ident, $b:expr) => ({{ for b_ in $b.iter() { set_buffer_at_or_err_u8!($buffer, $at, *b_); } }})',
    'set_buffer_at_or_err_str':
        '($buffer:ident, $at:ident, $str_:expr) => ({{ for b_ in $str_.bytes() { set_buffer_at_or_err_u8!($buffer, $at, b_); } }})',
    'set_buffer_at_or_err_string':
        '($buffer:ident, $at:ident, $string_:expr) => ({{ for b_ in $string_.as_bytes() { '
        'set_buffer_at_or_err_u8!($buffer, $at, *b_); } }})',
    'set_buffer_at_or_err_cstrn':
        '($buffer:ident, $at:ident, $cstr:expr) => ({{ let cstr_sz = std::mem::size_of_val(& $cstr); '
        'for (i, b_) in $cstr.iter().enumerate() { if b_ == &0 || i == cstr_sz { break; } '
        'set_buffer_at_or_err_i8!($buffer, $at, *b_); } }})',
    'set_buffer_at_or_err_ut_type':
        '($buffer:ident, $at:ident, $ut_type:expr, $type_:ty, $len:ident) => ({{ #[allow(non_camel_case_types)] { '
        'assertcp!(std::mem::size_of::<$type_>() <= 2); } let mut buffer_num = [0u8; 8]; match &$ut_type { '
        'n if &0 <= n && n < &$len => { set_buffer_at_or_err_str!($buffer, $at, UT_TYPE_VAL_TO_STR[*n as usize]); } '
        'n_ => { let num = n_.numtoa(10, &mut buffer_num); set_buffer_at_or_err_u8_array!($buffer, $at, num); }, } }})',
    'set_buffer_at_or_err_ut_type_i16':
        '($buffer:ident, $at:ident, $ut_type:expr) => ({{ set_buffer_at_or_err_ut_type!($buffer, $at, $ut_type, i16, '
        'UT_TYPE_VAL_TO_STR_LEN_i16) }})',
    'set_buffer_at_or_err_ut_type_u16':
        '($buffer:ident, $at:ident, $ut_type:expr) => ({{ set_buffer_at_or_err_ut_type!($buffer, $at, $ut_type, u16, '
        'UT_TYPE_VAL_TO_STR_LEN_u16) }})',
    'set_buffer_at_or_err_number':
        '($buffer:ident, $at:ident, $number:expr, $type_:ty) => ({{ #[allow(non_camel_case_types)] { '
        'assertcp!(std::mem::size_of::<$type_>() <= 8); } let mut buffer_num = [0u8; 22]; let num_val = $number; '
        'let num = num_val.numtoa(10, &mut buffer_num); set_buffer_at_or_err_u8_array!($buffer, $at, num); }})',
    'set_buffer_at_or_err_number_f32':
        '($buffer:ident, $at:ident, $number:expr, $type_:ty) => ({{ let num = $number; let number_string = format!("{}", num); '
        'set_buffer_at_or_err_string!($buffer, $at, number_string); }})',
    'set_buffer_at_or_err_number_bin4':
        '($buffer:ident, $at:ident, $number:expr, $type_:ty) => ({{ let number_string = format!("0b{:04b}", $number); '
        'set_buffer_at_or_err_string!($buffer, $at, number_string); }})',
    'set_buffer_at_or_err_ipv4':
        '($buffer:ident, $at:ident, $value:expr) => ({{ let o0: u8 = (($value >> 24) & 0xFF) as u8; '
        'let o1: u8 = (($value >> 16) & 0xFF) as u8; let o2: u8 = (($value >> 8) & 0xFF) as u8; '
        'let o3: u8 = ($value & 0xFF) as u8; for (i, b_) in (&[o3, o2, o1, o0]).iter().enumerate() { '
        'set_buffer_at_or_err_number!($buffer, $at, *b_, u8); if i != 3 { set_buffer_at_or_err_u8!($buffer, $at, b\'.\'); } } }})',
    'set_buffer_at_or_err_ipv6':
        '($buffer:ident, $at:ident, $value:expr) => ({{ for b_ in format!("{:X}:{:X}:{:X}:{:X}", &$value[0], &$value[1], '
        '&$value[2], &$value[3], ).as_str().bytes() { set_buffer_at_or_err_u8!($buffer, $at, b_); } }})',
}


def check_macros(src):
    for name, want in MACROS.items():
        got = gf.macro_body(src, name)
        if got != want:
            raise GenError(f"{W}: macro {name}! left the shape this translator models "
                           f"(found `{got[:160]}`)")


# ---------------------------------------------------------------------------------------------
# types with element information
def rtype(mod, t, seen=()):
    """('int', signed, bytes) | ('char',) | ('float', bytes) | ('array', elem, n) | ('struct', name)"""
    t = t.strip()
    if t in seen:
        raise GenError(f"{W}: mod {mod.name}: type alias cycle at {t}")
    if t in gf.PRIM:
        s, n = gf.PRIM[t]
        return ('int', s, n)
    if t in gf.FLOAT:
        return ('float', gf.FLOAT[t])
    m = re.fullmatch(r'(?:::)?std::ffi::(\w+)', t)
    if m:
        k = m.group(1)
        if k == 'c_char':
            return ('char',)
        if k in gf.FFI:
            return rtype(mod, gf.FFI[k], seen + (t,))
        raise GenError(f"{W}: mod {mod.name}: std::ffi::{k} is outside the translated subset")
    m = re.fullmatch(r'\[\s*(.+?)\s*;\s*(.+?)\s*\]', t)
    if m:
        return ('array', rtype(mod, m.group(1), seen + (t,)), mod.const_eval(m.group(2)))
    if re.fullmatch(r'\w+', t):
        if t in mod.types:
            return rtype(mod, mod.types[t], seen + (t,))
        if t in mod.structs:
            return ('struct', t)
    raise GenError(f"{W}: mod {mod.name}: type `{t}` is outside the translated subset")


def tsize(mod, r):
    if r[0] == 'int':
        return r[2]
    if r[0] == 'char':
        return 1
    if r[0] == 'float':
        return r[1]
    if r[0] == 'array':
        return tsize(mod, r[1]) * r[2]
    return mod.layout(r[1])['size']


def as_prim(r, where):
    """(signed, bytes) of an integer-like type"""
    if r[0] == 'int':
        return (r[1], r[2])
    if r[0] == 'char':
        return (C_CHAR_SIGNED, 1)
    raise GenError(f"{where}: type resolves to {r[0]}, not an integer")


def resolve_path(mod, sname, path, where):
    """`a`, `a.b`, `a[3]`, `a.b[0]` inside struct `sname` -> (offset, resolved type, index of the TOP field)"""
    toks = re.findall(r'\.?(\w+)|\[(\d+)\]', path)
    if ''.join(('.' + a) if a else f'[{b}]' for a, b in toks).lstrip('.') != path:
        raise GenError(f"{where}: field path `{path}` is outside the translated subset")
    lay = mod.layout(sname)
    off = 0
    cur = ('struct', sname)
    top = None
    for a, b in toks:
        if a:
            if cur[0] != 'struct':
                raise GenError(f"{where}: `.{a}` applied to a non-struct in `{path}`")
            lay = mod.layout(cur[1])
            if a not in lay['fields']:
                raise GenError(f"{where}: struct {mod.name}::{cur[1]} has no field {a}")
            o, _, ftype, _ = lay['fields'][a]
            if top is None:
                top = lay['order'].index(a)
            off += o
            cur = rtype(mod, ftype)
        else:
            if cur[0] != 'array':
                raise GenError(f"{where}: index applied to a non-array in `{path}`")
            i = int(b)
            if i >= cur[2]:
                raise GenError(f"{where}: index {i} out of bounds in `{path}`")
            off += i * tsize(mod, cur[1])
            cur = cur[1]
    return off, cur, top


# ---------------------------------------------------------------------------------------------
# statement parsing
def parse_stmts(text, where):
    """-> list of ('macro', name, [args]) | ('assign', lhs, rhs) | ('if', cond, then_stmts, else_stmts|None)"""
    out = []
    i, n = 0, len(text)
    while True:
        while i < n and text[i].isspace():
            i += 1
        if i >= n:
            return out
        m = re.compile(r'(\w+)!\s*\(').match(text, i)
        if m:
            p = text.find('(', m.start())
            e = match_close(text, p)
            args = [flat(a) for a in split_top(text[p + 1:e], ',')]
            j = e + 1
            while j < n and text[j].isspace():
                j += 1
            if j >= n or text[j] != ';':
                raise GenError(f"{where}: macro invocation `{m.group(1)}!` is not a statement")
            out.append(('macro', m.group(1), args))
            i = j + 1
            continue
        if text.startswith('if ', i):
            b = text.find('{', i)
            if b < 0:
                raise GenError(f"{where}: `if` without block")
            cond = flat(text[i + 3:b])
            e = match_close(text, b)
            then = parse_stmts(text[b + 1:e], where)
            j = e + 1
            while j < n and text[j].isspace():
                j += 1
            els = None
            if text.startswith('else', j):
                b2 = text.find('{', j)
                if flat(text[j + 4:b2]) != '':
                    raise GenError(f"{where}: `else if` is outside the translated subset")
                e2 = match_close(text, b2)
                els = parse_stmts(text[b2 + 1:e2], where)
                j = e2 + 1
            out.append(('if', cond, then, els))
            i = j
            continue
        m = re.compile(r'([\w.\[\] -]+?)\s*(-=|=)\s*([^;{}]+);').match(text, i)
        if m:
            out.append(('assign', flat(m.group(1)), m.group(2), flat(m.group(3))))
            i = m.end()
            continue
        raise GenError(f"{where}: statement `{flat(text[i:i + 80])}` is outside the translated subset")


def byte_lit(s, where):
    m = re.fullmatch(r"b'(\\.|[^\\'])'", s)
    if not m:
        raise GenError(f"{where}: `{s}` is not a byte literal")
    c = m.group(1)
    if c.startswith('\\'):
        esc = {'n': 10, 't': 9, 'r': 13, '0': 0, '\\': 92, "'": 39, '"': 34}
        if c[1] not in esc:
            raise GenError(f"{where}: byte literal escape `{c}`")
        return esc[c[1]]
    return ord(c)


class Arm:
    def __init__(self, variant, mod, sname, var):
        self.variant, self.mod, self.sname, self.var = variant, mod, sname, var
        self.where = f"{W}: as_bytes arm {variant}"
        self.ops = []
        self.used = set()

    def field(self, expr):
        pre = self.var + '.'
        if not expr.startswith(pre):
            raise GenError(f"{self.where}: `{expr}` is not a field of `{self.var}`")
        path = expr[len(pre):]
        off, r, top = resolve_path(self.mod, self.sname, path, self.where)
        self.used.add(top)
        return path, off, r, top

    def intref(self, expr):
        path, off, r, top = self.field(expr)
        p = as_prim(r, f"{self.where}: `{expr}`")
        return {'path': path, 'top': top, 'off': off, 'prim': p}

    def claimed(self, t):
        m = re.fullmatch(r'(\w+)::(\w+)', t)
        if m:
            if m.group(1) != self.mod.name:
                raise GenError(f"{self.where}: type `{t}` names another platform module")
            t = m.group(2)
        r = rtype(self.mod, t)
        if r[0] == 'float':
            return None
        return as_prim(r, f"{self.where}: macro type argument `{t}`")

    def stmts(self, ss):
        k = 0
        while k < len(ss):
            s = ss[k]
            if s[0] == 'assign':
                if s[1:] == ('dt_beg', '=', 'at'):
                    self.ops.append(('dtBeg',))
                elif s[1:] == ('dt_end', '=', 'at'):
                    self.ops.append(('dtEnd',))
                else:
                    raise GenError(f"{self.where}: assignment `{s[1]} {s[2]} {s[3]}` is outside the translated subset")
            elif s[0] == 'macro':
                self.macro(s[1], s[2])
            else:
                self.cond(s)
            k += 1

    def macro(self, name, a):
        if len(a) < 3 or a[0] != 'buffer' or a[1] != 'at':
            raise GenError(f"{self.where}: `{name}!` is not invoked as `(buffer, at, ..)`")
        a = a[2:]
        if name == 'set_buffer_at_or_err_str' and len(a) == 1:
            self.ops.append(('str', str_lit(a[0])))
        elif name == 'set_buffer_at_or_err_u8' and len(a) == 1:
            self.ops.append(('byte', byte_lit(a[0], self.where)))
        elif name in ('set_buffer_at_or_err_ut_type_i16', 'set_buffer_at_or_err_ut_type_u16') and len(a) == 1:
            f = self.intref(a[0])
            want = (name.endswith('i16'), 2)
            if f['prim'] != want:
                raise GenError(f"{self.where}: `{name}!` applied to `{a[0]}` of type {gf.prim_name(('int',) + f['prim'])}")
            self.ops.append(('utType', f, want))
        elif name == 'set_buffer_at_or_err_number' and len(a) == 2:
            f = self.intref(a[0])
            c = self.claimed(a[1])
            if c is None:
                raise GenError(f"{self.where}: `{name}!` with a float type argument")
            self.ops.append(('num', f, c, a[1]))
        elif name == 'set_buffer_at_or_err_number_f32' and len(a) == 2:
            path, off, r, top = self.field(a[0])
            if r != ('float', 4) or a[1] != 'f32':
                raise GenError(f"{self.where}: `{name}!` applied to `{a[0]}` which is not an f32 field (or type argument `{a[1]}`)")
            self.ops.append(('f32', path, top, off))
        elif name == 'set_buffer_at_or_err_number_bin4' and len(a) == 2:
            f = self.intref(a[0])
            if f['prim'][1] != 1:
                raise GenError(f"{self.where}: `{name}!` applied to a field wider than one byte")
            c = self.claimed(a[1])
            self.ops.append(('bin4', f, c, a[1]))
        elif name == 'set_buffer_at_or_err_cstrn' and len(a) == 1:
            path, off, r, top = self.field(a[0])
            if r[0] != 'array' or r[1][0] not in ('char', 'int') or tsize(self.mod, r[1]) != 1:
                raise GenError(f"{self.where}: `{name}!` applied to `{a[0]}` which is not an array of one-byte elements")
            signed = as_prim(r[1], self.where)[0]
            self.ops.append(('cstrn', path, top, off, r[2], signed))
        else:
            raise GenError(f"{self.where}: macro `{name}!` ({len(a)} value arguments) is outside the translated subset")

    def cond(self, s):
        _, cond, then, els = s
        v = re.escape(self.var)
        m = re.fullmatch(r'(' + v + r'\.[\w.]+) != 0', cond)
        if m and els is None:
            return self.flag_block(m.group(1), then)
        m = re.fullmatch(r'(' + v + r'\.[\w.]+)\[1\.\.4\]\.iter\(\)\.all\(\|&x\| x == 0\)', cond)
        if m and els is not None:
            return self.addr_block(m.group(1), then, els)
        raise GenError(f"{self.where}: `if {cond[:80]}` is outside the translated subset")

    def flag_block(self, fexpr, body):
        f = self.intref(fexpr)
        if f['prim'][1] != 1:
            raise GenError(f"{self.where}: flag block on a field wider than one byte")
        w = f"{self.where}: flag block on `{fexpr}`"
        if len(body) < 3 or body[0][0] != 'macro' or body[0][1] != 'set_buffer_at_or_err_str' or body[0][2][:2] != ['buffer', 'at']:
            raise GenError(f"{w}: does not start with set_buffer_at_or_err_str!")
        opn = str_lit(body[0][2][2])
        if not opn or opn.endswith('|'):
            raise GenError(f"{w}: the opening literal is empty or ends with `|` (the `buffer[at - 1] == b'|'` test would see it)")
        names = []
        k = 1
        while k < len(body) and body[k][0] == 'if':
            _, c, t, e = body[k]
            m = re.fullmatch(re.escape(fexpr) + r' & (\w+)::(\w+) != 0', c)
            if not m:
                break
            if e is not None or len(t) != 1 or t[0][0] != 'macro' or t[0][1] != 'set_buffer_at_or_err_str' or t[0][2][:2] != ['buffer', 'at']:
                raise GenError(f"{w}: `if {c}` body is not a single set_buffer_at_or_err_str!")
            if m.group(1) != self.mod.name:
                raise GenError(f"{w}: mask constant of another module `{m.group(1)}`")
            mask = flag_const(self.mod, m.group(2), w)
            names.append((mask, str_lit(t[0][2][2]), m.group(2)))
            k += 1
        if len(body) != k + 2:
            raise GenError(f"{w}: unexpected statements after the mask tests")
        _, c, t, e = body[k] if body[k][0] == 'if' else (None, None, None, None)
        if c != "buffer[at - 1] == b'|'" or e is not None or t != [('assign', 'at', '-=', '1')]:
            raise GenError(f"{w}: expected `if buffer[at - 1] == b'|' {{ at -= 1; }}`")
        last = body[k + 1]
        if last[0] != 'macro' or last[1] != 'set_buffer_at_or_err_str' or last[2][:2] != ['buffer', 'at']:
            raise GenError(f"{w}: does not end with set_buffer_at_or_err_str!")
        self.ops.append(('flagNames', f, opn, names, str_lit(last[2][2])))

    def addr_block(self, fexpr, then, els):
        w = f"{self.where}: address block on `{fexpr}`"
        path, off, r, top = self.field(fexpr)
        if r[0] != 'array' or r[2] != 4 or r[1][0] != 'int' or r[1][2] != 4:
            raise GenError(f"{w}: field is not an array of four 32-bit integers")

        def two(ss, macro, arg):
            if len(ss) != 2 or any(x[0] != 'macro' for x in ss) or ss[0][1] != 'set_buffer_at_or_err_str' \
               or ss[0][2][:2] != ['buffer', 'at'] or ss[1][1] != macro or ss[1][2] != ['buffer', 'at', arg]:
                raise GenError(f"{w}: branch is not `set_buffer_at_or_err_str!(..); {macro}!(buffer, at, {arg});`")
            return str_lit(ss[0][2][2])
        l4 = two(then, 'set_buffer_at_or_err_ipv4', fexpr + '[0]')
        l6 = two(els, 'set_buffer_at_or_err_ipv6', fexpr)
        self.ops.append(('addr', path, top, off, (r[1][1], r[1][2]), l4, l6))


def flag_const(mod, name, where):
    m = re.search(r'\bpub\s+const\s+' + re.escape(name) + r'\s*:\s*(\w+)\s*=\s*([^;]+);', mod.body)
    if not m:
        raise GenError(f"{where}: constant {mod.name}::{name} not found")
    v = flat(m.group(2))
    if not re.fullmatch(r'[0-9][0-9a-fA-Fx_]*', v):
        raise GenError(f"{where}: constant {mod.name}::{name} = `{v}` is not an integer literal")
    n = int_lit(v)
    if not 0 < n < 128:
        raise GenError(f"{where}: constant {mod.name}::{name} = {n} is not a positive value that fits both i8 and u8")
    return n


# ---------------------------------------------------------------------------------------------
def ut_type_table(src):
    m = re.search(r'pub\s+const\s+UT_TYPE_VAL_TO_STR\s*:\s*&\[&str\]\s*=\s*&\[', src)
    if not m:
        raise GenError(f"{W}: `pub const UT_TYPE_VAL_TO_STR: &[&str] = &[..]` not found")
    b = m.end() - 1
    e = match_close(src, b)
    names = [str_lit(x) for x in split_top(src[b + 1:e], ',') if x.strip()]
    for t in ('i16', 'u16'):
        if not re.search(r'pub\s+const\s+UT_TYPE_VAL_TO_STR_LEN_' + t + r'\s*:\s*' + t + r'\s*=\s*UT_TYPE_VAL_TO_STR\.len\(\)\s+as\s+' + t + r'\s*;', src):
            raise GenError(f"{W}: UT_TYPE_VAL_TO_STR_LEN_{t} is not `UT_TYPE_VAL_TO_STR.len() as {t}`")
    if not names or len(names) > 127 or any(not n or not n.isascii() for n in names):
        raise GenError(f"{W}: UT_TYPE_VAL_TO_STR has an empty/non-ASCII name or too many entries")
    return names


def print_buffer_size(repo, mods, sizes):
    s4 = strip_comments(open(os.path.join(repo, 'src/bin/s4.rs')).read())
    if not re.search(r'let\s+mut\s+buffer_utmp\s*:\s*\[u8;\s*ENTRY_SZ_MAX\s*\*\s*2\]\s*=\s*\[0;\s*ENTRY_SZ_MAX\s*\*\s*2\];', s4) or \
       not re.search(r'printer\.print_fixedstruct\(\s*entry\s*,\s*&mut\s+buffer_utmp\s*\)', s4):
        raise GenError("src/bin/s4.rs: the accounting-record print buffer is not `[u8; ENTRY_SZ_MAX * 2]` handed to print_fixedstruct")
    src = strip_comments(open(os.path.join(repo, W)).read())
    m = re.search(r'pub\s+const\s+ENTRY_SZ_MAX\s*:\s*usize\s*=\s*max16\(', src)
    if not m:
        raise GenError(f"{W}: ENTRY_SZ_MAX is not `max16(..)`")
    p = m.end() - 1
    e = match_close(src, p)
    vals = []
    for a in split_top(src[p + 1:e], ','):
        a = flat(a)
        if not a:
            continue
        mm = re.fullmatch(r'(\w+)::(\w+)', a)
        if not mm or mm.group(1) not in mods:
            raise GenError(f"{W}: ENTRY_SZ_MAX argument `{a}`")
        vals.append(mods[mm.group(1)].const_eval(mm.group(2)))
    if sorted(vals) != sorted(sizes):
        raise GenError(f"{W}: ENTRY_SZ_MAX is not the maximum over exactly the sizes of the FixedStructType layouts")
    return 2 * max(vals)


PAD_RE = re.compile(r'^__|pad|gap|spare|reserved|unused', re.I)


def lprim(p):
    return f"⟨{'true' if p[0] else 'false'}, {p[1]}⟩"


def lref(f):
    return f"⟨{lean_str(f['path'])}, {f['top']}, {f['off']}, {lprim(f['prim'])}⟩"


def lop(op):
    k = op[0]
    if k == 'str':
        return f".str {lean_bytes(op[1])} /- {lean_str(op[1])} -/"
    if k == 'byte':
        return f".byte {op[1]}"
    if k in ('dtBeg', 'dtEnd'):
        return '.' + k
    if k == 'utType':
        return f".utType {lref(op[1])} {lprim(op[2])}"
    if k == 'num':
        return f".num {lref(op[1])} {lprim(op[2])} /- as {op[3]} -/"
    if k == 'f32':
        return f".f32 {lean_str(op[1])} {op[2]} {op[3]}"
    if k == 'bin4':
        return f".bin4 {lref(op[1])} /- as {op[3]} -/"
    if k == 'cstrn':
        return f".cstrn {lean_str(op[1])} {op[2]} {op[3]} {op[4]} {'true' if op[5] else 'false'}"
    if k == 'flagNames':
        names = ', '.join(f"({m}, {lean_bytes(s)} /- {lean_str(s)} -/)" for m, s, _ in op[3])
        return f".flagNames {lref(op[1])} {lean_bytes(op[2])} [{names}] {lean_bytes(op[4])}"
    if k == 'addr':
        return (f".addr {lean_str(op[1])} {op[2]} {op[3]} {lprim(op[4])} {lean_bytes(op[5])} /- {lean_str(op[5])} -/ "
                f"{lean_bytes(op[6])} /- {lean_str(op[6])} -/")
    raise AssertionError(k)


def generate(repo):
    src = strip_comments(open(os.path.join(repo, W)).read())
    mods = gf.parse_modules(src)
    gf.check_asserts(mods)
    check_macros(src)
    variants = gf.enum_variants(src)
    impl = gf.impl_body(src)
    sizes = gf.const_table(impl, 'size', variants, mods)
    names = ut_type_table(src)

    _, body, _ = find_fn(src, 'as_bytes')
    body = strip_trace(body)
    fb = flat(body)
    pro = ('let entry: &FixedStructDynPtr = &self.fixedstructptr; let mut at: usize = 0; let dt_beg: BufIndex; '
           'let dt_end: BufIndex; match entry.fixedstruct_type() {')
    if not fb.startswith(pro):
        raise GenError(f"{W}: as_bytes: prologue is not `entry = &self.fixedstructptr; at = 0; dt_beg; dt_end; match entry.fixedstruct_type()`")
    mpos = body.find('match entry.fixedstruct_type()')
    b = body.find('{', mpos)
    e = match_close(body, b)
    # epilogue: zero or more `set_buffer_at_or_err_u8!(buffer, at, b'c');` then the two assertions and the Ok value
    epi_where = f"{W}: as_bytes epilogue"
    epi = parse_stmts(body[e + 1:body.rfind('InfoAsBytes::Ok')], epi_where)
    tail = flat(body[body.rfind('InfoAsBytes::Ok'):])
    epilogue = []
    rest = []
    for st in epi:
        if st[0] == 'macro' and st[1] == 'set_buffer_at_or_err_u8' and st[2][:2] == ['buffer', 'at'] and len(st[2]) == 3 and not rest:
            epilogue.append(byte_lit(st[2][2], epi_where))
        else:
            rest.append(st)
    if rest != [('macro', 'debug_assert_le', ['dt_beg', 'dt_end']), ('macro', 'debug_assert_le', ['dt_end', 'at'])] \
       or tail != 'InfoAsBytes::Ok(at, dt_beg, dt_end)':
        raise GenError(f"{epi_where}: not `[set_buffer_at_or_err_u8!(buffer, at, b'c');]* debug_assert_le!(dt_beg, dt_end); "
                       f"debug_assert_le!(dt_end, at); InfoAsBytes::Ok(at, dt_beg, dt_end)`")

    arms = {}
    for pat, val in match_arms(body[b + 1:e]):
        pm = re.fullmatch(r'FixedStructType::(\w+)', pat.strip())
        if not pm:
            raise GenError(f"{W}: as_bytes: arm pattern `{pat[:60]}`")
        v = pm.group(1)
        hm = re.match(r'\s*let (\w+): &(\w+)::(\w+) = entry\.as_(\w+)\(\);', val)
        if not hm:
            raise GenError(f"{W}: as_bytes arm {v}: does not start with `let V: &M::S = entry.as_M_S();`")
        if hm.group(4) != hm.group(2) + '_' + hm.group(3) or hm.group(2) not in mods:
            raise GenError(f"{W}: as_bytes arm {v}: as_{hm.group(4)}() does not match &{hm.group(2)}::{hm.group(3)}")
        mod = mods[hm.group(2)]
        if v not in sizes or sizes[v][0] != mod.name or sizes[v][2].replace(' ', '') != f"size_of::<{hm.group(3)}>()":
            raise GenError(f"{W}: as_bytes arm {v}: renders {mod.name}::{hm.group(3)} but FixedStructType::size() is "
                           f"{sizes.get(v, ('?', '?', '?'))[2]}")
        if v in arms:
            raise GenError(f"{W}: as_bytes: variant {v} twice")
        arm = Arm(v, mod, hm.group(3), hm.group(1))
        arm.stmts(parse_stmts(val[hm.end():], arm.where))
        if [o[0] for o in arm.ops].count('dtBeg') != 1 or [o[0] for o in arm.ops].count('dtEnd') != 1:
            raise GenError(f"{arm.where}: dt_beg / dt_end are not each assigned exactly once")
        arms[v] = arm
    if sorted(arms) != sorted(variants):
        raise GenError(f"{W}: as_bytes: arms do not cover the enum's variants exactly")
    bufsz = print_buffer_size(repo, mods, [sizes[v][3] for v in variants])

    L = ['-- GENERATED by /verif/gen/s4gen.py — do not edit',
         'import S4V.Gen.Fixed',
         'namespace S4V.Gen.FixedRender',
         'open S4V.Gen.Fixed (Prim)', '',
         '/-- reference to an integer inside the record: path as written after the struct variable, index of the',
         'TOP-LEVEL struct field it lies in, byte offset in the record, primitive type of the FIELD as declared -/',
         'structure IntRef where',
         '  path : String',
         '  top : Nat',
         '  off : Nat',
         '  prim : Prim',
         '  deriving DecidableEq, Repr, Inhabited', '',
         '/-- one op per `set_buffer_at_or_err_*!` macro used by `FixedStruct::as_bytes` (see gen/gen_fixedrender.py) -/',
         'inductive Op',
         '  /-- `set_buffer_at_or_err_str!(buffer, at, "..")` -/',
         '  | str (s : List UInt8)',
         '  /-- `set_buffer_at_or_err_u8!(buffer, at, b\'c\')` -/',
         '  | byte (b : UInt8)',
         '  /-- `dt_beg = at;` -/',
         '  | dtBeg',
         '  /-- `dt_end = at;` -/',
         '  | dtEnd',
         '  /-- `set_buffer_at_or_err_ut_type_{i16,u16}!`; `macroPrim` is the macro\'s integer type -/',
         '  | utType (f : IntRef) (macroPrim : Prim)',
         '  /-- `set_buffer_at_or_err_number!(buffer, at, V.path, T)`; `claimed` = T resolved (used by the macro only in a size',
         '  assertion; the value is printed with the field\'s own type) -/',
         '  | num (f : IntRef) (claimed : Prim)',
         '  /-- `set_buffer_at_or_err_number_f32!`: field path, top-level field index, offset (4 bytes, IEEE-754 binary32) -/',
         '  | f32 (path : String) (top : Nat) (off : Nat)',
         '  /-- `set_buffer_at_or_err_number_bin4!` (`format!("0b{:04b}", v)`) on a one-byte field -/',
         '  | bin4 (f : IntRef)',
         '  /-- `set_buffer_at_or_err_cstrn!`: path, top-level field index, offset, array length, element type signed (`c_char`/`i8`) or not (`u8`) -/',
         '  | cstrn (path : String) (top : Nat) (off : Nat) (len : Nat) (elemSigned : Bool)',
         '  /-- `if V.f != 0 { str opn; [if V.f & mask != 0 { str name }]*; if buffer[at - 1] == b\'|\' { at -= 1; } str cls }` -/',
         '  | flagNames (f : IntRef) (opn : List UInt8) (names : List (Nat × List UInt8)) (cls : List UInt8)',
         '  /-- `if V.f[1..4].iter().all(|&x| x == 0) { str lbl4; ipv4!(V.f[0]) } else { str lbl6; ipv6!(V.f) }` on `[i32; 4]` at `off` -/',
         '  | addr (path : String) (top : Nat) (off : Nat) (word : Prim) (lbl4 lbl6 : List UInt8)',
         '  deriving DecidableEq, Repr, Inhabited', '',
         '/-- a top-level field of the `#[repr(C, ..)]` struct: name, byte offset, size, declared type as written,',
         'and whether the NAME marks it as padding (`__*`, `*pad*`, `*gap*`, `*spare*`, `*reserved*`, `*unused*`) -/',
         'structure Field where',
         '  name : String',
         '  off : Nat',
         '  size : Nat',
         '  ty : String',
         '  pad : Bool',
         '  deriving DecidableEq, Repr, Inhabited', '',
         'structure LayoutR where',
         '  /-- `FixedStructType` variant -/',
         '  name : String',
         '  /-- `module::struct` the record is cast to -/',
         '  struct : String',
         '  /-- size of that struct (= `FixedStructType::size()`, checked by the translator) -/',
         '  size : Nat',
         '  fields : List Field',
         '  /-- implicit alignment holes `(offset, size)` between / after the fields -/',
         '  holes : List (Nat × Nat)',
         '  /-- the render program of this variant\'s `as_bytes` arm -/',
         '  prog : List Op',
         '  /-- indices (into `fields`) of the fields the program never reads -/',
         '  omitted : List Nat',
         '  deriving DecidableEq, Repr, Inhabited', '',
         '/-- target assumption: `std::ffi::c_char` is `i8` (x86_64) -/',
         f"def cCharSigned : Bool := {'true' if C_CHAR_SIGNED else 'false'}", '',
         '/-- `UT_TYPE_VAL_TO_STR` (`UT_TYPE_VAL_TO_STR_LEN_i16` / `_u16` are its length) -/',
         'def utTypeNames : List (List UInt8) := [']
    L.append(',\n'.join(f"  {lean_bytes(n)} /- {lean_str(n)} -/" for n in names) + ']')
    L += ['',
          '/-- what `as_bytes` writes after every arm through `set_buffer_at_or_err_u8!`, all of it counted in the returned length',
          '(unchanged tree: `\\n` then NUL — known finding F12) -/',
          f'def epilogue : List UInt8 := {lean_bytes(bytes(epilogue))}', '',
          '/-- the buffer `s4` hands to `print_fixedstruct` → `as_bytes`: `[u8; ENTRY_SZ_MAX * 2]` (src/bin/s4.rs) -/',
          f'def printBufferSize : Nat := {bufsz}', '',
          'def layouts : List LayoutR := [']
    rows = []
    info = {}
    for v in variants:
        arm = arms[v]
        lay = arm.mod.layout(arm.sname)
        frows = []
        cur = 0
        holes = []
        for fn in lay['order']:
            off, fs, ft, _ = lay['fields'][fn]
            if off < cur:
                raise GenError(f"{W}: struct {arm.mod.name}::{arm.sname}: field {fn} overlaps its predecessor")
            if off > cur:
                holes.append((cur, off - cur))
            cur = off + fs
            frows.append(f"⟨{lean_str(fn)}, {off}, {fs}, {lean_str(ft)}, {'true' if PAD_RE.search(fn) else 'false'}⟩")
        if cur < lay['size']:
            holes.append((cur, lay['size'] - cur))
        omitted = [i for i in range(len(lay['order'])) if i not in arm.used]
        rows.append(f"  {{ name := {lean_str(v)}, struct := {lean_str(arm.mod.name + '::' + arm.sname)}, size := {lay['size']},\n"
                    f"    fields := [{', '.join(frows)}],\n"
                    f"    holes := [{', '.join(f'({a}, {b})' for a, b in holes)}],\n"
                    f"    prog := [\n      " + ',\n      '.join(lop(o) for o in arm.ops) + "],\n"
                    f"    omitted := [{', '.join(str(i) for i in omitted)}] }}")
        info[v] = {'ops': len(arm.ops), 'omitted': [lay['order'][i] for i in omitted]}
    L.append(',\n'.join(rows) + ']')
    L += ['', 'def layoutNamed (n : String) : Option LayoutR := layouts.find? (·.name = n)', '',
          'end S4V.Gen.FixedRender']
    return '\n'.join(L) + '\n', {'variants': len(variants), 'macros_checked': len(MACROS), 'table': info}


def harness_table(repo):
    """Rust source of the per-layout hint table pasted into harness/src/c_frender.rs (used only to FORCE interesting
    values into generated records; requests carry whole records, so a stale table weakens coverage, not soundness)"""
    src = strip_comments(open(os.path.join(repo, W)).read())
    mods = gf.parse_modules(src)
    variants = gf.enum_variants(src)
    _, body, _ = find_fn(src, 'as_bytes')
    body = strip_trace(body)
    b = body.find('{', body.find('match entry.fixedstruct_type()'))
    e = match_close(body, b)
    out = []
    for pat, val in match_arms(body[b + 1:e]):
        v = re.fullmatch(r'FixedStructType::(\w+)', pat.strip()).group(1)
        hm = re.match(r'\s*let (\w+): &(\w+)::(\w+) = entry\.as_(\w+)\(\);', val)
        arm = Arm(v, mods[hm.group(2)], hm.group(3), hm.group(1))
        arm.stmts(parse_stmts(val[hm.end():], arm.where))
        hints = []
        in_dt = False
        for o in arm.ops:
            if o[0] == 'dtBeg':
                in_dt = True
            elif o[0] == 'dtEnd':
                in_dt = False
            elif o[0] == 'num':
                k = 'Sec' if in_dt and o[1]['path'].split('.')[-1] != 'tv_usec' else ('Usec' if in_dt else 'Int')
                hints.append(f"H::{k}({o[1]['off']}, {o[1]['prim'][1]}, {'true' if o[1]['prim'][0] else 'false'})")
            elif o[0] == 'utType':
                hints.append(f"H::UtType({o[1]['off']})")
            elif o[0] == 'cstrn':
                hints.append(f"H::Cstr({o[3]}, {o[4]})")
            elif o[0] == 'f32':
                hints.append(f"H::F32({o[3]})")
            elif o[0] == 'bin4':
                hints.append(f"H::Flag({o[1]['off']})")
            elif o[0] == 'addr':
                hints.append(f"H::Addr({o[3]})")
        out.append(f"    ({v}, &[{', '.join(hints)}]),")
    return '\n'.join(out)


if __name__ == '__main__':
    import sys
    print(harness_table(sys.argv[1] if len(sys.argv) > 1 else '/repo'))
