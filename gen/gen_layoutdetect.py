"""Generate S4V/Gen/LayoutDetect.lean: which of the `FixedStructType` layouts an accounting-record file is read
with (src/data/fixedstruct.rs `filesz_to_types`, `buffer_to_fixedstructptr`, `FixedStruct::score_fixedstruct`;
src/readers/fixedstructreader.rs `FixedStructReader::new` -> `preprocess_fixedstructtype` -> `score_file`).

Emitted:

  * `kinds`            the `FileTypeFixedStruct` variants (src/common.rs), in declaration order
  * `BONUS`, `bonusRows`, `allRows`
                       `filesz_to_types`: per kind the ordered `(variant, divisor)` rows of
                       `if filesz % M::X_SZ_FO == 0 { set.insert(FixedStructType::V, BONUS); }`, then the ordered
                       rows `(variant, divisor, v)` of `if filesz % .. == 0 { set.entry(V).or_insert(v); }`;
                       every divisor constant is evaluated and must be `M::X_SZ as FileOffset`
  * `setIsOrdered`, `declOrder`
                       `type FixedStructTypeSet = BTreeMap<..>` (true: iteration in key order = the derived `Ord` of the enum =
                       declaration order, emitted as `declOrder`; checked: the enum derives `PartialOrd, Ord`, no hand-written
                       impl, plain variants) or `HashMap<..>` (false: iteration order unspecified, std `RandomState`)
  * per variant the *score program* of its `score_fixedstruct` arm: one op per `score_fixedstruct_*!` invocation,
    in source order, every field reference resolved to (offset, length / primitive) with the struct layout
    machinery of gen_fixed.py / gen_fixedrender.py. `score_fixedstruct_cstr!(score, V.f())` is resolved through
    the accessor `pub fn f(&self) -> &CStr { unsafe { CStr::from_ptr(self.g[..N].as_ptr()) } }`: the string
    starts at field `g` and ends at the first NUL byte *wherever that is* (`from_ptr` = `strlen`), so only the
    offset bounds it from the left; `N <= len(g)` is checked (the slice would panic otherwise).
  * the numeric constants of the eight `score_fixedstruct_*!` macros (captured from their bodies; everything else
    in the bodies is compared verbatim), `EPOCH_SECOND_LOW/HIGH`, `COUNT_FOUND_ENTRIES_MAX` (the `cfg(not(test))`
    one), the two comparison operators of `score_file` (`score <= high_score` => keep; `high_score >
    highest_score` => replace), `ENTRY_SZ_MIN`, the null-record tests of `buffer_to_fixedstructptr`.

Anything outside the recognised shapes raises GenError naming the item.
Target assumption (as gen_fixed.py): x86_64 — little-endian, `c_char` = `i8`.
"""
import os
import re
from rs import GenError, strip_comments, find_fn, match_close, match_arms, split_top, int_lit, lean_str
from gen_path import strip_trace
import gen_fixed as gf
import gen_fixedrender as gr

W = gf.W
R = 'src/readers/fixedstructreader.rs'
flat = gf.flat

INT = r'(\d[\d_]*)'

# macro bodies (whitespace-flattened, tracing stripped) with the numeric constants captured
MACROS = {
    'score_fixedstruct_cstr': (
        r"\(\$score:ident, \$cstr:expr\) => \{\{ let cstr_: &CStr = \$cstr; if !is_empty\(cstr_\) \{ \$score \+= " + INT +
        r"; for c in cstr_\.to_bytes\(\)\.iter\(\) \{ match c \{ &\(b'(.)'\.\.=b'(.)'\) => \$score \+= " + INT +
        r", 0xFF => \$score -= " + INT + r", _ => \$score -= " + INT + r", \} \} \} \}\};",
        ('cstrNonEmpty', 'cstrLo', 'cstrHi', 'cstrPrintable', 'cstrFF', 'cstrOther')),
    'score_fixedstruct_cstr_no_data_after_null': (
        r"\(\$score:ident, \$buffer:expr\) => \{\{ let mut found_null: bool = false; for b in \$buffer\.iter\(\) \{ "
        r"if \*b == 0 \{ found_null = true; continue; \} if !found_null \{ continue; \} match b \{ "
        r"_ if \*b != 0 => \$score -= " + INT + r", _ => \{\} \} \} \}\};",
        ('afterNull',)),
    'score_fixedstruct_cstr_null_terminator': (
        r"\(\$score:ident, \$buffer:expr\) => \{\{ if let Some\(b\) = \$buffer\.iter\(\)\.nth\(\$buffer\.len\(\) - 1\) \{ "
        r"if \*b == 0 \{ \$score \+= " + INT + r"; \} else \{ \$score -= " + INT + r"; \} \} \}\};",
        ('termYes', 'termNo')),
    'score_fixedstruct_buffer_all_null': (
        r"\(\$score:ident, \$buffer:expr\) => \{\{ let mut all_zero: bool = true; "
        r"if let Some\(b\) = \$buffer\.iter\(\)\.nth\(\$buffer\.len\(\) - 1\) \{ if \*b != 0 \{ \$score -= " + INT +
        r"; all_zero = false; \} \} if all_zero && \$buffer\.len\(\) > 0 \{ \$score \+= " + INT + r"; \} \}\};",
        ('allNullNo', 'allNullYes')),
    'score_fixedstruct_value_not_zero': (
        r"\(\$score:ident, \$value:expr\) => \{\{ if \$value != 0 \{ \$score \+= " + INT + r"; \} else \{ \$score -= " + INT + r"; \} \}\};",
        ('notZeroYes', 'notZeroNo')),
    'score_fixedstruct_ut_type': (
        r"\(\$score:ident, \$value:expr, \$ut_types:expr\) => \{\{ for ut_type in \$ut_types \{ if \$value == ut_type \{ "
        r"\$score \+= " + INT + r"; if \$value != 0 \{ \$score \+= " + INT + r"; \} break; \} \} \}\};",
        ('utTypeKnown', 'utTypeNonZero')),
    'score_fixedstruct_ac_flags': (
        r"\(\$score:ident, \$value:expr, \$flags:expr\) => \{\{ if \$value == 0 \{ \$score \+= " + INT +
        r"; \} else if \(!\$flags\) & \$value != 0 \{ \$score -= " + INT + r"; \} else \{ \$score \+= " + INT + r"; \} \}\};",
        ('flagsZero', 'flagsBad', 'flagsGood')),
    'score_fixedstruct_time_range': (
        r"\(\$score:ident, \$value:expr\) => \{\{ let val = \$value; let value_as: tv_sec_type = match val\.try_into\(\) \{ "
        r"Ok\(val_\) => val_, Err\(_err\) => \{ 0 \} \}; if EPOCH_SECOND_LOW <= value_as && value_as <= EPOCH_SECOND_HIGH \{ "
        r"\$score \+= " + INT + r"; \} else \{ \$score -= " + INT + r"; \} if value_as == 0 \{ \$score -= " + INT + r"; \} \}\};",
        ('timeIn', 'timeOut', 'timeZero')),
}

SCORE_FILE = (
    r"#\[cfg\(debug_assertions\)\] \{ for \(fixedstructtype, bonus\) in types_to_bonus\.iter\(\) \{ \} \} "
    r"let mut buffer: \[u8; ENTRY_SZ_MAX\] = \[0; ENTRY_SZ_MAX\]; #\[cfg\(not\(test\)\)\] const COUNT_FOUND_ENTRIES_MAX: usize = " + INT +
    r"; #\[cfg\(test\)\] const COUNT_FOUND_ENTRIES_MAX: usize = \d+; let mut _count_total: usize = 0; let mut highest_score: Score = 0; "
    r"let mut highest_score_type: Option<FixedStructType> = None; let mut highest_score_entries = ListFileOffsetFixedStructPtr::new\(\); "
    r"for \(fixedstructtype, bonus\) in types_to_bonus\.into_iter\(\) \{ let mut _count_loop: usize = 0; let mut count_found_entries: usize = 0; "
    r"let mut high_score: Score = 0; let mut fo: FileOffset = 0; let mut found_entries = ListFileOffsetFixedStructPtr::new\(\); "
    r"loop \{ if count_found_entries >= COUNT_FOUND_ENTRIES_MAX \{ break; \} _count_total \+= 1; _count_loop \+= 1; "
    r"let utmp_sz: usize = fixedstructtype\.size\(\); let fo_end = fo \+ utmp_sz as FileOffset; buffer\.iter_mut\(\)\.for_each\(\|m\| \*m = 0\); "
    r"let buffer_read: usize = match blockreader\.read_data_to_buffer\( fo, fo_end, oneblock, &mut buffer, \) \{ "
    r"ResultReadDataToBuffer::Found\(buffer_read\) => buffer_read, ResultReadDataToBuffer::Err\(err\) => \{ "
    r"return ResultFixedStructReaderScoreFileError::FileErrIo\(err\); \} ResultReadDataToBuffer::Done => \{ break; \} \}; "
    r"if buffer_read < utmp_sz \{ break; \} let fo2 = fo; fo \+= utmp_sz as FileOffset; let slice_ = &buffer\[\.\.buffer_read\]; "
    r"let fixedstructptr: FixedStructDynPtr = match buffer_to_fixedstructptr\(slice_, fixedstructtype\) \{ Some\(val\) => val, None => \{ continue; \} \}; "
    r"count_found_entries \+= 1; let score: Score = FixedStruct::score_fixedstruct\(&fixedstructptr, bonus\); "
    r"let _fs_type: FixedStructType = fixedstructptr\.fixedstruct_type\(\); found_entries\.push_back\(\(fo2, fixedstructptr\)\); "
    r"if score (<=|<) high_score \{ continue; \} high_score = score; \} "
    r"if high_score (>=|>) highest_score \{ match highest_score_type \{ None => \{ \} Some\(_highest_score_type\) => \{ \} \} "
    r"highest_score = high_score; highest_score_type = Some\(fixedstructtype\); highest_score_entries = found_entries; \} else \{ \} \} "
    r"match highest_score_type \{ None => \{ return ResultFixedStructReaderScoreFileError::FileErrNoHighScore; \} "
    r"Some\(highest_score_type\) => \{ ResultFixedStructReaderScoreFileError::FileOk\(highest_score_type, highest_score, highest_score_entries\) \} \}")

PREPROCESS = (
    "if blockreader.filesz() == 0 { return ResultFixedStructReaderScoreFileError::FileErrEmpty; } "
    "let types_to_bonus: FixedStructTypeSet = match filesz_to_types( blockreader.filesz(), filetype_fixedstruct, ) { Some(set) => set, "
    "None => { return ResultFixedStructReaderScoreFileError::FileErrNoValidFixedStruct; } }; "
    "match FixedStructReader::score_file(blockreader, oneblock, types_to_bonus) { ret => { ret } }")

NEW_HEAD = (
    "let mut blockreader = match BlockReader::new( path.clone(), filetype, blocksz ) { Ok(blockreader_) => blockreader_, "
    "Err(err) => { return ResultFixedStructReaderNew::FileErrIo(err); } }; let filetype_fixedstruct = match filetype { "
    "FileType::FixedStruct { archival_type: _, fixedstruct_type: type_ } => type_, _ => { debug_panic!(\"Unexpected FileType: {:?}\", filetype); "
    "return ResultFixedStructReaderNew::FileErrIo( Error::new( ErrorKind::InvalidData, format!(\"Unexpected FileType {:?}\", filetype), ) ); } }; "
    "const ENTRY_SZ_MIN_FSZ: FileSz = ENTRY_SZ_MIN as FileSz; if blockreader.filesz() == 0 { return ResultFixedStructReaderNew::FileErrEmpty; } "
    "else if blockreader.filesz() < ENTRY_SZ_MIN_FSZ { return ResultFixedStructReaderNew::FileErrTooSmall( format!( "
    "\"file size {} < {} (ENTRY_SZ_MIN), file {:?}\", blockreader.filesz(), ENTRY_SZ_MIN_FSZ, path, ) ); } "
    "if blockreader.is_streamed_file() { blockreader.disable_drop_data(); } let ( fixedstruct_type, high_score, list_entries, ) = "
    "match FixedStructReader::preprocess_fixedstructtype( &mut blockreader, &filetype_fixedstruct, false, ) { "
    "ResultFixedStructReaderScoreFileError::FileOk( fixedstruct_type_, high_score_, list_entries_, ) => (fixedstruct_type_, high_score_, list_entries_), "
    "ResultFixedStructReaderScoreFileError::FileErrEmpty => { return ResultFixedStructReaderNew::FileErrEmpty; } "
    "ResultFixedStructReaderScoreFileError::FileErrNoHighScore => { return ResultFixedStructReaderNew::FileErrNoValidFixedStruct; } "
    "ResultFixedStructReaderScoreFileError::FileErrNoValidFixedStruct => { return ResultFixedStructReaderNew::FileErrNoValidFixedStruct; } "
    "ResultFixedStructReaderScoreFileError::FileErrIo(err) => { return ResultFixedStructReaderNew::FileErrIo(err); } }; "
    "let (total, invalid, valid_no_filter, out_of_order, map_tvpair_fo) = match FixedStructReader::preprocess_timevalues( "
    "&mut blockreader, fixedstruct_type, &dt_filter_after, &dt_filter_before, ) { ResultTvFo::Err(err) => { "
    "return ResultFixedStructReaderNew::FileErrIo(err); } ResultTvFo::Ok( (total_, invalid_, valid_no_filter_, out_of_order_, map_tvpair_fo_) ) => "
    "(total_, invalid_, valid_no_filter_, out_of_order_, map_tvpair_fo_), }; #[cfg(debug_assertions)] { for (_tv_pair, _fo) in map_tvpair_fo.iter() { } } "
    "debug_assert_ge!(total, invalid); debug_assert_ge!(total, valid_no_filter); if map_tvpair_fo.is_empty() { if valid_no_filter > 0 { "
    "return ResultFixedStructReaderNew::FileErrNoFixedStructWithinDtFilters; } return ResultFixedStructReaderNew::FileErrNoValidFixedStruct; } ")

B2F_HEAD = (
    "let sz: usize = fixedstructtype.size(); if buffer.len() < sz { if cfg!(debug_assertions) && ! cfg!(test) { debug_panic!( "
    "\"buffer to small; {} bytes but fixedstruct type {:?} is {} bytes\", buffer.len(), fixedstructtype, sz, ); } return None; } "
    "let slice_ = &buffer[..sz]; if slice_.iter().all(|&x| x == 0) { return None; } if slice_.iter().all(|&x| x == 0xFF) { return None; } ")

SCORE_HEAD = "let mut score: Score = 0; if bonus > 0 { score += bonus; } match fixedstructptr.fixedstruct_type() {"


def macro_consts(src):
    out = {}
    for name, (pat, keys) in MACROS.items():
        got = gf.macro_body(src, name)
        m = re.fullmatch(pat, got)
        if not m:
            raise GenError(f"{W}: macro {name}! left the shape this translator models (found `{got[:200]}`)")
        for k, v in zip(keys, m.groups()):
            out[k] = ord(v) if k in ('cstrLo', 'cstrHi') else int_lit(v)
    return out


def kinds_of(repo):
    c = strip_comments(open(os.path.join(repo, 'src/common.rs')).read())
    m = re.search(r'pub\s+enum\s+FileTypeFixedStruct\s*\{([^}]*)\}', c)
    if not m:
        raise GenError("src/common.rs: enum FileTypeFixedStruct not found")
    ks = [flat(x) for x in split_top(re.sub(r'#\[[^\]]*\]', '', m.group(1)), ',') if flat(x)]
    if not ks or any(not re.fullmatch(r'[A-Z]\w*', k) for k in ks) or len(set(ks)) != len(ks):
        raise GenError("src/common.rs: enum FileTypeFixedStruct: variants are not plain identifiers")
    return ks


def divisor(mods, mname, cname, variant, sizes, where):
    """`M::X_SZ_FO` must be `X_SZ as FileOffset`; returns its value"""
    if mname not in mods:
        raise GenError(f"{where}: unknown module {mname}")
    mod = mods[mname]
    if cname not in mod.consts:
        raise GenError(f"{where}: {mname}::{cname} is not a usize/FileOffset constant of that module")
    m = re.fullmatch(r'(\w+) as FileOffset', mod.consts[cname])
    if not m:
        raise GenError(f"{where}: {mname}::{cname} = `{mod.consts[cname]}` is not `X_SZ as FileOffset`")
    v = mod.const_eval(m.group(1))
    if variant not in sizes:
        raise GenError(f"{where}: unknown FixedStructType::{variant}")
    if v <= 0:
        raise GenError(f"{where}: divisor {mname}::{cname} = {v} (the `%` would panic)")
    return v


def candidate_table(src, kinds, mods, sizes):
    m = re.search(r'type\s+FixedStructTypeSet\s*=\s*(\w+)\s*<\s*FixedStructType\s*,\s*Score\s*>\s*;', src)
    if not m:
        raise GenError(f"{W}: `type FixedStructTypeSet = ..<FixedStructType, Score>;` not found")
    container = m.group(1)
    if container not in ('HashMap', 'BTreeMap'):
        raise GenError(f"{W}: FixedStructTypeSet is a `{container}`; the model describes a std HashMap (unspecified iteration order) "
                       f"or a std BTreeMap (iteration in key order)")
    if not re.search(r'use\s+std::collections::(?:\{[^}]*\b' + container + r'\b[^}]*\}|' + container + r')\s*;', src):
        raise GenError(f"{W}: {container} is not std::collections::{container}")
    ordered = container == 'BTreeMap'
    if ordered:
        # key order of the BTreeMap = `Ord` of FixedStructType; derived `Ord` on a field-less enum without explicit
        # discriminants (gf.enum_variants accepts plain `Fs_*` identifiers only) = declaration order
        dm = re.search(r'#\[derive\(([^)]*)\)\]\s*pub\s+enum\s+FixedStructType\b', src)
        if not dm:
            raise GenError(f"{W}: enum FixedStructType: `#[derive(..)]` directly above the enum not found")
        derives = [flat(x) for x in dm.group(1).split(',')]
        if 'Ord' not in derives or 'PartialOrd' not in derives:
            raise GenError(f"{W}: enum FixedStructType is the key of a BTreeMap but does not DERIVE `PartialOrd, Ord` "
                           f"(a hand-written order is outside the translated subset)")
        if re.search(r'impl\s+(?:PartialOrd|Ord)\s+for\s+FixedStructType\b', src):
            raise GenError(f"{W}: enum FixedStructType has a hand-written `impl Ord`/`impl PartialOrd`")
    _, body, _ = find_fn(src, 'filesz_to_types')
    body = strip_trace(body)
    fb = flat(body)
    hm = re.match(r'if filesz == 0 \{ return None; \} let mut set = FixedStructTypeSet::new\(\); const BONUS: Score = ' + INT +
                  r'; match file_type_fixed_struct \{', fb)
    if not hm:
        raise GenError(f"{W}: filesz_to_types: prologue left the expected shape")
    bonus = int_lit(hm.group(1))
    mpos = body.find('match file_type_fixed_struct')
    b = body.find('{', mpos)
    e = match_close(body, b)
    row = re.compile(r'if filesz % (\w+)::(\w+) == 0 \{ set\.insert\(FixedStructType::(\w+), BONUS\); \}')
    bonus_rows = {}
    for pat, val in match_arms(body[b + 1:e]):
        pm = re.fullmatch(r'FileTypeFixedStruct::(\w+)', pat.strip())
        if not pm or pm.group(1) not in kinds:
            raise GenError(f"{W}: filesz_to_types: arm pattern `{pat[:60]}`")
        k = pm.group(1)
        if k in bonus_rows:
            raise GenError(f"{W}: filesz_to_types: kind {k} twice")
        v = flat(val)
        if v.startswith('{') and v.endswith('}'):
            v = v[1:-1].strip()
        rows = []
        pos = 0
        while pos < len(v):
            rm = row.match(v, pos)
            if not rm:
                raise GenError(f"{W}: filesz_to_types: kind {k}: `{v[pos:pos + 80]}` is not `if filesz % M::C == 0 {{ set.insert(FixedStructType::V, BONUS); }}`")
            where = f"{W}: filesz_to_types: kind {k}: {rm.group(3)}"
            rows.append((rm.group(3), divisor(mods, rm.group(1), rm.group(2), rm.group(3), sizes, where)))
            pos = rm.end()
            while pos < len(v) and v[pos] == ' ':
                pos += 1
        if len(set(r[0] for r in rows)) != len(rows):
            raise GenError(f"{W}: filesz_to_types: kind {k}: a variant is inserted twice")
        bonus_rows[k] = rows
    if sorted(bonus_rows) != sorted(kinds):
        raise GenError(f"{W}: filesz_to_types: arms do not cover FileTypeFixedStruct exactly")
    rest = flat(body[e + 1:])
    row2 = re.compile(r'if filesz % (\w+)::(\w+) == 0 \{ set\.entry\(FixedStructType::(\w+)\)\.or_insert\((-?\d+)\); \} ')
    pos = 0
    all_rows = []
    while True:
        rm = row2.match(rest, pos)
        if not rm:
            break
        where = f"{W}: filesz_to_types: {rm.group(3)}"
        all_rows.append((rm.group(3), divisor(mods, rm.group(1), rm.group(2), rm.group(3), sizes, where), int(rm.group(4))))
        pos = rm.end()
    if rest[pos:] != 'if set.is_empty() { return None; } Some(set)':
        raise GenError(f"{W}: filesz_to_types: tail `{rest[pos:pos + 100]}` left the expected shape")
    if len(set(r[0] for r in all_rows)) != len(all_rows):
        raise GenError(f"{W}: filesz_to_types: a variant has two or_insert rows")
    return bonus, bonus_rows, all_rows, ordered


def accessor(mod, sname, fname, where):
    """`pub fn f(&self) -> &CStr { unsafe { CStr::from_ptr(self.g[..N].as_ptr()) } }` inside `impl sname` -> (g, N|None)"""
    m = re.search(r'\bimpl\s+' + re.escape(sname) + r'\s*\{', mod.body)
    if not m:
        raise GenError(f"{where}: `impl {sname}` not found in mod {mod.name}")
    b = mod.body.find('{', m.end() - 1)
    ib = mod.body[b + 1:match_close(mod.body, b)]
    fm = re.search(r'pub fn ' + re.escape(fname) + r'\(&self\) -> &CStr \{', ib)
    if not fm:
        raise GenError(f"{where}: accessor {mod.name}::{sname}::{fname}() -> &CStr not found")
    fb = ib.find('{', fm.end() - 1)
    body = flat(ib[fb + 1:match_close(ib, fb)])
    am = re.fullmatch(r'unsafe \{ CStr::from_ptr\(self\.(\w+)(?:\[\.\.(\w+)\])?\.as_ptr\(\)\) \}', body)
    if not am:
        raise GenError(f"{where}: accessor {fname}() body `{body[:100]}` is not `unsafe {{ CStr::from_ptr(self.g[..N].as_ptr()) }}`")
    return am.group(1), am.group(2)


def byte_array(mod, sname, path, where):
    off, r, top = gr.resolve_path(mod, sname, path, where)
    if r[0] != 'array' or r[1][0] not in ('char', 'int') or gr.tsize(mod, r[1]) != 1 or r[2] < 1:
        raise GenError(f"{where}: `{path}` is not a non-empty array of one-byte elements")
    return off, r[2]


def int_const(mod, name, where, seen=()):
    """value of an integer constant `pub const NAME: T = lit | A | B | ..;`"""
    m = re.search(r'\bpub\s+const\s+' + re.escape(name) + r'\s*:\s*(\w+)\s*=\s*([^;]+);', mod.body)
    if not m or name in seen:
        raise GenError(f"{where}: constant {mod.name}::{name} not found")
    v = 0
    for part in flat(m.group(2)).split('|'):
        part = part.strip()
        if re.fullmatch(r'[0-9][0-9a-fA-Fx_]*', part):
            v |= int_lit(part)
        elif re.fullmatch(r'\w+', part):
            v |= int_const(mod, part, where, seen + (name,))[0]
        else:
            raise GenError(f"{where}: constant {mod.name}::{name} = `{flat(m.group(2))}` is outside the translated subset")
    return v, m.group(1)


def score_programs(src, mods, variants, sizes):
    _, body, _ = find_fn(src, 'score_fixedstruct')
    body = strip_trace(body)
    if not flat(body).startswith(SCORE_HEAD):
        raise GenError(f"{W}: score_fixedstruct: prologue is not `score = 0; if bonus > 0 {{ score += bonus; }} match fixedstructptr.fixedstruct_type()`")
    mpos = body.find('match fixedstructptr.fixedstruct_type()')
    b = body.find('{', mpos)
    e = match_close(body, b)
    if flat(body[e + 1:]) != 'score':
        raise GenError(f"{W}: score_fixedstruct: the function does not end with `score` right after the match")
    progs = {}
    for pat, val in match_arms(body[b + 1:e]):
        pm = re.fullmatch(r'FixedStructType::(\w+)', pat.strip())
        if not pm:
            raise GenError(f"{W}: score_fixedstruct: arm pattern `{pat[:60]}`")
        v = pm.group(1)
        where = f"{W}: score_fixedstruct arm {v}"
        hm = re.match(r'\s*\{?\s*let (\w+): &(\w+)::(\w+) = fixedstructptr\.as_(\w+)\(\);', val)
        if not hm:
            raise GenError(f"{where}: does not start with `let V: &M::S = fixedstructptr.as_M_S();`")
        if hm.group(4) != hm.group(2) + '_' + hm.group(3) or hm.group(2) not in mods:
            raise GenError(f"{where}: as_{hm.group(4)}() does not match &{hm.group(2)}::{hm.group(3)}")
        var, mod, sname = hm.group(1), mods[hm.group(2)], hm.group(3)
        if v not in sizes or sizes[v][0] != mod.name or sizes[v][2].replace(' ', '') != f"size_of::<{sname}>()":
            raise GenError(f"{where}: scores {mod.name}::{sname} but FixedStructType::size() is {sizes.get(v, ('?', '?', '?'))[2]}")
        if v in progs:
            raise GenError(f"{W}: score_fixedstruct: variant {v} twice")
        rest = val[hm.end():]
        if flat(val).startswith('{'):
            rest = rest[:rest.rfind('}')]
        ops = []
        for st in gr.parse_stmts(rest, where):
            if st[0] != 'macro':
                raise GenError(f"{where}: a statement that is not a `score_fixedstruct_*!` invocation")
            name, a = st[1], st[2]
            if not a or a[0] != 'score':
                raise GenError(f"{where}: `{name}!` is not invoked as `(score, ..)`")
            a = a[1:]
            pre = var + '.'

            def fld(x):
                if not x.startswith(pre):
                    raise GenError(f"{where}: `{x}` is not a field of `{var}`")
                return x[len(pre):]
            if name == 'score_fixedstruct_cstr' and len(a) == 1:
                fm = re.fullmatch(re.escape(pre) + r'(\w+)\(\)', a[0])
                if not fm:
                    raise GenError(f"{where}: `{name}!` argument `{a[0]}` is not an accessor call `{var}.f()`")
                g, n = accessor(mod, sname, fm.group(1), where)
                off, ln = byte_array(mod, sname, g, where)
                if n is not None and mod.const_eval(n) > ln:
                    raise GenError(f"{where}: accessor {fm.group(1)}() slices `{g}[..{n}]` beyond the field's {ln} bytes (would panic)")
                ops.append(('cstr', g, off, ln))
            elif name in ('score_fixedstruct_cstr_no_data_after_null', 'score_fixedstruct_cstr_null_terminator',
                          'score_fixedstruct_buffer_all_null') and len(a) == 1:
                p = fld(a[0])
                off, ln = byte_array(mod, sname, p, where)
                ops.append(({'score_fixedstruct_cstr_no_data_after_null': 'noDataAfterNull',
                             'score_fixedstruct_cstr_null_terminator': 'nullTerminator',
                             'score_fixedstruct_buffer_all_null': 'allNull'}[name], p, off, ln))
            elif name in ('score_fixedstruct_value_not_zero', 'score_fixedstruct_time_range') and len(a) == 1:
                p = fld(a[0])
                off, r, _ = gr.resolve_path(mod, sname, p, where)
                prim = gr.as_prim(r, f"{where}: `{a[0]}`")
                ops.append(('valueNotZero' if name.endswith('zero') else 'timeRange', p, off, prim))
            elif name == 'score_fixedstruct_ut_type' and len(a) == 2:
                p = fld(a[0])
                off, r, _ = gr.resolve_path(mod, sname, p, where)
                prim = gr.as_prim(r, f"{where}: `{a[0]}`")
                cm = re.fullmatch(r'(\w+)::(\w+)', a[1])
                if not cm or cm.group(1) != mod.name:
                    raise GenError(f"{where}: `{a[1]}` is not a constant of mod {mod.name}")
                tm = re.search(r'\bpub\s+const\s+' + re.escape(cm.group(2)) + r'\s*:\s*\[\s*(\w+)\s*;\s*(\d+)\s*\]\s*=\s*\[([^\]]*)\]\s*;', mod.body)
                if not tm:
                    raise GenError(f"{where}: {a[1]} is not `pub const X: [T; N] = [..];`")
                et = gr.as_prim(gr.rtype(mod, tm.group(1)), where)
                vals = [flat(x) for x in tm.group(3).split(',') if flat(x)]
                if any(not re.fullmatch(r'-?\d+', x) for x in vals) or len(vals) != int(tm.group(2)):
                    raise GenError(f"{where}: {a[1]}: elements are not {tm.group(2)} integer literals")
                if et != prim:
                    raise GenError(f"{where}: {a[1]} has element type {tm.group(1)} but `{a[0]}` is {gf.prim_name(('int',) + prim)} (the `==` would not compile)")
                ops.append(('utType', p, off, prim, [int(x) for x in vals]))
            elif name == 'score_fixedstruct_ac_flags' and len(a) == 2:
                p = fld(a[0])
                off, r, _ = gr.resolve_path(mod, sname, p, where)
                prim = gr.as_prim(r, f"{where}: `{a[0]}`")
                if prim[1] != 1:
                    raise GenError(f"{where}: `{name}!` on a field wider than one byte")
                cm = re.fullmatch(r'(\w+)::(\w+)', a[1])
                if not cm or cm.group(1) != mod.name:
                    raise GenError(f"{where}: `{a[1]}` is not a constant of mod {mod.name}")
                mask, mt = int_const(mod, cm.group(2), where)
                if gr.as_prim(gr.rtype(mod, mt), where) != prim or not 0 <= mask < 128:
                    raise GenError(f"{where}: mask {a[1]} = {mask}: {mt} does not match the field type or does not fit both i8 and u8")
                ops.append(('acFlags', p, off, prim, mask))
            else:
                raise GenError(f"{where}: macro `{name}!` ({len(a)} value arguments) is outside the translated subset")
        if not ops:
            raise GenError(f"{where}: empty score program")
        progs[v] = (mod.name + '::' + sname, ops)
    if sorted(progs) != sorted(variants):
        raise GenError(f"{W}: score_fixedstruct: arms do not cover the enum's variants exactly")
    return progs


def reader_facts(repo):
    src = strip_comments(open(os.path.join(repo, R)).read())
    _, body, _ = find_fn(src, 'score_file')
    m = re.fullmatch(SCORE_FILE, flat(strip_trace(body)))
    if not m:
        raise GenError(f"{R}: FixedStructReader::score_file left the shape this translator models")
    count, keep_op, repl_op = int_lit(m.group(1)), m.group(2), m.group(3)
    _, body, _ = find_fn(src, 'preprocess_fixedstructtype')
    if flat(strip_trace(body)) != PREPROCESS:
        raise GenError(f"{R}: FixedStructReader::preprocess_fixedstructtype left the shape this translator models")
    _, body, _ = find_fn(src, 'new')
    if not flat(strip_trace(body)).startswith(NEW_HEAD):
        raise GenError(f"{R}: FixedStructReader::new: the part up to the empty-map test left the shape this translator models")
    return count, keep_op == '<=', repl_op == '>'


def entry_sz_min(src, mods, sizes):
    m = re.search(r'pub\s+const\s+ENTRY_SZ_MIN\s*:\s*usize\s*=\s*min16\(', src)
    if not m:
        raise GenError(f"{W}: ENTRY_SZ_MIN is not `min16(..)`")
    p = m.end() - 1
    e = match_close(src, p)
    vals = []
    for a in split_top(src[p + 1:e], ','):
        a = flat(a)
        if not a:
            continue
        mm = re.fullmatch(r'(\w+)::(\w+)', a)
        if not mm or mm.group(1) not in mods:
            raise GenError(f"{W}: ENTRY_SZ_MIN argument `{a}`")
        vals.append(mods[mm.group(1)].const_eval(mm.group(2)))
    if sorted(vals) != sorted(sizes):
        raise GenError(f"{W}: ENTRY_SZ_MIN is not the minimum over exactly the sizes of the FixedStructType layouts")
    return min(vals)


def collect(repo):
    src = strip_comments(open(os.path.join(repo, W)).read())
    mods = gf.parse_modules(src)
    gf.check_asserts(mods)
    variants = gf.enum_variants(src)
    impl = gf.impl_body(src)
    sizes = gf.const_table(impl, 'size', variants, mods)
    consts = macro_consts(src)
    kinds = kinds_of(repo)
    bonus, bonus_rows, all_rows, ordered = candidate_table(src, kinds, mods, sizes)
    progs = score_programs(src, mods, variants, sizes)
    _, body, _ = find_fn(src, 'buffer_to_fixedstructptr')
    if not flat(strip_trace(body)).startswith(B2F_HEAD):
        raise GenError(f"{W}: buffer_to_fixedstructptr: the short-buffer / all-0x00 / all-0xFF tests left the expected shape")
    for nm in ('EPOCH_SECOND_LOW', 'EPOCH_SECOND_HIGH'):
        m = re.search(r'\bconst\s+' + nm + r'\s*:\s*tv_sec_type\s*=\s*' + INT + r'\s*;', src)
        if not m:
            raise GenError(f"{W}: `const {nm}: tv_sec_type = <int>;` not found")
        consts[nm] = int_lit(m.group(1))
    if not re.search(r'pub\s+type\s+tv_sec_type\s*=\s*i64\s*;', src) or not re.search(r'pub\s+type\s+Score\s*=\s*i32\s*;', src):
        raise GenError(f"{W}: tv_sec_type is not i64 or Score is not i32")
    count, keep_le, repl_gt = reader_facts(repo)
    esm = entry_sz_min(src, mods, [sizes[v][3] for v in variants])
    return dict(variants=variants, sizes=sizes, consts=consts, kinds=kinds, bonus=bonus, bonus_rows=bonus_rows, all_rows=all_rows, ordered=ordered,
                progs=progs, count=count, keep_le=keep_le, repl_gt=repl_gt, entry_sz_min=esm)


def kname(k):
    return k[0].lower() + k[1:]


def lprim(p):
    return f"⟨{'true' if p[0] else 'false'}, {p[1]}⟩"


def lop(op):
    k = op[0]
    if k in ('cstr', 'noDataAfterNull', 'nullTerminator', 'allNull'):
        return f".{k} {lean_str(op[1])} {op[2]} {op[3]}"
    if k in ('valueNotZero', 'timeRange'):
        return f".{k} {lean_str(op[1])} {op[2]} {lprim(op[3])}"
    if k == 'utType':
        return f".utType {lean_str(op[1])} {op[2]} {lprim(op[3])} [{', '.join(str(x) for x in op[4])}]"
    if k == 'acFlags':
        return f".acFlags {lean_str(op[1])} {op[2]} {lprim(op[3])} {op[4]}"
    raise AssertionError(k)


def generate(repo):
    d = collect(repo)
    c = d['consts']
    L = ['-- GENERATED by /verif/gen/s4gen.py — do not edit',
         'import S4V.Gen.Fixed',
         'namespace S4V.Gen.LayoutDetect',
         'open S4V.Gen.Fixed (Prim)', '',
         '/-- `FileTypeFixedStruct` (src/common.rs): the hint the file NAME gives -/',
         'inductive Kind', '  | ' + ' | '.join(kname(k) for k in d['kinds']),
         '  deriving DecidableEq, Repr, Inhabited', '',
         f"def kinds : List Kind := [{', '.join('.' + kname(k) for k in d['kinds'])}]", '',
         '/-- one op per `score_fixedstruct_*!` invocation of a `FixedStruct::score_fixedstruct` arm (see gen/gen_layoutdetect.py).',
         '`path` is the struct field as written, `off` its byte offset in the record, `len` the length of the byte array field -/',
         'inductive SOp',
         '  /-- `score_fixedstruct_cstr!(score, V.f())`: the accessor is `CStr::from_ptr(self.path[..N].as_ptr())`, i.e. the bytes from `off`',
         '  up to the first NUL wherever it is (NOT bounded by `len`) -/',
         '  | cstr (path : String) (off len : Nat)',
         '  /-- `score_fixedstruct_cstr_no_data_after_null!(score, V.path)` over the `len` bytes of the field -/',
         '  | noDataAfterNull (path : String) (off len : Nat)',
         '  /-- `score_fixedstruct_cstr_null_terminator!(score, V.path)`: looks at the field\'s LAST byte -/',
         '  | nullTerminator (path : String) (off len : Nat)',
         '  /-- `score_fixedstruct_buffer_all_null!(score, V.path)`: looks at the field\'s LAST byte only -/',
         '  | allNull (path : String) (off len : Nat)',
         '  /-- `score_fixedstruct_value_not_zero!(score, V.path)` -/',
         '  | valueNotZero (path : String) (off : Nat) (prim : Prim)',
         '  /-- `score_fixedstruct_ut_type!(score, V.path, M::UT_TYPES)` -/',
         '  | utType (path : String) (off : Nat) (prim : Prim) (types : List Int)',
         '  /-- `score_fixedstruct_ac_flags!(score, V.path, M::AC_FLAGS_MASK)` on a one-byte field; `mask` < 128 -/',
         '  | acFlags (path : String) (off : Nat) (prim : Prim) (mask : Nat)',
         '  /-- `score_fixedstruct_time_range!(score, V.path)`: value widened with `try_into()` to `tv_sec_type` = i64 (`Err => 0`) -/',
         '  | timeRange (path : String) (off : Nat) (prim : Prim)',
         '  deriving DecidableEq, Repr, Inhabited', '',
         'structure LayoutS where',
         '  /-- `FixedStructType` variant -/',
         '  name : String',
         '  /-- `module::struct` the record is cast to -/',
         '  struct : String',
         '  /-- `FixedStructType::size()` -/',
         '  size : Nat',
         '  /-- the score program of this variant\'s `score_fixedstruct` arm -/',
         '  prog : List SOp',
         '  deriving DecidableEq, Repr, Inhabited', '',
         '/-! constants of the `score_fixedstruct_*!` macros (captured from their bodies) -/']
    docs = {
        'cstrNonEmpty': 'cstr: the string is not empty', 'cstrLo': "cstr: first byte of the `b' '..=b'~'` arm", 'cstrHi': 'cstr: last byte of that arm',
        'cstrPrintable': 'cstr: per byte in that range (added)', 'cstrFF': 'cstr: per 0xFF byte (subtracted)', 'cstrOther': 'cstr: per other byte (subtracted)',
        'afterNull': 'no_data_after_null: per non-NUL byte after the first NUL (subtracted)',
        'termYes': 'null_terminator: last byte is NUL (added)', 'termNo': 'null_terminator: last byte is not NUL (subtracted)',
        'allNullNo': 'buffer_all_null: last byte is not NUL (subtracted)', 'allNullYes': 'buffer_all_null: last byte is NUL (added)',
        'notZeroYes': 'value_not_zero: value != 0 (added)', 'notZeroNo': 'value_not_zero: value == 0 (subtracted)',
        'utTypeKnown': 'ut_type: value is in the table (added)', 'utTypeNonZero': 'ut_type: .. and is not 0 (added on top)',
        'flagsZero': 'ac_flags: value == 0 (added)', 'flagsBad': 'ac_flags: a bit outside the mask is set (subtracted)', 'flagsGood': 'ac_flags: otherwise (added)',
        'timeIn': 'time_range: EPOCH_SECOND_LOW <= v <= EPOCH_SECOND_HIGH (added)', 'timeOut': 'time_range: otherwise (subtracted)',
        'timeZero': 'time_range: v == 0 (subtracted on top)',
        'EPOCH_SECOND_LOW': '`EPOCH_SECOND_LOW`', 'EPOCH_SECOND_HIGH': '`EPOCH_SECOND_HIGH`'}
    for k, doc in docs.items():
        ty = 'Nat' if k in ('cstrLo', 'cstrHi') else 'Int'
        L += [f'/-- {doc} -/', f'def {k} : {ty} := {c[k]}']
    L += ['',
          '/-- `filesz_to_types`: `const BONUS: Score` -/',
          f"def BONUS : Int := {d['bonus']}", '',
          '/-- `filesz_to_types`, the `match file_type_fixed_struct` part: per kind the ordered rows',
          '`if filesz % divisor == 0 { set.insert(variant, BONUS) }` -/',
          'def bonusRows : Kind → List (String × Nat)']
    for k in d['kinds']:
        L.append(f"  | .{kname(k)} => [{', '.join(f'({lean_str(v)}, {n})' for v, n in d['bonus_rows'][k])}]")
    L += ['',
          '/-- `filesz_to_types`, the "try all types anyway" part: ordered rows `if filesz % divisor == 0 { set.entry(variant).or_insert(v) }` -/',
          'def allRows : List (String × Nat × Int) := [',
          ',\n'.join(f"  ({lean_str(v)}, {n}, {x})" for v, n, x in d['all_rows']) + ']', '',
          '/-- `FixedStructTypeSet`: `true` = `std::collections::BTreeMap<FixedStructType, Score>` — `score_file` visits the candidates in key',
          'order, i.e. the derived `Ord` of the enum = DECLARATION order (`declOrder`); `false` = `std::collections::HashMap<..>` —',
          'iteration order unspecified (`RandomState`: differs between map instances and between runs) -/',
          f"def setIsOrdered : Bool := {'true' if d['ordered'] else 'false'}",
          f"def setIsHashMap : Bool := {'false' if d['ordered'] else 'true'}",
          '/-- the variants of `enum FixedStructType` in declaration order (field-less, no explicit discriminants; `Ord` derived when `setIsOrdered`) -/',
          'def declOrder : List String := [' + ', '.join(lean_str(v) for v in d['variants']) + ']', '',
          '/-- `score_file`: `COUNT_FOUND_ENTRIES_MAX` (the `cfg(not(test))` value) -/',
          f"def COUNT_FOUND_ENTRIES_MAX : Nat := {d['count']}",
          '/-- `score_file`: `if score <= high_score { continue; }` (true) or `<` (false) -/',
          f"def keepOnEqual : Bool := {'true' if d['keep_le'] else 'false'}",
          '/-- `score_file`: `if high_score > highest_score {` (true: an equal later candidate does NOT replace) or `>=` (false) -/',
          f"def replaceStrict : Bool := {'true' if d['repl_gt'] else 'false'}",
          '/-- `ENTRY_SZ_MIN` = `min16(..)` over the sizes of all layouts; `FixedStructReader::new`: `0 < filesz < ENTRY_SZ_MIN` => `FileErrTooSmall` -/',
          f"def ENTRY_SZ_MIN : Nat := {d['entry_sz_min']}",
          '/-- `buffer_to_fixedstructptr`: a record of only 0x00 bytes, or of only 0xFF bytes, is `None` (skipped, not counted) -/',
          'def nullIsAllZeroOrAllFF : Bool := true', '',
          'def layouts : List LayoutS := [']
    rows = []
    for v in d['variants']:
        st, ops = d['progs'][v]
        rows.append(f"  {{ name := {lean_str(v)}, struct := {lean_str(st)}, size := {d['sizes'][v][3]},\n"
                    f"    prog := [\n      " + ',\n      '.join(lop(o) for o in ops) + "] }")
    L.append(',\n'.join(rows) + ']')
    L += ['', 'def layoutNamed (n : String) : Option LayoutS := layouts.find? (·.name = n)', '',
          'end S4V.Gen.LayoutDetect']
    info = {'variants': len(d['variants']), 'macros_checked': len(MACROS), 'ops': {v: len(d['progs'][v][1]) for v in d['variants']},
            'count_found_entries_max': d['count'], 'bonus': d['bonus'], 'set_is_ordered': d['ordered']}
    return '\n'.join(L) + '\n', info


def harness_table(repo):
    """Rust source of the tables pasted into harness/src/c_layout.rs. They are used (1) to keep requests away from records on
    which the real `score_fixedstruct` reads beyond the record (`CStr::from_ptr`), (2) to call the real `score_file` with one
    candidate at a time (bonus per kind) so that ties are recognised, (3) to force plausible values into generated records.
    The model answers from Gen/LayoutDetect.lean, so a stale table shows up as disagreements."""
    d = collect(repo)
    out = ['const LAYOUTS: [L; %d] = [' % len(d['variants'])]
    for v in d['variants']:
        _, ops = d['progs'][v]
        mx = max(o[2] for o in ops if o[0] == 'cstr')
        hints = []
        for o in ops:
            if o[0] == 'cstr':
                hints.append(f"H::Cstr({o[2]}, {o[3]})")
            elif o[0] == 'timeRange':
                hints.append(f"H::Time({o[2]}, {o[3][1]})")
            elif o[0] == 'utType':
                hints.append(f"H::UtType({o[2]}, {max(o[4])})")
            elif o[0] == 'acFlags':
                hints.append(f"H::Flag({o[2]}, {o[4]})")
            elif o[0] == 'valueNotZero':
                hints.append(f"H::NotZero({o[2]}, {o[3][1]})")
            elif o[0] == 'allNull':
                hints.append(f"H::Pad({o[2]}, {o[3]})")
        kinds = [k for k in d['kinds'] if any(r[0] == v for r in d['bonus_rows'][k])]
        always = [str(x) for n, _, x in d['all_rows'] if n == v]
        out.append(f"    L {{ t: {v}, last_cstr: {mx}, bonus_kinds: &[{', '.join('K::' + k for k in kinds)}], "
                   f"always: {('Some(' + always[0] + ')') if always else 'None'}, hints: &[{', '.join(hints)}] }},")
    out.append('];')
    out.append(f"const BONUS: i32 = {d['bonus']};")
    return '\n'.join(out)


if __name__ == '__main__':
    import sys
    print(harness_table(sys.argv[1] if len(sys.argv) > 1 else '/repo'))
