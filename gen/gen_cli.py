"""Generate S4V/Gen/CliTables.lean: the tables and constants behind the
`-a/--dt-after` / `-b/--dt-before` argument parser of src/bin/s4.rs
(`process_dt`, `string_wdhms_to_duration`, `cli_process_tz_offset`,
`cli_process_args`) and the named-timezone map of src/data/datetime.rs.

Shape checks (GenError when the source leaves them):
 * `CLI_FILTER_PATTERNS` is an array of `(string, bool, bool, bool, bool)`
   tuples whose length equals `CLI_FILTER_PATTERNS_COUNT`, and the tuple type
   alias documents the field order (pattern, has year, has timezone, has_Z,
   has time);
 * the `CGP_DUR_OFFSET_*` pieces are `concatcp!("(?P<", NAME, r">…)")` and
   `REGEX_DUR_OFFSET` is `Regex::new(concatcp!(pieces and string literals))`;
   the concatenation is reproduced and inspected for anchors;
 * `string_wdhms_to_duration`, `process_dt`, `cli_process_tz_offset` and the
   `-a/-b` block of `cli_process_args` keep the control-flow facts the hand
   model `S4V.Model.Cli` is written against (each is emitted as a `Bool`
   constant that the model's theorems unfold);
 * `MAP_TZZ_TO_TZz` is a `phf_map!` of string => string entries.
"""
import os
import re
from rs import GenError, strip_comments, find_fn
from gen_path import strip_trace


def lean_str(s: str) -> str:
    out = ['"']
    for ch in s:
        if ch == '"':
            out.append('\\"')
        elif ch == '\\':
            out.append('\\\\')
        elif ch == '\n':
            out.append('\\n')
        elif ch == '\t':
            out.append('\\t')
        elif ch == '\r':
            out.append('\\r')
        elif ord(ch) < 32 or ord(ch) == 127:
            out.append('\\x%02x' % ord(ch))
        else:
            out.append(ch)
    out.append('"')
    return ''.join(out)


def rust_str_lit(tok: str, what: str) -> str:
    """value of a Rust string literal token: "…" or r"…" / r#"…"#"""
    tok = tok.strip()
    m = re.fullmatch(r'r(#*)"(.*)"\1', tok, re.S)
    if m:
        return m.group(2)
    m = re.fullmatch(r'"((?:[^"\\]|\\.)*)"', tok, re.S)
    if not m:
        raise GenError(f"{what}: not a string literal: {tok[:40]!r}")
    body = m.group(1)
    out = []
    i = 0
    while i < len(body):
        c = body[i]
        if c == '\\':
            n = body[i + 1]
            table = {'n': '\n', 't': '\t', 'r': '\r', '0': '\0', '\\': '\\', '"': '"', "'": "'"}
            if n not in table:
                raise GenError(f"{what}: unsupported escape \\{n}")
            out.append(table[n])
            i += 2
        else:
            out.append(c)
            i += 1
    return ''.join(out)


def split_top_commas(s: str):
    parts, depth, cur, i = [], 0, [], 0
    n = len(s)
    while i < n:
        c = s[i]
        if c == '"':
            j = i + 1
            while j < n and s[j] != '"':
                if s[j] == '\\':
                    j += 1
                j += 1
            cur.append(s[i:j + 1]); i = j + 1; continue
        if c == 'r' and re.match(r'r#*"', s[i:i + 8]) and (i == 0 or not (s[i - 1].isalnum() or s[i - 1] == '_')):
            m = re.match(r'r(#*)"', s[i:])
            end = s.find('"' + m.group(1), i + len(m.group(0))) + 1 + len(m.group(1))
            cur.append(s[i:end]); i = end; continue
        if c in '([{':
            depth += 1
        elif c in ')]}':
            depth -= 1
        if c == ',' and depth == 0:
            parts.append(''.join(cur).strip()); cur = []
        else:
            cur.append(c)
        i += 1
    last = ''.join(cur).strip()
    if last:
        parts.append(last)
    return parts


def const_str(src: str, name: str) -> str:
    m = re.search(r'const\s+' + re.escape(name) + r'\s*:\s*&str\s*=\s*(.*?);', src, re.S)
    if not m:
        raise GenError(f"const {name}: &str not found")
    return m.group(1).strip()


def eval_concat(src: str, expr: str, what: str, depth=0) -> str:
    """evaluate a string literal, a const name, or concatcp!(…) of those"""
    expr = expr.strip()
    if depth > 6:
        raise GenError(f"{what}: constant nesting too deep")
    m = re.fullmatch(r'concatcp!\s*\((.*)\)', expr, re.S)
    if m:
        return ''.join(eval_concat(src, p, what, depth + 1) for p in split_top_commas(m.group(1)))
    if re.fullmatch(r'[A-Z_][A-Z0-9_]*', expr):
        return eval_concat(src, const_str(src, expr), what + '/' + expr, depth + 1)
    return rust_str_lit(expr, what)


SPEC_RE = re.compile(r'%(?:[0-9]f|\.[0-9]?f|:z|#z|[A-Za-z%+])')


def generate(repo):
    s4 = strip_comments(open(os.path.join(repo, 'src/bin/s4.rs')).read())
    dtm = strip_comments(open(os.path.join(repo, 'src/data/datetime.rs')).read())

    # ---- the tuple alias: field order
    raw = open(os.path.join(repo, 'src/bin/s4.rs')).read()
    if not re.search(r'\(DateTimePattern_str, has year, has timezone, has_Z, has time\)', raw):
        raise GenError("s4.rs: the CLI_DT_Filter_Pattern doc line naming the tuple fields "
                       "(DateTimePattern_str, has year, has timezone, has_Z, has time) changed")
    if not re.search(r"type\s+CLI_DT_Filter_Pattern<'b>\s*=\s*\(&'b DateTimePattern_str, bool, bool, bool, bool\);", s4):
        raise GenError("s4.rs: type CLI_DT_Filter_Pattern is not (&DateTimePattern_str, bool, bool, bool, bool)")

    # ---- CLI_FILTER_PATTERNS
    m = re.search(r'const\s+CLI_FILTER_PATTERNS_COUNT\s*:\s*usize\s*=\s*(\d+)\s*;', s4)
    if not m:
        raise GenError("s4.rs: CLI_FILTER_PATTERNS_COUNT not found")
    count = int(m.group(1))
    m = re.search(r'const\s+CLI_FILTER_PATTERNS\s*:\s*\[CLI_DT_Filter_Pattern;\s*CLI_FILTER_PATTERNS_COUNT\]\s*=\s*\[(.*?)\]\s*;', s4, re.S)
    if not m:
        raise GenError("s4.rs: CLI_FILTER_PATTERNS array not found")
    rows = []
    for item in split_top_commas(m.group(1)):
        mm = re.fullmatch(r'\(\s*("(?:[^"\\]|\\.)*")\s*,\s*(true|false)\s*,\s*(true|false)\s*,\s*(true|false)\s*,\s*(true|false)\s*,?\s*\)', item, re.S)
        if not mm:
            raise GenError(f"s4.rs: CLI_FILTER_PATTERNS row not (str, bool, bool, bool, bool): {item[:60]!r}")
        rows.append((rust_str_lit(mm.group(1), 'CLI_FILTER_PATTERNS'),) + tuple(x == 'true' for x in mm.groups()[1:]))
    if len(rows) != count:
        raise GenError(f"s4.rs: CLI_FILTER_PATTERNS has {len(rows)} rows, CLI_FILTER_PATTERNS_COUNT = {count}")
    specs = sorted({sp for r in rows for sp in SPEC_RE.findall(r[0])})
    for r in rows:
        # anything after a '%' must be a recognised specifier
        rest = SPEC_RE.sub('', r[0])
        if '%' in rest:
            raise GenError(f"s4.rs: CLI_FILTER_PATTERNS pattern {r[0]!r} has an unrecognised specifier")

    append_value = eval_concat(s4, 'CLI_DT_FILTER_APPEND_TIME_VALUE', 'append value')
    append_pattern = eval_concat(s4, 'CLI_DT_FILTER_APPEND_TIME_PATTERN', 'append pattern')

    # ---- regex pieces
    names = {}
    for key in ('TYPE', 'ADDSUB', 'SECONDS', 'MINUTES', 'HOURS', 'DAYS', 'WEEKS'):
        names[key] = eval_concat(s4, 'CGN_DUR_OFFSET_' + key, 'CGN_DUR_OFFSET_' + key)
    pieces = {}
    bodies = {}
    for key in names:
        expr = const_str(s4, 'CGP_DUR_OFFSET_' + key)
        mm = re.fullmatch(r'concatcp!\s*\(\s*"\(\?P<"\s*,\s*CGN_DUR_OFFSET_' + key + r'\s*,\s*(r"[^"]*")\s*\)', expr, re.S)
        if not mm:
            raise GenError(f"s4.rs: CGP_DUR_OFFSET_{key} is not concatcp!(\"(?P<\", CGN_DUR_OFFSET_{key}, r\">…)\")")
        tail = rust_str_lit(mm.group(1), 'CGP_DUR_OFFSET_' + key)
        if not (tail.startswith('>') and tail.endswith(')')):
            raise GenError(f"s4.rs: CGP_DUR_OFFSET_{key} tail {tail!r} is not '>…)'")
        bodies[key] = tail[1:-1]
        pieces[key] = '(?P<' + names[key] + tail
    expect_body = {'TYPE': '[@]?', 'ADDSUB': r'[+\-]', 'SECONDS': r'[\d]+s', 'MINUTES': r'[\d]+m',
                   'HOURS': r'[\d]+h', 'DAYS': r'[\d]+d', 'WEEKS': r'[\d]+w'}
    for key, b in expect_body.items():
        if bodies[key] != b:
            raise GenError(f"s4.rs: CGP_DUR_OFFSET_{key} body is {bodies[key]!r}; the relative-offset matcher of "
                           f"S4V.Model.Cli is written for {b!r}")
    m = re.search(r'static\s+REGEX_DUR_OFFSET\s*:\s*Regex\s*=\s*\{(.*?)\n\s*\};', s4, re.S)
    if not m:
        raise GenError("s4.rs: thread_local REGEX_DUR_OFFSET not found")
    body = strip_trace(m.group(1))
    mm = re.search(r'Regex::new\(\s*(concatcp!\s*\(.*\))\s*\)\s*\.unwrap\(\)', body, re.S)
    if not mm:
        raise GenError("s4.rs: REGEX_DUR_OFFSET is not Regex::new(concatcp!(…)).unwrap()")
    parts = split_top_commas(re.fullmatch(r'concatcp!\s*\((.*)\)', mm.group(1).strip(), re.S).group(1))
    regex_full = ''.join(eval_concat(s4, p, 'REGEX_DUR_OFFSET') for p in parts)
    anchored_start = regex_full.startswith('^') or regex_full.startswith(r'\A')
    anchored_end = regex_full.endswith('$') or regex_full.endswith(r'\z')
    core = regex_full
    if anchored_start:
        core = core[1:] if core.startswith('^') else core[2:]
    if anchored_end:
        core = core[:-1] if core.endswith('$') else core[:-2]
    expect_core = (pieces['TYPE'] + pieces['ADDSUB'] + '(' + pieces['SECONDS'] + '|' + pieces['MINUTES'] + '|' +
                   pieces['HOURS'] + '|' + pieces['DAYS'] + '|' + pieces['WEEKS'] + ')+')
    if core != expect_core:
        raise GenError("s4.rs: REGEX_DUR_OFFSET is not TYPE ADDSUB (SECONDS|MINUTES|HOURS|DAYS|WEEKS)+ "
                       f"(optionally anchored): {regex_full!r}")

    # ---- string_wdhms_to_duration: control-flow facts used by the model
    _, fb, _ = find_fn(s4, 'string_wdhms_to_duration')
    flat = re.sub(r'\s+', ' ', strip_trace(fb))
    if not re.search(r'if val\.is_empty\(\) \{ return None; \}', flat):
        raise GenError("string_wdhms_to_duration: early `if val.is_empty() { return None; }` not found")
    if not re.search(r'REGEX_DUR_OFFSET\.with\(\|re\| re\.captures\(val\.as_str\(\)\) \)', flat):
        raise GenError("string_wdhms_to_duration: not `REGEX_DUR_OFFSET.with(|re| re.captures(val.as_str()))`")
    for key, letter, var in (('SECONDS', 's', 'seconds'), ('MINUTES', 'm', 'minutes'), ('HOURS', 'h', 'hours'),
                             ('DAYS', 'd', 'days'), ('WEEKS', 'w', 'weeks')):
        pat = (r'match captures\.name\(CGN_DUR_OFFSET_' + key + r'\) \{ Some\(match_\) => \{ let s_count = match_ \.as_str\(\) '
               r"\.replace\('" + letter + r"', \"\"\); match i64::from_str_radix\(s_count\.as_str\(\), 10\) \{ "
               r'Ok\(val\) => \{ ' + var + r' = val \* addsub; \} Err\(err\) => \{ e_err!\([^;]*\); std::process::exit\(EXIT_ERR\); \} \} \} None => \{\} \}')
        if not re.search(pat, flat):
            raise GenError(f"string_wdhms_to_duration: the {var} capture is not parsed with i64::from_str_radix(…,10) "
                           "* addsub with exit on error")
    if not re.search(r'match \( Duration::try_seconds\(seconds\), Duration::try_minutes\(minutes\), Duration::try_hours\(hours\), '
                     r'Duration::try_days\(days\), Duration::try_weeks\(weeks\),? \) \{ \(Some\(s\), Some\(m\), Some\(h\), Some\(d\), Some\(w\)\) => '
                     r'\{ s \+ m \+ h \+ d \+ w \} _ => \{ e_err!\([^;]*\); return None; \} \}', flat):
        raise GenError("string_wdhms_to_duration: duration is not try_seconds+try_minutes+try_hours+try_days+try_weeks")
    m = re.search(r'const\s+EXIT_ERR\s*:\s*i32\s*=\s*(\d+)\s*;', s4)
    if not m:
        raise GenError("s4.rs: EXIT_ERR not found")
    exit_err = int(m.group(1))
    m = re.search(r'enum\s+DUR_OFFSET_ADDSUB\s*\{\s*Add\s*=\s*1\s*,\s*Sub\s*=\s*-1\s*,?\s*\}', s4)
    if not m:
        raise GenError("s4.rs: enum DUR_OFFSET_ADDSUB is not {Add = 1, Sub = -1}")
    _, fb, _ = find_fn(s4, 'offset_match_to_offset_duration_type')
    if not re.search(r"match offset_str\.chars\(\)\.next\(\) \{ Some\('@'\) => DUR_OFFSET_TYPE::Other, _ => DUR_OFFSET_TYPE::Now, \}",
                     re.sub(r'\s+', ' ', strip_trace(fb))):
        raise GenError("offset_match_to_offset_duration_type: not `'@' => Other, _ => Now`")
    _, fb, _ = find_fn(s4, 'offset_match_to_offset_addsub')
    if not re.search(r"Some\('\+'\) => DUR_OFFSET_ADDSUB::Add, Some\('-'\) => DUR_OFFSET_ADDSUB::Sub,",
                     re.sub(r'\s+', ' ', strip_trace(fb))):
        raise GenError("offset_match_to_offset_addsub: not `'+' => Add, '-' => Sub`")

    # ---- process_dt
    _, fb, _ = find_fn(s4, 'process_dt')
    flat = re.sub(r'\s+', ' ', strip_trace(fb))
    checks = [
        (r'for \( pattern_, _has_year, has_tz, has_tzZ, has_time, \) in CLI_FILTER_PATTERNS\.iter\(\) \{', 'iterates CLI_FILTER_PATTERNS in order'),
        (r"while dts_\.chars\(\)\.rev\(\)\.next\(\)\.unwrap_or\('\\0'\)\.is_alphabetic\(\) \{ match dts_\.pop\(\) \{ Some\(c\) => val_Z\.insert\(0, c\), None => continue \} \}", 'strips the trailing alphabetic run'),
        (r'if MAP_TZZ_TO_TZz\.contains_key\(val_Z\.as_str\(\)\) \{ dts_\.push_str\(MAP_TZZ_TO_TZz\.get\(val_Z\.as_str\(\)\)\.unwrap\(\)\); \} else \{ continue; \}', 'replaces the zone name by the map value, unknown => next row'),
        (r'pattern = pattern_\.replacen\("%Z", "%z", 1\);', 'rewrites %Z to %z'),
        (r'if !has_time \{ dts_\.push_str\(CLI_DT_FILTER_APPEND_TIME_VALUE\); pattern\.push_str\(CLI_DT_FILTER_APPEND_TIME_PATTERN\); \}', 'appends the midnight time to date-only rows'),
        (r'if let Some\(val\) = datetime_parse_from_str\(dts_\.as_str\(\), pattern\.as_str\(\), \*has_tz, tz_offset\) \{ dto = Some\(val\); return dto; \};', 'first parse success returns'),
        (r'dto = match string_to_rel_offset_datetime\(dts, tz_offset, dt_other, now_utc\) \{ Some\(dto\) => Some\(dto\), None => None, \};', 'falls back to the relative offset'),
    ]
    for pat, what in checks:
        if not re.search(pat, flat):
            raise GenError(f"process_dt: no longer {what}")
    tzz_before_time = flat.index('if *has_tzZ {') < flat.index('if !has_time {')
    if not tzz_before_time:
        raise GenError("process_dt: has_tzZ handling no longer precedes has_time handling")

    # ---- string_to_rel_offset_datetime
    _, fb, _ = find_fn(s4, 'string_to_rel_offset_datetime')
    flat = re.sub(r'\s+', ' ', strip_trace(fb))
    for pat, what in [
        (r'DUR_OFFSET_TYPE::Now => \{ let now_utc_ = Utc \.with_ymd_and_hms\( now_utc\.year\(\), now_utc\.month\(\), now_utc\.day\(\), now_utc\.hour\(\), now_utc\.minute\(\), now_utc\.second\(\), \) \.unwrap\(\); let now = tz_offset\.from_utc_datetime\(&now_utc_\.naive_utc\(\)\); let now_off = now\.checked_add_signed\(duration\); now_off \}', 'Now: truncate now to whole seconds, add duration'),
        (r'DUR_OFFSET_TYPE::Other => \{ match dt_other_opt \{ Some\(dt_other\) => \{ let other_off = dt_other\.checked_add_signed\(duration\); other_off \} None => \{ e_err!\([^;]*\); std::process::exit\(EXIT_ERR\); \} \} \}', 'Other: add duration to the other bound, exit when it is unset'),
    ]:
        if not re.search(pat, flat):
            raise GenError(f"string_to_rel_offset_datetime: no longer `{what}`")

    # ---- cli_process_tz_offset
    _, fb, _ = find_fn(s4, 'cli_process_tz_offset')
    flat = re.sub(r'\s+', ' ', strip_trace(fb))
    m = re.search(r'let mut data: String = String::from\(("[^"]*")\); data\.push_str\(tzo_\); for pattern in \[(.*?)\] \{', flat)
    if not m:
        raise GenError("cli_process_tz_offset: dummy datetime + pattern list not found")
    tz_dummy = rust_str_lit(m.group(1), 'cli_process_tz_offset dummy')
    tz_patterns = [rust_str_lit(p, 'cli_process_tz_offset pattern') for p in split_top_commas(m.group(2))]
    if not re.search(r'let tzo_ = match MAP_TZZ_TO_TZz\.get\(tzo\) \{ Some\(tz_offset\) => \{ match tz_offset\.is_empty\(\) \{ true => \{ return Err\(', flat):
        raise GenError("cli_process_tz_offset: ambiguous (empty) map value no longer returns Err")
    if not re.search(r'let dt = datetime_parse_from_str_w_tz\(data\.as_str\(\), pattern\); if let Some\(dt_\) = dt \{ return Ok\(\*dt_\.offset\(\)\); \}', flat):
        raise GenError("cli_process_tz_offset: not first successful datetime_parse_from_str_w_tz")

    # ---- cli_process_args: -a/-b evaluation order
    _, fb, _ = find_fn(s4, 'cli_process_args')
    flat = re.sub(r'\s+', ' ', strip_trace(fb))
    ab = (r'match \(string_wdhms_to_duration\(args_dt_after_s\), string_wdhms_to_duration\(args_dt_before_s\)\) \{ '
          r'\(Some\(\(_, DUR_OFFSET_TYPE::Other\)\), Some\(\(_, DUR_OFFSET_TYPE::Other\)\)\) => \{ e_err!\([^;]*\); std::process::exit\(EXIT_ERR\); \} '
          r'\(Some\(\(_, DUR_OFFSET_TYPE::Other\)\), _\) => \{ '
          r'filter_dt_before = process_dt_exit\(&args\.dt_before, &tz_offset, &None, &utc_now\); '
          r'filter_dt_after = process_dt_exit\(&args\.dt_after, &tz_offset, &filter_dt_before, &utc_now\); \} '
          r'_ => \{ '
          r'filter_dt_after = process_dt_exit\(&args\.dt_after, &tz_offset, &None, &utc_now\); '
          r'filter_dt_before = process_dt_exit\(&args\.dt_before, &tz_offset, &filter_dt_after, &utc_now\); \} \}')
    if not re.search(ab, flat):
        raise GenError("cli_process_args: the -a/-b evaluation order block changed shape")
    if not re.search(r'match \(filter_dt_after, filter_dt_before\) \{ \(Some\(dta\), Some\(dtb\)\) => \{ if dta > dtb \{ e_err!\([^;]*\); std::process::exit\(EXIT_ERR\); \} \} _ => \{\} \}', flat):
        raise GenError("cli_process_args: `dta > dtb` rejection changed shape")
    if not re.search(r'let args_dt_after_s: &String = args \.dt_after \.as_ref\(\) \.unwrap_or\(&empty_str\);', flat):
        raise GenError("cli_process_args: absent -a no longer peeked as the empty string")
    _, fb, _ = find_fn(s4, 'process_dt_exit')
    flat = re.sub(r'\s+', ' ', strip_trace(fb))
    if not re.search(r'if dts_opt\.is_none\(\) \{ return None; \} match process_dt\(dts_opt, tz_offset, dt_other, now_utc\) \{ Some\(dto\) => Some\(dto\), None => \{ e_err!\([^;]*\); std::process::exit\(EXIT_ERR\); \} \}', flat):
        raise GenError("process_dt_exit: changed shape")

    # ---- datetime_parse_from_str facts
    _, fb, _ = find_fn(dtm, 'datetime_parse_from_str')
    flat = re.sub(r'\s+', ' ', strip_trace(fb))
    if not (re.search(r'if has_tz \{ match DateTime::parse_from_str\(data, pattern\) \{ Ok\(val\) => \{ if !datetime_from_str_workaround_Issue660\(data, pattern\) \{ return None; \} Some\(val\) \}', flat)
            and re.search(r'NaiveDateTime::parse_from_str\(data, pattern\)', flat)
            and re.search(r'match tz_offset \.from_local_datetime\(&dt_naive\) \.earliest\(\)', flat)):
        raise GenError("datetime_parse_from_str: changed shape")

    # ---- MAP_TZZ_TO_TZz
    m = re.search(r"pub static MAP_TZZ_TO_TZz\s*:\s*PhfMap<&'static str, &'static str>\s*=\s*phf_map!\s*\{(.*?)\n\};", dtm, re.S)
    if not m:
        raise GenError("datetime.rs: MAP_TZZ_TO_TZz phf_map not found")
    tz = []
    for item in split_top_commas(m.group(1)):
        mm = re.fullmatch(r'("(?:[^"\\]|\\.)*")\s*=>\s*("(?:[^"\\]|\\.)*")', item.strip(), re.S)
        if not mm:
            raise GenError(f"datetime.rs: MAP_TZZ_TO_TZz entry not \"K\" => \"V\": {item[:40]!r}")
        tz.append((rust_str_lit(mm.group(1), 'tz key'), rust_str_lit(mm.group(2), 'tz value')))
    keys = [k for k, _ in tz]
    if len(set(keys)) != len(keys):
        raise GenError("datetime.rs: MAP_TZZ_TO_TZz has duplicate keys")
    for k, v in tz:
        if v and not re.fullmatch(r'[+-]\d\d:\d\d', v):
            raise GenError(f"datetime.rs: MAP_TZZ_TO_TZz value {v!r} for {k!r} is neither empty nor ±HH:MM")
        if not re.fullmatch(r'[A-Za-z]+', k):
            raise GenError(f"datetime.rs: MAP_TZZ_TO_TZz key {k!r} is not ASCII-alphabetic")

    # ---- the Unicode class behind `\d` in the regex crate (regex-syntax, version pinned by Cargo.lock)
    lock = open(os.path.join(repo, 'Cargo.lock')).read()
    m = re.search(r'name = "regex-syntax"\nversion = "([^"]+)"', lock)
    if not m:
        raise GenError("Cargo.lock: regex-syntax not found")
    rs_ver = m.group(1)
    import glob
    cargo_home = os.environ.get('CARGO_HOME', os.path.expanduser('~/.cargo'))
    cands = glob.glob(os.path.join(cargo_home, 'registry', 'src', '*', 'regex-syntax-' + rs_ver,
                                   'src', 'unicode_tables', 'general_category.rs'))
    if not cands:
        raise GenError(f"regex-syntax-{rs_ver} sources not found under {cargo_home}/registry (needed for the \\d table)")
    gc = open(cands[0], encoding='utf-8').read()
    m = re.search(r"pub const DECIMAL_NUMBER: &'static \[\(char, char\)\] = &\[(.*?)\];", gc, re.S)
    if not m:
        raise GenError("regex-syntax: DECIMAL_NUMBER table not found")
    nd = []
    for a, b in re.findall(r"\('(\\u\{[0-9a-fA-F]+\}|[^'\\])', '(\\u\{[0-9a-fA-F]+\}|[^'\\])'\)", m.group(1)):
        def cp(x):
            return int(x[3:-1], 16) if x.startswith('\\u') else ord(x)
        nd.append((cp(a), cp(b)))
    if not nd or nd[0] != (48, 57) or any((b - a + 1) % 10 != 0 for a, b in nd):
        raise GenError("regex-syntax: DECIMAL_NUMBER table has an unexpected shape")

    # ---- emit
    L = []
    L.append('/-')
    L.append('GENERATED by gen/gen_cli.py from src/bin/s4.rs and src/data/datetime.rs — do not edit.')
    L.append('-/')
    L.append('namespace S4V.Gen.CliTables')
    L.append('')
    L.append('/-- one row of `CLI_FILTER_PATTERNS`: (pattern, has year, has timezone, has_Z (named zone), has time) -/')
    L.append('structure Row where')
    L.append('  pattern : String')
    L.append('  hasYear : Bool')
    L.append('  hasTz : Bool')
    L.append('  hasTzZ : Bool')
    L.append('  hasTime : Bool')
    L.append('  deriving Repr, DecidableEq')
    L.append('')
    L.append(f'def cliFilterPatternsCount : Nat := {count}')
    L.append('')
    L.append('def cliFilterPatterns : List Row := [')
    for i, r in enumerate(rows):
        b = ['true' if x else 'false' for x in r[1:]]
        L.append(f'  ⟨{lean_str(r[0])}, {b[0]}, {b[1]}, {b[2]}, {b[3]}⟩' + (',' if i + 1 < len(rows) else ''))
    L.append(']')
    L.append('')
    L.append('/-- the distinct chrono specifiers occurring in the table -/')
    L.append('def cliSpecifiers : List String := [' + ', '.join(lean_str(x) for x in specs) + ']')
    L.append('')
    L.append(f'def appendTimeValue : String := {lean_str(append_value)}')
    L.append(f'def appendTimePattern : String := {lean_str(append_pattern)}')
    L.append('')
    for key in ('TYPE', 'ADDSUB', 'SECONDS', 'MINUTES', 'HOURS', 'DAYS', 'WEEKS'):
        L.append(f'def cgpDurOffset{key.capitalize()} : String := {lean_str(pieces[key])}')
    L.append('/-- the order of the alternatives inside `( … )+` -/')
    L.append('def durRegexAlternatives : List Char := [' + ", ".join("'%s'" % bodies[k][-1] for k in ('SECONDS', 'MINUTES', 'HOURS', 'DAYS', 'WEEKS')) + ']')
    L.append(f'def durRegex : String := {lean_str(regex_full)}')
    L.append(f'def durRegexAnchoredStart : Bool := {"true" if anchored_start else "false"}')
    L.append(f'def durRegexAnchoredEnd : Bool := {"true" if anchored_end else "false"}')
    L.append(f'def exitErr : Nat := {exit_err}')
    L.append('')
    L.append(f'def tzOffsetDummy : String := {lean_str(tz_dummy)}')
    L.append('def tzOffsetPatterns : List String := [' + ', '.join(lean_str(p) for p in tz_patterns) + ']')
    L.append('')
    L.append('/-- `MAP_TZZ_TO_TZz`: zone name ↦ numeric offset; the empty string marks an ambiguous name -/')
    L.append('def tzTable : List (String × String) := [')
    for i, (k, v) in enumerate(tz):
        L.append(f'  ({lean_str(k)}, {lean_str(v)})' + (',' if i + 1 < len(tz) else ''))
    L.append(']')
    L.append('')
    L.append(f'/-- Unicode general category Nd (what `\\d` matches in regex-syntax {rs_ver}): inclusive code point ranges -/')
    L.append('def ndRanges : List (Nat × Nat) := [')
    for i in range(0, len(nd), 6):
        L.append('  ' + ', '.join(f'({a}, {b})' for a, b in nd[i:i + 6]) + (',' if i + 6 < len(nd) else ''))
    L.append(']')
    L.append('')
    # what "now" the now-relative forms count from: the single clock reading taken when the program starts (`UTC_NOW`, which the
    # summary prints as `Datetime Now`), not a later reading (seeded change C14-d read the clock again after the stdin path list)
    _, cpa, _ = find_fn(s4, 'cli_process_args')
    cflat = re.sub(r'\s+', ' ', strip_trace(cpa))
    now_lets = re.findall(r'let utc_now(?:: [^=]+)? = ([^;]+);', cflat)
    if len(now_lets) != 1:
        raise GenError(f"cli_process_args: expected exactly one `let utc_now = …;`, found {len(now_lets)}")
    now_is_start = now_lets[0].strip() == 'UTC_NOW.with(|utc_now| *utc_now)' and 'Utc::now()' not in cflat
    _, pdt, _ = find_fn(s4, 'process_dt')
    if 'Utc::now()' in pdt:
        now_is_start = False
    L.append('/-- `cli_process_args` hands `process_dt` the program-start instant `UTC_NOW` as "now" (`true`); `false`: some other clock reading -/')
    L.append(f'def RELATIVE_NOW_IS_PROGRAM_START : Bool := {"true" if now_is_start else "false"}')
    L.append('')
    L.append('end S4V.Gen.CliTables')
    info = {'rows': len(rows), 'specifiers': specs, 'tz_entries': len(tz),
            'tz_ambiguous': sum(1 for _, v in tz if not v),
            'anchored': [anchored_start, anchored_end], 'nd_ranges': len(nd)}
    return '\n'.join(L) + '\n', info
