#!/usr/bin/env python3
"""Emit lean/S4V/Props/RegexE2EShape{a,b,…}.lean + the index lean/S4V/Props/RegexE2EShape.lean — per row of
`DATETIME_PARSE_DATAS` with an end-to-end theorem (`C04_rowN_end_to_end[_all]`, tools/mk_regexe2e.py):

  `catN`                          ONE kernel computation: `catOK rowN body = true` (= `shapeFromCatalogue rowN body` and `rangeFromCatalogue rowN body`
                                  in one traversal of the catalogue; `shape_of_catOK`, `range_of_catOK`):
                                  (every symbolic word of the row's derived catalogue that can fill a named group has the shape of
                                  the group's field kind; month 1–12, day 1–31, minute ≤ 59, second ≤ 60 on every such word)
  `C04_rowN_end_to_end_shaped`    the end-to-end theorem WITHOUT the `shapeOK` hypothesis and with `rangeOK` reduced to
                                  `calendarOK` (hour ≤ 23, numeric zone hours ≤ 23 / minutes ≤ 59, the day exists in that month)

Soundness of the two checks is proved once (`S4V.Lemmas.RegexE2EShape`). Nothing is computed here that the kernel does not
re-check: a Lean probe (`#eval`) tells which rows pass (rows that do not pass get NO theorem; the index lists the
offending symbolic words) and how big the catalogues are (to size the files: < LEN_BUDGET kernel seconds each).

usage: tools/mk_regexe2e_shape.py     (run from the framework root, after tools/mk_regexe2e.py --len)
"""
import glob, json, os, re, subprocess, sys

sys.path.insert(0, os.path.dirname(os.path.abspath(__file__)))
import mk_regexe2e as base

ROOT, LEAN, PROPS = base.ROOT, base.LEAN, base.PROPS
BUDGET = 30            # kernel seconds per file (same weights as the `Len` files: the catalogue computation dominates)
FIELDS = [('year', 'yearOKs row{i}.dtfs.year'), ('month', 'monthOKs row{i}.dtfs.month'), ('day', 'dayOKs'),
          ('hour', 'hourOKs row{i}.dtfs.hour'), ('minute', 'minuteOKs'), ('second', 'secOKs row{i}.dtfs.second'),
          ('fractional', 'fracOKs row{i}.dtfs.fractional'), ('tz', 'tzOKs row{i}.dtfs.tz'),
          ('month', 'valS 16 (monthIn row{i}.dtfs.month)'), ('day', 'valS 16 dayIn'), ('minute', 'valS 128 minuteIn'),
          ('second', 'valS 128 (secIn row{i}.dtfs.second)')]


def all_rows():
    """row -> name of the `Len` module holding `C04_rowN_end_to_end_all`"""
    res = {}
    for p in sorted(glob.glob(os.path.join(PROPS, 'RegexE2ELen*.lean'))):
        for m in re.finditer(r'theorem C04_row(\d+)_end_to_end_all ', open(p).read()):
            res[int(m.group(1))] = os.path.basename(p)[:-5]
    return res


def run_lean(name, src):
    path = os.path.join(ROOT, '.build', 'regexe2e', name)
    os.makedirs(os.path.dirname(path), exist_ok=True)
    open(path, 'w').write(src)
    out = subprocess.run(['lake', 'env', 'lean', path], cwd=LEAN, capture_output=True, text=True)
    if out.returncode != 0:
        print(out.stdout[-3000:], out.stderr[-3000:], file=sys.stderr)
        raise SystemExit(f'{name}: probe failed')
    return out.stdout


PRE = ('import S4V.Lemmas.RegexE2EShape\nimport S4V.Gen.Regex\n' + base.OPEN +
       'open S4V.Lemmas.RegexE2E S4V.Gen.TimeTables\nset_option maxRecDepth 100000\n')


def probe(rows, dt):
    src = [PRE]
    for i in dt:
        b = base.body(rows[i])
        src.append(f'#eval IO.println s!"ROW {i} {{shapeFromCatalogue row{i} {b}}} {{rangeFromCatalogue row{i} {b}}} '
                   f'{{decide (row{i}.dtfs.year = .fill)}} {{row{i}.dtfs.tz matches .z | .zc | .zp}} {{catOK row{i} {b}}} '
                   f'{{{b}.foldl (fun a q => a + q.dom.length) 0}}"\n')
    res = {}
    for l in run_lean('ProbeShape.lean', ''.join(src)).splitlines():
        m = re.match(r'ROW (\d+) (true|false) (true|false) (true|false) (true|false) (true|false) (\d+)$', l)
        if m:
            res[int(m.group(1))] = dict(shape=m.group(2) == 'true', range=m.group(3) == 'true', fill=m.group(4) == 'true',
                                        numtz=m.group(5) == 'true', cat=m.group(6) == 'true', entries=int(m.group(7)))
    if len(res) != len(dt):
        raise SystemExit(f'probe: {len(res)}/{len(dt)} rows')
    return res


def offenders(rows, bad):
    """for the rows that fail a check: field -> offending (piece, symbolic word) list, as Lean prints it"""
    if not bad: return {}
    src = [PRE]
    for i in bad:
        b = base.body(rows[i])
        for name, ps in FIELDS:
            src.append(f'#eval IO.println s!"OFF {i} {name} {{repr (offenders row{i} {b} "{name}" ({ps.format(i=i)}))}}"\n')
    res = {}
    for l in run_lean('ProbeOffenders.lean', ''.join(src)).splitlines():
        m = re.match(r'OFF (\d+) (\w+) (.*)$', l)
        if m and m.group(3).strip() != '[]':
            res.setdefault(int(m.group(1)), []).append((m.group(2), m.group(3)))
    return res


def block(r, info, allmod):
    i = r['idx']
    b = base.body(r)
    tl = f'(ht : TailIn (rowEndSym re{i}) tail)' if r['end'] == 'E' else f'(ht : TailF (autoTail re{i}) tail)'
    if allmod:
        hl, call = '', f'C04_row{i}_end_to_end_all sel hv tail ht'
        lnote = 'every selection'
    else:
        hl = f'(hlen : (flat sel).length ≤ row{i}.rangeEnd) '
        call = f'C04_row{i}_end_to_end sel hv tail ht hlen'
        lnote = f'selections up to `range_regex.end` = {r["rend"]} bytes (the catalogue has longer renderings)'
    if info['fill']:
        hf = '(hfill : ∀ y, fill = some y → 1000 ≤ y ∧ y ≤ 9999) '
        pf = '(fillOK_of _ fill hfill)'
        fnote = '; the text has no year: the fill year must have four digits (`hfill`)'
    else:
        hf, pf, fnote = '', 'rfl', ''
    return ('set_option maxRecDepth 100000 in\n'
            f'/-- row {i}: every word its catalogue admits for a named group has the shape of the group\'s field kind; month, day, minute,\n'
            'second are in range on every such word (`catOK` = `shapeFromCatalogue` and `rangeFromCatalogue` in one traversal) -/\n'
            f'theorem cat{i} : catOK row{i} {b} = true := by decide +kernel\n\n'
            f'/-- **row {i}** (`{r["dtfs"]}`): line text → instant, NO word-shape hypothesis; {lnote}{fnote}. Left of `rangeOK`: `calendarOK`\n'
            f'(hour ≤ 23{", zone hours ≤ 23 / minutes ≤ 59" if info["numtz"] else ""}, the day exists in that month) -/\n'
            f'theorem C04_row{i}_end_to_end_shaped (sel : Sel) (hv : Valid {b} sel) (tail : List UInt8) {tl}\n' +
            f'    {hl}(fbOff : Int) (hfb : FbOK\' fbOff) (fill : Option Int) {hf}'.rstrip() + '\n'
            f'    (hc : calendarOK row{i}.dtfs (selFields row{i} sel) fill = true) :\n'
            f'    rowPipeline row{i} (flat sel ++ tail) fbOff fill = some (fieldsOf row{i}.dtfs (selFields row{i} sel) fbOff fill).instant :=\n'
            f'  {call} fbOff hfb fill\n'
            f'    (shapeFromCatalogue_sound (shape_of_catOK cat{i}) sel hv fill {pf}) (rangeFromCatalogue_sound (range_of_catOK cat{i}) sel hv fill hc)\n\n')


def main():
    rows, tab = base.load()
    epoch = [i for i, r in rows.items() if r['dtfs'] in ('DTFSS_s', 'DTFSS_sf')]
    dt = sorted(i for i in rows if i not in epoch)
    allm = all_rows()
    pr = probe(rows, dt)
    good = [i for i in dt if pr[i]['shape'] and pr[i]['range'] and pr[i]['cat']]
    bad = [i for i in dt if i not in good]
    off = offenders(rows, bad)

    def weight(i):
        e = pr[i]['entries']
        return 30 if e > 450 else 8 if e > 300 else 3
    chunks, cur, w = [], [], 0
    for i in good:
        if cur and w + weight(i) > BUDGET:
            chunks.append(cur); cur, w = [], 0
        cur.append(i); w += weight(i)
    if cur: chunks.append(cur)
    names = []
    for fi, chunk in enumerate(chunks):
        name = 'RegexE2EShape' + base.suffix(fi)
        names.append(name)
        imports = sorted({allm[i] for i in chunk if i in allm} | ({'RegexE2E'} if any(i not in allm for i in chunk) else set()))
        o = ['/-\nGENERATED by tools/mk_regexe2e_shape.py — regenerate, do not edit.\n\n'
             f'C04, regex slice, stage 7 — rows {chunk[0]}–{chunk[-1]}: the word-shape hypothesis `shapeOK` of `C04_rowN_end_to_end` and the\n'
             'catalogue-guaranteed part of `rangeOK` discharged from the row\'s derived catalogue (`catN`: one kernel computation per\n'
             'row; soundness of the checks: `S4V.Lemmas.RegexE2EShape`). What remains is `calendarOK`. Reading guide, non-vacuity, what\n'
             'the code does outside `calendarOK` and the counter-models: `S4V.Props.RegexE2EShapeSpec`.\n-/\n',
             'import S4V.Lemmas.RegexE2EShape\n' + ''.join(f'import S4V.Props.{m}\n' for m in imports),
             '\nnamespace S4V.Props.RegexE2E\n', base.OPEN,
             'open S4V.Lemmas.RegexE2E S4V.Props.RegexCapture3 S4V.Gen.TimeTables\n\n']
        for i in chunk:
            o.append(block(rows[i], pr[i], allm.get(i)))
        o.append('end S4V.Props.RegexE2E\n')
        open(os.path.join(PROPS, name + '.lean'), 'w').write(''.join(o))
    # index + coverage table
    table = []
    for i in range(len(tab)):
        if i not in rows:
            table.append((i, 'no end-to-end theorem (no capture theorem: `[^\\n]+` before the stamp)'))
        elif i in epoch:
            table.append((i, f'no end-to-end theorem ({rows[i]["dtfs"]}: epoch rows, statement false, F26)'))
        elif i in bad:
            why = '; '.join(f'{n}: {w}' for n, w in off.get(i, [])) or 'an absent field the notation needs'
            table.append((i, f'NOT SHAPED — shapeFromCatalogue={pr[i]["shape"]} rangeFromCatalogue={pr[i]["range"]}; offending words: {why}'))
        else:
            rem = ['calendarOK (hour ≤ 23' + (', zone hh ≤ 23 / mm ≤ 59' if pr[i]['numtz'] else '') + ', day exists in month)']
            if pr[i]['fill']: rem.append('hfill (no year in the text: 4-digit fill year)')
            if i not in allm: rem.append(f'hlen (catalogue renderings longer than range_regex.end = {rows[i]["rend"]})')
            table.append((i, f'C04_row{i}_end_to_end_shaped ({rows[i]["dtfs"]}) — remains: ' + '; '.join(rem)))
    agg = ['/-\nGENERATED by tools/mk_regexe2e_shape.py — regenerate, do not edit.\n\n'
           'C04, regex slice, stage 7 — index of the per-row SHAPED end-to-end theorems (no `shapeOK` hypothesis; `rangeOK` reduced to\n'
           '`calendarOK`).\n\nTABLE (row → shaped theorem — which hypotheses remain and why | why not):\n']
    agg += [f'  {i:3d}  {t}\n' for i, t in table]
    agg.append('-/\n' + ''.join(f'import S4V.Props.{n}\n' for n in names))
    agg.append('\nnamespace S4V.Props.RegexE2E\n\n/-- rows with a `C04_rowN_end_to_end_shaped` theorem -/\ndef shapedRows : List Nat := [' +
               ', '.join(map(str, good)) + ']\n'
               '/-- rows with an end-to-end theorem whose catalogue admits a word that is not well shaped / not in range -/\n'
               'def unshapedRows : List Nat := [' + ', '.join(map(str, bad)) + ']\n'
               '/-- shaped rows that keep the fill-year hypothesis (no year in the text) -/\ndef fillRows : List Nat := [' +
               ', '.join(str(i) for i in good if pr[i]['fill']) + ']\n'
               '/-- shaped rows that keep the length hypothesis -/\ndef shapedCutRows : List Nat := [' +
               ', '.join(str(i) for i in good if i not in allm) + ']\n\nend S4V.Props.RegexE2E\n')
    open(os.path.join(PROPS, 'RegexE2EShape.lean'), 'w').write(''.join(agg))
    json.dump(dict(files=names, good=good, bad=bad, offenders=off, table=table),
              open(os.path.join(ROOT, '.build', 'regexe2e', 'shape_table.json'), 'w'), indent=1)
    print(f'{len(good)} shaped rows in {len(names)} files; {len(bad)} rows fail a check: {bad}; '
          f'{sum(1 for i in good if pr[i]["fill"])} keep hfill; {sum(1 for i in good if i not in allm)} keep hlen')


if __name__ == '__main__':
    main()
