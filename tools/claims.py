# table of claimed properties (executed by tools/manifest.py)
TB = ("Trusted: Lean 4.33 kernel with axioms propext/Classical.choice/Quot.sound only (audited per theorem by #print axioms; sources grepped for "
      "sorry/axiom/native_decide/bv_decide/implemented_by/unsafe); the translator gen/s4gen.py; the correspondence harness and its generators "
      "(differential testing, bounded). ")

claim('C12', 'Lean 4 theorems over a hand model of find_line + translated block arithmetic + the pattern-selection model; in-process differential correspondence; --blocksz oracle on the binary',
      "Machine-checked for all block sizes >= 1, all byte strings, all offsets: translated block arithmetic laws, find_line returns exactly the line "
      "containing the offset (bounds, bytes, parts in bounds and contiguous), lines tile the file, the in-block variant is sound; the message layer of the model "
      "is block-free; for accounting files the whole reader output (layout error or the sequence sent, counters, first offset) is a function of the file, layout and window only, hence equal at any two block sizes and equal between a plain and a gz/bz2/lz4 reader (C12_fixed_blocksz_independent, C12_fixed_plain_vs_streamed over the FixedWalk model; tie fwalk). The model is tied to the code by exhaustive small-file and random-history differential runs of the real LineReader, and the binary is run at many "
      "--blocksz values against the default. The bs-dependent acceptance gate is outside these theorems (known findings F1, F2). Which datetime pattern a file is read with is modelled with "
      "constants regenerated from syslinereader.rs/syslogprocessor.rs (PatSelSpec): for a one-notation file the chosen row and every date are independent of how many lines block zero holds "
      "(C04_single_notation_blocksize_independent); for mixed notations they are not (C04_mixed_notation_full_false = known finding F30); tie: component patsel (real SyslineReader/SyslogProcessor).",
      TB + "Modelled not verified: regex/chrono (the match matrix is an input of the pattern-selection model, computed by the harness with the real regexes), block-zero gate (known findings).",
      "DESIGN.md §6 C12, §5 Lines/Blocks")

claim('C02', 'Lean 4 theorems (lines tile the file; messages partition; find_sysline / streaming loop emit each message once; cache/drop soundness of LineReader and SyslineReader for every history) over hand models of LineReader and SyslineReader; in-process differential correspondence; stdout == file-suffix oracle',
      "Machine-checked for every parser P, every byte string, every block size >= 1: find_line is the line containing the offset, lines tile the file, messages are "
      "contiguous from the first timestamped line to the last byte, find_sysline returns the containing message, and the streaming loop of exec_syslogprocessor emits every "
      "message exactly once in file order; the LineReader's cache and drops are transparent for every history (CacheSpec); the SyslineReader's stored state (syslines, syslines_by_range, find_sysline LRU; lookup order and "
      "invalidation regenerated from the source) never yields a wrong message for any history of finds, in-block finds, drops, clears and removes, and is exactly transparent for drop-free histories and for the "
      "find-then-drop discipline of exec_syslogprocessor (SyslCacheSpec; two latent library defects outside that discipline are proved as counter-models and reproduced on the real reader); the printer writes exactly the message's parts in order through "
      "its 2056-byte buffer (PrintSpec: C13_parts_bytes, C19_printed_eq_written, macro bodies regenerated from printers.rs). LineReader::find_line itself is REGENERATED from linereader.rs as a program (101 statements) whose interpreter is proved equal to the hand models for every store and block size (LineSkelSpec: C12_findLine_skeleton_is_model, C12_findLineCached_skeleton_is_model, C02_history_skeleton_is_model), and with the previous line stored it never requests a block below the offset's block (C05_findLine_no_lookback; counter-model = seeded C12-d); ten mutants regenerated from edited source text each falsify a named statement; component lskel compares real = hand = interpreter. The models are tied to the real readers by differential runs (exhaustive small files at every block size; random access with warm "
      "caches and drops; gz). The binary's stdout is compared byte for byte with the file suffix for 8 input shapes (CRLF, NUL/non-UTF-8, missing final newline, headless "
      "prefix, multi-block lines, > 8096 bytes, lines longer than the print buffer). find_line_in_block and drop_line are regenerated too (LineSkel2Spec). The acceptance gate is modelled, REGENERATED as a decision skeleton whose interpreter equals the hand model on all inputs (GateSkelSpec: C02_gate_skeleton_is_model), and tied (gskel), but is bs-dependent: known findings F1, F2.",
      TB + "Modelled not verified: regex/chrono decide which lines are timestamped (parameter P; the regexes themselves are modelled under C04); completion of the in-block walk is an observed input of the cached sysline model.",
      "DESIGN.md §6 C02")

claim('C03', 'Lean 4 theorems over source-translated window functions + hand models of binary/linear search and the streaming loop; in-process differential correspondence; -a/-b oracle on the binary',
      "Machine-checked: every translated window decision function is inclusive at both bounds (missing bound = unbounded); for chronological text logs with messages >= 2 "
      "bytes the binary search and the linear search return the first message with dt >= A from any message start, never err/run out of fuel, and the windowed streaming loop "
      "emits exactly the messages with A <= dt <= B in file order ([] when none); a 1-byte-message counterexample to the unrestricted binary-search statement is proved. "
      "Accounting/event records: membership iff non-null and inside the inclusive window. Tie: translated functions are regenerated every run; the search models run against the "
      "real SyslineReader (plain and gz) on sorted logs with duplicate instants; the binary is run with windows on, next to and between instants.",
      TB + "Assumes chronological text logs (binary search); regex/chrono attribute instants (C04); journal windows are C09.",
      "DESIGN.md §6 C03")

claim('C01', 'Lean 4 theorems on the coordinator transition system and the k-way merge specification; event-trace replay of the real binary under seeded delay plans; reference-merge oracle',
      "Machine-checked: for every schedule the coordinator prints merge(scripts); merge preserves each source's order, always emits an earliest head with lower PathIds "
      "strictly later, is sorted (lexicographically by instant, PathId) when every source is, and puts equal instants in PathId order. Tie: cfg(s4_verif) traces of "
      "processing_loop under delay plans are replayed through the model's step function; stdout of tie-heavy multi-source runs in shuffled argument order is compared with "
      "the reference merge.",
      TB + "Assumes Iterator::min_by keeps the first minimum and BTreeMap iterates in key order; directory walk order is C15.",
      "DESIGN.md §6 C01")

claim('C06', 'Lean 4 theorems on the worker/bounded-channel/coordinator transition system (confluence, no early break, deadlock-freedom, iteration bound); event-trace replay under seeded delay plans; stdout-equality oracle',
      "Machine-checked on the protocol model with the channel capacity read from the source: every finished run, whatever the interleaving, has printed merge(scripts); "
      "the early-break path is unreachable when every worker sends FileInfo first (and a counter-model shows that discipline is needed); some step is always enabled "
      "(no deadlock) for capacity >= 1; iterations are bounded. The coordinator loop itself is REGENERATED from processing_loop (wait condition as written, which channels are polled, the ordered effects of the four receive arms, the print branch, the exits) and its interpreter is proved EQUAL to the hand transition function on every live state (CoordSkelSpec: C06_coord_skeleton_is_model, skelRun_eq_run), so the C06/C01 theorems hold of the regenerated loop; eight mutants (wait `!=`->`<`, dropped fileinfo clause, no removal on disconnect, eager print, select_timeout = seeded C06-a, ...) are decided wrong on concrete runs; workers start unconditionally (dispatcher facts regenerated; counter-model bounded_pool_deadlocks = seeded C06-d). Tie: every event of real traces taken under seeded send/poll delays must be an enabled model transition and "
      "the model's final output must equal the real one; stdout must be byte-identical across delay plans.",
      TB + "Runtime behaviour the model cannot exhibit: OS scheduling fairness, crossbeam internals (assumed FIFO per channel, select returns a ready channel).",
      "DESIGN.md §6 C06")

claim('C08', 'Lean 4 theorems on the ordered-map insert/drain model, on the time-value extraction and on the record-to-text render programs, with key shape, window comparisons, the 16-layout time-field table and every as_bytes arm regenerated from the source; in-process correspondence of tv_pair_from_buffer and as_bytes; printed-order correspondence and field oracle on synthesised wtmp / pacct / lastlog files',
      "Machine-checked: with the map key regenerated from the source (time value, file offset) the printed order is the stable sort by time value of the non-null, "
      "in-window records - each exactly once, equal times in file order, window inclusive; a proved counter-model shows records are lost when the key lacks the offset (the "
      "defect that was repaired by commit 6df5067a). WHICH value is the record's time is proved over a table regenerated for all 16 record layouts (size, offset_tv, size_tv, the primitive "
      "type tv_pair_from_buffer reads, the declared type and the computed offset of the struct's time field, re-checked against the source's own 167 layout assertions): the ordering value is the time "
      "field read with its DECLARED type at its DECLARED offset (C08_tv_types_agree, C08_tv_denotes; unsigned fields stay monotone across 2^31: C08_tv_monotone_unsigned; counter-model "
      "signed_read_of_unsigned_misorders). Tie: the key shape, prefilter operators, null test and the layout table are re-read every run; the real tv_pair_from_buffer / FixedStruct::new on ~3600 "
      "random and boundary records of every layout per run; the binary on synthesised wtmp (utmpx), pacct (acct_v3) and lastlog files (ties, nulls, disorder, times across 2^31, every container, "
      "windows) with its printed order compared with the model; each line must show the record's own fields. The text of a record is proved as well (FixedRenderSpec): every arm of "
      "FixedStruct::as_bytes is translated into a render program on every run (fields resolved from the struct definitions, the 14 writer macros pinned) and, for all 16 layouts, every read lies inside the one "
      "field the op names and inside the record (the line of record k depends on record k's bytes only), the line is label/value pieces with distinct labels and canonical values, shown + omitted = all fields, every "
      "number is read with its declared type, the datetime shown is the sort-key field; tie: real FixedStruct::new + as_bytes on 8k-64k records per run, byte for byte. The record WALK is modelled too (FixedWalkSpec, facts regenerated from blockreader.rs / fixedstructreader.rs / s4.rs): read_data_to_buffer returns exactly d[beg,end) for EVERY block size >= 1 and every request, any number of blocks spanned (readData_spec_any; nine off-by-one edits of the many-block arm proved wrong), preprocess_timevalues builds exactly the map of the non-null in-window records keyed (time, offset) with exact counters for every block size, and the worker loop over process_entry_at emits one entry per key in ascending (time, offset) order with bytes d[fo,fo+sz) whether served from the score_file cache or read afresh, going on after a record FixedStruct::new rejects (walk_spec; C08_walk_is_stable_sort ties it to the stable sort); drop_entry never makes a later read wrong, streamed files keep their blocks (counter-model = F24); tie fwalk: real FixedStructReader::new / fileoffset_first / process_entry_at / summary on every layout x block sizes from 1 x windows x plain|gz, and direct read_data_to_buffer call sequences. Known finding F12 (stray NUL after each record).",
      TB + "Modelled not verified: layout detection (score_file); layouts other than Linux utmpx / acct_v3 / lastlog are tied in-process only (time value and text).",
      "DESIGN.md §6 C08")

claim('C10', 'Lean 4 theorems on the ordered-map insert/drain model with key shape and ts_pass_filters regenerated from the source; printed-order correspondence against an independent evtx-crate dump',
      "Machine-checked: with key (timestamp, enumeration index) the output is the stable sort by creation time of the in-window records, each exactly once, ties in "
      "enumeration order, window inclusive; counter-model for a key without the index. The reader itself is modelled with facts regenerated by gen_evtx.py (parser settings incl. chunk-checksum validation off, both arms of analyze's record loop, next = pop_first, summary fields): unreadable records never drop or reorder readable ones, every chunk is read whatever its CRC (counter-model = seeded C10-d), reader counters and summary fields (EvtxReaderSpec). Tie: component evtxr (the real EvtxReader in-process on mutated copies of the sample vs the model fed an independent chunk-level parse); key/insert/pop_first/filter shapes re-read from evtxreader.rs every run; the binary "
      "is run on the shipped sample (out of order) and on copies with patched header timestamps (ties, disorder), plain and in every container, against an independent dump.",
      TB + "The evtx crate's parsing is trusted (shared by s4 and the dump); XML rendering not modelled.",
      "DESIGN.md §6 C10")

claim('C16', 'Lean 4 theorems on a hand model of pathbuf_to_filetype_impl over tables regenerated from the source; in-process differential correspondence of path_to_filetype; metamorphic oracle',
      "Machine-checked for every byte string: classification terminates (fuel |name|+1 always suffices; each recursion strictly shortens the name), a named file is never "
      "Unparsable and a kept walked file gets the same type as when named, numeric/unrecognised trailing components are skipped, one compression suffix sets the container and "
      "keeps the type (the inner of two wins), letter case never matters, trailing junk (UTF-8 names) and leading junk (other than the proved corner) never matter, the first "
      "recognised type word from the right decides, unrecognised names are text. Two corners are proved FALSE with witnesses and recorded (F13, F14). Tables are re-read from "
      "filepreprocessor.rs every run (table facts re-decided over the whole table); the model's control flow is tied by in-process runs of path_to_filetype (exhaustive short "
      "names over a 5-symbol alphabet incl. non-UTF-8, plus a name grammar) and a metamorphic oracle on the implementation.",
      TB + "Rust std Path::{file_name,extension,with_extension,with_file_name}, OsStr::to_str, str::{trim_*,to_ascii_lowercase} are modelled by hand on the final path component.",
      "DESIGN.md §6 C16")

claim('C07', 'Lean 4 theorems (isolation, termination, error accounting on the coordinator model; totality/in-bounds of the modelled cores) + fault-injection stream on the real binary with trace replay',
      "Machine-checked (the logic part): for every schedule and arbitrary behaviour of the other sources the output restricted to healthy sources is the merge of the healthy "
      "sources, every run ends within a bound, errs = 0 iff all delivered data were ok and every source delivered a summary; find_line parts are always inside their blocks, "
      "classification terminates for every name, searches never err. Known finding F38 (an .evtx record with size field 0 makes the third-party parser loop for ever). The rest is TESTING and labelled so: mutants of valid files of every kind/container (truncations, bit "
      "flips, random bytes, constant fill, mismatched names) alone and beside valid sources under delay plans must exit 0/1 without panic text within a time limit and leave the "
      "healthy sources' lines complete and ordered; traces are replayed through the model.",
      TB + "Not provable here: absence of panics/aborts inside third-party decoders, libsystemd and the unsafe casts; wall-clock promptness.",
      "DESIGN.md §6 C07")

claim('C09', 'Lean 4 theorems on the JournalReader iteration/serialisation model with the stop test, dating source and field cap regenerated from the source; window correspondence and journalctl-based oracle on the binary',
      "Machine-checked: without a window every enumerated entry is printed exactly once in journal order; any selection is an order-preserving sublist; for non-decreasing "
      "receive times it is exactly A <= t <= B (both inclusive; the exclusive end found by this work was repaired by commit a1ebdbb3, the stop test is regenerated every run so a "
      "regression breaks C09_stop_iff); the instant is __REALTIME_TIMESTAMP; the export text contains every enumerated field unchanged and is decodable iff no value "
      "contains a newline (counter-model proved; known finding F11). Tie: the binary is run on shipped journals, plain and re-packed into containers, against journalctl "
      "--file -o json: entry count, cursor order, per-entry field lines, cat text, windows exactly on and next to entry times; printed selections are compared with the model.",
      TB + "libsystemd (seek/next/enumerate) and journalctl are trusted; short/verbose renderings are not modelled.",
      "DESIGN.md §6 C09")

claim('C18', 'Lean 4 theorems on a protocol model of temporary files whose order of operations is regenerated from the source; scenario correspondence and TMPDIR oracle on the binary with H3 sleeps and SIGINT',
      "Machine-checked, with createUnderLock / dropBeforeSummary / createRefusedAfterHandler read from the source on every run: a normal run leaves no temporary file although main never joins the workers; "
      "after SIGINT at ANY moment - the handler running at any point, the process exiting at any point after it - no file remains (C18_full_holds, no proviso: a worker that reaches "
      "decompress_to_ntf after the handler ran is refused under the NAMED_TEMP_FILES lock). The three defects repaired by this work (commits 1f118f4b, d9c77f45, 7f116600) are kept as "
      "counter-models that a regression would re-enable (summary_before_drop, gap_without_lock, late_create_without_flag). Tie: the real binary runs with sleeps that widen exactly those "
      "windows (after the final summary; between creating and listing; before taking the lock with the main thread lingering after EXIT_EARLY) and with SIGINT at planned offsets over compressed "
      "journal/evtx sources in a private TMPDIR; leftovers must equal the model's prediction and be zero. Promptness is measured: known finding F15.",
      TB + "Runtime behaviour the model cannot exhibit: OS signal delivery, process exit, tempfile/ctrlc internals; which worker step coincides with the signal is arranged by sleeps.",
      "DESIGN.md §6 C18")

claim('C15', 'Lean 4 theorems on a walk/expansion model over the proved classification model, with jwalk flags regenerated from the source; in-process differential correspondence of process_path; directory-vs-explicit-vs-stdin oracle on the binary',
      "Machine-checked: the walk lists files in strict component-wise path order (not the byte order of joined strings: proved), is a permutation of all files of the tree now that the "
      "source asks jwalk to include hidden entries (C15_full_holds unfolds the regenerated flag; the skipped-hidden counter-model documents the defect repaired by this work), expanding a "
      "directory equals expanding the explicit sorted list of its kept files with identical types, a named file is always attempted, '-' splices stdin lines in place, PathIds follow list "
      "order; a .tar met in a walk expands member by member exactly as the same .tar named explicitly, for every archive content (C15_tar_members, unfolding the flags passed at both "
      "call sites as regenerated from process_path; counter-model tar_flag_false_loses), and the whole-directory statement holds with archives expanded (C15_dir_eq_explicit_tar). "
      "Tie: real process_path on ~2000 generated trees (dot-names, non-UTF-8 names, links) and on ~2500 REAL tar files written header by header (ustar/GNU/v7, long names, non-regular "
      "entries, zero sizes, corrupt tails) per run; s4 DIR vs explicit list vs stdin forms on generated trees incl. populated archives. Known findings F18-F20.",
      TB + "jwalk behaviour as read from its source; std::fs::canonicalize; the tar crate's iterator (validated differentially); tar paths that are not UTF-8 are outside the tar model (F20).",
      "DESIGN.md §6 C15")

claim('C13', 'Lean 4 theorems on a byte-level model of the 24 print variants and the coordinator\'s separator/newline writes; model-vs-binary stdout correspondence over the option matrix; strip oracle',
      "Machine-checked: with no options the output is the message bytes; for every kind and colour setting each line is file field ++ datetime field ++ line (C13_field_order_full_holds, after the "
      "repair of the one swapped variant; counter-model kept); removing escapes and fields recovers the payload (text logs, accounting records; event/journal payloads that end in a newline, "
      "necessity proved); exactly one separator after each message; with -w every printed name is padded to the widest one in DISPLAY columns for arbitrary names (C13_align_full_holds, unfolding the "
      "padding measure regenerated from s4.rs; the char-count padding repaired as F9 is the counter-model); the prepend separator is literal (F17 repaired, flag regenerated); a line split over read "
      "blocks is written part by part by a loop whose per-part body is TRANSLATED from print_color_line_highlight_dt! on every run: for every partition and datetime span the writes are the line and "
      "exactly bytes b..e carry the datetime colour (C13_parts_bytes, C13_parts_dt). Tie: real PrinterLogMessage on real multi-part Syslines (component prt, 2000 files per run); the model renders "
      "384+ option combinations per run from the undecorated run, the independently computed datetime strings and the palette parsed from the source, and must equal the binary's stdout byte for byte.",
      TB + "chrono strftime formatting, termcolor escapes and unicode-width's per-character widths are outside the model.",
      "DESIGN.md §6 C13")

claim('C19', 'Lean 4 theorems on the accounting model of processing_loop/SummaryPrinted; stderr-summary-vs-model-vs-stdout correspondence on the binary',
      "Machine-checked over any sequence of printed messages: accounted bytes = length of stdout with escapes removed (= literal stdout length with --color never), per-file bytes + "
      "separators + added newlines = total, message counts per kind exact, lines = lines of text-log messages, first/last = min/max printed instants. The unconditional byte statement is false with "
      "colour (F6, proved). The printers' byte accounting is modelled down to the 2056-byte buffer (capacity, macro counter updates and the order of every returned (printed, flushed) tuple regenerated "
      "from printers.rs): for every message and option set the returned `printed` equals the bytes written (C19_printed_eq_written; swapped-tuple counter-models). The accounting itself is REGENERATED (SummarySpec): summaryprint_update_dt / the four summaryprint_update_* / the map get-or-insert / the four arms of processing_loop's match (print call and order of its result, separator and added-newline writes, every counter update, the update calls with their arguments and guards) are translated to data on every run, the interpreter of that data is proved EQUAL to the hand model (summary_skeleton_is_model), so the C19 statements hold of the source's program (C19_*_src), --summary leaves the writes unchanged (C19_stdout_unchanged_src), and seven one-token edits are proved wrong on two-message runs (overwrite instead of max = seeded C19-b, ...). Reader-side first/last/accepted bookkeeping of EvtxReader::analyze and FixedStructReader is regenerated and proved min/max/count of the in-window records (SummaryReaderSpec). Tie: component summ (the real SummaryPrinted update functions on real Sysline/FixedStruct/Evtx/JournalEntry values, all counters and both datetimes), component prt (real print_sysline, "
      "messages larger than the buffer) and: each run is made with and without --summary; stdout must be identical, and the parsed totals/per-file numbers/first-last/-a -b echo must equal the model's and the bytes on stdout.",
      TB + "the summary's `flushed` total is not compared end to end; the layout of the summary text is not modelled (parsers key on the labels).",
      "DESIGN.md §6 C19")

claim('C14', 'Lean 4 theorems on a model of process_dt / the relative-offset matcher / -a -b resolution over tables regenerated from the source (76 patterns, regex pieces and anchors, 392 zones); H2 evaluation-mode correspondence (70k values per run) and --summary oracle',
      "Machine-checked: relative forms [@]?[+-](N u)+ resolve to sign x sum of units (any order; repeated unit: last wins), '@' bounds resolve relative to the other bound exactly as the explicit "
      "instant would, both-'@' and after>before are rejected, ambiguous zone names are rejected, with the anchors now present in the source every string outside the relative grammar is refused "
      "by the relative branch (the unanchored counter-model documents the defect repaired by this work); every one of the 76 pattern rows resolves EVERY value of its grammar (year 0000-9999, valid date, time incl. :60, any %3f/%6f digits, numeric zones in all accepted spellings, every unambiguous zone name, any %s up to "
      "8210266790399) to the instant computed from the calendar arithmetic, for every --tz-offset inside +-24h (C14_abs, all 76 rows, unfolding the generated rows and zone table); explicit zone wins, zone-less is read at "
      "--tz-offset, bare date = 00:00:00; process_dt as a WHOLE (rows tried in table order, first that parses wins) returns that instant for every row and every value (C14_first_match_full, all 76 rows: all 2850 ordered pairs (earlier row, later row) are settled on the regenerated table - 2754 'the earlier row refuses every value of the later one', 96 'refuses, or reads it to the same chrono Parsed under the same has_tz', 0 open - by a computable analysis over the parsed pattern items, decided in the kernel and lifted by soundness lemmas; counter-model: flipping has_tz of one row makes another row lose its instant). '+epoch' is only correct at --tz-offset +00:00 (F21, proved). Tie: the real process_dt/string_wdhms_to_duration/cli_process_tz_offset are evaluated in-process (H2) on the "
      "enumerated grammar plus near-miss mutants and compared with the model; 354 real runs compare --summary's resolved bounds and exit status with resolveAB; for each of the 96 stealing pairs values of the later row x zone spellings x --tz-offset go through the real process_dt, the model and an independent calendar oracle (cli-dt-nosteal).",
      TB + "chrono parse_from_str and the regex crate are mirrored by hand for the specifiers/constructs that occur (validated by the 70k-value correspondence).",
      "DESIGN.md §6 C14")

claim('C05', 'Lean 4 theorems on the per-container block-assembly loops (all chunkings) with loop shapes and buffer sizes regenerated from the source; in-process BlockReader correspondence on self-built containers; plain-vs-container oracle on the binary',
      "Machine-checked for every block size, every byte string (empty, 1 byte, exact multiples) and every decoder chunking: gz, bz2, xz, tar and the temp-file extraction assemble exactly the "
      "plain file's blocks and learn its size; a streamed reader asked in non-decreasing order answers like the plain reader; the look-back depth as coded is 0 (proved, with the "
      "'one block behind' counter-model); the xz extra empty block is never returned. lz4 assembles exactly the plain file's blocks for every chunking; the proof unfolds the generated "
      "LZ4_FILL_LOOP (the single-read reader, repaired in 0949c9b4 / was F22, is kept as a counter-model). The non-decreasing premise is discharged from the source: the whole is_streamed_file "
      "table, the `linear search iff streamed` choice and the `keep every block iff streamed and year-less` policy are regenerated, every (file type, gz|bz2|lz4) row is true (C05_streamed_table), so the "
      "search on such a file is linear and gets the plain file's blocks (C05_search_on_streamed_ok) while a bisection would lose blocks (binary_on_stream_loses), and the backwards year pass is "
      "answered correctly because drops are disabled (C05_yearless_keep). Tie: real BlockReader on containers built in the harness (gz levels/flush points, xz, lz4 frames, "
      "tar variants, python bz2/pax) under several request orders; the binary on plain vs packed text logs (also multi-block at small --blocksz with windows, and year-less), "
      "accounting files (F24 repaired in fd997268), the evtx sample and a journal. The copy loops of decompress_to_ntf stop only on a read of 0 bytes (fact regenerated; extract_eq unfolds it; counter-model short_read_stop_truncates = seeded C05-d). WHICH member of a .tar a listed entry reads is modelled (TarMemberSpec: accessor, comparison, first-match rule, split point and no-match result of the listing and both lookup sites regenerated): both lookups deliver the bytes of the first entry whose lossy path equals the sub-path after the last '|'; with pairwise distinct entry names the k-th listed entry reads the k-th regular member; never a wrong member on a miss; the unconditional statement is false (known finding F33: duplicate member paths, and three further shapes proved); tie tarm (real tar files written header by header through process_path, BlockReader and decompress_to_ntf). Known findings F23 (third-party bz2 decoder), F33.",
      TB + "flate2, bzip2-rs, lz4_flex, lzma-rs, tar decode correctly (F23 is a decoder failure); real chunk sizes are not observed (the theorem covers all chunkings).",
      "DESIGN.md §6 C05")

claim('C17', 'Lean 4 theorems on a retained-data counting model with drop rules regenerated from the source; --summary high-water-mark oracle on files growing x10',
      "Machine-checked: a gz/bz2/lz4 reader under non-decreasing requests holds at most one block (blocks high <= 2) whatever the file size; the steady-state bound for retained lines/blocks is "
      "FALSE in three families (multi-block messages with a lagging consumer; block-aligned lines on plain files), shown by kernel evaluation of the model and matching the binary "
      "(F8, F25); the bound IS proved for every number of messages in the geometry `one message per block boundary, at most M lines each, prompt consumer` by an invariant over the "
      "stage-3 loop (C17_bound_partial_general: 7 blocks / 5M+1 lines / 5 messages on a plain file, 2 / 5M+1 / 5 streamed), unfolding the regenerated facts that drop_sysline hands ALL lines to "
      "drop_lines and drop_lines visits EVERY line (counter-model drop_lines_short_circuit_grows); GENERAL geometry (MemGeneralSpec): for every message list with at most M lines per message, a message inside at most B consecutive blocks and at most P messages starting per block, and a consumer that is not lagging, syslines high <= P(B+1)+2, lines high <= M(P(B+1)+2)+1, streamed blocks high <= 2, plain blocks high <= 5B-3 when no line ends on a block end (C17_bound_general; the same for the model with the always-skipped first drop target found by the tie, C17_bound_general_skip, DROP_BLOCK_LAST_INIT regenerated); each side condition is refuted for every bound (prompt_is_needed = F8, crossed_is_needed = F25, visit_all_is_needed = seeded C17-a, dense_is_needed); a lagging consumer with several messages per block is covered end to end only. Tie: high-water marks from --summary on generated files growing x10 at the default and small "
      "block sizes, plain and compressed, one-line and 61-line messages.",
      TB + "Runtime behaviour the model cannot exhibit: allocator, real RSS; which messages the consumer still holds depends on scheduling.",
      "DESIGN.md §6 C17")

claim('C04', 'Lean 4 theorems on calendar arithmetic, the capture-normalisation model, a regex semantics with the 173 pattern ASTs regenerated from the source (EZCHECK soundness/transparency, RFC 3339 capture end to end), the pattern-selection model, and tables regenerated from the source (37 field sets, 392 zones, month names); in-process correspondences (regex crate per row, bytes_to_regex_to_datetime, SyslineReader pattern selection) and probe-log oracle',
      "Machine-checked: days-from-civil and its inverse round-trip for all Int dates and are strictly monotone; for every generated field set, canonical buffer pieces parse to the denoted instant "
      "(zone-less and ambiguous zones read in the fallback zone); notation forms map to canonical pieces (day/month/hour forms, 1-9 fraction digits kept as written, 10-12 truncated, named zones, "
      "year fill); every zone-table value is a well-formed offset within 14 h and case variants agree (decided over the whole table, and compared with a committed snapshot); every pattern row starts "
      "at column 0. Epoch notations are only right at offset 0 (F26, proved). The 173 regexes are inside the model: each row's pattern is re-parsed from datetime.rs into an AST on every run, with a language "
      "semantics over strict UTF-8 and an executable leftmost-first matcher with captures proved sound; over the whole table every match contains a digit, has_year4 rows need '1' or '2', has_d2 rows need two "
      "consecutive digits, so the EZCHECK pre-checks never skip a matching line and find_datetime_in_line with its persisting cursors equals the loop without them (C04_ezcheck_sound, C04_ezcheck_transparent); "
      "for the RFC 3339 row capture is proved end to end for every field value (C04_rfc3339_search, C04_rfc3339_end_to_end). For 168 of the 173 rows the capture half is proved over catalogues derived AUTOMATICALLY from the regenerated AST (RegexAuto: per item every symbolic word, a greedy-first policy, right-to-left pruning to determinate entries; soundness by construction, no per-row input): for every valid selection of words and admissible tail the leftmost-first matcher matches at 0, stops after the words, and every named group spans the word of its item (C04_rowN_search, N in 0..64, 70..172; one decide +kernel per row pins the catalogue digest, so a changed pattern breaks it); rows 65-69 (a greedy [^\n]+ before the stamp) are not covered; three padded-day / zone-prefix statements are proved false with witnesses replayed on the regex crate. The normalisation itself is REGENERATED (CapturesSpec): all of captures_to_buffer_bytes is translated into a statement list on every run and its interpreter is proved equal to the hand model (captures_skeleton_is_model), so the normalisation theorems hold of the source's program; nine mutants regenerated from edited source text (incl. both seeded fraction-padding changes) each falsify a named statement. Pattern selection is modelled (PatSelSpec): try order, first-match, the one row kept "
      "after analysis, stability for one-notation files, parse-cache transparency and clearing at year changes. Ties: rgx (every row: match, span, every group span vs the regex crate), time (regex+normalise+chrono "
      "pipeline at boundary instants), patsel (real SyslineReader/SyslogProcessor). The join of the two halves is proved per row (RegexE2E*): for 163 rows, for every valid selection of the row's catalogue, admissible tail, fallback zone and fill year, the pipeline (regex search on the slice up to range_regex.end, capture, normalise, parse) yields the instant the captured words spell (C04_rowN_end_to_end); the word-shape hypothesis and the catalogue-guaranteed part of the range hypothesis are DISCHARGED from each row's catalogue by one more kernel computation per row (C04_rowN_end_to_end_shaped, all 163 rows: only calendarOK remains - hour <= 23, zone hours/minutes in range, a date that exists - and outside it the parse fails and no message is produced, never a wrong instant: C04_zone_hour24_no_message, C04_feb29_nonleap_no_message, C04_feb30_no_message), and for the rows whose longest rendering fits range_regex.end the length hypothesis is discharged by a kernel computation (C04_rowN_end_to_end_all); the rows that did NOT fit exposed three defects repaired in /repo (17a2b6aa, 992694e1: long month / weekday names cut the zone or the seconds; counter-models kept). Known findings F26, F27 (epoch rows; proved false).",
      TB + "completeness/priority of the model matcher w.r.t. the regex crate (rows other than the RFC 3339 one) and chrono parse are validated differentially only; numeric-offset scanning is proved at instances.",
      "DESIGN.md §6 C04")

claim('C11', 'Lean 4 theorems on a model of process_missing_year that is a function of the loop skeleton regenerated from the source (order of the jump test and exits, comparison operators, year step, break arms, threshold); in-process correspondence with the real SyslogProcessor; end-to-end oracle on generated year-less logs',
      "Machine-checked over the regenerated skeleton (C11_skeleton: jump test, then start-of-file exit, then --dt-after test; `>` twice; step -1; break on OccursBefore only): for files without a 29 February the "
      "last message gets the mtime's year (unconditional form proved false: a trailing 29 February is lost, C11_last_year_full_false), under the property's own exclusions every message gets its true year, "
      "resulting dates never step back more than 25 h, with --dt-after exactly the messages down to the first one before A are re-dated; counter-models for a misplaced start-of-file exit and for a break on "
      "equality (the two seeded changes). Tie: the REAL SyslogProcessor stages 0-2 on ~2900 generated year-less files per run (0-4 wraps at every position, runs of equal instants, 29 February, junk lines, "
      "-a on instants) vs the model, per message; generated RFC 3164 logs x mtimes (file, gzip header, tar member) x zones x windows x containers x block sizes through the binary vs the generator's true "
      "dates and the model.",
      TB + "calendar model proved; chrono trusted for parsing; find_sysline_year (which line parses with which fill year) is hand-modelled and validated by the correspondence; per-container mtime source checked end to end only.",
      "DESIGN.md §6 C11")
