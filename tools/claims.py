# table of claimed properties (executed by tools/manifest.py)
TB = ("Trusted: Lean 4.33 kernel with axioms propext/Classical.choice/Quot.sound only (audited per theorem by #print axioms; sources grepped for "
      "sorry/axiom/native_decide/bv_decide/implemented_by/unsafe); the translator gen/s4gen.py; the correspondence harness and its generators "
      "(differential testing, bounded). ")

claim('C12', 'Lean 4 theorems over a hand model of find_line + translated block arithmetic; in-process differential correspondence; --blocksz oracle on the binary',
      "Machine-checked for all block sizes >= 1, all byte strings, all offsets: translated block arithmetic laws, find_line returns exactly the line "
      "containing the offset (bounds, bytes, parts in bounds and contiguous), lines tile the file, the in-block variant is sound; the message layer of the model "
      "is block-free. The model is tied to the code by exhaustive small-file and random-history differential runs of the real LineReader, and the binary is run at many "
      "--blocksz values against the default. The bs-dependent acceptance gate is outside these theorems (known findings F1, F2).",
      TB + "Modelled not verified: LineReader caches (validated by call histories incl. drops), regex/chrono (not involved), block-zero gate (known findings).",
      "DESIGN.md §6 C12, §5 Lines/Blocks")
