#!/usr/bin/env python3
"""Snapshot the generated model files (lean/S4V/Gen/*.lean) into gen/last_good/ after a successful
translation of the current /repo tree. The snapshot is only used in search mode (vlib/core.py
install_last_good): when the translator rejects a later source, the driver is built from this snapshot
to look for a concrete failing input. Run it (and commit) after the checks pass on the unchanged tree."""
import json, os, shutil, subprocess, sys
V = os.path.dirname(os.path.dirname(os.path.abspath(__file__)))
st = subprocess.run(['git', '-C', '/repo', 'status', '--porcelain'], stdout=subprocess.PIPE).stdout.decode().strip()
if st:
    sys.exit('refusing: /repo has uncommitted changes')
p = subprocess.run([sys.executable, os.path.join(V, 'gen', 's4gen.py')], stdout=subprocess.PIPE)
info = json.loads(p.stdout.decode().strip().splitlines()[-1])
if p.returncode != 0 or not all(v.get('ok') for v in info.values()):
    sys.exit('translation failed: ' + str(info)[:500])
d = os.path.join(V, 'gen', 'last_good')
os.makedirs(d, exist_ok=True)
for m in info:
    shutil.copyfile(os.path.join(V, 'lean', 'S4V', 'Gen', m + '.lean'), os.path.join(d, m + '.lean'))
print('snapshot of', len(info), 'modules at /repo', subprocess.run(['git', '-C', '/repo', 'rev-parse', '--short', 'HEAD'], stdout=subprocess.PIPE).stdout.decode().strip())
