#!/usr/bin/env python3
"""Emit lean/S4V/Props/RegexCapture3{a,b,…}.lean — the per-row capture theorems of `S4V.Lemmas.RegexAuto`
for every `DTPD!` row whose derived catalogue is inhabited.

Inputs: harness/src/rgx_rows.txt (written by gen/gen_regex.py together with lean/S4V/Gen/Regex.lean: the serialised
AST and the test lines of every row). The catalogues themselves are NOT computed here: they are the Lean function
`rowBodyE` / `rowBodyP` of the generated AST. This script (1) reads each row's shape (head `^` / `(^|x)` / `([c]|^)` /
none; end `(?P<g>[c]|$)` / plain) to pick the wrapper theorem, (2) asks Lean (`#eval`, phase `probe`) for the
(kept, total) entry counts per item and for a test line of the row that splits along the catalogue, (3) writes the
Props files in which those facts are re-proved by `decide +kernel` (so a changed pattern breaks them).

usage: tools/mk_regexcap3.py [--rows-per-file SECONDS]      (run from the framework root)
"""
import json, os, re, subprocess, sys

ROOT = os.path.dirname(os.path.dirname(os.path.abspath(__file__)))
LEAN = os.path.join(ROOT, 'lean')
ROWS_TXT = os.path.join(ROOT, 'harness', 'src', 'rgx_rows.txt')
PER_FILE = 45   # budget of kernel seconds per file (zone-name rows ~30 s, others ~3 s)
# rows with hand-written theorems in RegexCapture / RegexCapture2 / RegexCapture2Auto
OLD = {79: 'C04_iso_search', 75: 'C04_iso_z_search', 76: 'C04_iso_zc_search', 77: 'C04_iso_zp_search', 78: 'C04_iso_Z_search',
       15: 'C04_rfc5424_search', 12: 'C04_rfc5424_zc_search', 19: 'C04_rfc3164_year_search', 23: 'C04_rfc3164_search',
       38: 'C04_rfc2822_search', 100: 'C04_epoch_search', 94: 'C04_adhoc_YbdHMS_search', 58: 'C04_adhoc_dbYHMSf_search'}


def parse(t, i):
    x = t[i]
    if x == '^': return ('bol',), i + 1
    if x == '$': return ('eol',), i + 1
    if x == 'E': return ('eps',), i + 1
    if x[0] == 'L': return ('lit', bytes.fromhex(x[1:])), i + 1
    if x[0] == 'C':
        return ('cls', tuple(tuple(map(int, r.split('-'))) for r in x[1:].split(','))), i + 1
    if x in ('(.', '(|'):
        i += 1; xs = []
        while t[i] != ')':
            a, i = parse(t, i); xs.append(a)
        return ('cat' if x == '(.' else 'alt', tuple(xs)), i + 1
    if x == '(G':
        g = int(t[i + 1]); a, i = parse(t, i + 2); assert t[i] == ')'; return ('grp', g, a), i + 1
    if x == '(*':
        lo = int(t[i + 1]); hi = t[i + 2]; a, i = parse(t, i + 3); assert t[i] == ')'
        return ('rep', a, lo, int(hi) if hi.isdigit() else None), i + 1
    raise SystemExit(f'rgx_rows.txt: unknown token {x!r}')


def load():
    rows, tests = {}, {}
    for l in open(ROWS_TXT):
        p = l.rstrip('\n').split('\t')
        if p[0] == 'R':
            ast, _ = parse(p[5].split(), 0)
            rows[int(p[1])] = dict(idx=int(p[1]), names=p[4], ast=ast)
        elif p[0] == 'T':
            tests.setdefault(int(p[1]), []).append(bytes.fromhex(p[2]))
    return rows, tests


def shape(ast):
    items = list(ast[1]) if ast[0] == 'cat' else [ast]
    h = items[0]
    if h == ('bol',): head = 'bol'
    elif h[0] == 'grp' and h[2][0] == 'alt' and len(h[2][1]) == 2 and h[2][1][0] == ('bol',): head = 'softL'
    elif h[0] == 'grp' and h[2][0] == 'alt' and len(h[2][1]) == 2 and h[2][1][1] == ('bol',) and h[2][1][0][0] == 'cls': head = 'softR'
    else: head = 'none'
    l = items[-1]
    end = 'E' if (l[0] == 'grp' and l[2][0] == 'alt' and len(l[2][1]) == 2 and l[2][1][0][0] == 'cls' and l[2][1][1] == ('eol',)) else 'P'
    return head, end


def body_expr(idx, head, end):
    skip = 0 if head == 'none' else 1
    return f'(rowBody{end} re{idx} {skip})'


def lean_bytes(b):
    try:
        s = b.decode('utf-8')
    except UnicodeDecodeError:
        return '[' + ', '.join(str(x) for x in b) + ']'
    out = []
    for ch in s:
        o = ord(ch)
        if ch == '"': out.append('\\"')
        elif ch == '\\': out.append('\\\\')
        elif ch == '\n': out.append('\\n')
        elif ch == '\t': out.append('\\t')
        elif 32 <= o < 127: out.append(ch)
        elif o <= 0xffff: out.append('\\u%04x' % o)
        else: return '[' + ', '.join(str(x) for x in b) + ']'
    return '"' + ''.join(out) + '".toUTF8.toList'


HEADER = '''import S4V.Gen.Regex
import S4V.Lemmas.RegexAuto
'''
OPEN = 'open S4V.Model.Regex S4V.Gen.Regex S4V.Lemmas.RegexStep S4V.Lemmas.RegexSym S4V.Lemmas.RegexRows S4V.Lemmas.RegexAuto\n'


def probe(rows, tests):
    src = [HEADER, OPEN, 'set_option maxRecDepth 100000\n',
           'def firstSplit (body : List Piece) (line : List UInt8) : Option Nat := (List.range 48).find? (fun k => splitsL body (line.drop k))\n',
           'def firstLine (body : List Piece) (ls : List (List UInt8)) : Option (Nat × Nat) := ls.zipIdx.findSome? (fun x => (firstSplit body x.1).map (fun k => (x.2, k)))\n']
    for idx, r in sorted(rows.items()):
        head, end = shape(r['ast'])
        b = body_expr(idx, head, end)
        ls = '[' + ', '.join(lean_bytes(t[:160]) for t in tests.get(idx, [])[:6]) + ']'
        src.append(f'#eval IO.println s!"ROW {idx} {{keptCounts {b}}} | {{catDigest {b}}} | {{firstLine {b} {ls}}} | {{inhabitedB {b}}}"\n')
    path = os.path.join(ROOT, '.build', 'regexcap3', 'Probe3.lean')
    os.makedirs(os.path.dirname(path), exist_ok=True)
    open(path, 'w').write(''.join(src))
    out = subprocess.run(['lake', 'env', 'lean', path], cwd=LEAN, capture_output=True, text=True)
    res = {}
    for l in out.stdout.splitlines():
        mm = re.match(r'ROW (\d+) (\[.*?\]) \| (\d+) \| (.*?) \| (true|false)$', l)
        if not mm:
            if l.strip(): print('probe:', l[:300], file=sys.stderr)
            continue
        counts = [tuple(map(int, x)) for x in re.findall(r'\((\d+), (\d+)\)', mm.group(2))]
        fl = re.match(r'\(?some \((\d+), (\d+)\)\)?', mm.group(4))
        res[int(mm.group(1))] = dict(counts=counts, line=(int(fl.group(1)), int(fl.group(2))) if fl else None, inh=mm.group(5) == 'true', digest=int(mm.group(3)))
    if out.returncode != 0 or len(res) != len(rows):
        print(out.stdout[-3000:], out.stderr[-3000:], file=sys.stderr)
        raise SystemExit(f'probe failed ({len(res)}/{len(rows)} rows)')
    return res


WRAP = {('bol', 'E'): 'auto_bol_E', ('softL', 'E'): 'auto_softL_E', ('softR', 'E'): 'auto_softR_E', ('none', 'E'): 'auto_none_E',
        ('bol', 'P'): 'auto_bol_P', ('none', 'P'): 'auto_none_P'}


def row_block(idx, r, head, end, pr, tests):
    b = body_expr(idx, head, end)
    c0 = '[((headParts re%d).1, 0, 0)]' % idx if head in ('softL', 'softR') else '[]'
    counts = '[' + ', '.join(f'({a}, {b_})' for a, b_ in pr['counts']) + ']'
    o = [f'/-! ### row {idx} ({r["names"]}): head `{head}`, end `{"(?P<g>[class]|$)" if end == "E" else "plain"}` -/\n\n']
    if pr['line'] is not None:
        li, k = pr['line']
        t = tests[idx][li][:160][k:]
        wit = f'splitsL {b} {lean_bytes(t)} = true'
        doc = f"the row's own test line {li} (from offset {k}) splits along the catalogue"
    else:
        wit = f'inhabitedB {b} = true'
        doc = 'the first entry of every item with its lowest word is a rendering'
    o.append('set_option maxRecDepth 100000 in\n')
    o.append(f'/-- (kept, total) catalogue entries per item of row {idx}, the digest of the catalogue; the hypotheses of `C04_row{idx}_search` are satisfiable:\n{doc} -/\n')
    o.append(f'theorem facts{idx} : keptCounts {b} = {counts} ∧\n    catDigest {b} = {pr["digest"]} ∧\n    {wit} := by decide +kernel\n\n')
    if end == 'E':
        extra = ' (by decide +kernel)' if head == 'softR' else ''
        o.append(f'theorem C04_row{idx}_search (sel : Sel) (hv : Valid {b} sel) (tail : List UInt8) (ht : TailIn (rowEndSym re{idx}) tail) :\n'
                 f'    RowResult row{idx}.re (flat sel ++ tail) ((flat sel).length + tailLen tail) {c0} (sel ++ [rowEndEw re{idx} tail]) :=\n'
                 f'  {WRAP[(head, end)]} (re := re{idx}) (by rfl) (by decide +kernel){extra} sel hv tail ht\n\n')
    else:
        o.append(f'theorem C04_row{idx}_search (sel : Sel) (hv : Valid {b} sel) (tail : List UInt8) (ht : TailF (autoTail re{idx}) tail) :\n'
                 f'    RowResult row{idx}.re (flat sel ++ tail) (flat sel).length {c0} sel :=\n'
                 f'  {WRAP[(head, end)]} (re := re{idx}) (by rfl) (by decide) sel hv tail ht\n\n')
    return ''.join(o)


def main():
    per = PER_FILE
    if '--rows-per-file' in sys.argv:
        per = int(sys.argv[sys.argv.index('--rows-per-file') + 1])
    rows, tests = load()
    pr = probe(rows, tests)
    covered, table = [], []
    for idx, r in sorted(rows.items()):
        head, end = shape(r['ast'])
        p = pr[idx]
        if (head, end) not in WRAP:
            table.append((idx, f'not attempted: shape head={head} end={end} has no wrapper'))
            continue
        empty = [i for i, (a, _) in enumerate(p['counts']) if a == 0]
        if empty or not p['inh']:
            table.append((idx, f'not covered: no determinate catalogue entry for item(s) {empty} of the body (kept/total {p["counts"]})'))
            continue
        dropped = sum(t - a for a, t in p['counts'])
        covered.append(idx)
        old = f'; hand-written: {OLD[idx]}' if idx in OLD else ''
        table.append((idx, f'C04_row{idx}_search ({head}/{end}; {dropped} of {sum(t for _, t in p["counts"])} entries left out{old})'))
    def weight(idx):
        tot = sum(t for _, t in pr[idx]['counts'])
        return 30 if tot > 500 else 9 if tot > 300 else 3
    files, cur, w = [], [], 0
    for idx in covered:
        if cur and w + weight(idx) > per:
            files.append(cur); cur, w = [], 0
        cur.append(idx); w += weight(idx)
    if cur: files.append(cur)
    names = []
    for fi, chunk in enumerate(files):
        suffix = ''
        n = fi
        while True:
            suffix = chr(ord('a') + n % 26) + suffix
            n = n // 26 - 1
            if n < 0: break
        name = f'RegexCapture3{suffix}'
        names.append(name)
        last = fi == len(files) - 1
        o = ['/-\nGENERATED by tools/mk_regexcap3.py from harness/src/rgx_rows.txt (gen/gen_regex.py) — regenerate, do not edit.\n\n'
             f'C04, regex slice, stage 5 — capture theorems for rows {chunk[0]}–{chunk[-1]} of `DATETIME_PARSE_DATAS` over the AUTOMATIC\n'
             'catalogues of `S4V.Lemmas.RegexAuto` (`rowBodyE` / `rowBodyP`: every symbolic word each item of the generated AST can\n'
             'consume, minus the entries whose symbolic run is not determinate). Per row:\n'
             '* `factsN`           the (kept, total) entry counts per item and a digest of the whole catalogue, recomputed in the kernel (pins the\n                     coverage; breaks on a pattern change), and a line of the row\'s own test cases that splits along the catalogue (the hypotheses are satisfiable)\n'
             '* `C04_rowN_search`  for EVERY selection of kept entries and concrete words, and every admissible tail: `search` matches at 0,\n'
             '                     spans exactly the words (+ the byte of the final group), and every capture group spans the word of its item\n'
             ]
        o.append('-/\n' + HEADER + '\nnamespace S4V.Props.RegexCapture3\n' + OPEN + '\n')
        for idx in chunk:
            head, end = shape(rows[idx]['ast'])
            o.append(row_block(idx, rows[idx], head, end, pr[idx], tests))
        o.append('end S4V.Props.RegexCapture3\n')
        open(os.path.join(LEAN, 'S4V', 'Props', name + '.lean'), 'w').write(''.join(o))
    agg = ['/-\nGENERATED by tools/mk_regexcap3.py — regenerate, do not edit.\n\nC04, regex slice, stage 5 — index of the per-row capture theorems (`S4V.Props.RegexCapture3a` …) and the false statements.\n'
           'Hand-written companions: `S4V.Props.RegexCapture3Spec` (false statements, witnesses).\n\nTABLE (row → theorem (head/end; catalogue entries left out) | why not):\n']
    for idx, txt in table:
        agg.append(f'  {idx:3d}  {txt}\n')
    agg.append('-/\n' + ''.join(f'import S4V.Props.{n}\n' for n in names))
    agg.append('\nnamespace S4V.Props.RegexCapture3\n\n/-- rows with a `C04_rowN_search` theorem -/\ndef coveredRows : List Nat := [' + ', '.join(map(str, covered)) + ']\n\nend S4V.Props.RegexCapture3\n')
    open(os.path.join(LEAN, 'S4V', 'Props', 'RegexCapture3.lean'), 'w').write(''.join(agg))
    open(os.path.join(ROOT, 'harness', 'src', 'rgxr_auto_rows.txt'), 'w').write(' '.join(str(i) for i in covered if i not in OLD) + '\n')
    json.dump(dict(files=names, covered=covered, table=table), open(os.path.join(ROOT, '.build', 'regexcap3', 'table.json'), 'w'), indent=1)
    print(f'{len(covered)} rows covered in {len(names)} files; {len(rows) - len(covered)} not covered')
    for idx, txt in table:
        if not txt.startswith('C04_'): print(idx, txt[:200])


if __name__ == '__main__':
    main()
