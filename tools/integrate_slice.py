#!/usr/bin/env python3
"""integrate_slice.py <scratch verif dir> <GenName> <gen_module> <exe> <Root> <component> <c_module>
Copies the files a helper slice created (everything that exists only in the scratch copy) and registers
the generator module, the driver executable, the drvmux route and the harness component."""
import os, re, shutil, subprocess, sys
src, gen_name, gen_mod, exe, root, comp, cmod = sys.argv[1:8]
V = '/verif'
out = subprocess.run(['diff', '-rq', V, src, '-x', '.git', '-x', '.build', '-x', '.lake', '-x', 'target', '-x', '__pycache__', '-x', 'evidence', '-x', 'replays', '-x', 'seeded'],
                     stdout=subprocess.PIPE).stdout.decode()
for l in out.splitlines():
    m = re.match(r'Only in (%s[^:]*): (.*)' % re.escape(src), l)
    if m:
        a = os.path.join(m.group(1), m.group(2))
        b = os.path.join(V + m.group(1)[len(src):], m.group(2))
        if os.path.isdir(a):
            shutil.copytree(a, b, dirs_exist_ok=True)
        else:
            os.makedirs(os.path.dirname(b), exist_ok=True)
            shutil.copy2(a, b)
        print('copied', b)
p = V + '/gen/s4gen.py'; s = open(p).read()
if gen_mod not in s:
    s = s.replace("\ndef main", "\ntry:\n    import %s\n    MODULES['%s'] = %s.generate\nexcept ImportError:\n    pass\n\ndef main" % (gen_mod, gen_name, gen_mod), 1)
    open(p, 'w').write(s)
p = V + '/lean/lakefile.toml'; s = open(p).read()
if '"%s"' % exe not in s:
    s += '\n[[lean_exe]]\nname = "%s"\nroot = "%s"\n' % (exe, root)
    open(p, 'w').write(s)
p = V + '/drvmux'; s = open(p).read()
if "'%s':" % comp not in s:
    s = s.replace("ROUTE = {", "ROUTE = {'%s': '%s', " % (comp, exe), 1)
    open(p, 'w').write(s)
p = V + '/harness/src/main.rs'; s = open(p).read()
if 'mod %s;' % cmod not in s:
    s = s.replace("mod c_fixed;\n", "mod c_fixed;\nmod %s;\n" % cmod, 1)
    m = re.search(r'        "year" => .*\n', s)
    s = s[:m.end()] + '        "%s" => if replay { replay_loop(&mut out, %s::replay_line) } else { %s::run(&opts, &mut out) },\n' % (comp, cmod, cmod) + s[m.end():]
    open(p, 'w').write(s)
p = V + '/vlib/core.py'; s = open(p).read()
if "'%s'" % exe not in s:
    s = s.replace("'drv_regex']", "'drv_regex', '%s']" % exe, 1) if "'drv_regex']" in s else re.sub(r"(DRV_EXES = \[[^\]]*)\]", r"\1, '%s']" % exe, s, 1)
    open(p, 'w').write(s)
p = V + '/setup.sh'; s = open(p).read()
if exe not in s:
    s = s.replace("; do lake build $t", " %s; do lake build $t" % exe, 1)
    open(p, 'w').write(s)
print('registered', gen_name, exe, comp)
