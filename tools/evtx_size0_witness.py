#!/usr/bin/env python3
"""Witness for finding F-evtx-size0 (slice EvtxTie): ONE 4-byte edit of the shipped sample makes the evtx crate (0.8.5,
`IterChunkRecords::next`: a record whose body fails to deserialize advances the offset by the record's size field) never
advance: size field 0 => the same `Err` for ever, collected into an unbounded Vec by `EvtxParser::records()`; so
`EvtxReader::analyze` (and `s4 <file>`) never returns and memory grows without bound.

usage: evtx_size0_witness.py <repo> <out.evtx>
check: timeout 20 s4h evtxr --file <out.evtx>   (rc 124; the pristine sample answers at once)
       timeout 20 s4h evtx-dump <out.evtx>      (the crate alone: rc 124)
"""
import struct
import sys

repo, out = sys.argv[1], sys.argv[2]
d = bytearray(open(repo + '/logs/programs/evtx/Microsoft-Windows-Kernel-PnP%4Configuration.evtx', 'rb').read())
p = 4096 + 65536 + 512                      # first record of the second chunk
for _ in range(2):                          # its third record (EventRecordID 81, file offset 72944, size 1808)
    p += struct.unpack_from('<I', d, p + 4)[0]
assert d[p:p + 4] == b'\x2a\x2a\x00\x00' and struct.unpack_from('<Q', d, p + 8)[0] == 81
struct.pack_into('<I', d, p + 4, 0)         # the record's size field := 0
open(out, 'wb').write(d)
print('record at file offset', p, 'size field set to 0')
