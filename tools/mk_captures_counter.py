#!/usr/bin/env python3
"""Counter-model data for slice CapXlate: apply small edits to the TEXT of `captures_to_buffer_bytes`
(src/data/datetime.rs of --repo, never written back), run the translator gen/gen_captures.py on each
edited text, and write the regenerated statements to lean/S4V/Props/CapturesMutants.lean.
`Props/CapturesSpec.lean` proves that each regenerated body differs from the hand model and makes a
named C04 statement false on a concrete capture.

usage: tools/mk_captures_counter.py [--repo /repo] [--out lean/S4V/Props/CapturesMutants.lean]
"""
import os
import re
import sys

HERE = os.path.dirname(os.path.abspath(__file__))
sys.path.insert(0, os.path.join(HERE, '..', 'gen'))
from rs import GenError, strip_comments, match_close  # noqa: E402
import gen_captures  # noqa: E402

IF_ELSE = '''if len < 8 {
                copy_slice_to_buffer!(fractional, buffer, at);
                copy_slice_to_buffer!(&b"000000000"[..9 - len], buffer, at);
            } else if len <= 9 {
                copy_slice_to_buffer!(fractional, buffer, at);
            } else if len <= 12 {
                copy_slice_to_buffer!(&fractional[..9], buffer, at);
            }'''


def sub_once(text, pat, repl, name):
    ms = list(re.finditer(pat, text, re.S))
    if len(ms) != 1:
        raise GenError(f"mutant {name}: pattern {pat!r} occurs {len(ms)} times in captures_to_buffer_bytes (expected 1)")
    m = ms[0]
    return text[:m.start()] + m.expand(repl) + text[m.end():]


def block_of(text, head, name):
    """span of `head { … }`"""
    m = re.search(r'(?m)^[ \t]*(' + head + r')\s*\{', text)
    if not m:
        raise GenError(f"mutant {name}: `{head}` not found at the start of a line")
    o = m.end() - 1
    return m.start(1), match_close(text, o) + 1


def m_c04a(t):
    return sub_once(t, r'8 => \{\s*copy_slice_to_buffer!\(fractional, buffer, at\);\s*copy_slice_to_buffer!\(b"0", buffer, at\);\s*\}\s*9 => \{',
                    '8 | 9 => {', 'C04a')


def m_c04c(t):
    a, b = block_of(t, r'match len', 'C04c')
    return t[:a] + IF_ELSE + t[b:]


def m_sign(t):
    t = sub_once(t, r'(match captureb\.starts_with\(MINUS_SIGN\) \{\s*)true( =>)', r'\1false\2', 'sign')
    return sub_once(t, r'false( => \{\s*copy_slice_to_buffer!\(captureb, buffer, at\);)', r'true\1', 'sign')


def m_year(t):
    return sub_once(t, r'copy_slice_to_buffer!\(year_s\.as_bytes\(\), buffer, at\)', 'copy_slice_to_buffer!(YEAR_FALLBACKDUMMY.as_bytes(), buffer, at)', 'year')


def m_month(t):
    return sub_once(t, r'(match month\.len\(\) \{\s*)1( =>)', r'\g<1>2\2', 'month')


def m_day(t):
    return sub_once(t, r"(b' ' => \{\s*copy_u8_to_buffer!\(b'0', buffer, at\);\s*copy_u8_to_buffer!\(day)\[1\]", r'\1[0]', 'day')


def m_zone(t):
    return sub_once(t, r'copy_slice_to_buffer!\(tz_offset_val\.as_bytes\(\), buffer, at\)', 'copy_slice_to_buffer!(tz_offset_string.as_bytes(), buffer, at)', 'zone')


def m_trunc(t):
    return sub_once(t, r'&fractional\[\.\.9\]', '&fractional[..8]', 'trunc')


def m_order(t):
    a1, b1 = block_of(t, r'match dtfs\.hour', 'order')
    a2, b2 = block_of(t, r'match dtfs\.minute', 'order')
    if not b1 <= a2:
        raise GenError("mutant order: hour block does not precede minute block")
    return t[:a1] + t[a2:b2] + t[b1:a2] + t[a1:b1] + t[b2:]


MUTANTS = [
    ('C04a', 'seeded change C04-a: the 8-digit arm of the fraction padding merged with the 9-digit arm (`8 | 9 => copy`)', m_c04a),
    ('C04c', 'seeded change C04-c: the 13-arm padding match collapsed into if/else with an off-by-one (`len < 8` pads, `len <= 9` copies)', m_c04c),
    ('sign', 'the `true` / `false` arms of `match captureb.starts_with(MINUS_SIGN)` swapped', m_sign),
    ('year', '`_fill` year, `Some(year)` arm: `year_s` replaced by `YEAR_FALLBACKDUMMY` (one identifier)', m_year),
    ('month', '`DTFS_Month::ms`: arm `1 =>` of `match month.len()` became `2 =>` (one literal)', m_month),
    ('day', "`_e_or_d`, arm `b' '`: `day[1]` became `day[0]` (one literal)", m_day),
    ('zone', '`DTFS_Tz::Z`, unambiguous name: `tz_offset_val` replaced by `tz_offset_string` (one identifier)', m_zone),
    ('trunc', 'fraction arm `10 | 11 | 12`: `&fractional[..9]` became `&fractional[..8]` (one literal)', m_trunc),
    ('order', 'the `match dtfs.hour` and `match dtfs.minute` blocks exchanged', m_order),
]


def main():
    args = sys.argv[1:]
    repo = '/repo'
    out = os.path.join(HERE, '..', 'lean', 'S4V', 'Props', 'CapturesMutants.lean')
    i = 0
    while i < len(args):
        if args[i] == '--repo':
            repo = args[i + 1]; i += 2
        elif args[i] == '--out':
            out = args[i + 1]; i += 2
        else:
            raise SystemExit(__doc__)
    src = strip_comments(open(os.path.join(repo, 'src/data/datetime.rs')).read())
    m = re.search(r'\bfn\s+captures_to_buffer_bytes\b', src)
    p = src.find('(', m.end())
    b = src.find('{', match_close(src, p))
    e = match_close(src, b) + 1
    base, _ = gen_captures.translate(src)
    base_r = {n: gen_captures.render(s, 2) for n, s in base}
    L = ['-- GENERATED by /verif/tools/mk_captures_counter.py: gen/gen_captures.py run on EDITED copies of the text of',
         '-- `captures_to_buffer_bytes` (src/data/datetime.rs) — do not edit. Only the statements that differ from',
         '-- `S4V.Gen.Captures` are spelled out.',
         'import S4V.Gen.Captures',
         'namespace S4V.Props.CapturesMutants',
         'open S4V.Gen.TimeTables S4V.Gen.Captures', '']
    for name, desc, f in MUTANTS:
        text = src[:m.start()] + f(src[m.start():e]) + src[e:]
        names, _ = gen_captures.translate(text)
        L.append(f'/-! ### {name} — {desc} -/\n')
        refs = []
        changed = 0
        for (n, s) in names:
            r = gen_captures.render(s, 2)
            if base_r.get(n) == r:
                refs.append(n)
            else:
                changed += 1
                L.append(f'def {n}_{name} : Stmt :=\n  {r}\n')
                refs.append(f'{n}_{name}')
        if changed == 0 and [n for n, _ in names] == [n for n, _ in base]:
            raise GenError(f"mutant {name}: the edit regenerates the same data")
        L.append(f'def body_{name} : List Stmt := [' + ', '.join(refs) + ']\n')
    L.append('end S4V.Props.CapturesMutants')
    text = '\n'.join(L) + '\n'
    old = open(out).read() if os.path.exists(out) else None
    if old != text:
        with open(out, 'w') as fh:
            fh.write(text)
    print(f'{len(MUTANTS)} mutants -> {out}')


if __name__ == '__main__':
    try:
        main()
    except GenError as ex:
        print('GenError:', ex)
        sys.exit(2)
