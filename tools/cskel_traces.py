#!/usr/bin/env python3
"""Tie of slice CoordSkel: H1 event traces of the real binary (built with --cfg s4_verif) under seeded delay
plans, each replayed by `drv_cskel` through BOTH the hand model and the regenerated-skeleton interpreter.
usage: cskel_traces.py <seed> <n_inputs> <n_plans> [out.tsv]   (prints `request<TAB>expected reply`)"""
import os
import sys
import shutil
import types

sys.path.insert(0, os.path.dirname(os.path.dirname(os.path.abspath(__file__))))
from vlib import core, e2e, coord_common  # noqa: E402

core.S4 = os.environ.get('S4_BIN', core.S4)


def main():
    seed, n_inputs, n_plans = int(sys.argv[1]), int(sys.argv[2]), int(sys.argv[3])
    out = open(sys.argv[4], 'w') if len(sys.argv) > 4 else sys.stdout
    work = '/tmp/sl/coordskel/scratch/traces'
    shutil.rmtree(work, ignore_errors=True)
    os.makedirs(work)
    ctx = types.SimpleNamespace(work=work, seed=seed)
    rng = e2e.Rng(seed * 7919 + 17)
    for k in range(n_inputs):
        nsrc = rng.range(1, 6)
        w = os.path.join(work, 'in%d' % k)
        os.makedirs(w, exist_ok=True)
        srcs = coord_common.make_sources(rng, w, nsrc, kinds=('plain',), tie_heavy=rng.chance(1, 2), frac=(k % 3 == 2), max_msgs=25)
        if k % 4 == 3:      # a source that yields no message (FileInfo + FileSummary only) and an empty one
            p = os.path.join(w, 'nodates.log')
            open(p, 'wb').write(b'no datetime here\nnor here\n' * 3)
            srcs.insert(rng.below(len(srcs) + 1), {'path': p, 'name': 'nodates.log', 'msgs': [], 'log': None, 'kind': 'plain'})
        srcs = rng.shuffle(srcs)
        exp, merged = coord_common.expected_stdout(srcs)
        for pl in range(n_plans):
            delay = None if pl == 0 else '%d:%d' % (seed * 1000 + k * 37 + pl, rng.pick([200, 1000, 3000]))
            rc, so, err, wall, toks = coord_common.run_with_trace(ctx, srcs, delay, k)
            ids = sorted({int(t.split(':')[1]) for t in toks if ':' in t})
            ren = {old: new for new, old in enumerate(ids)}
            toks2 = [':'.join([t.split(':')[0], str(ren[int(t.split(':')[1])])] + t.split(':')[2:]) if ':' in t else t for t in toks]
            ok = (so == exp)
            out.write('cskel %d %s\tok printed=%d merged=true fin=true broke=false%s\n' % (len(ids), ' '.join(toks2), len(merged), '' if ok else ' STDOUT-DIFFERS'))
    shutil.rmtree(work, ignore_errors=True)


main()
