"""slice CoordSkel: what gen_coord.py makes of one-token edits of processing_loop (edited COPIES of s4.rs in a temp dir).
usage: cskel_source_edits.py [repo=/tmp/s4snap]"""
import sys, os, re, tempfile
HERE = os.path.dirname(os.path.dirname(os.path.abspath(__file__)))
sys.path.insert(0, os.path.join(HERE, 'gen'))
REPO = sys.argv[1] if len(sys.argv) > 1 else '/tmp/s4snap'
MUT = tempfile.mkdtemp(prefix='cskel_mut')
import gen_coord
from rs import GenError
orig = open(REPO + '/src/bin/s4.rs').read()
EDITS = [
 ('wait != -> <', 'MAP_PATHID_CHANRECVDATUM.read().unwrap().len() != map_pathid_datum.len()', 'MAP_PATHID_CHANRECVDATUM.read().unwrap().len() < map_pathid_datum.len()'),
 ('drop fileinfo clause', '            || ! map_pathid_received_fileinfo.is_empty()\n        {', '        {'),
 ('no disconnect on RecvError', '                    disconnect.push(pathid);\n                    chan_recv_err += 1;', '                    chan_recv_err += 1;'),
 ('print eager', 'if MAP_PATHID_CHANRECVDATUM.read().unwrap().len() != map_pathid_datum.len()\n', 'if map_pathid_datum.is_empty()\n'),
 ('select_timeout', 'select.select();', 'select.select_timeout(std::time::Duration::from_millis(500));'),
 ('no filter', '            if filter_.contains(pathid_chan.0) {\n                continue;\n            }\n', ''),
 ('no remove', '            map_pathid_datum.remove(&pathid_);\n            set_pathid.remove(&pathid_);\n', ''),
 ('swap_remove', 'map_pathid_datum.remove(&pathid_);', 'map_pathid_datum.swap_remove(idx);'),
 ('None => continue instead of break', '                    verif_hooks::trace("B");\n                    break;', '                    verif_hooks::trace("B");\n                    continue;'),
 ('extra break in NewMessage arm', 'set_pathid.insert(pathid);\n', 'set_pathid.insert(pathid);\n                            if is_last_message { break; }\n'),
 ('no exit when empty', '            verif_hooks::trace("E");\n            // all channels are closed, break from main processing loop\n            break;', '            verif_hooks::trace("E");\n'),
 ('summary arm no disconnect', '                            defo!("B3 will disconnect channel {:?}", pathid);\n                            disconnect.push(pathid);\n', ''),
]
for name, a, b in EDITS:
    if orig.count(a) != 1:
        print(name, ': EDIT DOES NOT APPLY', orig.count(a)); continue
    os.makedirs(MUT + '/src/bin', exist_ok=True)
    open(MUT + '/src/bin/s4.rs', 'w').write(orig.replace(a, b))
    try:
        text, info = gen_coord.generate(MUT)
        base = open(os.path.join(HERE, 'lean/S4V/Gen/Coord.lean')).read().splitlines()
        diff = [l.strip() for l in text.splitlines() if l not in base]
        print(name, ': REGENERATED', diff)
    except GenError as e:
        print(name, ': GenError:', str(e)[:160])
import shutil
shutil.rmtree(MUT, ignore_errors=True)
