#!/usr/bin/env python3
"""Exhaustive `fwalk rd` requests (plain reader, block sizes 1..4, files of 0..9 bytes, every beg < end, five buffer
lengths) with the SPEC answer d[beg:min(end,|d|)] computed here (independent of the Lean model).
usage: fwmany_exhaustive_rd.py OUT.req OUT.exp ;  s4h fwalk --replay x < OUT.req | cut -f2 | diff - OUT.exp
       cut -f1 ... | lean/.lake/build/bin/drv_fwalk | diff - OUT.exp"""
import sys
def h(b):
    x = 7
    for c in b: x = (x * 31 + c) % 4294967296
    return x
reqs, exp = [], []
for bs in [1, 2, 3, 4]:
    for n in range(0, 10):
        d = bytes(range(1, n + 1))
        for beg in range(0, n + 2):
            for e in range(beg + 1, n + 3):
                for L in sorted(set([1, max(1, e - beg - 1), e - beg, e - beg + 1, max(1, n)])):
                    E = min(e, n)
                    if beg >= E: r = "D"
                    elif L < E - beg: r = "E"
                    else:
                        w = d[beg:E]; r = "F%d:%d" % (len(w), h(w))
                    reqs.append("fwalk rd plain %d %s %d:%d:0:%d" % (bs, d.hex() if n else "-", beg, e, L)); exp.append(r)
open(sys.argv[1], "w").write("\n".join(reqs) + "\n")
open(sys.argv[2], "w").write("\n".join(exp) + "\n")
print(len(reqs))
