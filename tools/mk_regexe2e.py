#!/usr/bin/env python3
"""Emit lean/S4V/Props/RegexE2E{a,b,…}.lean + the index lean/S4V/Props/RegexE2E.lean — the per-row END-TO-END theorems
(line text → instant) that join the capture theorems `C04_rowN_search` (tools/mk_regexcap3.py, `S4V.Props.RegexCapture3*`)
with `S4V.Lemmas.RegexE2E.C04_words_denote` (post-capture pipeline, every date-time field set).

Inputs (nothing is computed here that the kernel does not re-check):
  * lean/S4V/Props/RegexCapture3*.lean   which rows have a capture theorem, their catalogue expression and head slots
  * lean/S4V/Gen/TimeTables.lean         the `DTFSS_*` name and `range_regex.end` of every row (generated from datetime.rs)
  * a Lean probe (`#eval`)               the longest rendering `maxLen` of each row's catalogue (compared with `range_regex.end`;
                                         re-proved by `decide +kernel` in the `Len` files when `--len` is given)
Per covered date-time row N:
  `C04_rowN_end_to_end`   for every valid selection `sel` of the row's catalogue, admissible tail, fallback zone and fill year:
                          if the stamp ends before `range_regex.end` and the captured words are well shaped (`shapeOK`) with
                          calendar values (`rangeOK`), `rowPipeline rowN (flat sel ++ tail) = some (fieldsOf … ).instant`
Epoch rows (DTFSS_s / DTFSS_sf) get no such theorem: the statement is false for them (F26; `S4V.Props.RegexE2ESpec`).

usage: tools/mk_regexe2e.py [--len]     (run from the framework root)
"""
import json, os, re, subprocess, sys, glob

ROOT = os.path.dirname(os.path.dirname(os.path.abspath(__file__)))
LEAN = os.path.join(ROOT, 'lean')
PROPS = os.path.join(LEAN, 'S4V', 'Props')
PER_FILE = 24          # rows per generated file (no kernel computation: seconds per file)
LEN_BUDGET = 30        # kernel seconds per `Len` file

SEARCH_RE = re.compile(
    r'theorem C04_row(\d+)_search \(sel : Sel\) \(hv : Valid \(rowBody([EP]) re\d+ ([01])\) sel\) \(tail : List UInt8\) '
    r'\(ht : (TailIn \(rowEndSym re\d+\)|TailF \(autoTail re\d+\)) tail\) :\n\s+RowResult row\d+\.re \(flat sel \+\+ tail\) '
    r'(\(\(flat sel\)\.length \+ tailLen tail\)|\(flat sel\)\.length) (\[[^\n]*?\]) (sel|\(sel \+\+ \[rowEndEw re\d+ tail\]\)) :=')
ROW_RE = re.compile(r'⟨(\d+), "(DTFSS_\w+)", DTFSS_\w+, (\d+), (\d+), ')


def load():
    rows = {}
    for p in sorted(glob.glob(os.path.join(PROPS, 'RegexCapture3*.lean'))):
        for m in SEARCH_RE.finditer(open(p).read()):
            idx = int(m.group(1))
            rows[idx] = dict(idx=idx, end=m.group(2), skip=int(m.group(3)), c0=m.group(6))
    tt = open(os.path.join(LEAN, 'S4V', 'Gen', 'TimeTables.lean')).read()
    tab = {int(m.group(1)): (m.group(2), int(m.group(3)), int(m.group(4))) for m in ROW_RE.finditer(tt)}
    if len(tab) < 100:
        raise SystemExit('TimeTables.lean: row table not recognised')
    for idx, r in rows.items():
        r['dtfs'], r['rstart'], r['rend'] = tab[idx]
    return rows, tab


HEADER = '''import S4V.Gen.Regex
import S4V.Lemmas.RegexAuto
'''
OPEN = 'open S4V.Model.Regex S4V.Gen.Regex S4V.Lemmas.RegexStep S4V.Lemmas.RegexSym S4V.Lemmas.RegexRows S4V.Lemmas.RegexAuto\n'


def body(r):
    return f'(rowBody{r["end"]} re{r["idx"]} {r["skip"]})'


def probe(rows):
    src = [HEADER, 'import S4V.Lemmas.RegexE2ERow\n', OPEN, 'open S4V.Lemmas.RegexE2E\nset_option maxRecDepth 100000\n',
           'def minLen (qs : List Piece) : Nat := (qs.map (fun q => (q.dom.map (fun e => e.1.length)).foldl min 100000)).foldl (· + ·) 0\n']
    for idx, r in sorted(rows.items()):
        src.append(f'#eval IO.println s!"ROW {idx} {{maxLen {body(r)}}} {{minLen {body(r)}}} {{(rowBody{r["end"]} re{idx} {r["skip"]}).foldl (fun a q => a + q.dom.length) 0}}"\n')
    path = os.path.join(ROOT, '.build', 'regexe2e', 'ProbeLen.lean')
    os.makedirs(os.path.dirname(path), exist_ok=True)
    open(path, 'w').write(''.join(src))
    out = subprocess.run(['lake', 'env', 'lean', path], cwd=LEAN, capture_output=True, text=True)
    res = {}
    for l in out.stdout.splitlines():
        m = re.match(r'ROW (\d+) (\d+) (\d+) (\d+)$', l)
        if m: res[int(m.group(1))] = (int(m.group(2)), int(m.group(3)), int(m.group(4)))
    if out.returncode != 0 or len(res) != len(rows):
        print(out.stdout[-2000:], out.stderr[-2000:], file=sys.stderr)
        raise SystemExit(f'probe failed ({len(res)}/{len(rows)})')
    return res


def suffix(n):
    s = ''
    while True:
        s = chr(ord('a') + n % 26) + s
        n = n // 26 - 1
        if n < 0: return s


def row_block(r):
    i = r['idx']
    b = body(r)
    if r['end'] == 'E':
        tl = f'(ht : TailIn (rowEndSym re{i}) tail)'
        proof = (f'e2e_end row{i} "{r["dtfs"]}" (by decide) rfl (C04_row{i}_search sel hv _ (tailIn_take ht _)) (by decide) (by decide) fbOff hfb fill hs hr')
    else:
        tl = f'(ht : TailF (autoTail re{i}) tail)'
        proof = (f'e2e_of_result row{i} "{r["dtfs"]}" (by decide) rfl (C04_row{i}_search sel hv _ (tailF_take ht _)) (by decide) fbOff hfb fill hs hr')
    note = ('the longest rendering of the catalogue (%d bytes) fits `range_regex.end` = %d: `hlen` holds for every selection'
            % (r['maxlen'], r['rend'])) if r['maxlen'] <= r['rend'] else \
           ('`hlen` is NEEDED: the catalogue has renderings of up to %d bytes, `range_regex.end` = %d (see `RegexE2ESpec`)'
            % (r['maxlen'], r['rend']))
    return (f'/-- **row {i}** (`{r["dtfs"]}`): line text → instant. {note} -/\n'
            f'theorem C04_row{i}_end_to_end (sel : Sel) (hv : Valid {b} sel) (tail : List UInt8) {tl}\n'
            f'    (hlen : (flat sel).length ≤ row{i}.rangeEnd) (fbOff : Int) (hfb : FbOK\' fbOff) (fill : Option Int)\n'
            f'    (hs : shapeOK row{i}.dtfs (selFields row{i} sel) fill = true) (hr : rangeOK row{i}.dtfs (selFields row{i} sel) fill = true) :\n'
            f'    rowPipeline row{i} (flat sel ++ tail) fbOff fill = some (fieldsOf row{i}.dtfs (selFields row{i} sel) fbOff fill).instant := by\n'
            f'  rw [pipeline_eq row{i} rfl _ _ hlen]\n'
            f'  exact {proof}\n\n')


def len_block(r):
    i = r['idx']
    b = body(r)
    tl = f'(ht : TailIn (rowEndSym re{i}) tail)' if r['end'] == 'E' else f'(ht : TailF (autoTail re{i}) tail)'
    return ('set_option maxRecDepth 100000 in\n'
            f'/-- the longest rendering of row {i}\'s catalogue ends before `range_regex.end` -/\n'
            f'theorem len{i} : maxLen {b} = {r["maxlen"]} ∧ {r["maxlen"]} ≤ row{i}.rangeEnd := by decide +kernel\n\n'
            f'/-- **row {i}** without the length hypothesis -/\n'
            f'theorem C04_row{i}_end_to_end_all (sel : Sel) (hv : Valid {b} sel) (tail : List UInt8) {tl}\n'
            f'    (fbOff : Int) (hfb : FbOK\' fbOff) (fill : Option Int)\n'
            f'    (hs : shapeOK row{i}.dtfs (selFields row{i} sel) fill = true) (hr : rangeOK row{i}.dtfs (selFields row{i} sel) fill = true) :\n'
            f'    rowPipeline row{i} (flat sel ++ tail) fbOff fill = some (fieldsOf row{i}.dtfs (selFields row{i} sel) fbOff fill).instant :=\n'
            f'  C04_row{i}_end_to_end sel hv tail ht (by have := flat_le_maxLen hv; have := len{i}; omega) fbOff hfb fill hs hr\n\n')


def main():
    rows, tab = load()
    pr = probe(rows)
    for idx, r in rows.items():
        r['maxlen'], r['minlen'], r['entries'] = pr[idx]
    epoch = [i for i, r in rows.items() if r['dtfs'] in ('DTFSS_s', 'DTFSS_sf')]
    dt = sorted(i for i in rows if i not in epoch)
    files = [dt[k:k + PER_FILE] for k in range(0, len(dt), PER_FILE)]
    names = []
    for fi, chunk in enumerate(files):
        name = 'RegexE2E' + suffix(fi)
        names.append(name)
        o = ['/-\nGENERATED by tools/mk_regexe2e.py — regenerate, do not edit.\n\n'
             f'C04, regex slice, stage 6 — END-TO-END theorems (line text → instant) for rows {chunk[0]}–{chunk[-1]} of `DATETIME_PARSE_DATAS`:\n'
             '`C04_rowN_end_to_end` = `C04_rowN_search` (the matcher captures exactly the words of the selection; `S4V.Props.RegexCapture3*`)\n'
             'joined with `C04_words_denote` (well-shaped words with calendar values are attributed the instant they spell; every date-time\n'
             'field set) through the `range_regex` slice of `find_datetime_in_line` (`rowPipeline`). Definitions and the generic lemmas:\n'
             '`S4V.Lemmas.RegexE2E`, `…Words`, `…Row`; reading guide, non-vacuity and the FALSE statements: `S4V.Props.RegexE2ESpec`.\n-/\n',
             'import S4V.Lemmas.RegexE2ERow\nimport S4V.Props.RegexCapture3\n\nnamespace S4V.Props.RegexE2E\n', OPEN,
             'open S4V.Lemmas.RegexE2E S4V.Props.RegexCapture3 S4V.Gen.TimeTables\n\n']
        for i in chunk:
            o.append(row_block(rows[i]))
        o.append('end S4V.Props.RegexE2E\n')
        open(os.path.join(PROPS, name + '.lean'), 'w').write(''.join(o))
    # optional: the length facts
    len_names = []
    if '--len' in sys.argv:
        fit = [i for i in dt if rows[i]['maxlen'] <= rows[i]['rend']]
        def weight(i):
            e = rows[i]['entries']
            return 30 if e > 450 else 8 if e > 300 else 3
        chunks, cur, w = [], [], 0
        for i in fit:
            if cur and w + weight(i) > LEN_BUDGET:
                chunks.append(cur); cur, w = [], 0
            cur.append(i); w += weight(i)
        if cur: chunks.append(cur)
        for fi, chunk in enumerate(chunks):
            name = 'RegexE2ELen' + suffix(fi)
            len_names.append(name)
            o = ['/-\nGENERATED by tools/mk_regexe2e.py --len — regenerate, do not edit.\n\n'
                 f'C04, regex slice, stage 6 — rows {chunk[0]}–{chunk[-1]}: the longest rendering of the row\'s catalogue (`maxLen`, one kernel\n'
                 'computation per row) ends before `range_regex.end`, so `C04_rowN_end_to_end` holds for EVERY selection (`…_all`).\n-/\n',
                 'import S4V.Props.RegexE2E\n\nnamespace S4V.Props.RegexE2E\n', OPEN,
                 'open S4V.Lemmas.RegexE2E S4V.Props.RegexCapture3 S4V.Gen.TimeTables\n\n']
            for i in chunk:
                o.append(len_block(rows[i]))
            o.append('end S4V.Props.RegexE2E\n')
            open(os.path.join(PROPS, name + '.lean'), 'w').write(''.join(o))
    # index
    table = []
    for i in range(len(tab)):
        if i not in rows:
            table.append((i, 'not covered: no capture theorem (`[^\\n]+` before the stamp: the matcher backtracks from the end of the line)'))
        elif i in epoch:
            table.append((i, f'FALSE for this row ({rows[i]["dtfs"]}): epoch seconds are read as local time in the fallback zone (F26): `C04_epoch_row{i}_full_false` / `_partial` in RegexE2ESpec'))
        else:
            r = rows[i]
            fits = 'every selection' if r['maxlen'] <= r['rend'] else f'selections up to range_regex.end = {r["rend"]} bytes (longest rendering {r["maxlen"]}: F28-like cut, see RegexE2ESpec)'
            table.append((i, f'C04_row{i}_end_to_end ({r["dtfs"]}; {fits})'))
    agg = ['/-\nGENERATED by tools/mk_regexe2e.py — regenerate, do not edit.\n\nC04, regex slice, stage 6 — index of the per-row end-to-end theorems.\n\n'
           'TABLE (row → theorem (field set; which selections) | why not):\n']
    agg += [f'  {i:3d}  {t}\n' for i, t in table]
    agg.append('-/\n' + ''.join(f'import S4V.Props.{n}\n' for n in names))
    agg.append('\nnamespace S4V.Props.RegexE2E\n\n/-- rows with a `C04_rowN_end_to_end` theorem -/\ndef e2eRows : List Nat := [' + ', '.join(map(str, dt)) + ']\n'
               '/-- covered rows whose catalogue has renderings longer than `range_regex.end` -/\ndef cutRows : List Nat := [' +
               ', '.join(str(i) for i in dt if rows[i]['maxlen'] > rows[i]['rend']) + ']\n'
               '/-- epoch rows: the joined statement is false (F26) -/\ndef epochRows : List Nat := [' + ', '.join(map(str, sorted(epoch))) + ']\n\nend S4V.Props.RegexE2E\n')
    open(os.path.join(PROPS, 'RegexE2E.lean'), 'w').write(''.join(agg))
    if len_names:
        open(os.path.join(PROPS, 'RegexE2ELen.lean'), 'w').write(
            '/-\nGENERATED by tools/mk_regexe2e.py --len — index of the length facts (`lenN`, `C04_rowN_end_to_end_all`).\n-/\n' +
            ''.join(f'import S4V.Props.{n}\n' for n in len_names))
    json.dump(dict(files=names, len_files=len_names, rows={i: rows[i] for i in rows}, table=table),
              open(os.path.join(ROOT, '.build', 'regexe2e', 'table.json'), 'w'), indent=1)
    print(f'{len(dt)} date-time rows in {len(names)} files; {len(epoch)} epoch rows; {len(tab) - len(rows)} without capture theorem; '
          f'{sum(1 for i in dt if rows[i]["maxlen"] > rows[i]["rend"])} rows longer than range_regex.end; {len(len_names)} Len files')


if __name__ == '__main__':
    main()
