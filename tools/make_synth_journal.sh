#!/bin/bash
# Regenerate corpus/jrender/synth.journal.xz: a journal written by the real systemd-journald (private mount
# namespace, volatile storage on a tmpfs, no kernel messages) from entries sent over the native protocol:
# more than 200 fields (MESSAGE after / before them), repeated keys, binary / multi-line / empty / `=`-carrying
# values, a large (compressed) value, no MESSAGE. Needs root, unshare, /lib/systemd/systemd-journald, python3, xz.
# usage: tools/make_synth_journal.sh <out.journal.xz>
set -e
OUT=$(readlink -f "${1:?out file}")
W=$(mktemp -d)
cat > "$W/journald.conf" <<'EOC'
[Journal]
Storage=volatile
ReadKMsg=no
Compress=yes
RuntimeMaxUse=512M
RuntimeMaxFileSize=128M
RuntimeKeepFree=1M
RateLimitBurst=0
ForwardToSyslog=no
ForwardToKMsg=no
ForwardToConsole=no
ForwardToWall=no
Audit=no
EOC
cat > "$W/send.py" <<'EOP'
import socket, struct, time
def field(k, v):
    if b'\n' in v or any(c < 32 for c in v):
        return k + b'\n' + struct.pack('<Q', len(v)) + v + b'\n'
    return k + b'=' + v + b'\n'
def send(fields):
    s = socket.socket(socket.AF_UNIX, socket.SOCK_DGRAM)
    s.setsockopt(socket.SOL_SOCKET, socket.SO_SNDBUF, 8 << 20)
    s.connect('/run/systemd/journal/socket')
    s.send(b''.join(field(k, v) for k, v in fields))
    time.sleep(0.05)
# few distinct names (journald rotates the file when its field hash table fills up), many values
many = lambda p, n: [(b'%s%02d' % (p, i % 30), b'v%d' % i) for i in range(n)]
send(many(b'F', 300) + [(b'SYSLOG_IDENTIFIER', b'many'), (b'MESSAGE', b'message after 300 fields')])
send([(b'MESSAGE', b'message before 300 fields'), (b'SYSLOG_IDENTIFIER', b'many2')] + many(b'F', 300))
send([(b'MESSAGE', b'first message'), (b'MESSAGE', b'second\nmessage'), (b'SYSLOG_IDENTIFIER', b'dup'), (b'SYSLOG_IDENTIFIER', b'dup2'),
      (b'SYSLOG_PID', b'77'), (b'SYSLOG_PID', b'78'), (b'BIN', b'\xff\xfe\x00x'), (b'EMPTY', b''), (b'EQ', b'a=b=c')])
send([(b'FOO', b'bar')])
send([(b'MESSAGE', b'ordinary'), (b'PRIORITY', b'6'), (b'SYSLOG_IDENTIFIER', b'ord')])
send([(b'MESSAGE', b'big value follows'), (b'BIG', b'0123456789abcdef' * 8192), (b'SYSLOG_IDENTIFIER', b'big')])
send([(b'MESSAGE', (b'long message line %d\n' * 1)[:-1] % 0 + b''.join(b'\ncontinued %d' % i for i in range(40))), (b'SYSLOG_IDENTIFIER', b'multi')])
send(many(b'F', 170) + [(b'MESSAGE', b'about 200 fields with the trusted ones')])
send(many(b'F', 180) + [(b'MESSAGE', b'about 200 fields with the trusted ones (2)')])
send(many(b'F', 190) + [(b'MESSAGE', b'about 200 fields with the trusted ones (3)')])
send([(b'MESSAGE', b'\xc3\x28 not utf-8 \xff'), (b'SYSLOG_IDENTIFIER', b'id with space'), (b'SYSLOG_PID', b'not-a-number')])
send([(b'MESSAGE', b''), (b'SYSLOG_IDENTIFIER', b'')])
send([(b'MESSAGE', b'=starts with equals'), (b'UNIT', b'u'), (b'CODE_FILE', b'f.c'), (b'CODE_LINE', b'1'), (b'ZZZ', b'last'), (b'AAA', b'first'), (b'aaa', b'lower')])
time.sleep(0.5)
EOP
cat > "$W/inner.sh" <<EOI
set -e
mount -t tmpfs tmpfs /run
mount -t tmpfs tmpfs /var/log/journal 2>/dev/null || true
mount --bind "$W/journald.conf" /etc/systemd/journald.conf
mkdir -p /run/systemd/journal /run/log/journal
/lib/systemd/systemd-journald &
JP=\$!
sleep 2
python3 "$W/send.py"
sleep 1
kill -TERM \$JP; sleep 1
ls -la /run/log/journal/*/ >&2
cp /run/log/journal/*/system.journal "$W/synth.journal"
EOI
unshare -m --propagation private bash "$W/inner.sh"
xz -9 -c "$W/synth.journal" > "$OUT"
journalctl --file "$W/synth.journal" --no-pager -o cat | wc -l
rm -rf "$W"
