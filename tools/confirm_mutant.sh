#!/bin/bash
# confirm_mutant.sh <worktree dir> <patch file> <demo command…>
# (no `git stash`: stashes are shared between worktrees)
# 1. demo with the change must fail; 2. demo without must pass; 3. the test suite with the
# change must fail exactly the baseline's always-fail set. Writes <dir>/CONFIRM.txt
d=$1; patch=$2; shift; shift
cd "$d" || exit 2
export CARGO_TARGET_DIR=$d/target
out=$d/CONFIRM.txt; : > $out
git checkout -q -- src && git apply "$patch" || { echo "patch does not apply" >> $out; cat $out; exit 2; }
"$@" > $d/demo_with.log 2>&1; echo "demo with change: exit $?" >> $out
git checkout -q -- src
"$@" > $d/demo_without.log 2>&1; echo "demo without change: exit $?" >> $out
git apply "$patch"
cargo nextest run --workspace --no-fail-fast --test-threads 8 --offline > $d/suite.log 2>&1
grep -E "^ +Summary \[" $d/suite.log >> $out
grep "FAIL \[" $d/suite.log | sed 's/.*super_speedy_syslog_searcher //' | sort -u > $d/suite_fails.txt
python3 - "$d" >> $out <<'PY'
import json, sys
d = sys.argv[1]
b = json.load(open('/root/.vp/BASELINE.json'))
af = set(x.replace('super_speedy_syslog_searcher::', '').replace('bin/s4::', '') for x in b['always_fail'])
now = set(l.strip().replace('s4lib ', '').replace('s4 ', '') for l in open(d + '/suite_fails.txt'))
now = set(n.split(' ', 1)[-1] if ' ' in n else n for n in now)
extra = sorted(n for n in now if not any(n == a or a.endswith(n) or n.endswith(a) for a in af))
print('failing tests not in the baseline always-fail set:', extra[:10], '(count %d)' % len(extra))
PY
rm -rf $d/target
cat $out
