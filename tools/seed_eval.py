#!/usr/bin/env python3
"""Apply a seeded change to /repo, run the given checks, undo it.
usage: seed_eval.py <seeded id> <Cxx> [<Cyy> …] [--tier quick|thorough]
Prints per check: exit status and the VIOLATION / KNOWN-FINDING lines."""
import os
import subprocess
import sys

VERIF = os.path.dirname(os.path.dirname(os.path.abspath(__file__)))
args = sys.argv[1:]
tier = 'quick'
if '--tier' in args:
    i = args.index('--tier')
    tier = args[i + 1]
    del args[i:i + 2]
sid, checks = args[0], args[1:]
patch = os.path.join(VERIF, 'seeded', sid, 'patch.diff')
st = subprocess.run(['git', '-C', '/repo', 'status', '--porcelain'], stdout=subprocess.PIPE).stdout.decode().strip()
if st:
    print('refusing: /repo has uncommitted changes:\n' + st)
    sys.exit(2)
r = subprocess.run(['git', '-C', '/repo', 'apply', patch])
if r.returncode != 0:
    print('patch does not apply')
    sys.exit(2)
import shutil
saved = {}
for c in checks:
    ev = os.path.join(VERIF, 'evidence', c + '.json')
    if os.path.exists(ev):
        saved[ev] = open(ev, 'rb').read()
try:
    for c in checks:
        p = subprocess.run([os.path.join(VERIF, 'check'), c, '--tier', tier], cwd=VERIF, stdout=subprocess.PIPE, stderr=subprocess.STDOUT)
        lines = [l for l in p.stdout.decode(errors='replace').splitlines() if l.startswith('VIOLATION') or 'FAILED' in l or 'DISAGREE' in l]
        print(f'== {c}: exit {p.returncode}')
        for l in lines[:8]:
            print('   ', l[:300])
finally:
    # the evidence files describe the unchanged tree: put them back
    for ev, data in saved.items():
        open(ev, 'wb').write(data)
    subprocess.run(['git', '-C', '/repo', 'checkout', '--', '.'])
    # regenerate Gen files and rebuild against the restored tree
    subprocess.run([sys.executable, os.path.join(VERIF, 'gen', 's4gen.py')], stdout=subprocess.DEVNULL)
