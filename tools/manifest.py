#!/usr/bin/env python3
"""Regenerate /verif/MANIFEST.json from the table below and validate it (and any
evidence files present) against the schemas in /root/.vp."""
import json
import os
import subprocess
import sys

VERIF = os.path.dirname(os.path.dirname(os.path.abspath(__file__)))

CLAIMS = {}
NOT_YET = {}


def claim(pid, technique, text, note, design_ref):
    CLAIMS[pid] = dict(technique=technique, text=text, note=note, design_ref=design_ref)


sys.path.insert(0, VERIF)
exec(open(os.path.join(VERIF, 'tools', 'claims.py')).read())

props = [json.loads(l) for l in open(os.path.join(VERIF, 'properties.jsonl'))]
hooks_commits = subprocess.run(['git', '-C', '/repo', 'log', '--format=%h %s', '--grep', 'verif hook'],
                               stdout=subprocess.PIPE).stdout.decode().strip().splitlines()
m = {
    "version": 1,
    "setup_cmd": "./setup.sh",
    "hooks": {
        "guard": "--cfg s4_verif",
        "enable": "RUSTFLAGS='--cfg s4_verif' cargo build --offline --release with the profile overrides of vlib/core.py env_cargo() into /verif/.build/target (harness crate /verif/harness and the s4 binary)",
        "baseline_off_cmd": "cd /repo && (cargo nextest run --workspace --no-fail-fast --test-threads 8 --offline || cargo test --workspace --no-fail-fast --offline)",
        "source_commits": [c.split(' ')[0] for c in hooks_commits],
        "add_only": True,
    },
    "engines": [{"name": "lean-s4v", "path": "/verif/lean", "serves_properties": sorted(CLAIMS),
                 "kind_free_text": "Lean 4 model + theorems (package S4V); translator gen/s4gen.py regenerates S4V/Gen/*.lean from /repo on every run (Tie A); Rust harness /verif/harness calling s4lib in-process + compiled Lean driver `drv` compared line by line (Tie B); end-to-end oracles on the real binary search for failing inputs"}],
    "checks": [],
    "notes": "Every check: ./check <id> [--tier quick|thorough]; VERIF_SEED/VERIF_TIER honoured. See DESIGN.md.",
    "not_applicable": [],
}
for p in props:
    pid = p['id']
    if pid in CLAIMS:
        c = CLAIMS[pid]
        m['checks'].append({
            "property_id": pid,
            "quick_cmd": f"./check {pid} --tier quick",
            "thorough_cmd": f"./check {pid} --tier thorough",
            "evidence_file": f"/verif/evidence/{pid}.json",
            "replay_cmd_template": f"./check {pid} --replay {{path}}",
            "engine": "lean-s4v",
            "level_claimed": {"category": "proof", "text": c['text'], "design_ref": c['design_ref']},
            "level_note": c['note'],
            "technique": c['technique'],
        })
    else:
        m['not_applicable'].append({"property_id": pid, "reason": NOT_YET.get(pid, "not yet claimed: machinery for this property is still under construction (DESIGN.md §9)")})
json.dump(m, open(os.path.join(VERIF, 'MANIFEST.json'), 'w'), indent=1)

# validate with the tooling venv's jsonschema
code = r'''
import json, sys, os, glob, jsonschema
ms = json.load(open('/root/.vp/MANIFEST.schema.json')); es = json.load(open('/root/.vp/EVIDENCE.schema.json'))
jsonschema.validate(json.load(open('/verif/MANIFEST.json')), ms)
print('MANIFEST valid;', len(json.load(open('/verif/MANIFEST.json'))['checks']), 'checks')
for f in sorted(glob.glob('/verif/evidence/*.json')):
    try:
        ev = json.load(open(f)); jsonschema.validate(ev, es)
        c = ev['coverage']
        print(os.path.basename(f), 'valid', ev['tier'], 'obl', c.get('obligations'), 'dis', c.get('discharged'), 'viol', ev.get('violations'), 'wall', ev['wall_s'])
    except Exception as e:
        print(os.path.basename(f), 'INVALID', str(e)[:300])
'''
subprocess.run(['python3-vt', '-c', code])
