#!/bin/bash
# stage_mutant.sh <worktree dir> <seeded id>
# Confirm a planted change in its scratch worktree (demo fails with / passes without; suite = baseline)
# and stage it as /verif/seeded/<id>/ (patch.diff, demo.sh, NOTES.md, CONFIRM.txt).
d=$1; id=$2
s=/verif/seeded/$id
mkdir -p $s
cp $d/patch.diff $s/patch.diff
cp $d/demo.sh $s/demo.sh 2>/dev/null
cp $d/NOTES.md $s/NOTES.md 2>/dev/null
cp $d/patch.diff /tmp/w9/stage_$id.diff
export CARGO_TARGET_DIR=$d/target
cd $d || exit 2
git checkout -q -- src && git apply /tmp/w9/stage_$id.diff || { echo "patch does not apply"; exit 2; }
B="CARGO_PROFILE_RELEASE_LTO=false CARGO_PROFILE_RELEASE_CODEGEN_UNITS=16 CARGO_PROFILE_RELEASE_OPT_LEVEL=1"
env $B cargo build --offline --release --bin s4 > $d/build_with.log 2>&1 || { echo "build with change failed"; exit 2; }
cp $d/target/release/s4 /tmp/w9/stage_$id.s4.with
git checkout -q -- src
env $B cargo build --offline --release --bin s4 > $d/build_without.log 2>&1 || { echo "build without change failed"; exit 2; }
cp $d/target/release/s4 /tmp/w9/stage_$id.s4.without
out=$s/CONFIRM.txt; : > $out
bash $s/demo.sh /tmp/w9/stage_$id.s4.with > $d/demo_with.log 2>&1; echo "demo with change: exit $?" >> $out
bash $s/demo.sh /tmp/w9/stage_$id.s4.without > $d/demo_without.log 2>&1; echo "demo without change: exit $?" >> $out
git apply /tmp/w9/stage_$id.diff
cargo nextest run --workspace --no-fail-fast --test-threads 8 --offline > $d/suite.log 2>&1
grep -E "^ +Summary \[" $d/suite.log >> $out
grep "FAIL \[" $d/suite.log | sed 's/.*super_speedy_syslog_searcher //' | sort -u > $d/suite_fails.txt
python3 - "$d" >> $out <<'PY'
import json, sys
d = sys.argv[1]
b = json.load(open('/root/.vp/BASELINE.json'))
af = set(x.replace('super_speedy_syslog_searcher::', '').replace('bin/s4::', '') for x in b['always_fail'])
now = set(l.strip().replace('s4lib ', '').replace('s4 ', '') for l in open(d + '/suite_fails.txt'))
now = set(n.split(' ', 1)[-1] if ' ' in n else n for n in now)
extra = sorted(n for n in now if not any(n == a or a.endswith(n) or n.endswith(a) for a in af))
print('failing tests not in the baseline always-fail set:', extra[:10], '(count %d)' % len(extra))
PY
rm -rf $d/target /tmp/w9/stage_$id.s4.with /tmp/w9/stage_$id.s4.without /tmp/w9/stage_$id.diff
cat $out
