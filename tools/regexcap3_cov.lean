/-
Coverage probe for S4V.Props.RegexCapture3* (not part of the lake project; run from lean/):
  s4h rgxr --n 170000 | grep -v "^#" | lake env lean --run ../tools/regexcap3_cov.lean
For every `rgx m <row> <hex>\t<implementation reply>` line: split the bytes along the row's automatic catalogue (`chooseSel`),
check the tail condition of `C04_rowN_search`, and compare the result the THEOREM predicts (span, every named group)
with the reply of the real regex crate. Prints: total / inside the hypotheses / predicted = implementation.
-/
import S4V.Gen.Regex
import S4V.Lemmas.RegexAuto
import S4V.Drv.Regex
open S4V.Model.Regex S4V.Gen.Regex S4V.Lemmas.RegexStep S4V.Lemmas.RegexSym S4V.Lemmas.RegexRows S4V.Lemmas.RegexAuto
open S4V.Model.Wire S4V.Drv.Regex

structure Info where
  isE : Bool
  c0 : Caps
  body : List Piece

def infoOf (row : Row) : Info :=
  let re := row.re
  let (skip, c0) : Nat × Caps := match itemsOf re with
    | .bol :: _ => (1, [])
    | (.group g (.alt .bol _)) :: _ => (1, [(g, 0, 0)])
    | (.group g (.alt (.cls _) .bol)) :: _ => (1, [(g, 0, 0)])
    | _ => (0, [])
  let isE := match (itemsOf re).getLast? with
    | some (.group _ (.alt (.cls _) .eol)) => true
    | _ => false
  ⟨isE, c0, if isE then rowBodyE re skip else rowBodyP re skip⟩

def tailOk (F : Sym) : List UInt8 → Bool
  | [] => true
  | x :: _ => symHas F x

def predict (row : Row) (inf : Info) (line : List UInt8) : Option Res :=
  match chooseSel inf.body line with
  | some (sel, rest) =>
    if validB inf.body sel && (flat sel ++ rest == line) then
      if inf.isE then
        if tailOk (rowEndSym row.re) rest then some ⟨0, (flat sel).length + tailLen rest, capsAt 0 inf.c0 (sel ++ [rowEndEw row.re rest])⟩ else none
      else
        if tailOk (autoTail row.re) rest then some ⟨0, (flat sel).length, capsAt 0 inf.c0 sel⟩ else none
    else none
  | none => none

partial def loop (h : IO.FS.Stream) (infos : Array Info) (inside agree total : Nat) (bad : List String) : IO (Nat × Nat × Nat × List String) := do
  let l ← h.getLine
  if l.isEmpty then return (inside, agree, total, bad)
  let l := l.trimRight
  match l.splitOn "\t" with
  | [req, impl] =>
    match req.splitOn " " with
    | ["rgx", "m", idx, hx] =>
      match idx.toNat?, unhex hx with
      | some i, some bs =>
        match rowsArr[i]?, infos[i]? with
        | some row, some inf =>
          match predict row inf bs with
          | some r =>
            let s := fmtRes row (some r)
            if s == impl then loop h infos (inside + 1) (agree + 1) (total + 1) bad
            else loop h infos (inside + 1) agree (total + 1) (if bad.length < 5 then (l ++ " PRED " ++ s) :: bad else bad)
          | none => loop h infos inside agree (total + 1) bad
        | _, _ => loop h infos inside agree total bad
      | _, _ => loop h infos inside agree total bad
    | _ => loop h infos inside agree total bad
  | _ => loop h infos inside agree total bad

def main : IO Unit := do
  let infos := rowsArr.map infoOf
  let h ← IO.getStdin
  let (inside, agree, total, bad) ← loop h infos 0 0 0 []
  IO.println s!"total {total} inside-hypotheses {inside} predicted=implementation {agree}"
  for b in bad do IO.println b
