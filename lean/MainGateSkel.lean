/-
Model driver `drv_gskel`: the `gate` requests answered by the interpreter of the regenerated gate
skeleton. Separate executable so that a translator failure in this slice cannot break the others.
-/
import S4V.Model.Wire
import S4V.Drv.GateSkel

open S4V.Model.Wire

def step (line : String) : String :=
  match words line with
  | "gate" :: rest => S4V.Drv.GateSkel.stepGskel rest
  | "gskel" :: rest => S4V.Drv.GateSkel.stepGskel rest
  | _ => "bad-op"

partial def loop (h : IO.FS.Stream) (out : IO.FS.Stream) : IO Unit := do
  let line ← h.getLine
  if line.isEmpty then return ()
  out.putStrLn (step line)
  loop h out

def main : IO Unit := do
  let out ← IO.getStdout
  loop (← IO.getStdin) out
  out.flush
