/-
Hand model of block assembly in `BlockReader` (src/readers/blockreader.rs):
`new` (how `filesz_actual` is learned and, for xz, all blocks are made up
front), `read_block` (Done above `blockoffset_last`, LRU cache, `blocks_read` /
`blocks` maps, dispatch), `read_block_File`, `read_block_File{Gz,Bz2,Lz4}`
(one loop shape, three ways to decode a block), `read_block_FileXz`,
`read_block_FileTar`, `drop_block`, the look-back drop; and the copy loop of
`decompress_to_ntf` (src/readers/filedecompressor.rs).
The lz4 block decode follows the generated `LZ4_FILL_LOOP`: the fill loop (`fillBreak`) as coded,
the single `read` (`readOnce`) for the source before the repair; the latter also stays available
as `Kind.lz4Single`, the counter-model of the repaired defect.

A decoder is the decompressed byte string still to be delivered plus an
arbitrary script of chunk sizes: `read(buf[..k])` returns `c` bytes with
`1 ≤ c ≤ k` (0 only when `k = 0` or at end of data). Every script is
admissible (a scripted size is clamped into `[1, k]`), and every admissible
behaviour is some script, so "for all scripts" is "for all chunkings".

The facts about loop shapes (`GZ_BUF_SZ`, `LZ4_FILL_LOOP`, `XZ_SPLIT_INCLUSIVE`,
`READ_BLOCK_LOOKBACK_DROP`, …) come from `S4V.Gen.Stream` / `S4V.Gen.Blocks`,
extracted from the source.
-/
import S4V.Gen.Blocks
import S4V.Gen.Stream
import S4V.Model.Lines

namespace S4V.Model.Stream
open S4V.Gen.Blocks S4V.Gen.Stream S4V.Model.Lines

/-! ### decoder -/

structure Dec where
  /-- decompressed bytes not yet delivered -/
  rest : Bytes
  /-- sizes the next `read` calls would like to return -/
  cs : List Nat
  deriving Repr, DecidableEq, Inhabited

/-- `Read::read(&mut buf[..k])` -/
def Dec.read (s : Dec) (k : Nat) : Bytes × Dec :=
  let want := match s.cs with
    | [] => k
    | c :: _ => max 1 c
  let n := min want k
  (s.rest.take n, ⟨s.rest.drop n, s.cs.tail⟩)

/-- size of the sub-read: gz reads through a `BUF_SZ` buffer
(`readsz = if expect - actual < BUF_SZ {expect - actual} else {BUF_SZ}`), bz2 reads into
`block[bytes_read..]` -/
def readsz (cap : Option Nat) (need : Nat) : Nat :=
  match cap with
  | none => need
  | some c => if need < c then need else c

/-- the fill loop of `read_block_FileGz` / `read_block_FileBz2`:
`while got < need { n = read(..); if n == 0 { return Err }; got += n }`.
`none` = `Err`. Fuel `need` suffices (every round delivers ≥ 1 byte). -/
def fill (cap : Option Nat) : Nat → Dec → Nat → Bytes → Option (Bytes × Dec)
  | 0, s, need, acc => if need = 0 then some (acc, s) else none
  | fuel + 1, s, need, acc =>
    if need = 0 then some (acc, s)
    else
      let r := s.read (readsz cap need)
      if r.1.length = 0 then none
      else fill cap fuel r.2 (need - r.1.length) (acc ++ r.1)

/-- `read_block_FileLz4` BEFORE the repair (`LZ4_FILL_LOOP = false`): `block.resize(need, 0);
reader.read(&mut block)` ONCE; the returned size is counted, the block keeps length `need` (zero
padded after a short read) -/
def readOnce (s : Dec) (need : Nat) : Bytes × Dec :=
  let r := s.read need
  (r.1 ++ List.replicate (need - r.1.length) 0, r.2)

/-- `read_block_FileLz4` as coded (`LZ4_FILL_LOOP = true`): `block.resize(blocksz_u, 0);
while size_total < blocksz_u { match reader.read(&mut block[size_total..]) { Ok(0) => break,
Ok(n) => size_total += n, Err(e) => … } }`. Unlike the bz2 loop a zero-length read is not an
error: the loop ends and the block keeps its length, zero padded (`acc ++ 0…0`); `need` is what is
still unfilled. Fuel `need` suffices (every round delivers ≥ 1 byte). -/
def fillBreak : Nat → Dec → Nat → Bytes → Bytes × Dec
  | 0, s, need, acc => (acc ++ List.replicate need 0, s)
  | fuel + 1, s, need, acc =>
    if need = 0 then (acc, s)
    else
      let r := s.read need
      if r.1.length = 0 then (acc ++ List.replicate need 0, r.2)
      else fillBreak fuel r.2 (need - r.1.length) (acc ++ r.1)

/-- `lz4Single` is not a container of its own: it is the lz4 reader as it was before the repair
(one `read` per block), kept so that the repaired defect stays stated as a counter-model
(`S4V.Props.StreamSpec.assemble_eq_lz4_single_read_false`). The driver never produces it. -/
inductive Kind where
  | plain | gz | bz2 | lz4 | xz | tar | lz4Single
  deriving DecidableEq, Repr, Inhabited

/-- decode one block of expected length `need` -/
def decodeBlock (kind : Kind) (s : Dec) (need : Nat) : Option (Bytes × Dec) :=
  match kind with
  | .gz => fill (some GZ_BUF_SZ) need s need []
  | .bz2 => if BZ2_FILL_LOOP then fill none need s need [] else some (readOnce s need)
  | .lz4Single => some (readOnce s need)
  | _ => if LZ4_FILL_LOOP then some (fillBreak need s need []) else some (readOnce s need)

/-- the size pre-pass of `new` (bz2, lz4): `loop { n = read(buf); if n == 0 {break}; total += n }` -/
def countLoop (bufsz : Nat) : Nat → Dec → Nat → Nat
  | 0, _, acc => acc
  | fuel + 1, s, acc =>
    let r := s.read bufsz
    if r.1.length = 0 then acc else countLoop bufsz fuel r.2 (acc + r.1.length)

/-- the copy loops of `decompress_to_ntf`: `loop { n = read(buf); if n == 0 {break}; write_all(buf[..n]) }`;
with `onlyEof = false` the loop has a further exit after writing a chunk shorter than the buffer
(`if n < BUF_SZ {break}`: the shape the generated `NTF_COPY_STOPS_ONLY_AT_EOF` rules out) -/
def copyLoopG (onlyEof : Bool) (bufsz : Nat) : Nat → Dec → Bytes → Bytes
  | 0, _, acc => acc
  | fuel + 1, s, acc =>
    let r := s.read bufsz
    if r.1.length = 0 then acc
    else if !onlyEof && r.1.length < bufsz then acc ++ r.1
    else copyLoopG onlyEof bufsz fuel r.2 (acc ++ r.1)

def copyLoop (bufsz : Nat) : Nat → Dec → Bytes → Bytes := copyLoopG NTF_COPY_STOPS_ONLY_AT_EOF bufsz

/-- bytes written to the temporary file by `decompress_to_ntf` (gz / bz2 / lz4 / tar member) -/
def decompressToNtfG (onlyEof : Bool) (d : Bytes) (cs : List Nat) : Bytes :=
  copyLoopG onlyEof NTF_BUF_SZ (d.length + 1) ⟨d, cs⟩ []

def decompressToNtf (d : Bytes) (cs : List Nat) : Bytes := decompressToNtfG NTF_COPY_STOPS_ONLY_AT_EOF d cs

/-! ### maps -/

abbrev BMap := List (Nat × Bytes)

def mget (m : BMap) (k : Nat) : Option Bytes := (m.find? (fun p => p.1 == k)).map (·.2)
def mdel (m : BMap) (k : Nat) : BMap := m.filter (fun p => p.1 != k)
def mins (m : BMap) (k : Nat) (b : Bytes) : BMap := (k, b) :: mdel m k

/-- `LruCache::put` with capacity `READ_BLOCK_LRU_CACHE_SZ` -/
def lruPut (l : BMap) (k : Nat) (b : Bytes) : BMap := (mins l k b).take READ_BLOCK_LRU_CACHE_SZ

inductive Res where
  | found (b : Bytes)
  | done
  | err
  | panic
  deriving DecidableEq, Repr, Inhabited

structure Rd where
  kind : Kind
  bs : Nat
  /-- `filesz_actual` -/
  fsz : Nat
  /-- bytes of the plain file / the tar member (addressed by seek) -/
  src : Bytes
  /-- the stored decoder of gz / bz2 / lz4 -/
  dec : Dec
  /-- `blocks` -/
  blocks : BMap
  /-- `blocks_read` -/
  blocksRead : List Nat
  /-- `read_block_lru_cache` -/
  lru : BMap
  /-- `blocks_highest` -/
  high : Nat
  /-- `drop_data`: `true` from `new` (`DROP_DATA_INITIAL`) until `disable_drop_data` -/
  dropData : Bool := DROP_DATA_INITIAL
  deriving Repr, Inhabited

def Rd.last (r : Rd) : Nat := blockOffsetLast r.fsz r.bs
def Rd.szAt (r : Rd) (bo : Nat) : Nat := blockSzAtBlockOffset bo r.last r.bs r.fsz
/-- `self.blocks_read.iter().max()` with `None => 0` -/
def Rd.maxRead (r : Rd) : Nat := r.blocksRead.foldl max 0

/-- `drop_block`: `if !self.drop_data { return false }` (`DROP_BLOCK_GUARDED_BY_DROP_DATA`); otherwise
the entry leaves `blocks` and the LRU cache whether or not `Arc::try_unwrap` then succeeds -/
def dropBlock (r : Rd) (k : Nat) : Rd :=
  if DROP_BLOCK_GUARDED_BY_DROP_DATA && !r.dropData then r
  else { r with blocks := mdel r.blocks k, lru := mdel r.lru k }

/-- `disable_drop_data` (called at most once: a second call panics) -/
def Rd.disableDropData (r : Rd) : Rd := { r with dropData := false }

/-- `store_block_in_storage` -/
def storeBlock (r : Rd) (k : Nat) (b : Bytes) : Rd :=
  let bl := mins r.blocks k b
  { r with blocks := bl,
           blocksRead := if k ∈ r.blocksRead then r.blocksRead else k :: r.blocksRead,
           high := max r.high bl.length }

/-- `store_block_in_LRU_cache` (cache enabled, the default) -/
def storeLru (r : Rd) (k : Nat) (b : Bytes) : Rd := { r with lru := lruPut r.lru k b }

/-! ### `new` -/

/-- the xz split loop of `new`: `while blockoffset <= len / blocksz` (or `<`) insert
`buffer[a .. a + min(blocksz, len - a)]` -/
def xzSplit (d : Bytes) (bs : Nat) : Nat → Nat → BMap → List Nat → BMap × List Nat
  | 0, _, bl, rd => (bl, rd)
  | n + 1, bo, bl, rd =>
    let a := bo * bs
    let b := a + min bs (d.length - a)
    let block := (d.take b).drop a
    xzSplit d bs n (bo + 1) (mins bl bo block) (if bo ∈ rd then rd else bo :: rd)

def xzRounds (len bs : Nat) : Nat := if XZ_SPLIT_INCLUSIVE then len / bs + 1 else len / bs

/-- `BlockReader::new(path, filetype, blocksz)` on a container whose decompressed content is `d`.
`cs` scripts the stored decoder, `csPre` the decoder of the size pre-pass (bz2, lz4). -/
def Rd.new (kind : Kind) (bs : Nat) (d : Bytes) (cs csPre : List Nat) : Rd :=
  match kind with
  | .plain | .tar | .gz =>
    -- metadata length / tar header size / gz trailer ISIZE (< 4 GiB)
    { kind, bs, fsz := d.length, src := d, dec := ⟨d, cs⟩, blocks := [], blocksRead := [], lru := [], high := 0 }
  | .bz2 | .lz4 | .lz4Single =>
    { kind, bs, fsz := countLoop PREPASS_BUF_SZ (d.length + 1) ⟨d, csPre⟩ 0, src := d, dec := ⟨d, cs⟩,
      blocks := [], blocksRead := [], lru := [], high := 0 }
  | .xz =>
    if d.isEmpty then
      { kind, bs, fsz := 0, src := d, dec := ⟨[], cs⟩, blocks := [], blocksRead := [], lru := [], high := 0 }
    else
      let p := xzSplit d bs (xzRounds d.length bs) 0 [] []
      -- `filesz_actual = count_bytes_read` = sum of the block lengths
      { kind, bs, fsz := (p.1.map (·.2.length)).sum, src := d, dec := ⟨[], cs⟩,
        blocks := p.1, blocksRead := p.2, lru := [], high := p.1.length }

/-! ### `read_block_File*` -/

/-- `read_block_File`: seek to `blocksz * k`, `read_exact` of `blocksz_at_blockoffset(k)` bytes -/
def readFile (r : Rd) (k : Nat) : Res × Rd :=
  let cap := r.szAt k
  let avail := r.src.drop (r.bs * k)
  if avail.length < cap then (.err, r)
  else if cap = 0 then (.done, r)
  else
    let b := avail.take cap
    (.found b, storeLru (storeBlock r k b) k b)

/-- after a block was decoded: `store_block_in_storage`, `store_block_in_LRU_cache`, then the
look-back drop `if READ_BLOCK_LOOKBACK_DROP && bo_at_old < bo_at { self.drop_block(bo_at_old) }` -/
def afterDecode (r : Rd) (boAt boOld : Nat) (b : Bytes) (dec' : Dec) : Rd :=
  let r1 := storeLru (storeBlock { r with dec := dec' } boAt b) boAt b
  if READ_BLOCK_LOOKBACK_DROP && decide (boOld < boAt) then dropBlock r1 boOld else r1

/-- the `while bo_at <= blockoffset` loop shared by `read_block_File{Gz,Bz2,Lz4}` -/
def streamLoop : Nat → Rd → Nat → Nat → Nat → Res × Rd
  | 0, r, _, _, _ => (.err, r)
  | fuel + 1, r, k, boAt, boOld =>
    if boAt ≤ k then
      if boAt ∈ r.blocksRead then
        if boAt = k then
          match mget r.blocks boAt with
          | some b => (.found b, storeLru r boAt b)
          | none => (.panic, r)  -- `.unwrap()` on a dropped block
        else streamLoop fuel r k (boAt + 1) boOld
      else
        match decodeBlock r.kind r.dec (r.szAt boAt) with
        | none => (.err, r)
        | some (b, dec') =>
          if b.isEmpty then (.err, { r with dec := dec' })
          else
            let r2 := afterDecode r boAt boOld b dec'
            if boAt = k then (.found b, r2)
            else streamLoop fuel r2 k (boAt + 1) boAt
    else (.done, r)

def readStream (r : Rd) (k : Nat) : Res × Rd :=
  if r.fsz = 0 then (.done, r)
  else streamLoop (k + 2) r k r.maxRead r.maxRead

/-- `read_block_FileXz`; the stored `bufreader` was read to its end in `new`, so a further
`xz_decompress` fails with `UnexpectedEof`, which the loop answers with `break` -/
def xzLoop : Nat → Rd → Nat → Nat → Res × Rd
  | 0, r, _, _ => (.err, r)
  | fuel + 1, r, k, boAt =>
    if boAt ≤ k then
      if boAt ∈ r.blocksRead then
        if boAt = k then
          match mget r.blocks boAt with
          | some b => (.found b, if boAt > 0 then dropBlock r (boAt - 1) else r)
          | none => (.panic, r)
        else xzLoop fuel r k (boAt + 1)
      else (.done, r)
    else (.done, r)

def readXz (r : Rd) (k : Nat) : Res × Rd :=
  if r.fsz = 0 then (.done, r) else xzLoop (k + 2) r k r.maxRead

/-- the `while bo_at <= blockoffset_last` loop of `read_block_FileTar` (`read_exact` per block) -/
def tarLoop : Nat → Rd → Bytes → Nat → Option Rd
  | 0, r, _, _ => some r
  | n + 1, r, rest, bo =>
    let cap := r.szAt bo
    if rest.length < cap then none
    else if cap = 0 then none
    else tarLoop n (storeBlock r bo (rest.take cap)) (rest.drop cap) (bo + 1)

def readTar (r : Rd) (k : Nat) : Res × Rd :=
  if r.fsz = 0 then (.done, r)
  else
    match tarLoop (r.last + 1) r r.src 0 with
    | none => (.err, r)
    | some r' =>
      match mget r'.blocks k with
      | some b => (.found b, r')
      | none => (.err, r')

/-! ### `read_block` -/

/-- the `match self.filetype` at the end of `read_block` -/
def dispatch (r : Rd) (k : Nat) : Res × Rd :=
  match r.kind with
  | .plain => readFile r k
  | .gz | .bz2 | .lz4 | .lz4Single => readStream r k
  | .xz => readXz r k
  | .tar => readTar r k

def readBlock (r : Rd) (k : Nat) : Res × Rd :=
  if k > r.last then (.done, r)
  else
    match mget r.lru k with
    | some b => (.found b, { r with lru := mins r.lru k b })
    | none =>
      if k ∈ r.blocksRead then
        match mget r.blocks k with
        | some b => (.found b, storeLru r k b)
        | none => dispatch { r with blocksRead := r.blocksRead.erase k } k  -- "read the block again"
      else dispatch r k

/-- a sequence of `read_block` calls -/
def readSeq (r : Rd) : List Nat → List Res × Rd
  | [] => ([], r)
  | k :: ks =>
    let p := readBlock r k
    let q := readSeq p.2 ks
    (p.1 :: q.1, q.2)

/-- what a plain-file reader answers for block `k` of data `d` -/
def specRes (d : Bytes) (bs k : Nat) : Res :=
  if k > blockOffsetLast d.length bs then .done
  else if d.isEmpty then .done
  else .found (blockAt d bs k)

end S4V.Model.Stream
