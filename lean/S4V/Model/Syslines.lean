/-
Hand model of `SyslineReader` (src/readers/syslinereader.rs) above the line
layer: `find_sysline` (part A backwards/forwards walk, part B continuation
lines), `find_sysline_at_datetime_filter_{binary,linear}_search`,
`find_sysline_between_datetime_filters`, and the streaming loop of
`exec_syslogprocessor` (src/bin/s4.rs). Caches and drops are omitted (they are
covered by the correspondence, which runs the real reader under call histories).

The line layer is abstracted to what `findLine_spec` proves about it: the list
of lines of the file, independent of the block size. The message parser is a
parameter `P : Bytes → Option Int` (instant of a line that carries a
timestamp).
-/
import S4V.Model.Lines
import S4V.Gen.Filter

namespace S4V.Model.Syslines
open S4V.Model.Lines S4V.Gen.Filter

structure LineInfo where
  beg : Nat
  fin : Nat            -- offset of the last byte
  dt : Option Int
  deriving DecidableEq, Repr, Inhabited

/-- a message: first byte, last byte, instant -/
structure Sysl where
  beg : Nat
  fin : Nat
  dt : Int
  deriving DecidableEq, Repr, Inhabited

/-- the lines of `d`, in order, with the parser applied to each (fuel = |d|) -/
def linesFromAux (P : Bytes → Option Int) (d : Bytes) : Nat → Nat → List LineInfo
  | 0, _ => []
  | fuel + 1, fo =>
    if fo ≥ d.length then []
    else
      let e := lineEnd d fo
      ⟨fo, e, P ((d.drop fo).take (e + 1 - fo))⟩ :: linesFromAux P d fuel (e + 1)

def linesFrom (P : Bytes → Option Int) (d : Bytes) : List LineInfo := linesFromAux P d d.length 0

/-- `LineReader::find_line(fo)` seen from above: the line containing `fo` -/
def lineAt (ls : List LineInfo) (fo : Nat) : Option LineInfo :=
  ls.find? (fun l => l.beg ≤ fo && fo ≤ l.fin)

/-- part A of `find_sysline_year`: find the line that starts the message -/
def slPartA (ls : List LineInfo) : Nat → Nat → Bool → Nat → Option LineInfo
  | 0, _, _, _ => none
  | fuel + 1, fo1, zeroTried, foAMax =>
    match lineAt ls fo1 with
    | none => none
    | some l =>
      let foAMax := max foAMax (l.fin + 1)
      match l.dt with
      | some _ => some l
      | none =>
        if zeroTried then slPartA ls fuel foAMax true foAMax
        else if l.beg > 1 then slPartA ls fuel (l.beg - 1) false foAMax
        else slPartA ls fuel 0 true foAMax

/-- part B: append following lines that carry no timestamp; returns the last byte -/
def slPartB (ls : List LineInfo) : Nat → Nat → Nat → Nat
  | 0, _, fin => fin
  | fuel + 1, fo1, fin =>
    match lineAt ls fo1 with
    | none => fin
    | some l =>
      match l.dt with
      | some _ => fin
      | none => slPartB ls fuel (l.fin + 1) l.fin

inductive Res where
  | done
  | found (foNext : Nat) (s : Sysl)
  | err                       -- `assert_le!(fo_a, fo_b)` would fire
  | nofuel
  deriving DecidableEq, Repr, Inhabited

/-- `SyslineReader::find_sysline(fo)` -/
def findSysline (ls : List LineInfo) (fo : Nat) : Res :=
  let n := ls.length
  match slPartA ls (2 * n + 2) fo false 0 with
  | none => .done
  | some h =>
    let fin := slPartB ls (n + 1) (h.fin + 1) h.fin
    .found (fin + 1) ⟨h.beg, fin, h.dt.getD 0⟩

def fileSz (ls : List LineInfo) : Nat :=
  match ls.getLast? with
  | some l => l.fin + 1
  | none => 0

def isSyslineLast (ls : List LineInfo) (s : Sysl) : Bool := s.fin + 1 == fileSz ls

structure BS where
  tryFo : Nat
  tryFoLast : Nat
  foA : Nat
  foB : Nat
  last : Option Sysl
  deriving Repr

/-- loop of `find_sysline_at_datetime_filter_binary_search` -/
def bsearchLoop (ls : List LineInfo) (fileoffset : Nat) (flt : Option Int) : Nat → BS → Res
  | 0, _ => .nofuel
  | fuel + 1, st =>
    let r := findSysline ls st.tryFo
    let step : Option (Bool × BS) ⊕ Res :=
      match r with
      | .found fo s =>
        match dtAfterOrBefore s.dt flt with
        | .Pass => .inr (.found fo s)
        | .OccursAtOrAfter =>
          if st.tryFo = fileoffset then .inr (.found fo s)
          else
            let foB := min s.beg st.tryFo
            if st.foA > foB then .inr .err
            else .inl (some (false, { st with tryFoLast := st.tryFo, foB := foB,
                                              tryFo := st.foA + (foB - st.foA) / 2, last := some s }))
        | .OccursBefore =>
          let foA := min s.fin st.foB
          .inl (some (false, { st with tryFoLast := st.tryFo, foA := foA,
                                        tryFo := foA + (st.foB - foA) / 2, last := some s }))
      | .done => .inl (some (true, { st with tryFoLast := st.tryFo, tryFo := st.foA + (st.foB - st.foA) / 2 }))
      | r => .inr r
    match step with
    | .inr r => r
    | .inl none => .done
    | .inl (some (done, st')) =>
      if done && st'.tryFo = st'.tryFoLast then .done
      else if st'.tryFo ≠ st'.tryFoLast then bsearchLoop ls fileoffset flt fuel st'
      else
        match st'.last with
        | none => .err          -- `syslinep_opt.unwrap()` on None
        | some s =>
          if isSyslineLast ls s && s.beg < st'.tryFo then .done
          else if s.beg < st'.tryFo then
            match findSysline ls (s.fin + 1) with
            | .found _ sn =>
              match dtAfterOrBefore s.dt flt, dtAfterOrBefore sn.dt flt with
              | .OccursBefore, .OccursBefore => .found (sn.fin + 1) sn
              | .OccursBefore, .OccursAtOrAfter => .found (sn.fin + 1) sn
              | .OccursAtOrAfter, .OccursAtOrAfter => .found (s.fin + 1) s
              | _, _ => .done
            | _ => .done
          else .found (s.fin + 1) s

def bsearch (ls : List LineInfo) (fileoffset : Nat) (flt : Option Int) : Res :=
  bsearchLoop ls fileoffset flt (2 * fileSz ls + 8)
    { tryFo := fileoffset, tryFoLast := fileoffset, foA := fileoffset, foB := fileSz ls, last := none }

/-- `find_sysline_at_datetime_filter_linear_search` -/
def lsearch (ls : List LineInfo) (flt : Option Int) : Nat → Nat → Res
  | 0, _ => .nofuel
  | fuel + 1, fo =>
    match findSysline ls fo with
    | .found fo' s =>
      match dtAfterOrBefore s.dt flt with
      | .OccursBefore => lsearch ls flt fuel fo'
      | _ => .found fo' s
    | r => r

/-- `find_sysline_between_datetime_filters`; `streamed` selects the linear search -/
def between (ls : List LineInfo) (streamed : Bool) (fo : Nat) (a b : Option Int) : Res :=
  let r := if streamed then lsearch ls a (ls.length + 2) fo else bsearch ls fo a
  match r with
  | .found fo' s =>
    match dtPassFilters s.dt a b with
    | .InRange => .found fo' s
    | _ => .done
  | .done => .done
  | r => r

/-- the message loop of `exec_syslogprocessor`: what is sent to the coordinator -/
def streamLoop (ls : List LineInfo) (streamed : Bool) (a b : Option Int) : Nat → Nat → List Sysl
  | 0, _ => []
  | fuel + 1, fo =>
    match between ls streamed fo a b with
    | .found fo' s => if isSyslineLast ls s then [s] else s :: streamLoop ls streamed a b fuel fo'
    | _ => []

def streamAll (ls : List LineInfo) (streamed : Bool) (a b : Option Int) : List Sysl :=
  streamLoop ls streamed a b (ls.length + 2) 0

/-! ### specification: messages of a file -/

/-- group lines into messages: a head line plus the following head-less lines;
lines before the first head belong to no message -/
def messagesAux : List LineInfo → Option Sysl → List Sysl
  | [], none => []
  | [], some s => [s]
  | l :: r, cur =>
    match l.dt, cur with
    | some t, none => messagesAux r (some ⟨l.beg, l.fin, t⟩)
    | some t, some s => s :: messagesAux r (some ⟨l.beg, l.fin, t⟩)
    | none, none => messagesAux r none
    | none, some s => messagesAux r (some { s with fin := l.fin })

def messages (ls : List LineInfo) : List Sysl := messagesAux ls none

def Res.toString : Res → String
  | .done => "done"
  | .found n s => s!"found {n} {s.beg} {s.fin} {s.dt}"
  | .err => "err"
  | .nofuel => "nofuel"

end S4V.Model.Syslines
