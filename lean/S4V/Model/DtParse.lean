/-
C04 — from regex captures to an instant.

`capturesToBuffer` mirrors `captures_to_buffer_bytes` (src/data/datetime.rs): the named
capture groups are written into a fixed-layout buffer
  [epoch] [year] [month] [day] 'T' [hour] [minute] [second] ['.' fraction] [zone]
with the per-field rewrites the code performs (year fill, month names -> numbers, `e`/`d`
day padding, `k` hour padding, `ms` month padding, fraction padded/truncated to 9 digits,
U+2212 -> '-', zone names looked up in `MAP_TZZ_TO_TZz` with ambiguous/unknown -> the
fallback offset string). `none` = the code panics (a required group is missing, an
unknown month name, a day of impossible length) or the 35-byte buffer overflows.

`parseBuf` mirrors `datetime_parse_from_str` for the `DTP_*` patterns: chrono 0.4.40's
`parse_internal` for the items `%Y %y %m %d %H %M %S %f %s %z %:z %#z` and literal bytes,
then `Parsed::to_datetime` (pattern with zone) or `NaiveDateTime` + `tz_offset.from_local_datetime`
(pattern whose set has no zone: `has_tz() == false`). Result = instant in nanoseconds
(`timestamp()*10^9 + timestamp_subsec_nanos()`, so second 60 is one second after :59).

Not modelled: i64 overflow of absurdly long digit runs, chrono's year range (±262142),
non-ASCII bytes after a U+2212 sign (the regexes only capture ASCII there).
-/
import S4V.Gen.TimeTables
import S4V.Model.Time

namespace S4V.Model.DtParse
open S4V.Gen.TimeTables S4V.Model.Time

abbrev Bytes := List UInt8

/-- the named capture groups of a match (`dayIgnore` is never read) -/
structure Captures where
  year : Option Bytes := none
  month : Option Bytes := none
  day : Option Bytes := none
  hour : Option Bytes := none
  minute : Option Bytes := none
  second : Option Bytes := none
  fractional : Option Bytes := none
  tz : Option Bytes := none
  epoch : Option Bytes := none
deriving Repr, DecidableEq, Inhabited

def isDigit (b : UInt8) : Bool := 48 ≤ b && b ≤ 57

/-- ASCII part of `char::is_whitespace` -/
def isWs (b : UInt8) : Bool := b = 32 || (9 ≤ b && b ≤ 13)

def dchar (n : Nat) : UInt8 := UInt8.ofNat (48 + n % 10)

/-- `u32/i32::to_string` of a non-negative number -/
def natDec (n : Nat) : Bytes :=
  if n < 10 then [dchar n]
  else if n < 100 then [dchar (n / 10), dchar n]
  else if n < 1000 then [dchar (n / 100), dchar (n / 10), dchar n]
  else if n < 10000 then [dchar (n / 1000), dchar (n / 100), dchar (n / 10), dchar n]
  else (Nat.toDigits 10 n).map fun c => UInt8.ofNat c.toNat

def intDec (i : Int) : Bytes := if i < 0 then 45 :: natDec (-i).toNat else natDec i.toNat

/-- `FixedOffset::to_string()`: `+HH:MM`, with `:SS` appended when the seconds are not 0 -/
def offString (off : Int) : Bytes :=
  let sign : UInt8 := if off < 0 then 45 else 43
  let a := off.natAbs
  let hh := a / 3600
  let mm := a / 60 % 60
  let ss := a % 60
  [sign, dchar (hh / 10), dchar hh, 58, dchar (mm / 10), dchar mm] ++
    (if ss = 0 then [] else [58, dchar (ss / 10), dchar ss])

def lookup (t : List (Bytes × Bytes)) (k : Bytes) : Option Bytes :=
  match t with
  | [] => none
  | (a, v) :: r => if a = k then some v else lookup r k

/-! ### the pieces of the buffer -/

def epochPiece (e : DTFS_Epoch) (c : Captures) : Option Bytes :=
  match e with
  | .s => c.epoch
  | .none_ => some []

def yearPiece (y : DTFS_Year) (c : Captures) (fillYear : Option Int) : Option Bytes :=
  match y with
  | .Y | .y => c.year
  | .fill =>
    match c.year with
    | some b => some b
    | none =>
      match fillYear with
      | some yr => some (intDec yr)
      | none => some YEAR_FALLBACKDUMMY
  | .none_ => some []

def monthPiece (m : DTFS_Month) (c : Captures) : Option Bytes :=
  match m with
  | .m => c.month
  | .ms => c.month.map fun b => if b.length = 1 then 48 :: b else b
  | .b | .B => c.month.bind (lookup monthNamesB)
  | .none_ => some []

def dayPiece (d : DTFS_Day) (c : Captures) : Option Bytes :=
  match d with
  | .e_or_d =>
    match c.day with
    | some [x] => some [48, x]
    | some [a, b] => if a = 32 then some [48, b] else some [a, b]
    | _ => none
  | .none_ => some []

def hourPiece (h : DTFS_Hour) (c : Captures) : Option Bytes :=
  match h with
  | .I | .l | .H => c.hour
  | .k => c.hour.map fun b => if b.length = 1 then 48 :: b else b
  | .none_ => some []

def minutePiece (m : DTFS_Minute) (c : Captures) : Option Bytes :=
  match m with
  | .M => c.minute
  | .none_ => some []

def secondPiece (s : DTFS_Second) (c : Captures) : Option Bytes :=
  match s with
  | .S => c.second
  | .fill => some [48, 48]
  | .none_ => some []

/-- fraction digits as the code copies them: right-padded with '0' to 9, 10–12 digits cut to
the first 9, more than 12 dropped entirely -/
def fracNorm (f : Bytes) : Bytes :=
  if f.length ≤ 9 then f ++ List.replicate (9 - f.length) 48
  else if f.length ≤ 12 then f.take 9
  else []

def fracPiece (f : DTFS_Fractional) (c : Captures) : Option Bytes :=
  match f with
  | .f => c.fractional.map fun b => 46 :: fracNorm b
  | .none_ => some []

def stripMinus (b : Bytes) : Bytes :=
  match b with
  | 0xE2 :: 0x88 :: 0x92 :: rest => 45 :: rest
  | _ => b

def tzPiece (z : DTFS_Tz) (c : Captures) (tzs : Bytes) : Option Bytes :=
  match z with
  | .fill => some tzs
  | .z | .zc | .zp => c.tz.map stripMinus
  | .Z =>
    c.tz.map fun name =>
      match lookup tzTableB name with
      | some v => if v.isEmpty then tzs else v
      | none => tzs
  | .none_ => some []

/-- `captures_to_buffer_bytes(buffer, captures, year_opt, tz_offset_string, dtfs)` -/
def capturesToBuffer (set : DTFSSet) (c : Captures) (tzs : Bytes) (fillYear : Option Int) : Option Bytes :=
  match epochPiece set.epoch c, yearPiece set.year c fillYear, monthPiece set.month c, dayPiece set.day c,
      hourPiece set.hour c, minutePiece set.minute c, secondPiece set.second c, fracPiece set.fractional c,
      tzPiece set.tz c tzs with
  | some e, some y, some mo, some d, some h, some mi, some s, some f, some z =>
    let buf := e ++ (y ++ (mo ++ (d ++ (84 :: (h ++ (mi ++ (s ++ (f ++ z))))))))
    if buf.length ≤ BUFLEN then some buf else none
  | _, _, _, _, _, _, _, _, _ => none

/-! ### chrono's parser for the patterns in use -/

inductive Item where
  | lit (b : UInt8)
  | year | year2 | month | day | hour | minute | second | nano | timestamp
  | tz (permissive : Bool)
deriving DecidableEq, Repr

/-- `StrftimeItems` for the subset of specifiers the `DTP_*` constants use; `none` = a
specifier outside the subset (chrono would yield `Item::Error`) -/
def parsePattern : Bytes → Option (List Item)
  | [] => some []
  | b :: r =>
    if b = 37 then
      match r with
      | 89 :: r' => (parsePattern r').map (Item.year :: ·)
      | 121 :: r' => (parsePattern r').map (Item.year2 :: ·)
      | 109 :: r' => (parsePattern r').map (Item.month :: ·)
      | 100 :: r' => (parsePattern r').map (Item.day :: ·)
      | 72 :: r' => (parsePattern r').map (Item.hour :: ·)
      | 77 :: r' => (parsePattern r').map (Item.minute :: ·)
      | 83 :: r' => (parsePattern r').map (Item.second :: ·)
      | 102 :: r' => (parsePattern r').map (Item.nano :: ·)
      | 115 :: r' => (parsePattern r').map (Item.timestamp :: ·)
      | 122 :: r' => (parsePattern r').map (Item.tz false :: ·)
      | 58 :: 122 :: r' => (parsePattern r').map (Item.tz false :: ·)
      | 35 :: 122 :: r' => (parsePattern r').map (Item.tz true :: ·)
      | _ => none
    else (parsePattern r).map (Item.lit b :: ·)

structure Parsed where
  year : Option Int := none
  yearMod : Option Int := none
  month : Option Int := none
  day : Option Int := none
  hour : Option Int := none
  minute : Option Int := none
  second : Option Int := none
  nano : Option Int := none
  ts : Option Int := none
  off : Option Int := none
deriving Repr, DecidableEq, Inhabited

def skipWs : Bytes → Bytes
  | [] => []
  | b :: r => if isWs b then skipWs r else b :: r

def numVal (ds : Bytes) : Int := ds.foldl (fun a b => a * 10 + Int.ofNat (b.toNat - 48)) 0

/-- up to `w` leading digits -/
def spanDigits : Nat → Bytes → Bytes × Bytes
  | 0, s => ([], s)
  | _ + 1, [] => ([], [])
  | w + 1, b :: r => if isDigit b then let p := spanDigits w r; (b :: p.1, p.2) else ([], b :: r)

/-- `scan::number(s, 1, w)` -/
def number (w : Nat) (s : Bytes) : Option (Int × Bytes) :=
  let p := spanDigits w s
  if p.1.isEmpty then none else some (numVal p.1, p.2)

/-- a numeric item: leading whitespace is skipped, then 1..w digits -/
def numItem (w : Nat) (s : Bytes) : Option (Int × Bytes) := number w (skipWs s)

/-- `%Y`: an explicit sign lifts the 4-digit limit -/
def yearItem (s : Bytes) : Option (Int × Bytes) :=
  match skipWs s with
  | 45 :: r => (number r.length r).map fun p => (-p.1, p.2)
  | 43 :: r => number r.length r
  | s' => number 4 s'

def skipColonWs : Bytes → Bytes
  | [] => []
  | b :: r => if b = 58 || isWs b then skipColonWs r else b :: r

/-- `scan::timezone_offset(s.trim_start(), colon_or_space, allow_zulu := permissive,
allow_missing_minutes := permissive, allow_tz_minus_sign := true)` -/
def tzScan (permissive : Bool) (s0 : Bytes) : Option (Int × Bytes) :=
  let s := skipWs s0
  let signed : Option (Bool × Bytes) :=
    match s with
    | 43 :: r => some (false, r)
    | 45 :: r => some (true, r)
    | 0xE2 :: 0x88 :: 0x92 :: r => some (true, r)
    | _ => none
  match s with
  | [] => none
  | c :: r0 =>
    if permissive && (c = 90 || c = 122) then some (0, r0) else
    match signed with
    | none => none
    | some (neg, r) =>
      match r with
      | h1 :: h2 :: r1 =>
        if isDigit h1 && isDigit h2 then
          let hours : Int := numVal [h1, h2]
          let r2 := skipColonWs r1
          let fin (minutes : Int) (rest : Bytes) : Option (Int × Bytes) :=
            let secs := hours * 3600 + minutes * 60
            some (if neg then -secs else secs, rest)
          match r2 with
          | m1 :: m2 :: r3 =>
            if 48 ≤ m1 && m1 ≤ 53 && isDigit m2 then fin (numVal [m1, m2]) r3 else none
          | [] => if permissive then fin 0 [] else none
          | [_] => none
        else none
      | _ => none

def runItem (it : Item) (s : Bytes) (p : Parsed) : Option (Parsed × Bytes) :=
  match it with
  | .lit b =>
    match s with
    | c :: r => if c = b then some (p, r) else none
    | [] => none
  | .year => (yearItem s).map fun (v, r) => ({ p with year := some v }, r)
  | .year2 => (numItem 2 s).bind fun (v, r) => if 0 ≤ v ∧ v ≤ 99 then some ({ p with yearMod := some v }, r) else none
  | .month => (numItem 2 s).bind fun (v, r) => if 1 ≤ v ∧ v ≤ 12 then some ({ p with month := some v }, r) else none
  | .day => (numItem 2 s).bind fun (v, r) => if 1 ≤ v ∧ v ≤ 31 then some ({ p with day := some v }, r) else none
  | .hour => (numItem 2 s).bind fun (v, r) => if v ≤ 23 then some ({ p with hour := some v }, r) else none
  | .minute => (numItem 2 s).bind fun (v, r) => if v ≤ 59 then some ({ p with minute := some v }, r) else none
  | .second => (numItem 2 s).bind fun (v, r) => if v ≤ 60 then some ({ p with second := some v }, r) else none
  | .nano => (numItem 9 s).map fun (v, r) => ({ p with nano := some v }, r)
  | .timestamp => (numItem (skipWs s).length s).map fun (v, r) => ({ p with ts := some v }, r)
  | .tz perm => (tzScan perm s).map fun (v, r) => ({ p with off := some v }, r)

def runItems : List Item → Bytes → Parsed → Option (Parsed × Bytes)
  | [], s, p => some (p, s)
  | it :: its, s, p =>
    match runItem it s p with
    | some (p', s') => runItems its s' p'
    | none => none

/-- `Parsed::to_naive_date` for year / year-mod-100 + month + day: days since the epoch -/
def resolveDate (p : Parsed) : Option Int :=
  let y : Option Int :=
    match p.year, p.yearMod with
    | some y, _ => some y
    | none, some r => some (r + (if r < 70 then 2000 else 1900))
    | none, none => none
  match y, p.month, p.day with
  | some y, some m, some d => if validDate y m d then some (daysFromCivil y m d) else none
  | _, _, _ => none

/-- `Parsed::to_naive_time`: (seconds of day, nanoseconds); second 60 = :59 + 10^9 ns -/
def resolveTime (p : Parsed) : Option (Int × Int) :=
  match p.hour, p.minute with
  | some h, some mi => some (h * 3600 + mi * 60 + p.second.getD 0, p.nano.getD 0)
  | _, _ => none

/-- `datetime_parse_from_str(buf, pattern, has_tz, tz_offset)` after the items ran -/
def resolve (hasTz : Bool) (fallbackOff : Int) (p : Parsed) : Option Int :=
  match resolveDate p, resolveTime p with
  | some d, some (sod, ns) =>
    if hasTz then
      match p.off with
      | some o => if -86400 < o ∧ o < 86400 then some ((d * 86400 + sod - o) * 1000000000 + ns) else none
      | none => none
    else some ((d * 86400 + sod - fallbackOff) * 1000000000 + ns)
  | _, _ =>
    -- no complete date/time: only a `%s` timestamp can still give a NaiveDateTime
    match p.ts with
    | some ts =>
      if p.year.isSome || p.yearMod.isSome || p.month.isSome || p.day.isSome || p.hour.isSome || p.minute.isSome
              || p.second.isSome then none
      else if hasTz then
        -- `Parsed::to_datetime`: a timestamp without an offset is read as UTC; with one it is the instant
        match p.off with
        | some o => if -86400 < o ∧ o < 86400 then some (ts * 1000000000 + p.nano.getD 0) else none
        | none => some (ts * 1000000000 + p.nano.getD 0)
      else some ((ts - fallbackOff) * 1000000000 + p.nano.getD 0)
    | none => none

/-- leading/trailing blank check of `datetime_from_str_workaround_Issue660` for patterns that
neither start nor end with white space: the value must not either -/
def issue660 (buf : Bytes) : Bool :=
  match buf, buf.getLast? with
  | b :: _, some e => !(b = 32 || b = 9 || b = 10 || b = 13) && !(e = 32 || e = 9 || e = 10 || e = 13)
  | _, _ => true

/-- `datetime_parse_from_str(buf, pattern, has_tz, tz_offset)`: instant in ns -/
def parseBuf (pattern : Bytes) (hasTz : Bool) (fallbackOff : Int) (buf : Bytes) : Option Int :=
  match parsePattern pattern with
  | none => none
  | some items =>
    match runItems items buf {} with
    | some (p, []) => if issue660 buf then resolve hasTz fallbackOff p else none
    | _ => none

/-- `DTFSSet::has_tz` -/
def hasTz (set : DTFSSet) : Bool :=
  match set.tz with
  | .z | .zc | .zp | .Z => true
  | .fill | .none_ => false

/-- `bytes_to_regex_to_datetime` after the regex matched: captures -> instant (ns) -/
def capturesToInstant (set : DTFSSet) (c : Captures) (fallbackOff : Int) (fillYear : Option Int) : Option Int :=
  (capturesToBuffer set c (offString fallbackOff) fillYear).bind (parseBuf set.pattern (hasTz set) fallbackOff)

end S4V.Model.DtParse
