/-
C04 — interpreter for `captures_to_buffer_bytes` as regenerated from the source
(`S4V.Gen.Captures`, by gen/gen_captures.py).

Nothing of the function's control flow is written here: which field is processed when, which arm
of which `match` writes what (which capture group, which literal, how many zeros the fraction arm
of each length appends, what happens to a U+2212 sign, which table is consulted and what the
fallbacks are) is read from the data. What is fixed here is only the meaning of the statement
language:

* the only effects are "append bytes to the buffer at `at`" and "panic"; `emit` gives the bytes a
  statement appends (`none` = panic: `unwrap()` of an absent group, `panic!`, an index or a slice
  bound out of range, `copy_from_slice` of unequal lengths, a month name without an arm);
* `match` = first arm whose pattern list contains the scrutinee, `none` = catch-all;
* the frame shared with `S4V.Model.DtParse`: the `Captures` record, `lookup` in the generated
  `monthNamesB` / `tzTableB`, `intDec` for `year.to_string()`.

`capturesToBufferG body` checks the buffer bound once at the end (like the hand model): the real
writes are bounds-checked one by one, but `at` only grows and the result is discarded on a panic,
so "some write overflows" = "the final `at` exceeds `BUFLEN` or a later statement panics anyway".

UTF-8 (`std::str::from_utf8`, `char_indices().nth(1)`, `u8_to_str`) is interpreted with the strict
decoder of `S4V.Model.Regex` (`decode`); `u8_to_str` = all ASCII, or valid UTF-8 of scalars ≤ U+00FF
(`encoding_rs::mem::utf8_latin1_up_to`).
-/
import S4V.Gen.Captures
import S4V.Model.DtParse
import S4V.Model.Regex

namespace S4V.Model.Captures
open S4V.Gen.TimeTables S4V.Gen.Captures S4V.Model.DtParse

/-- everything the function reads -/
structure Ctx where
  set : DTFSSet
  caps : DtParse.Captures
  tzs : Bytes
  fillYear : Option Int

def getGrp (c : DtParse.Captures) : Grp → Option Bytes
  | .year => c.year
  | .month => c.month
  | .day => c.day
  | .hour => c.hour
  | .minute => c.minute
  | .second => c.second
  | .fractional => c.fractional
  | .tz => c.tz
  | .epoch => c.epoch

def fieldVal (s : DTFSSet) : Field → FieldVal
  | .year => .year s.year
  | .month => .month s.month
  | .day => .day s.day
  | .hour => .hour s.hour
  | .minute => .minute s.minute
  | .second => .second s.second
  | .fractional => .fractional s.fractional
  | .tz => .tz s.tz
  | .epoch => .epoch s.epoch

def _root_.S4V.Gen.Captures.Konst.val : Konst → Bytes
  | .YEAR_FALLBACKDUMMY => YEAR_FALLBACKDUMMY
  | .MINUS_SIGN => MINUS_SIGN
  | .HYPHEN_MINUS => HYPHEN_MINUS

/-! ### UTF-8 views -/

/-- the scalars of a strictly valid UTF-8 string are all `≤ maxScalar` (fuel = length) -/
def utf8UpTo (maxScalar : Nat) : Nat → Bytes → Bool
  | _, [] => true
  | 0, _ :: _ => false
  | fuel + 1, b :: r =>
    match S4V.Model.Regex.decode (b :: r) with
    | some (c, n) => decide (c ≤ maxScalar) && utf8UpTo maxScalar fuel ((b :: r).drop n)
    | none => false

/-- `std::str::from_utf8(b).is_ok()` -/
def utf8Valid (b : Bytes) : Bool := utf8UpTo 1114111 b.length b

/-- `u8_to_str(b).is_some()`: ASCII, or UTF-8 with every scalar ≤ U+00FF -/
def u8ToStrOk (b : Bytes) : Bool := b.all (fun x => x < 128) || utf8UpTo 255 b.length b

/-- byte offset of the second character of a valid UTF-8 string with at least two characters -/
def secondCharOffset (b : Bytes) : Option Nat :=
  if utf8Valid b then
    match S4V.Model.Regex.decode b with
    | some (_, n) => if n < b.length then some n else none
    | none => none
  else none

def startsWith : Bytes → Bytes → Bool
  | _, [] => true
  | [], _ :: _ => false
  | a :: r, p :: q => a == p && startsWith r q

/-! ### expressions -/

def _root_.S4V.Gen.Captures.Slice.eval (x : Ctx) : Slice → Option Bytes
  | .grp g => getGrp x.caps g
  | .lit b => some b
  | .konst k => some k.val
  | .tzOffsetString => some x.tzs
  | .yearString => x.fillYear.map intDec
  | .pfx n s => (s.eval x).bind fun b => if n ≤ b.length then some (b.take n) else none
  | .fromSecondChar s => (s.eval x).bind fun b => (secondCharOffset b).map fun n => b.drop n
  | .strOrEmpty s => (s.eval x).map fun b => if u8ToStrOk b then b else []
  | .tzValue k => (k.eval x).bind (lookup tzTableB)
  | .pfxSub b n s => (s.eval x).bind fun v =>
      if v.length ≤ n ∧ n - v.length ≤ b.length then some (b.take (n - v.length)) else none

def _root_.S4V.Gen.Captures.Byte.eval (x : Ctx) : Byte → Option UInt8
  | .lit b => some b
  | .idx s i => (s.eval x).bind fun b => b[i]?

def _root_.S4V.Gen.Captures.Cmp.eval : Cmp → Nat → Nat → Bool
  | .lt, a, b => decide (a < b)
  | .le, a, b => decide (a ≤ b)
  | .gt, a, b => decide (a > b)
  | .ge, a, b => decide (a ≥ b)
  | .eq, a, b => decide (a = b)

/-! ### statements -/

mutual
/-- the bytes a statement appends to the buffer; `none` = panic -/
def emit (x : Ctx) : Stmt → Option Bytes
  | .need g => (getGrp x.caps g).map fun _ => []
  | .copyGroup g => getGrp x.caps g
  | .copySlice s => s.eval x
  | .copyByte b => (b.eval x).map fun v => [v]
  | .panic => none
  | .monthTable s w =>
    ((s.eval x).bind (lookup monthNamesB)).bind fun v => if v.length = w then some v else none
  | .matchField f arms => emitFieldArms x (fieldVal x.set f) arms
  | .matchGroup g sm nn =>
    match getGrp x.caps g with
    | some _ => emits x sm
    | none => emits x nn
  | .matchYearOpt sm nn =>
    match x.fillYear with
    | some _ => emits x sm
    | none => emits x nn
  | .matchLen s arms =>
    match s.eval x with
    | some b => emitLenArms x b.length arms
    | none => none
  | .matchByte b arms =>
    match b.eval x with
    | some v => emitByteArms x v arms
    | none => none
  | .matchStartsWith s p t f =>
    match s.eval x, p.eval x with
    | some b, some q => if startsWith b q then emits x t else emits x f
    | _, _ => none
  | .matchIsEmpty s t f =>
    match s.eval x with
    | some b => if b.isEmpty then emits x t else emits x f
    | none => none
  | .matchUtf8 s ok err =>
    match s.eval x with
    | some b => if utf8Valid b then emits x ok else emits x err
    | none => none
  | .matchSecondChar s sm nn =>
    match s.eval x with
    | some b => if (secondCharOffset b).isSome then emits x sm else emits x nn
    | none => none
  | .matchTzTable k sm nn =>
    match k.eval x with
    | some key => if (lookup tzTableB key).isSome then emits x sm else emits x nn
    | none => none
  | .ifLen s op n t e =>
    match s.eval x with
    | some b => if op.eval b.length n then emits x t else emits x e
    | none => none

/-- statements in source order -/
def emits (x : Ctx) : List Stmt → Option Bytes
  | [] => some []
  | s :: r => (emit x s).bind fun a => (emits x r).map fun b => a ++ b

/-- `match dtfs.<field>`: a scrutinee no arm lists cannot be written in Rust (the generator requires
every variant exactly once); `none` for totality -/
def emitFieldArms (x : Ctx) (v : FieldVal) : List (List FieldVal × List Stmt) → Option Bytes
  | [] => none
  | (ps, b) :: r => if ps.contains v then emits x b else emitFieldArms x v r

def emitLenArms (x : Ctx) (n : Nat) : List (Option (List Nat) × List Stmt) → Option Bytes
  | [] => none
  | (none, b) :: _ => emits x b
  | (some ps, b) :: r => if ps.contains n then emits x b else emitLenArms x n r

def emitByteArms (x : Ctx) (v : UInt8) : List (Option (List UInt8) × List Stmt) → Option Bytes
  | [] => none
  | (none, b) :: _ => emits x b
  | (some ps, b) :: r => if ps.contains v then emits x b else emitByteArms x v r
end

/-- `captures_to_buffer_bytes(buffer, captures, year_opt, tz_offset_string, dtfs)` as a function of the
translated body: the bytes `buffer[..at]` -/
def capturesToBufferG (body : List Stmt) (set : DTFSSet) (c : DtParse.Captures) (tzs : Bytes) (fillYear : Option Int) :
    Option Bytes :=
  (emits ⟨set, c, tzs, fillYear⟩ body).bind fun buf => if buf.length ≤ BUFLEN then some buf else none

/-- `bytes_to_regex_to_datetime` after the regex matched, over the translated body -/
def capturesToInstantG (body : List Stmt) (set : DTFSSet) (c : DtParse.Captures) (fallbackOff : Int) (fillYear : Option Int) :
    Option Int :=
  (capturesToBufferG body set c (offString fallbackOff) fillYear).bind (parseBuf set.pattern (hasTz set) fallbackOff)

end S4V.Model.Captures
