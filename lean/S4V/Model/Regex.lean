/-
Regex slice of C04: the regular expressions of `DATETIME_PARSE_DATAS` (src/data/datetime.rs), as
compiled by `regex::bytes::Regex::new(pattern)` in `bytes_to_regex_to_datetime` — Unicode mode on
(`.`, negated classes and `(?i)` are Unicode-aware; POSIX classes are ASCII), no multi-line flag
(`^`/`$` = start/end of the searched slice), haystack = arbitrary bytes.

* `Re`        the AST emitted by `gen/gen_regex.py` (`S4V.Gen.Regex`)
* `Matches`   language semantics: `Matches r pre s post` = "`r` matches the bytes `s` when `pre` are
              the bytes of the slice before `s` and `post` the bytes after" (context only matters
              to the anchors)
* `search`    executable leftmost-first backtracking matcher with capture groups (Perl-style
              priority: alternation prefers the left branch, quantifiers are greedy), the order
              `Regex::captures` guarantees

Classes: a class is a list of inclusive ranges of Unicode scalar values (the translator has
already resolved negation / nesting / POSIX names / case folding); `cls rs` matches exactly the
UTF-8 encoding of ONE scalar value in `rs` (strict UTF-8: no overlong forms, no surrogates,
≤ U+10FFFF) — so `.` or `[^…]` consume a whole multi-byte character and never match inside
invalid UTF-8, like the implementation's UTF-8 automata.
-/
namespace S4V.Model.Regex

inductive Re where
  | eps
  | lit (bs : List UInt8)
  | cls (rs : List (Nat × Nat))
  | cat (a b : Re)
  | alt (a b : Re)
  /-- greedy repetition `{lo,hi}`; `hi = none` = unbounded -/
  | rep (r : Re) (lo : Nat) (hi : Option Nat)
  /-- capture group number `idx` (1-based, in order of the opening parenthesis) -/
  | group (idx : Nat) (r : Re)
  | bol
  | eol
deriving Repr, Inhabited

/-- right-nested concatenation of the items of a regex concatenation -/
def catL : List Re → Re
  | [] => .eps
  | [a] => a
  | a :: b :: rest => .cat a (catL (b :: rest))

/-- right-nested alternation (`altL []` matches nothing; the translator never emits it) -/
def altL : List Re → Re
  | [] => .cls []
  | [a] => a
  | a :: b :: rest => .alt a (altL (b :: rest))

/-! ### UTF-8 -/

def isCont (b : UInt8) : Bool := 128 ≤ b.toNat && b.toNat < 192

/-- strict decoding of one UTF-8 encoded scalar value at the head of the list: `(scalar, length)` -/
def decode : List UInt8 → Option (Nat × Nat)
  | [] => none
  | b0 :: rest =>
    let n0 := b0.toNat
    if n0 < 128 then some (n0, 1)
    else if n0 < 194 then none
    else if n0 < 224 then
      match rest with
      | b1 :: _ => if isCont b1 then some ((n0 - 192) * 64 + (b1.toNat - 128), 2) else none
      | _ => none
    else if n0 < 240 then
      match rest with
      | b1 :: b2 :: _ =>
        if isCont b1 && isCont b2 then
          let c := (n0 - 224) * 4096 + (b1.toNat - 128) * 64 + (b2.toNat - 128)
          if 2048 ≤ c && !(55296 ≤ c && c ≤ 57343) then some (c, 3) else none
        else none
      | _ => none
    else if n0 < 245 then
      match rest with
      | b1 :: b2 :: b3 :: _ =>
        if isCont b1 && isCont b2 && isCont b3 then
          let c := (n0 - 240) * 262144 + (b1.toNat - 128) * 4096 + (b2.toNat - 128) * 64 + (b3.toNat - 128)
          if 65536 ≤ c && c ≤ 1114111 then some (c, 4) else none
        else none
      | _ => none
    else none

def inRanges (rs : List (Nat × Nat)) (c : Nat) : Bool := rs.any (fun r => r.1 ≤ c && c ≤ r.2)

/-- `s` is exactly the UTF-8 encoding of one scalar value of the class -/
def clsMatch (rs : List (Nat × Nat)) (s : List UInt8) : Bool :=
  match decode s with
  | some (c, n) => n == s.length && inRanges rs c
  | none => false

/-! ### language semantics -/

def predHi : Option Nat → Option Nat
  | none => none
  | some h => some (h - 1)

inductive Matches : Re → List UInt8 → List UInt8 → List UInt8 → Prop where
  | eps (pre post) : Matches .eps pre [] post
  | lit (bs pre post) : Matches (.lit bs) pre bs post
  | cls (rs pre s post) : clsMatch rs s = true → Matches (.cls rs) pre s post
  | cat {a b pre s1 s2 post} : Matches a pre s1 (s2 ++ post) → Matches b (pre ++ s1) s2 post →
      Matches (.cat a b) pre (s1 ++ s2) post
  | altL {a b pre s post} : Matches a pre s post → Matches (.alt a b) pre s post
  | altR {a b pre s post} : Matches b pre s post → Matches (.alt a b) pre s post
  /-- zero (further) iterations, allowed once the minimum is reached -/
  | repNil (r hi pre post) : Matches (.rep r 0 hi) pre [] post
  /-- one iteration followed by the remaining ones (`hi ≠ some 0`: the maximum is not yet used up) -/
  | repCons {r lo hi pre s1 s2 post} : hi ≠ some 0 → Matches r pre s1 (s2 ++ post) →
      Matches (.rep r (lo - 1) (predHi hi)) (pre ++ s1) s2 post →
      Matches (.rep r lo hi) pre (s1 ++ s2) post
  | group {i r pre s post} : Matches r pre s post → Matches (.group i r) pre s post
  | bol (post) : Matches .bol [] [] post
  | eol (pre) : Matches .eol pre [] []

/-- `r` has a match somewhere inside `slice` (what `Regex::is_match` / `captures(..).is_some()` decide) -/
def MatchesIn (r : Re) (slice : List UInt8) : Prop :=
  ∃ pre s post, slice = pre ++ s ++ post ∧ Matches r pre s post

/-! ### executable leftmost-first matcher -/

/-- capture slots: association list, most recent first: group ↦ (start, end) -/
abbrev Caps := List (Nat × Nat × Nat)

structure Res where
  start : Nat
  stop : Nat
  caps : Caps
deriving Repr, DecidableEq

/-- continuation: position, remaining input, captures -/
abbrev K := Nat → List UInt8 → Caps → Option Res

def isPrefix : List UInt8 → List UInt8 → Bool
  | [], _ => true
  | _ :: _, [] => false
  | a :: as, b :: bs => a == b && isPrefix as bs

/-- greedy loop: `need` iterations are still mandatory, at most `fuel` iterations remain -/
def repLoop (body : Nat → List UInt8 → Caps → K → Option Res) :
    Nat → Nat → Nat → List UInt8 → Caps → K → Option Res
  | 0, need, pos, rest, caps, k => if need = 0 then k pos rest caps else none
  | f + 1, need, pos, rest, caps, k =>
    if need = 0 then
      match body pos rest caps (fun p r c => repLoop body f 0 p r c k) with
      | some x => some x
      | none => k pos rest caps
    else body pos rest caps (fun p r c => repLoop body f (need - 1) p r c k)

/-- backtracking matcher in continuation-passing style -/
def m : Re → Nat → List UInt8 → Caps → K → Option Res
  | .eps, pos, rest, caps, k => k pos rest caps
  | .lit bs, pos, rest, caps, k =>
    if isPrefix bs rest then k (pos + bs.length) (rest.drop bs.length) caps else none
  | .cls rs, pos, rest, caps, k =>
    match decode rest with
    | some (c, n) => if inRanges rs c then k (pos + n) (rest.drop n) caps else none
    | none => none
  | .cat a b, pos, rest, caps, k => m a pos rest caps (fun p r c => m b p r c k)
  | .alt a b, pos, rest, caps, k =>
    match m a pos rest caps k with
    | some x => some x
    | none => m b pos rest caps k
  | .rep r lo hi, pos, rest, caps, k =>
    repLoop (fun p r' c k' => m r p r' c k')
      (match hi with | some h => h | none => lo + rest.length + 1) lo pos rest caps k
  | .group i r, pos, rest, caps, k => m r pos rest caps (fun p r' c => k p r' ((i, pos, p) :: c))
  | .bol, pos, rest, caps, k => if pos = 0 then k pos rest caps else none
  | .eol, pos, rest, caps, k => if rest.isEmpty then k pos rest caps else none

/-- try every start offset from the left -/
def searchFrom (r : Re) : Nat → List UInt8 → Option Res
  | pos, [] => m r pos [] [] (fun p _ c => some ⟨pos, p, c⟩)
  | pos, b :: t =>
    match m r pos (b :: t) [] (fun p _ c => some ⟨pos, p, c⟩) with
    | some x => some x
    | none => searchFrom r (pos + 1) t

/-- `Regex::captures(slice)`: leftmost-first match, its span and capture slots -/
def search (r : Re) (s : List UInt8) : Option Res := searchFrom r 0 s

/-- span of capture group `i` (`Captures::get(i)`) -/
def capGet (c : Caps) (i : Nat) : Option (Nat × Nat) :=
  match c.find? (fun e => e.1 == i) with
  | some e => some e.2
  | none => none

end S4V.Model.Regex
