/-
Interpreter of the regenerated coordinator-loop skeleton (`S4V.Gen.Coord.SKEL`, extracted by
`gen/gen_coord.py` from the main `loop { … }` of `processing_loop`) as a step function on the
hand model's state `S4V.Model.Coord.St`.

One call of `skelStep k s e` is one iteration of the loop:
  * the `if <wait>` chooses the receive branch or the print branch (`evalW`);
  * receive branch: `recv_many_chan` polls the connected channels (minus the ones the filter skips);
    nothing polled → `None` → `break` (`Ev.brk`); otherwise the blocking `select` returns some polled
    channel `i` (`Ev.recv i`: the nondeterminism), whose head datum — or `RecvError` when the sender is
    gone and nothing is buffered — selects one of the four effect lists; then the FileInfo bookkeeping;
  * print branch: first minimum of the pending map, printed and removed (`Ev.print`);
  * end of iteration: channels pushed to `disconnect` are removed; no channel left → `break` (`fin`).
Not represented: the `exit_early_check!()` at the head of the iteration (signal path, C18) and the
print-error arms that push the printed source to `disconnect` (the model's stdout never fails).
-/
import S4V.Model.Coord
import S4V.Model.CoordSkelTypes

namespace S4V.Model.CoordSkel
open S4V.Model.Coord

/-- `m.len()` -/
def lenOf (s : St) : MapName → Nat
  | .chans => countTrue s.live
  | .pending => countSome s.pending
  | .fileinfo => match s.fi with
    | some f => f.length
    | none => 0

/-- `!m.is_empty()`; the FileInfo map is the hand model's `fi` (`none` once cleared) -/
def nonEmptyOf (s : St) : MapName → Bool
  | .chans => countTrue s.live != 0
  | .pending => countSome s.pending != 0
  | .fileinfo => s.fi.isSome

def evalCmp : CmpOp → Nat → Nat → Bool
  | .ne, a, b => a != b
  | .eq, a, b => a == b
  | .lt, a, b => decide (a < b)
  | .le, a, b => decide (a ≤ b)
  | .gt, a, b => decide (a > b)
  | .ge, a, b => decide (a ≥ b)

def evalW (s : St) : WExpr → Bool
  | .cmpLen a op b => evalCmp op (lenOf s a) (lenOf s b)
  | .nonEmpty m => nonEmptyOf s m
  | .isEmpty m => !nonEmptyOf s m
  | .or a b => evalW s a || evalW s b
  | .and a b => evalW s a && evalW s b

/-- channel `i` is loaded into the `Select` -/
def polled (k : Skel) (s : St) (i : Nat) : Bool :=
  s.live.getD i false && (!k.pollSkipsPending || (s.pending.getD i none).isNone)

def anyPolled (k : Skel) (s : St) : Bool :=
  (List.range s.live.length).any (polled k s)

/-- one recognised state change; the `Bool` is "`pathid` was pushed to `disconnect`" -/
def applyEff (i : Nat) (ok : Bool) (m : Option Msg) (a : St × Bool) : Eff → St × Bool
  | .markFileinfo => ({ a.1 with fi := a.1.fi.map (fun f => f.set i true) }, a.2)
  | .errIfNotOk => ({ a.1 with errs := if ok then a.1.errs else a.1.errs + 1 }, a.2)
  | .insertPending => match m with
    | some m => ({ a.1 with pending := a.1.pending.set i (some m) }, a.2)
    | none => a
  | .storeSummary => a
  | .disconnect => (a.1, true)
  | .countErr => ({ a.1 with errs := a.1.errs + 1 }, a.2)

/-- end of an iteration: remove the disconnected channel; leave the loop when none is left -/
def endIter (k : Skel) (i : Nat) (a : St × Bool) : St :=
  let s1 := if a.2 && k.disconnectRemovesChannel then { a.1 with live := a.1.live.set i false } else a.1
  if Exit.noChannels ∈ k.exits then closeIfEmpty s1 else s1

/-- the receive branch after `recv_many_chan` returned `(i, datum)` -/
def recvArm (k : Skel) (s0 : St) (i : Nat) (ok : Bool) (m : Option Msg) (arm : List Eff) : St :=
  let a := arm.foldl (applyEff i ok m) (s0, false)
  endIter k i (if k.clearFileinfoWhenAllTrue then clearFiIfAll a.1 else a.1, a.2)

/-- one iteration of the regenerated loop; `none` = the event cannot happen in `s` -/
def skelStep (k : Skel) (s : St) : Ev → Option St
  | .recv i =>
    if s.fin || s.broke || !evalW s k.wait || !polled k s i then none
    else
      match s.streams.getD i [] with
      | [] => some (recvArm k s i true none k.armRecvError)
      | .fileInfo ok :: r => some (recvArm k { s with streams := s.streams.set i r } i ok none k.armFileInfo)
      | .msg m :: r => some (recvArm k { s with streams := s.streams.set i r } i true (some m) k.armNewMessage)
      | .summary ok :: r => some (recvArm k { s with streams := s.streams.set i r } i ok none k.armFileSummary)
  | .print =>
    if s.fin || s.broke || evalW s k.wait then none
    else
      match minPending s.pending with
      | some (i, m) =>
        some (endIter k i ({ s with printed := s.printed ++ [(i, m)]
                                    pending := if k.printRemovesPicked then s.pending.set i none else s.pending }, false))
      | none => if k.printNoneContinues then some s else some (endIter k 0 (s, false))
  | .brk =>
    -- `recv_many_chan → None`: nothing polled (or, were the select not blocking, a silent moment)
    if s.fin || s.broke || !evalW s k.wait || (k.selectBlocking && anyPolled k s) then none
    else if Exit.recvNone ∈ k.exits then some { s with broke := true } else none
  | .fin => if s.fin then some s else none

def skelRun (k : Skel) (s : St) : List Ev → Option St
  | [] => some s
  | e :: es => match skelStep k s e with
    | some s' => skelRun k s' es
    | none => none

/-- trace replay against the interpreter: same observations as `Coord.replay1` -/
def skelReplay1 (k : Skel) (s : St) : TEv → Option St
  | .rI i ok => match s.streams.getD i [] with
    | .fileInfo ok' :: _ => if ok = ok' then skelStep k s (.recv i) else none
    | _ => none
  | .rM i dt => match s.streams.getD i [] with
    | .msg m :: _ => if m.dt = dt then skelStep k s (.recv i) else none
    | _ => none
  | .rS i ok => match s.streams.getD i [] with
    | .summary ok' :: _ => if ok = ok' then skelStep k s (.recv i) else none
    | _ => none
  | .rX i => match s.streams.getD i [] with
    | [] => skelStep k s (.recv i)
    | _ => none
  | .p i dt =>
    if evalW s k.wait then none else
    match minPending s.pending with
    | some (j, m) => if i = j ∧ m.dt = dt then skelStep k s .print else none
    | none => none
  | .b => skelStep k s .brk
  | .e => if s.fin then some s else none

/-- the loop never runs an iteration with no channel connected (it has left through `noChannels`) -/
def Alive (s : St) : Prop := countTrue s.live = 0 → s.fin = true

instance (s : St) : Decidable (Alive s) := by unfold Alive; exact inferInstance

end S4V.Model.CoordSkel
