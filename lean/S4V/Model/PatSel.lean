/-
PatSel — which datetime pattern ("row" of `DATETIME_PARSE_DATAS`) a text log is read with.

Mirror of (src/readers/syslinereader.rs)
  `SyslineReader::new`                 every row index gets count 0, `analyzed = false`
  `parse_datetime_in_line`             rows tried in `dt_patterns_counts.iter().sorted_by(count desc)` order
                                       (`itertools::sorted_by` = stable sort over BTreeMap = index order)
  `find_datetime_in_line`              `line.len() < DATETIME_STR_MIN` ⇒ error; first row in that order whose
                                       regex + parse succeeds (EZCHECK is modelled elsewhere: `C04_ezcheck_sound`)
  `dt_patterns_update`                 the winning row's count + 1 (also after analysis)
  `dt_patterns_analysis`               max count 0 ⇒ false; retain max; `pop_last` until DT_PATTERN_MAX remain
  `dt_pattern_index_max_count`, `dt_patterns_counts_in_use`
  `parse_datetime_in_line_cached`      LRU keyed by the line's begin offset; a hit returns BEFORE any count update;
                                       only successes are stored
  `clear_syslines` / `remove_sysline`  empty that LRU (via `LRU_cache_disable`)
and (src/readers/syslogprocessor.rs) `blockzero_analysis_syslines`, at the level of LINES: the sequence of
lines `find_line_in_block` hands out from offset 0 is an input (`Zero.chain`, line splitting is the Lines
slice), `find_sysline_in_block` is `loopA`/`loopB`, the two passes are `stage1`.

"Row `r` matches line `ℓ` giving instant `t`" (regex, capture, chrono parse, `range_regex` slicing, for the
`year_opt` in force) is the abstract matrix `M : Nat → Bytes → Option Int`.
Constants and shape flags come from `S4V.Gen.PatSel` / `S4V.Gen.Consts` (regenerated from the source).
-/
import S4V.Gen.Consts
import S4V.Gen.PatSel

namespace S4V.Model.PatSel
open S4V.Gen.PatSel
open S4V.Gen.Consts (DATETIME_STR_MIN syslineCountMin)

abbrev Bytes := List UInt8
/-- `dt_patterns_counts : BTreeMap<index, count>` as its iteration order (ascending index) -/
abbrev Counts := List (Nat × Nat)
/-- `M r ℓ = some t`: row `r` parses line `ℓ` to the instant `t` (ns since the epoch) -/
abbrev Matrix := Nat → Bytes → Option Int

structure St where
  counts : Counts
  analyzed : Bool
deriving DecidableEq, Repr

/-- `SyslineReader::new` for a table of `n` rows -/
def fresh (n : Nat) : St := ⟨(List.range n).map (fun i => (i, 0)), false⟩

/-- the reader as built: `DATETIME_PARSE_DATAS_LEN` rows -/
def freshReader : St := fresh N_ROWS

/-! ### try order -/

/-- `y` sorts strictly in front of `x` (comparator `Ord::cmp(&b.1, &a.1)`: higher count first) -/
def strictlyBefore (y x : Nat × Nat) : Bool :=
  if TRY_ORDER_DESC then x.2 < y.2 else y.2 < x.2

/-- stable insertion: `x` (earlier in iteration order) goes in front of everything that does not sort
strictly in front of it -/
def ins (x : Nat × Nat) : Counts → Counts
  | [] => [x]
  | y :: ys => if strictlyBefore y x then y :: ins x ys else x :: y :: ys

/-- `iter().sorted_by(|a, b| cmp(b.1, a.1))` — a stable sort -/
def sortCounts (cs : Counts) : Counts := cs.foldr ins []

/-- the `indexes` vector `parse_datetime_in_line` builds on every call -/
def tryOrder (st : St) : List Nat := (sortCounts st.counts).map Prod.fst

/-! ### parsing one line -/

/-- the loop of `find_datetime_in_line` over `parse_data_indexes` -/
def firstMatch (M : Matrix) (ℓ : Bytes) : List Nat → Option (Nat × Int)
  | [] => none
  | r :: rs => match M r ℓ with
    | some t => some (r, t)
    | none => firstMatch M ℓ rs

/-- `line.len() < DATETIME_STR_MIN` -/
def tooShort (ℓ : Bytes) : Bool :=
  if SHORT_TEST_STRICT then ℓ.length < DATETIME_STR_MIN else ℓ.length ≤ DATETIME_STR_MIN

/-- `*counter += 1` on the entry of `r` -/
def bump (r : Nat) : Counts → Counts
  | [] => []
  | (i, c) :: cs => if i = r then (i, c + 1) :: cs else (i, c) :: bump r cs

/-- `find_datetime_in_line` as called by `parse_datetime_in_line` -/
def findDt (M : Matrix) (st : St) (ℓ : Bytes) : Option (Nat × Int) :=
  if tooShort ℓ then none else firstMatch M ℓ (tryOrder st)

/-- `parse_datetime_in_line`: result `(row, instant)` and the updated counts -/
def parseLine (M : Matrix) (st : St) (ℓ : Bytes) : Option (Nat × Int) × St :=
  match findDt M st ℓ with
  | none => (none, st)
  | some (r, t) => (some (r, t), { st with counts := bump r st.counts })

/-- parse a list of lines in order (each once, no cache) -/
def parseAll (M : Matrix) : St → List Bytes → List (Option (Nat × Int)) × St
  | st, [] => ([], st)
  | st, ℓ :: ls =>
    let (r, st1) := parseLine M st ℓ
    let (rs, st2) := parseAll M st1 ls
    (r :: rs, st2)

/-! ### analysis -/

/-- `fold(u64::MIN, |a, b| a.max(b.1))` -/
def maxCount (cs : Counts) : Nat := cs.foldl (fun a b => max a b.2) 0

/-- `while len > DT_PATTERN_MAX { pop_last }` on an index-ordered map -/
def popDown (cs : Counts) : Counts :=
  if TIE_KEEPS_LOWEST then cs.take DT_PATTERN_MAX else cs.drop (cs.length - DT_PATTERN_MAX)

/-- `dt_patterns_analysis` -/
def analysis (st : St) : Bool × St :=
  let m := maxCount st.counts
  if m = 0 then (false, st)
  else (true, { counts := popDown (st.counts.filter (fun p => p.2 ≥ m)), analyzed := true })

/-- `dt_patterns_counts_in_use` -/
def countsInUse (st : St) : Nat := (st.counts.filter (fun p => p.2 > 0)).length

/-- `dt_pattern_index_max_count`: before analysis the FIRST entry holding the maximum
(`reduce(|acc, item| if acc.1 >= item.1 { acc } else { item })`), afterwards the first of the try order -/
def indexMaxCount (st : St) : Option Nat :=
  if st.analyzed then (tryOrder st).head?
  else match st.counts with
    | [] => none
    | c :: cs => some (cs.foldl (fun acc item => if acc.2 ≥ item.2 then acc else item) c).1

/-- the row a file is read with after analysis -/
def chosen (st : St) : Option Nat := st.counts.head?.map Prod.fst

/-! ### a file at the level the theorems are stated

`k` lines are parsed before `dt_patterns_analysis` (how many depends on how much of the file block
zero holds), then every line of the file is parsed with what analysis left. -/

structure Run where
  ok : Bool                              -- `dt_patterns_analysis` returned true
  before : List (Option (Nat × Int))     -- the first `k` lines as dated before analysis
  row : Option Nat                       -- the row kept
  after : List (Option (Nat × Int))      -- every line as dated after analysis
deriving DecidableEq, Repr

def runK (M : Matrix) (n k : Nat) (lines : List Bytes) : Run :=
  let (b, st1) := parseAll M (fresh n) (lines.take k)
  let (ok, st2) := analysis st1
  if ok then ⟨true, b, chosen st2, (parseAll M st2 lines).1⟩ else ⟨false, b, none, []⟩

/-! ### the parse LRU cache -/

/-- most recently used first; key = `linep.fileoffset_begin()`, value = `(row, instant)` -/
abbrev Cache := List (Nat × (Nat × Int))

structure RSt where
  st : St
  cache : Cache
deriving DecidableEq, Repr

def RSt.fresh (n : Nat) : RSt := ⟨PatSel.fresh n, []⟩

/-- `LruCache::get`: the value, and the entry promoted to most-recent -/
def lruGet (k : Nat) (c : Cache) : Option ((Nat × Int) × Cache) :=
  match c.lookup k with
  | some v => some (v, (k, v) :: c.filter (fun e => e.1 ≠ k))
  | none => none

/-- `LruCache::put` with capacity `PARSE_LRU_CAP` -/
def lruPut (k : Nat) (v : Nat × Int) (c : Cache) : Cache :=
  ((k, v) :: c.filter (fun e => e.1 ≠ k)).take PARSE_LRU_CAP

/-- `parse_datetime_in_line_cached` -/
def parseLineCached (M : Matrix) (rs : RSt) (key : Nat) (ℓ : Bytes) : Option (Nat × Int) × RSt :=
  if PARSE_CACHE_ENABLED then
    match lruGet key rs.cache with
    | some (v, c') => (some v, { rs with cache := c' })
    | none =>
      match parseLine M rs.st ℓ with
      | (some v, st') => (some v, { st := st', cache := lruPut key v rs.cache })
      | (none, st') => (none, { rs with st := st' })
  else
    match parseLine M rs.st ℓ with
    | (r, st') => (r, { rs with st := st' })

/-- the effect of `clear_syslines` on this state (the sysline store is not part of it) -/
def clearSyslines (rs : RSt) : RSt :=
  if CLEAR_SYSLINES_CLEARS_PARSE_CACHE then { rs with cache := [] } else rs

/-- the effect of `remove_sysline` on this state -/
def removeSysline (rs : RSt) : RSt :=
  if REMOVE_SYSLINE_CLEARS_PARSE_CACHE then { rs with cache := [] } else rs

/-- `dt_patterns_analysis` on the reader state -/
def analysisR (rs : RSt) : Bool × RSt :=
  match analysis rs.st with
  | (ok, st') => (ok, { st := st', cache := if ANALYSIS_CLEARS_PARSE_CACHE then [] else rs.cache })

/-- parse `(key, line)` pairs in order through the cache -/
def parseAllCached (M : Matrix) : RSt → List (Nat × Bytes) → List (Option (Nat × Int)) × RSt
  | rs, [] => ([], rs)
  | rs, (k, ℓ) :: ls =>
    let (r, rs1) := parseLineCached M rs k ℓ
    let (out, rs2) := parseAllCached M rs1 ls
    (r :: out, rs2)

/-! ### block-zero stage, line level (`blockzero_analysis_syslines`) -/

/-- what successive `find_line_in_block` calls from offset 0 hand out -/
structure Zero where
  chain : List (Nat × Bytes)          -- `Found` lines: (begin offset, bytes incl. the newline)
  partialLine : Option (Nat × Bytes)  -- the partial line that came with the final `Done`
  doneFo : Nat                        -- the offset that final call was made with
  foLast : Nat                        -- `fileoffset_last()`
  bs : Nat                            -- block size
  blocksz0 : Nat                      -- length of block zero

inductive Res where
  | found (rest : List (Nat × Bytes)) (nextFo : Nat)
  | done (partialFound : Bool)
deriving DecidableEq, Repr

/-- loop "B" of `find_sysline_in_block_year`; `end1` = `sysline.fileoffset_end() + 1` -/
def loopB (M : Matrix) (z : Zero) (end1 : Nat) : RSt → List (Nat × Bytes) → Res × RSt
  | rs, [] => if z.doneFo < z.foLast then (.done true, rs) else (.found [] end1, rs)
  | rs, (k, ℓ) :: ls =>
    match parseLineCached M rs k ℓ with
    | (none, rs') => loopB M z (k + ℓ.length) rs' ls
    | (some _, rs') => (.found ((k, ℓ) :: ls) k, rs')

/-- loop "A" of `find_sysline_in_block_year` (after a `check_store` miss) -/
def loopA (M : Matrix) (z : Zero) : RSt → List (Nat × Bytes) → Res × RSt
  | rs, [] =>
    match z.partialLine with
    | some (k, ℓ) =>
      match parseLineCached M rs k ℓ with
      | (r, rs') => (.done r.isSome, rs')
    | none => (.done false, rs)
  | rs, (k, ℓ) :: ls =>
    match parseLineCached M rs k ℓ with
    | (none, rs') => loopA M z rs' ls
    | (some _, rs') =>
      if k + ℓ.length - 1 = z.foLast then (.found ls (k + ℓ.length), rs')   -- `is_sysline_last`
      else loopB M z (k + ℓ.length) rs' ls

/-- `while found < found_min && block_offset_at_file_offset(fo) == 0 { find_sysline_in_block(fo) … }` -/
def passLoop (M : Matrix) (z : Zero) (foundMin : Nat) : Nat → Nat → Nat → List (Nat × Bytes) → RSt → Nat × RSt
  | 0, found, _, _, rs => (found, rs)
  | fuel + 1, found, fo, ls, rs =>
    if found < foundMin ∧ fo / z.bs = 0 then
      match loopA M z rs ls with
      | (.found ls' fo', rs') => passLoop M z foundMin fuel (found + 1) fo' ls' rs'
      | (.done p, rs') => (if p then found + 1 else found, rs')
    else (found, rs)

def pass (M : Matrix) (z : Zero) (rs : RSt) : Nat × RSt :=
  passLoop M z (syslineCountMin z.blocksz0) (z.chain.length + 2) 0 0 z.chain rs

inductive Verdict where
  | fileOk | noSyslines
deriving DecidableEq, Repr

structure Stage1 where
  verdict : Verdict
  pre : Counts          -- `dt_patterns_counts` when `dt_patterns_analysis` is entered
  reparsed : Bool       -- the second pass ran
  rs : RSt              -- reader state when the stage returns
deriving DecidableEq, Repr

/-- `blockzero_analysis_syslines` (the `read_block(0)` failures excluded) -/
def stage1 (M : Matrix) (z : Zero) (rs0 : RSt) : Stage1 :=
  let foundMin := syslineCountMin z.blocksz0
  match pass M z rs0 with
  | (found, rs1) =>
    if found = 0 then ⟨.noSyslines, rs1.st.counts, false, rs1⟩
    else
      let a := countsInUse rs1.st
      match analysisR rs1 with
      | (false, rs2) => ⟨.noSyslines, rs1.st.counts, false, rs2⟩
      | (true, rs2) =>
        if a > REPARSE_IF_ROWS_ABOVE then
          match pass M z (clearSyslines rs2) with
          | (found', rs3) => ⟨if found' ≥ foundMin then .fileOk else .noSyslines, rs1.st.counts, true, rs3⟩
        else ⟨if found ≥ foundMin then .fileOk else .noSyslines, rs1.st.counts, false, rs2⟩

/-- stage 1 on a new reader, then every complete line of the file through the cached parser -/
def runFile (M : Matrix) (n : Nat) (z : Zero) (fileLines : List (Nat × Bytes)) :
    Stage1 × List (Option (Nat × Int)) × RSt :=
  let s := stage1 M z (RSt.fresh n)
  match s.verdict with
  | .noSyslines => (s, [], s.rs)
  | .fileOk =>
    match parseAllCached M s.rs fileLines with
    | (out, rs') => (s, out, rs')

end S4V.Model.PatSel
