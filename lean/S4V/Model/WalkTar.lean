/-
Hand model of `process_path_tar` (src/readers/filepreprocessor.rs) and of the two places where
`process_path` calls it (C15, tar members).

* An archive is what `tar::Archive::entries()` (tar 0.4.44) reports for the bytes of the file: a list
  of members in stored order — GNU long-name / pax extension records are already folded into the
  member they describe — optionally ended by an iteration error (`broken`: a partial or corrupt
  header, data cut short). After an `Err` the iterator is done (`EntriesFields::next` sets `done`),
  so an error can only be the last item. A file that is no tar at all is `⟨[], true⟩`; an empty file
  or one that starts with a zero block is `⟨[], false⟩`.
* A member has the stored path as components (`entry.path()` bytes split at `/`), a kind
  (`EntryType::is_file()` is true exactly for typeflags `'0'` and NUL) and `entry.size() == 0`.
* Per member (`for entry_res in entry_iter`): not a regular file → nothing; size 0 →
  `FileErrEmpty(path SEP lossy(subpath), Unparsable)` (before any classification); otherwise
  `path_to_filetype(&subpath, unparseable_are_text)` decides — `Archive(..)` → not supported ("nested
  archives"), `Unparsable` → `FileErrNotSupported(full, None)`, a type with `archival_type: Normal` →
  `FileValid(full, same type with archival_type: Tar)`, any other `archival_type` (e.g. `x.log.gz` inside
  the tar) → `FileErrNotSupported(full, "cannot extract …")`: the generated `tarMemberRows`.
  `full = path ++ SUBPATH_SEP ++ to_string_lossy(subpath)`.
* `process_path`: the directory walk hands `path_to_fpath(entry)` (lossy) and the named branch hands
  the path as given; what each passes as `unparseable_are_text` is the generated
  `walkTarPassesFlag/walkTarFlagLit` and `namedTarPassesFlag/namedTarFlagLit`.

`path_to_filetype` looks at `Path::file_name()`, modelled (as in `Model.Walk`) by the last component:
member names whose last component is empty, `.` or `..` (trailing `/`, `/.`) are outside the model;
regular members do not have such names in archives written by tar tools.
-/
import S4V.Model.Walk
import S4V.Gen.WalkTar

namespace S4V.Model.WalkTar
open S4V.Model.Path S4V.Model.PathTypes S4V.Model.Walk S4V.Gen.WalkTar

inductive MKind where
  | regular     -- `EntryType::Regular`
  | other       -- directory, symlink, hard link, fifo, device, contiguous, sparse, …
  deriving DecidableEq, Repr

structure Member where
  name : List Bytes
  kind : MKind
  sizeZero : Bool
  deriving DecidableEq, Repr

structure Archive where
  members : List Member
  broken : Bool
  deriving DecidableEq, Repr

inductive TarOut where
  | valid (r : Result)         -- `FileValid(full, filetype)`; `r.arch` is the new `archival_type`
  | empty                      -- `FileErrEmpty(full, Unparsable)`
  | notSupported               -- `FileErrNotSupported(full, None)`: known non-log name, not read
  | cannotExtract (a : Arch)   -- `FileErrNotSupported(full, Some("cannot extract <a> type from a tar archived file"))`
  | nested                     -- `FileErrNotSupported(full, Some("nested archives are not supported"))`
  | err                        -- `FileErr(path of the tar, message)`
  | nofuel                     -- unreachable (`C16_terminates`, all 24 rows generated)
  deriving DecidableEq, Repr

/-- one `ProcessPathResult` of `process_path_tar`; `path` is the `FPath` string -/
structure TarRes where
  path : Bytes
  out : TarOut
  deriving DecidableEq, Repr

def TarOut.attempted : TarOut → Bool
  | .valid _ => true
  | _ => false

def familyOf : Kind → Option Family
  | .evtx => some .evtx
  | .journal => some .journal
  | .text => some .text
  | .fixed _ => some .fixedStruct
  | .unparsable => none
  | .archiveTar => none

def lookupRow (f : Family) (a : Arch) : Option Bool :=
  (tarMemberRows.find? (fun r => r.1 == (f, a))).map (·.2)

/-- the final `match pathtofileresult` for a regular, non-empty member -/
def memberOut (ua : Bool) (m : Member) : TarOut :=
  match classify (m.name.getLastD []) ua with
  | none => .nofuel
  | some r =>
    match r.kind with
    | .archiveTar => .nested
    | .unparsable => .notSupported
    | k =>
      match familyOf k with
      | none => .nofuel
      | some f =>
        match lookupRow f r.arch with
        | some true => .valid ⟨k, .tar⟩
        | some false => .cannotExtract r.arch
        | none => .nofuel

/-- `path ++ SUBPATH_SEP ++ subpath.to_string_lossy()` -/
def fullPath (tarPath : Bytes) (m : Member) : Bytes :=
  tarPath ++ subpathSep ++ toStringLossy (joinPath m.name)

/-- one turn of the member loop; `none` = `continue` without a result -/
def memberResult (tarPath : Bytes) (ua : Bool) (m : Member) : Option TarRes :=
  match m.kind with
  | .other => none
  | .regular =>
    if m.sizeZero then some ⟨fullPath tarPath m, .empty⟩
    else some ⟨fullPath tarPath m, memberOut ua m⟩

/-- `process_path_tar(path, unparseable_are_text, _)` -/
def processPathTar (tarPath : Bytes) (ua : Bool) (ar : Archive) : List TarRes :=
  ar.members.filterMap (memberResult tarPath ua) ++ (if ar.broken then [⟨tarPath, .err⟩] else [])

/-! ### the two call sites in `process_path` -/

/-- the value of a call-site argument that is either the caller's parameter or a literal -/
def flagArg (passesParam lit u : Bool) : Bool := if passesParam then u else lit

/-- `path_to_fpath`: `to_string_lossy` of the joined path -/
def fpath (p : List Bytes) : Bytes := toStringLossy (joinPath p)

/-- the walk arm with an explicit call-site shape: `process_path_tar(&path_to_fpath(entry), <arg>, fta)` -/
def walkedTarWith (passesParam lit : Bool) (u : Bool) (p : List Bytes) (ar : Archive) : List TarRes :=
  processPathTar (fpath p) (flagArg passesParam lit u) ar

/-- the named branch with an explicit call-site shape: `process_path_tar(path, <arg>, fta)` -/
def namedTarWith (passesParam lit : Bool) (u : Bool) (p : List Bytes) (ar : Archive) : List TarRes :=
  processPathTar (joinPath p) (flagArg passesParam lit u) ar

/-- a `.tar` met in the directory walk of `process_path(_, u)`, as the source has it -/
def walkedTar (u : Bool) (p : List Bytes) (ar : Archive) : List TarRes :=
  walkedTarWith walkTarPassesFlag walkTarFlagLit u p ar

/-- a `.tar` named explicitly to `process_path(p, u)`, as the source has it -/
def namedTar (u : Bool) (p : List Bytes) (ar : Archive) : List TarRes :=
  namedTarWith namedTarPassesFlag namedTarFlagLit u p ar

/-! ### the walk with archives expanded -/

/-- what the tar reader reports for the tar-named file at a path (the file system's part) -/
abbrev TarFs := List Bytes → Archive

/-- one `ProcessPathResult` of `process_path` -/
inductive Res where
  | plain (path : List Bytes) (out : Outcome)   -- `out` is never `.tar`
  | member (r : TarRes)
  deriving DecidableEq, Repr

def Res.attempted : Res → Bool
  | .plain _ o => o.attempted
  | .member r => r.out.attempted

/-- loop body of the walk for one classified entry: a tar's results are pushed in place -/
def expandWalked (u : Bool) (fs : TarFs) (e : Entry) : List Res :=
  match e.out with
  | .tar _ => (walkedTar u e.path (fs e.path)).map .member
  | o => [.plain e.path o]

/-- the `is_file` branch for the classified argument -/
def expandNamed (u : Bool) (fs : TarFs) (e : Entry) : List Res :=
  match e.out with
  | .tar _ => (namedTar u e.path (fs e.path)).map .member
  | o => [.plain e.path o]

/-- `process_path(arg, u)` with archives expanded -/
def expandArgFull (includeHidden u : Bool) (fs : TarFs) : Arg → List Res
  | .file p c => expandNamed u fs (classifyNamed p c)
  | .dir par t => (expandDirAll includeHidden t).flatMap fun e => expandWalked u fs ⟨par ++ e.path, e.out⟩

/-- `main`: every argument with `mainUnparseableAreText` -/
def expandArgsFull (includeHidden u : Bool) (fs : TarFs) (args : List Arg) : List Res :=
  args.flatMap (expandArgFull includeHidden u fs)

end S4V.Model.WalkTar
