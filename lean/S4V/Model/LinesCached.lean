/-
`LineReader::find_line` WITH its caches (src/readers/linereader.rs): the LRU
cache keyed by the requested offset (`check_store_LRU`), the store of lines
keyed by begin offset (`lines`), the never-pruned `foend_to_fobeg` map
(`get_linep`, `check_store`), the shortcuts A1a / A1b that trust a stored
previous line, `insert_line`, and `drop_line`. A stored line is represented by
its bounds `(beg, fin)`; the block walk itself is `S4V.Model.Lines.findLine`
(proved equal to `lineStart`/`lineEnd`), abstracted here to those two
functions of the file bytes.
-/
import S4V.Model.Lines

namespace S4V.Model.LinesCached
open S4V.Model.Lines

/-- what a lookup returns -/
inductive R where
  | done
  | found (foNext beg fin : Nat)
  deriving DecidableEq, Repr, Inhabited

structure Store where
  lines : List (Nat × Nat)          -- (beg, fin) of stored lines
  endToBeg : List (Nat × Nat)       -- (fin, beg) of every line ever stored (never pruned)
  lru : List (Nat × R)              -- most recently used first; capacity `lruCap`
  deriving DecidableEq, Repr, Inhabited

def lruCap : Nat := 8

def empty : Store := ⟨[], [], []⟩

def lruGet (l : List (Nat × R)) (fo : Nat) : Option R := (l.find? (·.1 == fo)).map (·.2)

/-- `LruCache::get` promotes the entry -/
def lruPromote (l : List (Nat × R)) (fo : Nat) : List (Nat × R) :=
  match l.find? (·.1 == fo) with
  | some e => e :: l.filter (·.1 != fo)
  | none => l

/-- `LruCache::put` -/
def lruPut (l : List (Nat × R)) (fo : Nat) (r : R) : List (Nat × R) :=
  ((fo, r) :: l.filter (·.1 != fo)).take lruCap

def linesGet (ls : List (Nat × Nat)) (beg : Nat) : Option (Nat × Nat) := ls.find? (·.1 == beg)

/-- `foend_to_fobeg.range(fo..).next()`: the entry with the least end ≥ fo -/
def leastEndGE (m : List (Nat × Nat)) (fo : Nat) : Option (Nat × Nat) :=
  m.foldl (fun best e =>
    if e.1 ≥ fo then
      match best with
      | some b => if e.1 < b.1 then some e else some b
      | none => some e
    else best) none

/-- `get_linep(fo)` -/
def getLinep (s : Store) (fo : Nat) : Option (Nat × Nat) :=
  match leastEndGE s.endToBeg fo with
  | some (_, beg) => if fo < beg then none else linesGet s.lines beg
  | none => none

/-- `insert_line` -/
def insertLine (s : Store) (beg fin : Nat) : Store :=
  { s with lines := (beg, fin) :: s.lines.filter (·.1 != beg)
           endToBeg := (fin, beg) :: s.endToBeg.filter (·.1 != fin) }

/-- `find_line(fo)` with caches on; returns the result and the new store -/
def findLineCached (d : Bytes) (s : Store) (fo : Nat) : R × Store :=
  match lruGet s.lru fo with
  | some r => (r, { s with lru := lruPromote s.lru fo })
  | none =>
    if d.length = 0 ∨ fo ≥ d.length then (.done, s)
    else
      -- check_store
      match linesGet s.lines fo with
      | some (b, e) => let r := R.found (e + 1) b e; (r, { s with lru := lruPut s.lru fo r })
      | none =>
        match getLinep s fo with
        | some (b, e) => let r := R.found (e + 1) b e; (r, { s with lru := lruPut s.lru fo r })
        | none =>
          let e := lineEnd d fo            -- part B of the walk
          let beg :=
            if fo = 0 then 0                                       -- A0
            else if (linesGet s.lines (fo - 1)).isSome then fo      -- A1a: a stored line BEGINS at fo-1
            else if (getLinep s (fo - 1)).isSome then fo            -- A1b: a stored line contains fo-1
            else lineStart d fo                                    -- A2..A5
          let s1 := insertLine s beg e
          let r := R.found (e + 1) beg e
          (r, { s1 with lru := lruPut s1.lru fo r })

/-- `drop_line(line beginning at beg)` -/
def dropLine (s : Store) (beg : Nat) : Store :=
  { s with lru := s.lru.filter (·.1 != beg), lines := s.lines.filter (·.1 != beg) }

inductive Op where
  | find (fo : Nat)
  | drop (fo : Nat)       -- drop the stored line containing `fo`, if any (as the harness does)
  deriving DecidableEq, Repr

def applyOp (d : Bytes) (s : Store) : Op → Option R × Store
  | .find fo => let (r, s') := findLineCached d s fo; (some r, s')
  | .drop fo =>
    match getLinep s fo with
    | some (b, _) => (none, dropLine s b)
    | none => (none, s)

def runOps (d : Bytes) : Store → List Op → List (Option R) × Store
  | s, [] => ([], s)
  | s, op :: ops =>
    let (r, s') := applyOp d s op
    let (rs, s'') := runOps d s' ops
    (r :: rs, s'')

/-- the cache-free answer -/
def findLinePlain (d : Bytes) (fo : Nat) : R :=
  if d.length = 0 ∨ fo ≥ d.length then .done else .found (lineEnd d fo + 1) (lineStart d fo) (lineEnd d fo)

end S4V.Model.LinesCached
