/-
Interpreter of `S4V.Gen.Lines2` (gen/gen_lines.py, "Lines2"): `LineReader::find_line_in_block` as DATA
(`S4V.Gen.Lines2.findLineInBlock`, a list of `StmtIB`) and the facts extracted from `drop_line` /
`drop_lines`. A `StmtIB` is either a statement of the `find_line` language (run by `S4V.Model.LineSkel.exec`,
unchanged) or one of the five additions of `find_line_in_block`: the bool local `partial_line`, `^`,
`LineP::new(line)` (wrapped, not stored), `return (Done, Some(line))`, and `if`s over these.

Also here: the hand model of `find_line_in_block` WITH the caches (`findLineInBlockCached`; the cache-free
walk is `S4V.Model.Lines.findLineInBlock`) and the histories with in-block finds and drops.
-/
import S4V.Model.LineSkel
import S4V.Gen.Lines2

namespace S4V.Model.LineSkel2
open S4V.Gen.Blocks S4V.Model.Lines S4V.Model.LinesCached S4V.Gen.Lines S4V.Gen.Lines2 S4V.Model.LineSkel

/-- state of `find_line_in_block`: the locals it shares with `find_line`, and `partial_line` -/
structure StIB where
  base : St
  partialLine : Bool := false
  deriving Repr, Inhabited

/-- `(ResultS3LineFind, Option<Line>)`: `res r` = `(r, None)`; `part ps` = `(Done, Some(line))` -/
inductive GResIB where
  | res (r : GRes)
  | part (parts : List GPart)
  deriving DecidableEq, Repr, Inhabited

inductive OutIB where
  | norm (st : StIB)
  | ret (r : GResIB) (st : StIB)
  deriving Repr, Inhabited

def _root_.S4V.Gen.Lines2.BExprIB.eval (env : Env) (st : StIB) : BExprIB → Bool
  | .b c => c.eval env st.base
  | .partialLine => st.partialLine
  | .not a => !(a.eval env st)
  | .and a b => a.eval env st && b.eval env st
  | .xor a b => Bool.xor (a.eval env st) (b.eval env st)

mutual
def execIB (env : Env) : StmtIB → StIB → OutIB
  | .s s, st =>
    match exec env s st.base with
    | .norm b => .norm { st with base := b }
    | .brk b => .ret (.res .fell) { st with base := b }
    | .ret r b => .ret (.res r) { st with base := b }
  | .setPartial b, st => .norm { st with partialLine := b }
  | .ite c t e, st => if c.eval env st then execIBL env t st else execIBL env e st
  | .assert c, st => if c.eval env st then .norm st else .ret (.res .panic) st
  | .lineP, st =>
    .norm { st with base := { st.base with inserted := (gLineFoBeg st.base.line, gLineFoEnd st.base.line, st.base.line) } }
  | .retPartial, st => .ret (.part st.base.line) st
def execIBL (env : Env) : List StmtIB → StIB → OutIB
  | [], st => .norm st
  | s :: r, st =>
    match execIB env s st with
    | .norm st' => execIBL env r st'
    | o => o
end

/-- run a program as `find_line_in_block(fo)`: the result, the caches afterwards, the blocks requested -/
def runFindIB (prog : List StmtIB) (env : Env) (s : Store) (fo : Nat) : GResIB × Store × List Nat :=
  match execIBL env prog { base := { fileoffset := fo, store := s } } with
  | .ret r st => (r, st.base.store, st.base.reads)
  | .norm st => (.res .fell, st.base.store, st.base.reads)

/-- the regenerated `find_line_in_block` -/
def findLineInBlockG (bs : Nat) (d : Bytes) (s : Store) (fo : Nat) : GResIB × Store × List Nat :=
  runFindIB S4V.Gen.Lines2.findLineInBlock { bs := bs, d := d, checkStore := S4V.Gen.Lines.checkStore } s fo

/-! ### hand model of `find_line_in_block` with the caches -/

/-- a cache-free in-block result seen through `LinePart::new` / `Line::fileoffset_begin` / `fileoffset_end` -/
def liftIB (bs : Nat) : ResIB → GResIB
  | .done => .res .done
  | .found n ps => .res (.found n (gLineFoBeg (ps.map (ofPart bs))) (gLineFoEnd (ps.map (ofPart bs))) (ps.map (ofPart bs)))
  | .part ps => .part (ps.map (ofPart bs))

/-- `find_line_in_block(fo)` with the caches: LRU, `check_store`, then the in-block walk. Only a line found at
offset 0 (A0) or through the quick checks A1a / A1b is STORED (`insert_line` + LRU put); the line the backward
scan finds is returned wrapped but not stored. The quick checks are skipped for a partial line. -/
def findLineInBlockCached (bs : Nat) (d : Bytes) (s : Store) (fo : Nat) : GResIB × Store :=
  match lruGet s.lru fo with
  | some r => (.res (ofR r), { s with lru := lruPromote s.lru fo })
  | none =>
    if d.length = 0 ∨ fo ≥ d.length then (.res .done, s)
    else
      match linesGet s.lines fo with
      | some (b, e) => let r := R.found (e + 1) b e; (.res (ofR r), { s with lru := lruPut s.lru fo r })
      | none =>
        match getLinep s fo with
        | some (b, e) => let r := R.found (e + 1) b e; (.res (ofR r), { s with lru := lruPut s.lru fo r })
        | none =>
          let b1 := partB1IB d bs (blockOffsetLast d.length bs) fo
          if fo = 0 ∨ (b1.1 = true ∧ ((linesGet s.lines (fo - 1)).isSome = true ∨ (getLinep s (fo - 1)).isSome = true)) then
            let line := [ofPart bs ⟨fo / bs, fo % bs, b1.2.2 + 1⟩]
            if b1.1 = false then (.part line, s)
            else
              let beg := gLineFoBeg line
              let fin := gLineFoEnd line
              let s1 := insertLine s beg fin
              (.res (.found (b1.2.1 + 1) beg fin line), { s1 with lru := lruPut s1.lru fo (.found (b1.2.1 + 1) beg fin) })
          else (liftIB bs (partAIB d bs fo b1.1 b1.2.1 b1.2.2), s)

/-! ### `drop_line` from the extracted facts -/

def removeKey (s : Store) (key : Nat) : Container → Store
  | .lru => { s with lru := s.lru.filter (·.1 != key) }
  | .lines => { s with lines := s.lines.filter (·.1 != key) }
  | .endToBeg => { s with endToBeg := s.endToBeg.filter (·.1 != key) }

/-- the caches after `drop_line` of the line `[beg, fin]` -/
def dropLineF (keyIsBegin : Bool) (removes : List Container) (s : Store) (beg fin : Nat) : Store :=
  removes.foldl (fun s c => removeKey s (if keyIsBegin then beg else fin) c) s

/-- the blocks `drop_line` hands to `BlockReader::drop_block`, in order (when the `Arc` is unique) -/
def dropBlocksF (keep : Nat) (takeFirst rev : Bool) (parts : List GPart) : List Nat :=
  let n := match parts.length with
    | 0 => 0
    | v => v - keep
  let ps := if rev then parts.reverse else parts
  (if takeFirst then ps.take n else ps.drop n).map (·.bo)

/-- the regenerated `drop_line` -/
def dropLineG (s : Store) (beg fin : Nat) : Store := dropLineF DROP_KEY_IS_BEGIN DROP_REMOVES s beg fin
def dropBlocksG (parts : List GPart) : List Nat := dropBlocksF DROP_KEEP DROP_TAKE_FIRST DROP_REVERSED parts

/-- hand model: the blocks of all parts but the last -/
def dropBlocks (parts : List GPart) : List Nat := parts.dropLast.map (·.bo)

/-! ### histories: `find_line`, `find_line_in_block`, `drop_line` on one reader -/

inductive Op2 where
  | find (fo : Nat)
  | findib (fo : Nat)
  | drop (fo : Nat)
  deriving DecidableEq, Repr

/-- hand models -/
def applyOp2 (bs : Nat) (d : Bytes) (s : Store) : Op2 → Option GResIB × Store
  | .find fo => let r := findLineCached d s fo; (some (.res (ofR r.1)), r.2)
  | .findib fo => let r := findLineInBlockCached bs d s fo; (some r.1, r.2)
  | .drop fo =>
    match getLinep s fo with
    | some (b, _) => (none, dropLine s b)
    | none => (none, s)

def runOps2 (bs : Nat) (d : Bytes) : Store → List Op2 → List (Option GResIB) × Store
  | s, [] => ([], s)
  | s, op :: ops =>
    let r := applyOp2 bs d s op
    let rs := runOps2 bs d r.2 ops
    (r.1 :: rs.1, rs.2)

/-- a `find_line` answer without its parts (the hand model `findLineCached` keeps bounds only) -/
def eraseParts : GRes → GRes
  | .found n b e _ => .found n b e []
  | r => r

/-- regenerated forms -/
def applyOp2G (bs : Nat) (d : Bytes) (s : Store) : Op2 → Option GResIB × Store
  | .find fo => let r := findLineG bs d s fo; (some (.res (eraseParts r.1)), r.2.1)
  | .findib fo => let r := findLineInBlockG bs d s fo; (some r.1, r.2.1)
  | .drop fo =>
    match getLinep s fo with
    | some (b, e) => (none, dropLineG s b e)
    | none => (none, s)

def runOps2G (bs : Nat) (d : Bytes) : Store → List Op2 → List (Option GResIB) × Store
  | s, [] => ([], s)
  | s, op :: ops =>
    let r := applyOp2G bs d s op
    let rs := runOps2G bs d r.2 ops
    (r.1 :: rs.1, rs.2)

/-! ### rendering for the driver -/

def GResIB.toString : GResIB → String
  | .res r => r.toString
  | .part ps => s!"partial {partsStr (ps.map GPart.toPart)}"

/-- bounds only (what a cached answer still knows) -/
def GResIB.short : Option GResIB → String
  | some (.res .done) => "done"
  | some (.res (.found n b e _)) => s!"found {n} {b} {e}"
  | some (.res .panic) => "panic"
  | some (.res .nofuel) => "nofuel"
  | some (.res .fell) => "fell"
  | some (.part ps) => s!"partial {partsStr (ps.map GPart.toPart)}"
  | none => "drop"

end S4V.Model.LineSkel2
