/-
Protocol model of temporary files (C18): workers that unpack a compressed
journal / event log create a NamedTempFile, list it in NAMED_TEMP_FILES, use
it, delete it (drop of the reader) and send their final summary; the SIGINT
handler removes every listed file and sets EXIT_EARLY; the main thread exits
after the last summary (normal run) or after EXIT_EARLY, WITHOUT joining the
workers, and process exit stops every worker wherever it is.

The order of a worker's steps comes from `S4V.Gen.Tmp` (regenerated from the
source): whether creation+listing happen under the NAMED_TEMP_FILES lock
(atomic w.r.t. the handler) and whether the file is deleted before or after
the final summary is sent, and whether a creation attempted after the handler
ran is refused (`createRefusedAfterHandler`, the NAMED_TEMP_FILES_CLOSED flag).
-/
import S4V.Gen.Tmp

namespace S4V.Model.Tmp
open S4V.Gen.Tmp

/-- where a worker is -/
inductive Phase where
  | start       -- nothing done yet
  | created     -- file exists, not yet listed (only reachable when creation is not under the lock)
  | listed      -- file exists and is listed
  | deleted     -- reader dropped, file removed (summary not yet sent; only when dropBeforeSummary)
  | summarised  -- summary sent, reader still alive (only when ¬ dropBeforeSummary)
  | done        -- summary sent and file removed
  deriving DecidableEq, Repr, Inhabited

structure St where
  phase : List Phase          -- per worker
  onDisk : List Bool          -- per worker: its file currently exists
  listed : List Bool          -- per worker: its path is in NAMED_TEMP_FILES
  handlerRan : Bool
  exited : Bool               -- the process has exited; nothing moves any more
  deriving DecidableEq, Repr, Inhabited

def init (n : Nat) : St :=
  ⟨List.replicate n .start, List.replicate n false, List.replicate n false, false, false⟩

inductive Ev where
  | work (i : Nat)     -- worker i takes its next step
  | sigint             -- the handler runs (atomically: it holds the NAMED_TEMP_FILES lock)
  | exit               -- the main thread returns and the process exits
  deriving DecidableEq, Repr

/-- one worker step, as ordered in the source (`createUnderLock`, `dropBeforeSummary` are parameters
so both orders can be reasoned about; `stepGen` instantiates them with the generated values) -/
def workerStep (underLock dropFirst : Bool) (s : St) (i : Nat) : Option St :=
  match s.phase.getD i .done with
  | .start =>
    if underLock then
      some { s with phase := s.phase.set i .listed, onDisk := s.onDisk.set i true, listed := s.listed.set i true }
    else
      some { s with phase := s.phase.set i .created, onDisk := s.onDisk.set i true }
  | .created => some { s with phase := s.phase.set i .listed, listed := s.listed.set i true }
  | .listed =>
    if dropFirst then some { s with phase := s.phase.set i .deleted, onDisk := s.onDisk.set i false }
    else some { s with phase := s.phase.set i .summarised }
  | .deleted => some { s with phase := s.phase.set i .done }
  | .summarised => some { s with phase := s.phase.set i .done, onDisk := s.onDisk.set i false }
  | .done => none

def step (underLock dropFirst : Bool) (s : St) : Ev → Option St
  | .work i => if s.exited then none else workerStep underLock dropFirst s i
  | .sigint =>
    if s.exited || s.handlerRan then none
    else some { s with handlerRan := true,
                       onDisk := (s.onDisk.zip s.listed).map fun (d, l) => d && !l }
  | .exit =>
    if s.exited then none
    -- normal end: every summary received; early end: EXIT_EARLY was set by the handler
    else if (s.phase.all fun p => p == .summarised || p == .done) || s.handlerRan then some { s with exited := true }
    else none

def run (underLock dropFirst : Bool) (s : St) : List Ev → Option St
  | [] => some s
  | e :: es => match step underLock dropFirst s e with
    | some s' => run underLock dropFirst s' es
    | none => none

/-- the event `e`, taken in state `s`, is a worker leaving phase `.start` (that is: about to create its
temporary file) although the SIGINT handler has already run -/
def lateCreate (s : St) : Ev → Bool
  | .work i => s.handlerRan && (s.phase.getD i .done == .start)
  | _ => false

/-- `step` with the closed flag (`NAMED_TEMP_FILES_CLOSED`): the handler sets the flag under the
NAMED_TEMP_FILES lock; a worker that reaches `decompress_to_ntf` afterwards finds it set (under the same
lock), gets an error instead of a file and ends (phase `.done`, nothing created, nothing listed).
Every other step is `step`'s. -/
def stepC (ul df : Bool) (s : St) : Ev → Option St
  | .work i =>
    if s.exited then none
    else if s.handlerRan && (s.phase.getD i .done == .start) then some { s with phase := s.phase.set i .done }
    else workerStep ul df s i
  | e => step ul df s e

def runC (ul df : Bool) (s : St) : List Ev → Option St
  | [] => some s
  | e :: es => match stepC ul df s e with
    | some s' => runC ul df s' es
    | none => none

/-- the source's order of operations, with or without the closed flag as the source has it -/
def stepGen := if createRefusedAfterHandler then stepC createUnderLock dropBeforeSummary else step createUnderLock dropBeforeSummary
def runGen := if createRefusedAfterHandler then runC createUnderLock dropBeforeSummary else run createUnderLock dropBeforeSummary

/-- files left behind -/
def leftovers (s : St) : Nat := (s.onDisk.filter id).length

end S4V.Model.Tmp
