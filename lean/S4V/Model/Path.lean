/-
Hand model of `pathbuf_to_filetype_impl` (src/readers/filepreprocessor.rs)
over byte names. Rust `Path::{file_name, extension, file_stem, with_extension,
with_file_name}` and `OsStr::to_str` are modelled on the final path component
(a byte string without '/'); see DESIGN.md §5 "Path".

The tables come from `S4V.Gen.PathTables` (regenerated from source).
-/
import S4V.Model.PathTypes
import S4V.Gen.PathTables

namespace S4V.Model.Path
open S4V.Model.PathTypes
open S4V.Gen.PathTables

abbrev Bytes := List UInt8

def DOT : UInt8 := 46

/-! ### UTF-8 well-formedness (what `OsStr::to_str` accepts) -/

def isCont (b : UInt8) : Bool := 0x80 ≤ b && b ≤ 0xBF

/-- Unicode Table 3-7 "Well-Formed UTF-8 Byte Sequences". -/
def isUtf8 : Bytes → Bool
  | [] => true
  | b0 :: rest =>
    if b0 < 0x80 then isUtf8 rest
    else if 0xC2 ≤ b0 && b0 ≤ 0xDF then
      match rest with
      | b1 :: r => isCont b1 && isUtf8 r
      | _ => false
    else if b0 == 0xE0 then
      match rest with
      | b1 :: b2 :: r => (0xA0 ≤ b1 && b1 ≤ 0xBF) && isCont b2 && isUtf8 r
      | _ => false
    else if (0xE1 ≤ b0 && b0 ≤ 0xEC) || b0 == 0xEE || b0 == 0xEF then
      match rest with
      | b1 :: b2 :: r => isCont b1 && isCont b2 && isUtf8 r
      | _ => false
    else if b0 == 0xED then
      match rest with
      | b1 :: b2 :: r => (0x80 ≤ b1 && b1 ≤ 0x9F) && isCont b2 && isUtf8 r
      | _ => false
    else if b0 == 0xF0 then
      match rest with
      | b1 :: b2 :: b3 :: r => (0x90 ≤ b1 && b1 ≤ 0xBF) && isCont b2 && isCont b3 && isUtf8 r
      | _ => false
    else if 0xF1 ≤ b0 && b0 ≤ 0xF3 then
      match rest with
      | b1 :: b2 :: b3 :: r => isCont b1 && isCont b2 && isCont b3 && isUtf8 r
      | _ => false
    else if b0 == 0xF4 then
      match rest with
      | b1 :: b2 :: b3 :: r => (0x80 ≤ b1 && b1 ≤ 0x8F) && isCont b2 && isCont b3 && isUtf8 r
      | _ => false
    else false

/-- `os_str.to_str().unwrap_or_default()` -/
def toStr (b : Bytes) : Bytes := if isUtf8 b then b else []

def lowerByte (b : UInt8) : UInt8 := if 65 ≤ b && b ≤ 90 then b + 32 else b

/-- `str::to_ascii_lowercase` -/
def asciiLower (b : Bytes) : Bytes := b.map lowerByte

/-! ### Rust `Path` on a single component -/

/-- `path.file_name().unwrap_or_default()`; `""`, `"."`, `".."` have none. -/
def fileName (n : Bytes) : Bytes :=
  if n = [] ∨ n = [DOT] ∨ n = [DOT, DOT] then [] else n

/-- Split at the last `.`: `(before, after)`; `none` when there is no dot. -/
def splitLastDot : Bytes → Option (Bytes × Bytes)
  | [] => none
  | b :: rest =>
    match splitLastDot rest with
    | some (bef, aft) => some (b :: bef, aft)
    | none => if b = DOT then some ([], rest) else none

/-- `rsplit_file_at_dot` of std: `(before, after)` as options. -/
def rsplitFileAtDot (f : Bytes) : Option Bytes × Option Bytes :=
  if f = [DOT, DOT] then (some f, none)
  else match splitLastDot f with
    | none => (none, some f)
    | some (bef, aft) => if bef = [] then (some f, none) else (some bef, some aft)

/-- `path.extension()` -/
def extension (n : Bytes) : Option Bytes :=
  let f := fileName n
  if f = [] then none
  else match rsplitFileAtDot f with
    | (some _, some aft) => some aft
    | _ => none

/-- `path.file_stem()` -/
def fileStem (n : Bytes) : Option Bytes :=
  let f := fileName n
  if f = [] then none
  else match rsplitFileAtDot f with
    | (some bef, _) => some bef
    | (none, aft) => aft

/-- `path.with_extension("")`: truncate right after the file stem; unchanged
when there is no file name. -/
def withExtensionEmpty (n : Bytes) : Bytes :=
  match fileStem n with
  | none => n
  | some stem => stem

/-! ### trimming -/

def trimStartIn (junk : Bytes) : Bytes → Bytes
  | [] => []
  | b :: rest => if junk.contains b then trimStartIn junk rest else b :: rest

def trimEndIn (junk : Bytes) (s : Bytes) : Bytes := (trimStartIn junk s.reverse).reverse

def endsWithIn (junk : Bytes) (s : Bytes) : Bool :=
  match s.getLast? with
  | some b => junk.contains b
  | none => false

def startsWithIn (junk : Bytes) (s : Bytes) : Bool :=
  match s.head? with
  | some b => junk.contains b
  | none => false

def lookup (tbl : List (Bytes × Act)) (k : Bytes) : Act :=
  match tbl.find? (fun r => r.1 == k) with
  | some r => r.2
  | none => .nomatch

def fallback (ua : Bool) (fta : Arch) : Result :=
  if ua then ⟨.text, fta⟩ else ⟨.unparsable, .normal⟩

/-- What the cleaning prologue yields: either an early fallback, or the
cleaned path `clean` and the `file_name` the rest of the function uses. -/
inductive Cleaned where
  | early
  | ok (clean : Bytes) (fileName : Bytes)
  deriving Repr, DecidableEq

def cleanName (n : Bytes) : Cleaned :=
  let fn0 := fileName n
  let fname := toStr fn0
  -- trailing junk
  let r1 : Option (Bytes × Bytes) :=
    if endsWithIn junkChars fname then
      let fname2 := trimEndIn junkChars fname
      if fname2 = [] ∨ fname2.all (· == DOT) then none
      else some (fname2, fileName fname2)
    else some (n, fn0)
  match r1 with
  | none => .early
  | some (clean, fnm) =>
    let s := toStr fnm
    if s ≠ [] ∧ s.all (· == DOT) then .early
    else
      let r2 : Option (Bytes × Bytes) :=
        if startsWithIn junkCharsLead s then
          let fname2 := trimStartIn junkCharsLead s
          if fname2 = [] then none
          else if fname2 ≠ (extension clean).getD [] then some (fname2, fileName fname2)
          else some (clean, fnm)
        else some (clean, fnm)
      match r2 with
      | none => .early
      | some (clean, fnm) => if fnm = [] then .early else .ok clean fnm

/-- `pathbuf_to_filetype_impl` with explicit fuel for the recursion on
`pathbuf.with_extension("")`. `none` = fuel exhausted. -/
def classifyAux : Nat → Bytes → Bool → Arch → Option Result
  | 0, _, _, _ => none
  | fuel + 1, n, ua, fta =>
    match cleanName n with
    | .early => some (fallback ua fta)
    | .ok clean fnm =>
      let suffix := asciiLower (toStr ((extension clean).getD []))
      -- numeric suffix: identical effect to an unmatched non-empty suffix
      -- (the generator checks both branches have that shape)
      match lookup suffixTable suffix with
      | .compress a => classifyAux fuel (withExtensionEmpty n) ua a
      | .evtx => some ⟨.evtx, fta⟩
      | .journal => some ⟨.journal, fta⟩
      | .tarArchive => some ⟨.archiveTar, fta⟩
      | .text => some ⟨.text, fta⟩
      | .fixed t => some ⟨.fixed t, fta⟩
      | .nonlog => some (fallback ua fta)
      | .nomatch =>
        if suffix ≠ [] then classifyAux fuel (withExtensionEmpty n) ua fta
        else
          let nameS := asciiLower (toStr fnm)
          if nameS = [] then some (fallback ua fta)
          else match lookup nameTable nameS with
            | .evtx => some ⟨.evtx, fta⟩
            | .journal => some ⟨.journal, fta⟩
            | .tarArchive => some ⟨.archiveTar, fta⟩
            | .text => some ⟨.text, fta⟩
            | .fixed t => some ⟨.fixed t, fta⟩
            | .nonlog => some (fallback ua fta)
            | .compress _ => none   -- not expressible in the bare-name table (the generator rejects it)
            | .nomatch => some ⟨.text, fta⟩   -- `log_*`, `*_log`, and everything else: text

/-- `path_to_filetype(name, unparseable_are_text)` -/
def classify (n : Bytes) (ua : Bool) : Option Result :=
  classifyAux (n.length + 1) n ua .normal

end S4V.Model.Path
