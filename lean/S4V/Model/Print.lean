/-
Byte-level model of the printing path (C13, C19).

  src/printer/printers.rs   PrinterLogMessage::print_sysline / print_fixedstruct / print_evtx /
                            print_journalentry and their 8+8+4+4 hand-unrolled variants,
                            macros buffer_write_or_return! / setcolor_or_return! /
                            print_color_line! / print_color_line_highlight_dt!
  src/bin/s4.rs             processing_loop: prefix construction at first print
                            (`format!("{0:<1$}{2}", name, width, sep)`), per message: print,
                            `write_stdout(sepb)`, final newline, `summaryprinted` updates
  src/printer/summary.rs    SummaryPrinted::summaryprint_update_* / summaryprint_map_update_*

Layering.  A print function is first described as the *sequence of calls it makes*
(`Op.setc spec` = `setcolor_or_return!`, `Op.wr bytes` = `buffer_write_or_return!`); this is
stateless and mirrors the source line by line.  `exec` then interprets the calls:
`setcolor_or_return!` emits the escape bytes of the spec only when it differs from the printer's
`color_spec_last`; the bytes of `wr` go to stdout and are added to `printed`.  What reaches
stdout is a list of `Chunk`s tagged by who wrote them (`data` = counted in the printer's
`printed`, `esc` = written by termcolor, never counted, `coord` = written by the coordinator's
`write_stdout`: separator and added newline).

Abstractions (trusted, stated in the evidence):
* strftime formatting is not modelled: the datetime field arrives already formatted;
* escape bytes of a `ColorSpec` are a parameter (`Pal`); spec equality is equality of the bytes;
* a line is one `linepart` (lines split over blocks give the same calls up to no-op `setc`s);
* write errors are not modelled (every variant runs to its final flush, so `printed` is the sum
  of the slices written); `flushed` is taken from the printer, not recomputed.
-/
namespace S4V.Model.Print

abbrev Bytes := List UInt8

def NL : UInt8 := 10
def SP : UInt8 := 32

/-! ### calls and their interpretation -/

/-- the three `ColorSpec`s a printer owns -/
inductive Spec
  | dflt   -- color_spec_default  (prefix fields, and left set after every message)
  | txt    -- color_spec_sysline  (message text)
  | dt     -- color_spec_datetime (underlined datetime inside the text)
  deriving DecidableEq, Repr

inductive Op
  | setc (s : Spec)
  | wr (b : Bytes)
  deriving DecidableEq, Repr

/-- escape bytes termcolor writes for each spec of one printer (one file) -/
structure Pal where
  dflt : Bytes
  txt : Bytes
  dt : Bytes
  deriving DecidableEq, Repr

def Pal.esc (p : Pal) : Spec → Bytes
  | .dflt => p.dflt
  | .txt => p.txt
  | .dt => p.dt

inductive Chunk
  | data (b : Bytes)
  | esc (b : Bytes)
  | coord (b : Bytes)
  deriving DecidableEq, Repr

def Chunk.bytes : Chunk → Bytes
  | .data b => b
  | .esc b => b
  | .coord b => b

/-- everything written to stdout -/
def bytesOf (cs : List Chunk) : Bytes := (cs.map Chunk.bytes).flatten

/-- stdout without the termcolor escapes -/
def plainOf : List Chunk → Bytes
  | [] => []
  | .esc _ :: r => plainOf r
  | c :: r => c.bytes ++ plainOf r

/-- what the printers count (`printed`) -/
def dataOf : List Chunk → Bytes
  | [] => []
  | .data b :: r => b ++ dataOf r
  | _ :: r => dataOf r

/-- `color_spec_last`: `none` = `ColorSpec::new()` of a fresh printer, differs from every spec -/
abbrev Last := Option Bytes

/-- run the calls of one print function: `setcolor_or_return!` writes only on change -/
def exec (p : Pal) : Last → List Op → List Chunk × Last
  | last, [] => ([], last)
  | last, .wr b :: r =>
    let (cs, l) := exec p last r
    (.data b :: cs, l)
  | last, .setc s :: r =>
    if last = some (p.esc s) then exec p last r
    else
      let (cs, l) := exec p (some (p.esc s)) r
      (.esc (p.esc s) :: cs, l)

/-- concatenation of the slices handed to `buffer_write_or_return!` -/
def wrOf : List Op → Bytes
  | [] => []
  | .wr b :: r => b ++ wrOf r
  | .setc _ :: r => wrOf r

/-! ### text-log messages (`print_sysline*`) -/

/-- a message of a text log: its lines (each with its `\n`; the last one possibly without) and
the span of the datetime inside the first line -/
structure SysMsg where
  lines : List Bytes
  dtBeg : Nat
  dtEnd : Nat
  deriving DecidableEq, Repr

/-- `print_line` / `print_color_line!`: the lineparts, no colour call -/
def lineOps (l : Bytes) : List Op := if l = [] then [] else [.wr l]

def wrNE (s : Spec) (b : Bytes) : List Op := if b = [] then [] else [.setc s, .wr b]

/-- `print_color_line_highlight_dt!` on a one-part line (`at = 0`, `at_end = len`) -/
def hlLine (l : Bytes) (b e : Nat) : List Op :=
  if l = [] then []
  else if e < l.length then
    -- datetime entirely within the part
    wrNE .txt (l.take b) ++ wrNE .dt ((l.drop b).take (e - b)) ++ wrNE .txt (l.drop e)
  else if b < l.length then
    -- datetime begins in this part and extends to (or past) its end
    wrNE .txt (l.take b) ++ wrNE .dt (l.drop b)
  else
    [.setc .txt, .wr l]

/-- the loop `for linep in lines { pre; if line_first { highlight } else { plain } }` -/
def colorLines (pre : List Op) (b e : Nat) : Bool → List Bytes → List Op
  | _, [] => []
  | first, l :: ls => pre ++ (if first then hlLine l b e else lineOps l) ++ colorLines pre b e false ls

def print_sysline_ (m : SysMsg) : List Op :=
  m.lines.flatMap lineOps

def print_sysline_prependdate (d : Bytes) (m : SysMsg) : List Op :=
  m.lines.flatMap fun l => .wr d :: lineOps l

def print_sysline_prependfile (f : Bytes) (m : SysMsg) : List Op :=
  m.lines.flatMap fun l => .wr f :: lineOps l

def print_sysline_prependfile_prependdate (f d : Bytes) (m : SysMsg) : List Op :=
  m.lines.flatMap fun l => .wr f :: .wr d :: lineOps l

def print_sysline_color (m : SysMsg) : List Op :=
  .setc .txt :: colorLines [] m.dtBeg m.dtEnd true m.lines ++ [.setc .dflt]

def print_sysline_prependdate_color (d : Bytes) (m : SysMsg) : List Op :=
  colorLines [.setc .dflt, .wr d, .setc .txt] m.dtBeg m.dtEnd true m.lines ++ [.setc .dflt]

def print_sysline_prependfile_color (f : Bytes) (m : SysMsg) : List Op :=
  colorLines [.setc .dflt, .wr f, .setc .txt] m.dtBeg m.dtEnd true m.lines ++ [.setc .dflt]

def print_sysline_prependfile_prependdate_color (f d : Bytes) (m : SysMsg) : List Op :=
  colorLines [.setc .dflt, .wr f, .wr d, .setc .txt] m.dtBeg m.dtEnd true m.lines ++ [.setc .dflt]

/-- per-message options of a printer: `do_color`, `prepend_file` (name, padding and separator
already embedded), the formatted datetime field (format + separator, already rendered) -/
structure Opts where
  color : Bool
  file : Option Bytes
  date : Option Bytes
  deriving DecidableEq, Repr

/-- `print_sysline`: `match (do_color, do_prepend_file, do_prepend_date)` -/
def print_sysline (o : Opts) (m : SysMsg) : List Op :=
  match o.color, o.file, o.date with
  | false, none, none => print_sysline_ m
  | false, some f, none => print_sysline_prependfile f m
  | false, none, some d => print_sysline_prependdate d m
  | false, some f, some d => print_sysline_prependfile_prependdate f d m
  | true, none, none => print_sysline_color m
  | true, some f, none => print_sysline_prependfile_color f m
  | true, none, some d => print_sysline_prependdate_color d m
  | true, some f, some d => print_sysline_prependfile_prependdate_color f d m

/-! ### one-buffer messages: accounting records, event-log records, journal entries -/

/-- rendered payload (`as_bytes`) and the datetime span inside it -/
structure BufMsg where
  data : Bytes
  beg : Nat
  fin : Nat
  deriving DecidableEq, Repr

/-- `setc txt; wr d[..beg]; setc dt; wr d[beg..end]; setc txt; wr d[end..]` — no emptiness tests -/
def hlBuf (d : Bytes) (b e : Nat) : List Op :=
  [.setc .txt, .wr (d.take b), .setc .dt, .wr ((d.drop b).take (e - b)), .setc .txt, .wr (d.drop e)]

def print_fixedstruct_ (m : BufMsg) : List Op := [.wr m.data]
def print_fixedstruct_prependdate (d : Bytes) (m : BufMsg) : List Op := [.wr d, .wr m.data]
def print_fixedstruct_prependfile (f : Bytes) (m : BufMsg) : List Op := [.wr f, .wr m.data]
/-- file-name field, then datetime field, then the record — as in the colour variant and every
other message kind -/
def print_fixedstruct_prependfile_prependdate (f d : Bytes) (m : BufMsg) : List Op :=
  [.wr f, .wr d, .wr m.data]
def print_fixedstruct_color (m : BufMsg) : List Op :=
  hlBuf m.data m.beg m.fin ++ [.setc .dflt]
def print_fixedstruct_prependdate_color (d : Bytes) (m : BufMsg) : List Op :=
  [.setc .dflt, .wr d] ++ hlBuf m.data m.beg m.fin ++ [.setc .dflt]
def print_fixedstruct_prependfile_color (f : Bytes) (m : BufMsg) : List Op :=
  [.setc .dflt, .wr f] ++ hlBuf m.data m.beg m.fin ++ [.setc .dflt]
def print_fixedstruct_prependfile_prependdate_color (f d : Bytes) (m : BufMsg) : List Op :=
  [.setc .dflt, .wr f, .wr d] ++ hlBuf m.data m.beg m.fin ++ [.setc .dflt]

def print_fixedstruct (o : Opts) (m : BufMsg) : List Op :=
  match o.color, o.file, o.date with
  | false, none, none => print_fixedstruct_ m
  | false, some f, none => print_fixedstruct_prependfile f m
  | false, none, some d => print_fixedstruct_prependdate d m
  | false, some f, some d => print_fixedstruct_prependfile_prependdate f d m
  | true, none, none => print_fixedstruct_color m
  | true, some f, none => print_fixedstruct_prependfile_color f m
  | true, none, some d => print_fixedstruct_prependdate_color d m
  | true, some f, some d => print_fixedstruct_prependfile_prependdate_color f d m

/-- `while let Some(b) = data[a..].find_byte(NLu8) { line = data[a..a+b+1]; … }`:
the `\n`-terminated pieces; `acc` = bytes since the last `\n`, reversed. The loop ends when no
`\n` is left, so an unterminated tail is never written. -/
def nlLinesAux : Bytes → Bytes → List Bytes
  | [], _ => []
  | c :: r, acc => if c = NL then (acc.reverse ++ [NL]) :: nlLinesAux r [] else nlLinesAux r (c :: acc)

def nlLines (d : Bytes) : List Bytes := nlLinesAux d []

/-- the bytes after the last `\n` (what the loop leaves unwritten) -/
def nlTailAux : Bytes → Bytes → Bytes
  | [], acc => acc.reverse
  | c :: r, acc => if c = NL then nlTailAux r [] else nlTailAux r (c :: acc)

def nlTail (d : Bytes) : Bytes := nlTailAux d []

def optB : Option Bytes → List Op
  | none => []
  | some b => [.wr b]

/-- `print_evtx_prepend` / `print_journalentry_prepend` (identical bodies) -/
def print_buf_prepend (f d : Option Bytes) (m : BufMsg) : List Op :=
  (nlLines m.data).flatMap fun l => optB f ++ optB d ++ [.wr l]

/-- per-line colouring of `print_evtx_prepend_color`: `match (at <= beg, end < at + len)` -/
def hlAt (l : Bytes) (at_ b e : Nat) : List Op :=
  if at_ ≤ b ∧ e < at_ + l.length then
    [.setc .txt, .wr (l.take (b - at_)), .setc .dt, .wr ((l.drop (b - at_)).take (e - b)),
     .setc .txt, .wr (l.drop (e - at_))]
  else [.setc .txt, .wr l]

def prependColorLoop (pre : List Op) (b e : Nat) : Nat → List Bytes → List Op
  | _, [] => []
  | at_, l :: ls => pre ++ hlAt l at_ b e ++ prependColorLoop pre b e (at_ + l.length) ls

def print_evtx_prepend_color (f d : Option Bytes) (m : BufMsg) : List Op :=
  prependColorLoop (.setc .dflt :: (optB f ++ optB d)) m.beg m.fin 0 (nlLines m.data) ++ [.setc .dflt]

/-- journal: the prefix is a 4-way `match`; `(false, false)` is `debug_panic!` (nothing in release) -/
def journalPre : Option Bytes → Option Bytes → List Op
  | some f, some d => [.setc .dflt, .wr f, .wr d]
  | some f, none => [.setc .dflt, .wr f]
  | none, some d => [.setc .dflt, .wr d]
  | none, none => []

def print_journalentry_prepend_color (f d : Option Bytes) (m : BufMsg) : List Op :=
  prependColorLoop (journalPre f d) m.beg m.fin 0 (nlLines m.data) ++ [.setc .dflt]

def print_buf_ (m : BufMsg) : List Op := [.wr m.data]
def print_buf_color (m : BufMsg) : List Op := hlBuf m.data m.beg m.fin ++ [.setc .dflt]

def print_evtx (o : Opts) (m : BufMsg) : List Op :=
  match o.color, o.file, o.date with
  | false, none, none => print_buf_ m
  | false, f, d => print_buf_prepend f d m
  | true, none, none => print_buf_color m
  | true, f, d => print_evtx_prepend_color f d m

def print_journalentry (o : Opts) (m : BufMsg) : List Op :=
  match o.color, o.file, o.date with
  | false, none, none => print_buf_ m
  | false, f, d => print_buf_prepend f d m
  | true, none, none => print_buf_color m
  | true, f, d => print_journalentry_prepend_color f d m

/-! ### messages of any kind -/

inductive Kind
  | sysline | fixedstruct | evtx | journal
  deriving DecidableEq, Repr

inductive Msg
  | sysline (m : SysMsg)
  | fixedstruct (m : BufMsg)
  | evtx (m : BufMsg)
  | journal (m : BufMsg)
  deriving DecidableEq, Repr

def Msg.kind : Msg → Kind
  | .sysline _ => .sysline
  | .fixedstruct _ => .fixedstruct
  | .evtx _ => .evtx
  | .journal _ => .journal

/-- the undecorated bytes of the message -/
def Msg.payload : Msg → Bytes
  | .sysline m => m.lines.flatten
  | .fixedstruct m => m.data
  | .evtx m => m.data
  | .journal m => m.data

/-- the calls of the printer for one message -/
def ops (o : Opts) : Msg → List Op
  | .sysline m => print_sysline o m
  | .fixedstruct m => print_fixedstruct o m
  | .evtx m => print_evtx o m
  | .journal m => print_journalentry o m

/-- `render`: the chunks one print call puts on stdout, and the printer's new `color_spec_last` -/
def render (p : Pal) (last : Last) (o : Opts) (m : Msg) : List Chunk × Last := exec p last (ops o m)

/-- `Sysline::ends_with_newline` -/
def endsNL (b : Bytes) : Bool := b.getLast? = some NL

/-- the coordinator's writes after a message: `if sepb_print { write_stdout(sepb) }`, and only in
the `LogMessage::Sysline` arm `if is_last && !ends_with_newline() { write_stdout("\n") }` -/
def coordAfter (sep : Bytes) (m : Msg) (isLast : Bool) : List Chunk :=
  (if sep = [] then [] else [.coord sep]) ++
  (match m with
   | .sysline s => if isLast && !endsNL s.lines.flatten then [.coord [NL]] else []
   | _ => [])

/-! ### file-name field (`processing_loop`, first print) -/

/-- `format!("{0:<1$}{2}", name, width, sep)`: pad with spaces to `width` *chars* (`nchars` is
`name.chars().count()`), then the prepend separator -/
def fileField (name : Bytes) (nchars width : Nat) (psep : Bytes) : Bytes :=
  name ++ List.replicate (width - nchars) SP ++ psep

/-- a name as the display widths (unicode-width) of its chars -/
abbrev Name := List Nat
def Name.cols (n : Name) : Nat := n.sum
/-- `prependname_width`: max of `UnicodeWidthStr::width` over the files with a message (0 without `-w`) -/
def alignWidth (names : List Name) : Nat := names.foldl (fun w n => max w n.cols) 0
/-- `{:<width}` padding (spaces are one column wide) -/
def padName (n : Name) (width : Nat) : Name := n ++ List.replicate (width - n.length) 1

/-! ### `--summary` accounting (`SummaryPrinted`) -/

structure SumPr where
  bytes : Nat := 0
  flushed : Nat := 0
  lines : Nat := 0
  syslines : Nat := 0
  fixedstructentries : Nat := 0
  evtxentries : Nat := 0
  journalentries : Nat := 0
  dtFirst : Option Int := none
  dtLast : Option Int := none
  deriving DecidableEq, Repr

/-- `summaryprint_update_dt` -/
def SumPr.updateDt (s : SumPr) (dt : Int) : SumPr :=
  let f := match s.dtFirst with
    | some d => if dt < d then some dt else some d
    | none => some dt
  let l := match s.dtLast with
    | some d => if dt > d then some dt else some d
    | none => some dt
  { s with dtFirst := f, dtLast := l }

/-- `summaryprint_update_{sysline,fixedstruct,evtx,journalentry}`; `nlines` = `Sysline::count_lines` -/
def SumPr.update (s : SumPr) (k : Kind) (nlines printed flushed : Nat) (dt : Int) : SumPr :=
  let s := match k with
    | .sysline => { s with syslines := s.syslines + 1, lines := s.lines + nlines }
    | .fixedstruct => { s with fixedstructentries := s.fixedstructentries + 1 }
    | .evtx => { s with evtxentries := s.evtxentries + 1 }
    | .journal => { s with journalentries := s.journalentries + 1 }
  ({ s with bytes := s.bytes + printed, flushed := s.flushed + flushed }).updateDt dt

/-- `summaryprint_map_update_*`: `get_mut` or insert a fresh `SummaryPrinted` -/
def mapUpdate (mp : List (Nat × SumPr)) (pid : Nat) (k : Kind) (nlines printed flushed : Nat) (dt : Int) :
    List (Nat × SumPr) :=
  match mp with
  | [] => [(pid, ({} : SumPr).update k nlines printed flushed dt)]
  | (q, s) :: r =>
    if q = pid then (q, s.update k nlines printed flushed dt) :: r
    else (q, s) :: mapUpdate r pid k nlines printed flushed dt

structure Acct where
  total : SumPr := {}
  perFile : List (Nat × SumPr) := []
  deriving DecidableEq, Repr

def Msg.nlines : Msg → Nat
  | .sysline m => m.lines.length
  | _ => 0

/-- `summaryprinted.bytes += n; summaryprinted.flushed += 1` after a `write_stdout` -/
def addCoord (t : SumPr) (n : Nat) : SumPr := { t with bytes := t.bytes + n, flushed := t.flushed + 1 }

/-- the coordinator's own writes go to the total only: the separator, and in the
`LogMessage::Sysline` arm the newline after an unterminated last message -/
def coordAcct (t : SumPr) (sep : Bytes) (m : Msg) (isLast : Bool) : SumPr :=
  let t := if sep = [] then t else addCoord t sep.length
  match m with
  | .sysline s => if isLast && !endsNL s.lines.flatten then addCoord t 1 else t
  | _ => t

/-- what the coordinator adds after one print call that returned `(printed, flushed)` -/
def account (a : Acct) (sep : Bytes) (pid : Nat) (m : Msg) (isLast : Bool) (dt : Int)
    (printed flushed : Nat) : Acct :=
  { total := (coordAcct a.total sep m isLast).update m.kind m.nlines printed flushed dt
    perFile := mapUpdate a.perFile pid m.kind m.nlines printed flushed dt }

/-! ### a run: the coordinator's sequence of print events -/

structure Ev where
  pid : Nat
  o : Opts
  m : Msg
  isLast : Bool
  dt : Int
  /-- flush count reported by the printer (not modelled further) -/
  flushed : Nat
  deriving DecidableEq, Repr

/-- per-file printer state: `color_spec_last` of `map_pathid_printer[pid]` -/
abbrev Lasts := Nat → Last

def Lasts.set (ls : Lasts) (pid : Nat) (l : Last) : Lasts := fun q => if q = pid then l else ls q

/-- stdout of a run -/
def runOut (pal : Nat → Pal) (sep : Bytes) : Lasts → List Ev → List Chunk
  | _, [] => []
  | ls, ev :: r =>
    let (cs, l) := render (pal ev.pid) (ls ev.pid) ev.o ev.m
    cs ++ coordAfter sep ev.m ev.isLast ++ runOut pal sep (ls.set ev.pid l) r

/-- the printer's return value: bytes it wrote through `buffer_write_or_return!` -/
def printedOf (o : Opts) (m : Msg) : Nat := (wrOf (ops o m)).length

/-- `summaryprinted` / `map_pathid_sumpr` of a `--summary` run -/
def runAcct (sep : Bytes) : Acct → List Ev → Acct
  | a, [] => a
  | a, ev :: r => runAcct sep (account a sep ev.pid ev.m ev.isLast ev.dt (printedOf ev.o ev.m) ev.flushed) r

/-! ### removing escape sequences from a byte stream (what the oracle does) -/

def ESC : UInt8 := 27
def LBR : UInt8 := 91   -- '['
def LM : UInt8 := 109   -- 'm'

/-- scanner state: normal, just after an `ESC`, inside `ESC [ …` -/
inductive Scan
  | n | e | i
  deriving DecidableEq, Repr

/-- delete every `ESC [ … m`. An `ESC` not followed by `[` is kept. -/
def stripEscAux : Scan → Bytes → Bytes
  | .n, [] => []
  | .e, [] => [ESC]
  | .i, [] => []
  | .n, c :: r => if c = ESC then stripEscAux .e r else c :: stripEscAux .n r
  | .e, c :: r =>
    if c = LBR then stripEscAux .i r
    else if c = ESC then ESC :: stripEscAux .e r
    else ESC :: c :: stripEscAux .n r
  | .i, c :: r => if c = LM then stripEscAux .n r else stripEscAux .i r

def stripEsc (b : Bytes) : Bytes := stripEscAux .n b

end S4V.Model.Print
