/-
Byte-level model of the printing path (C13, C19).

  src/printer/printers.rs   PrinterLogMessage::print_sysline / print_fixedstruct / print_evtx /
                            print_journalentry and their 8+8+4+4 hand-unrolled variants,
                            macros buffer_write_or_return! / setcolor_or_return! /
                            print_color_line! / print_color_line_highlight_dt!
  src/bin/s4.rs             processing_loop: prefix construction at first print
                            (`format!("{0:<1$}{2}", name, width, sep)`), per message: print,
                            `write_stdout(sepb)`, final newline, `summaryprinted` updates
  src/printer/summary.rs    SummaryPrinted::summaryprint_update_* / summaryprint_map_update_*

Layering.  A print function is first described as the *sequence of calls it makes*
(`Op.setc spec` = `setcolor_or_return!`, `Op.wr bytes` = `buffer_write_or_return!`); this is
stateless and mirrors the source line by line.  `exec` then interprets the calls:
`setcolor_or_return!` emits the escape bytes of the spec only when it differs from the printer's
`color_spec_last`; the bytes of `wr` go to stdout and are added to `printed`.  What reaches
stdout is a list of `Chunk`s tagged by who wrote them (`data` = counted in the printer's
`printed`, `esc` = written by termcolor, never counted, `coord` = written by the coordinator's
`write_stdout`: separator and added newline).

Abstractions (trusted, stated in the evidence):
* strftime formatting is not modelled: the datetime field arrives already formatted;
* escape bytes of a `ColorSpec` are a parameter (`Pal`); spec equality is equality of the bytes;
* a line is one `linepart` (lines split over blocks give the same calls up to no-op `setc`s);
* write errors are not modelled (every variant runs to its final flush, so `printed` is the sum
  of the slices written); `flushed` is taken from the printer, not recomputed.

Lines split over blocks and the print buffer (second half of this file): a line of a `SysMsgP` is
its list of `lineparts`; `hlParts` is the loop of `print_color_line_highlight_dt!` over them; the
`MOp` layer adds `buffer_flush_or_return!` to the calls and `stepD` interprets the three macros on
the printer's buffer (capacity generated from the source: `S4V.Gen.Print.BUFFER_CAP`), giving the
bytes that reach stdout and the increments of the caller's `printed` / `flushed`; the order of
the returned tuple of every print function is generated (`S4V.Gen.Print.retPrintedFirst`).
-/
import S4V.Gen.Print
namespace S4V.Model.Print

abbrev Bytes := List UInt8

def NL : UInt8 := 10
def SP : UInt8 := 32

/-! ### calls and their interpretation -/

/-- the three `ColorSpec`s a printer owns -/
inductive Spec
  | dflt   -- color_spec_default  (prefix fields, and left set after every message)
  | txt    -- color_spec_sysline  (message text)
  | dt     -- color_spec_datetime (underlined datetime inside the text)
  deriving DecidableEq, Repr

inductive Op
  | setc (s : Spec)
  | wr (b : Bytes)
  deriving DecidableEq, Repr

/-- escape bytes termcolor writes for each spec of one printer (one file) -/
structure Pal where
  dflt : Bytes
  txt : Bytes
  dt : Bytes
  deriving DecidableEq, Repr

def Pal.esc (p : Pal) : Spec → Bytes
  | .dflt => p.dflt
  | .txt => p.txt
  | .dt => p.dt

inductive Chunk
  | data (b : Bytes)
  | esc (b : Bytes)
  | coord (b : Bytes)
  deriving DecidableEq, Repr

def Chunk.bytes : Chunk → Bytes
  | .data b => b
  | .esc b => b
  | .coord b => b

/-- everything written to stdout -/
def bytesOf (cs : List Chunk) : Bytes := (cs.map Chunk.bytes).flatten

/-- stdout without the termcolor escapes -/
def plainOf : List Chunk → Bytes
  | [] => []
  | .esc _ :: r => plainOf r
  | c :: r => c.bytes ++ plainOf r

/-- what the printers count (`printed`) -/
def dataOf : List Chunk → Bytes
  | [] => []
  | .data b :: r => b ++ dataOf r
  | _ :: r => dataOf r

/-- `color_spec_last`: `none` = `ColorSpec::new()` of a fresh printer, differs from every spec -/
abbrev Last := Option Bytes

/-- run the calls of one print function: `setcolor_or_return!` writes only on change -/
def exec (p : Pal) : Last → List Op → List Chunk × Last
  | last, [] => ([], last)
  | last, .wr b :: r =>
    let (cs, l) := exec p last r
    (.data b :: cs, l)
  | last, .setc s :: r =>
    if last = some (p.esc s) then exec p last r
    else
      let (cs, l) := exec p (some (p.esc s)) r
      (.esc (p.esc s) :: cs, l)

/-- concatenation of the slices handed to `buffer_write_or_return!` -/
def wrOf : List Op → Bytes
  | [] => []
  | .wr b :: r => b ++ wrOf r
  | .setc _ :: r => wrOf r

/-! ### text-log messages (`print_sysline*`) -/

/-- a message of a text log: its lines (each with its `\n`; the last one possibly without) and
the span of the datetime inside the first line -/
structure SysMsg where
  lines : List Bytes
  dtBeg : Nat
  dtEnd : Nat
  deriving DecidableEq, Repr

/-- `print_line` / `print_color_line!`: the lineparts, no colour call -/
def lineOps (l : Bytes) : List Op := if l = [] then [] else [.wr l]

def wrNE (s : Spec) (b : Bytes) : List Op := if b = [] then [] else [.setc s, .wr b]

/-- `print_color_line_highlight_dt!` on a one-part line (`at = 0`, `at_end = len`) -/
def hlLine (l : Bytes) (b e : Nat) : List Op :=
  if l = [] then []
  else if e < l.length then
    -- datetime entirely within the part
    wrNE .txt (l.take b) ++ wrNE .dt ((l.drop b).take (e - b)) ++ wrNE .txt (l.drop e)
  else if b < l.length then
    -- datetime begins in this part and extends to (or past) its end
    wrNE .txt (l.take b) ++ wrNE .dt (l.drop b)
  else
    [.setc .txt, .wr l]

/-- the loop `for linep in lines { pre; if line_first { highlight } else { plain } }` -/
def colorLines (pre : List Op) (b e : Nat) : Bool → List Bytes → List Op
  | _, [] => []
  | first, l :: ls => pre ++ (if first then hlLine l b e else lineOps l) ++ colorLines pre b e false ls

def print_sysline_ (m : SysMsg) : List Op :=
  m.lines.flatMap lineOps

def print_sysline_prependdate (d : Bytes) (m : SysMsg) : List Op :=
  m.lines.flatMap fun l => .wr d :: lineOps l

def print_sysline_prependfile (f : Bytes) (m : SysMsg) : List Op :=
  m.lines.flatMap fun l => .wr f :: lineOps l

def print_sysline_prependfile_prependdate (f d : Bytes) (m : SysMsg) : List Op :=
  m.lines.flatMap fun l => .wr f :: .wr d :: lineOps l

def print_sysline_color (m : SysMsg) : List Op :=
  .setc .txt :: colorLines [] m.dtBeg m.dtEnd true m.lines ++ [.setc .dflt]

def print_sysline_prependdate_color (d : Bytes) (m : SysMsg) : List Op :=
  colorLines [.setc .dflt, .wr d, .setc .txt] m.dtBeg m.dtEnd true m.lines ++ [.setc .dflt]

def print_sysline_prependfile_color (f : Bytes) (m : SysMsg) : List Op :=
  colorLines [.setc .dflt, .wr f, .setc .txt] m.dtBeg m.dtEnd true m.lines ++ [.setc .dflt]

def print_sysline_prependfile_prependdate_color (f d : Bytes) (m : SysMsg) : List Op :=
  colorLines [.setc .dflt, .wr f, .wr d, .setc .txt] m.dtBeg m.dtEnd true m.lines ++ [.setc .dflt]

/-- per-message options of a printer: `do_color`, `prepend_file` (name, padding and separator
already embedded), the formatted datetime field (format + separator, already rendered) -/
structure Opts where
  color : Bool
  file : Option Bytes
  date : Option Bytes
  deriving DecidableEq, Repr

/-- `print_sysline`: `match (do_color, do_prepend_file, do_prepend_date)` -/
def print_sysline (o : Opts) (m : SysMsg) : List Op :=
  match o.color, o.file, o.date with
  | false, none, none => print_sysline_ m
  | false, some f, none => print_sysline_prependfile f m
  | false, none, some d => print_sysline_prependdate d m
  | false, some f, some d => print_sysline_prependfile_prependdate f d m
  | true, none, none => print_sysline_color m
  | true, some f, none => print_sysline_prependfile_color f m
  | true, none, some d => print_sysline_prependdate_color d m
  | true, some f, some d => print_sysline_prependfile_prependdate_color f d m

/-! ### one-buffer messages: accounting records, event-log records, journal entries -/

/-- rendered payload (`as_bytes`) and the datetime span inside it -/
structure BufMsg where
  data : Bytes
  beg : Nat
  fin : Nat
  deriving DecidableEq, Repr

/-- `setc txt; wr d[..beg]; setc dt; wr d[beg..end]; setc txt; wr d[end..]` — no emptiness tests -/
def hlBuf (d : Bytes) (b e : Nat) : List Op :=
  [.setc .txt, .wr (d.take b), .setc .dt, .wr ((d.drop b).take (e - b)), .setc .txt, .wr (d.drop e)]

def print_fixedstruct_ (m : BufMsg) : List Op := [.wr m.data]
def print_fixedstruct_prependdate (d : Bytes) (m : BufMsg) : List Op := [.wr d, .wr m.data]
def print_fixedstruct_prependfile (f : Bytes) (m : BufMsg) : List Op := [.wr f, .wr m.data]
/-- file-name field, then datetime field, then the record — as in the colour variant and every
other message kind -/
def print_fixedstruct_prependfile_prependdate (f d : Bytes) (m : BufMsg) : List Op :=
  [.wr f, .wr d, .wr m.data]
def print_fixedstruct_color (m : BufMsg) : List Op :=
  hlBuf m.data m.beg m.fin ++ [.setc .dflt]
def print_fixedstruct_prependdate_color (d : Bytes) (m : BufMsg) : List Op :=
  [.setc .dflt, .wr d] ++ hlBuf m.data m.beg m.fin ++ [.setc .dflt]
def print_fixedstruct_prependfile_color (f : Bytes) (m : BufMsg) : List Op :=
  [.setc .dflt, .wr f] ++ hlBuf m.data m.beg m.fin ++ [.setc .dflt]
def print_fixedstruct_prependfile_prependdate_color (f d : Bytes) (m : BufMsg) : List Op :=
  [.setc .dflt, .wr f, .wr d] ++ hlBuf m.data m.beg m.fin ++ [.setc .dflt]

def print_fixedstruct (o : Opts) (m : BufMsg) : List Op :=
  match o.color, o.file, o.date with
  | false, none, none => print_fixedstruct_ m
  | false, some f, none => print_fixedstruct_prependfile f m
  | false, none, some d => print_fixedstruct_prependdate d m
  | false, some f, some d => print_fixedstruct_prependfile_prependdate f d m
  | true, none, none => print_fixedstruct_color m
  | true, some f, none => print_fixedstruct_prependfile_color f m
  | true, none, some d => print_fixedstruct_prependdate_color d m
  | true, some f, some d => print_fixedstruct_prependfile_prependdate_color f d m

/-- `while let Some(b) = data[a..].find_byte(NLu8) { line = data[a..a+b+1]; … }`:
the `\n`-terminated pieces; `acc` = bytes since the last `\n`, reversed. The loop ends when no
`\n` is left, so an unterminated tail is never written. -/
def nlLinesAux : Bytes → Bytes → List Bytes
  | [], _ => []
  | c :: r, acc => if c = NL then (acc.reverse ++ [NL]) :: nlLinesAux r [] else nlLinesAux r (c :: acc)

def nlLines (d : Bytes) : List Bytes := nlLinesAux d []

/-- the bytes after the last `\n` (what the loop leaves unwritten) -/
def nlTailAux : Bytes → Bytes → Bytes
  | [], acc => acc.reverse
  | c :: r, acc => if c = NL then nlTailAux r [] else nlTailAux r (c :: acc)

def nlTail (d : Bytes) : Bytes := nlTailAux d []

def optB : Option Bytes → List Op
  | none => []
  | some b => [.wr b]

/-- `print_evtx_prepend` / `print_journalentry_prepend` (identical bodies) -/
def print_buf_prepend (f d : Option Bytes) (m : BufMsg) : List Op :=
  (nlLines m.data).flatMap fun l => optB f ++ optB d ++ [.wr l]

/-- per-line colouring of `print_evtx_prepend_color`: `match (at <= beg, end < at + len)` -/
def hlAt (l : Bytes) (at_ b e : Nat) : List Op :=
  if at_ ≤ b ∧ e < at_ + l.length then
    [.setc .txt, .wr (l.take (b - at_)), .setc .dt, .wr ((l.drop (b - at_)).take (e - b)),
     .setc .txt, .wr (l.drop (e - at_))]
  else [.setc .txt, .wr l]

def prependColorLoop (pre : List Op) (b e : Nat) : Nat → List Bytes → List Op
  | _, [] => []
  | at_, l :: ls => pre ++ hlAt l at_ b e ++ prependColorLoop pre b e (at_ + l.length) ls

def print_evtx_prepend_color (f d : Option Bytes) (m : BufMsg) : List Op :=
  prependColorLoop (.setc .dflt :: (optB f ++ optB d)) m.beg m.fin 0 (nlLines m.data) ++ [.setc .dflt]

/-- journal: the prefix is a 4-way `match`; `(false, false)` is `debug_panic!` (nothing in release) -/
def journalPre : Option Bytes → Option Bytes → List Op
  | some f, some d => [.setc .dflt, .wr f, .wr d]
  | some f, none => [.setc .dflt, .wr f]
  | none, some d => [.setc .dflt, .wr d]
  | none, none => []

def print_journalentry_prepend_color (f d : Option Bytes) (m : BufMsg) : List Op :=
  prependColorLoop (journalPre f d) m.beg m.fin 0 (nlLines m.data) ++ [.setc .dflt]

def print_buf_ (m : BufMsg) : List Op := [.wr m.data]
def print_buf_color (m : BufMsg) : List Op := hlBuf m.data m.beg m.fin ++ [.setc .dflt]

def print_evtx (o : Opts) (m : BufMsg) : List Op :=
  match o.color, o.file, o.date with
  | false, none, none => print_buf_ m
  | false, f, d => print_buf_prepend f d m
  | true, none, none => print_buf_color m
  | true, f, d => print_evtx_prepend_color f d m

def print_journalentry (o : Opts) (m : BufMsg) : List Op :=
  match o.color, o.file, o.date with
  | false, none, none => print_buf_ m
  | false, f, d => print_buf_prepend f d m
  | true, none, none => print_buf_color m
  | true, f, d => print_journalentry_prepend_color f d m

/-! ### messages of any kind -/

inductive Kind
  | sysline | fixedstruct | evtx | journal
  deriving DecidableEq, Repr

inductive Msg
  | sysline (m : SysMsg)
  | fixedstruct (m : BufMsg)
  | evtx (m : BufMsg)
  | journal (m : BufMsg)
  deriving DecidableEq, Repr

def Msg.kind : Msg → Kind
  | .sysline _ => .sysline
  | .fixedstruct _ => .fixedstruct
  | .evtx _ => .evtx
  | .journal _ => .journal

/-- the undecorated bytes of the message -/
def Msg.payload : Msg → Bytes
  | .sysline m => m.lines.flatten
  | .fixedstruct m => m.data
  | .evtx m => m.data
  | .journal m => m.data

/-- the calls of the printer for one message -/
def ops (o : Opts) : Msg → List Op
  | .sysline m => print_sysline o m
  | .fixedstruct m => print_fixedstruct o m
  | .evtx m => print_evtx o m
  | .journal m => print_journalentry o m

/-- `render`: the chunks one print call puts on stdout, and the printer's new `color_spec_last` -/
def render (p : Pal) (last : Last) (o : Opts) (m : Msg) : List Chunk × Last := exec p last (ops o m)

/-- `Sysline::ends_with_newline` -/
def endsNL (b : Bytes) : Bool := b.getLast? = some NL

/-- the coordinator's writes after a message: `if sepb_print { write_stdout(sepb) }`, and only in
the `LogMessage::Sysline` arm `if is_last && !ends_with_newline() { write_stdout("\n") }` -/
def coordAfter (sep : Bytes) (m : Msg) (isLast : Bool) : List Chunk :=
  (if sep = [] then [] else [.coord sep]) ++
  (match m with
   | .sysline s => if isLast && !endsNL s.lines.flatten then [.coord [NL]] else []
   | _ => [])

/-! ### file-name field (`processing_loop`, first print) -/

/-- the file-name field: the name, `width - measure` spaces, then the prepend separator; `measure` is the
name's display width (`ALIGN_PADS_BY_COLUMNS`; before the repair bd…F9 it was `name.chars().count()`
through `format!("{0:<1$}{2}", name, width, sep)`) -/
def fileField (name : Bytes) (measure width : Nat) (psep : Bytes) : Bytes :=
  name ++ List.replicate (width - measure) SP ++ psep

/-- a name as the display widths (unicode-width) of its chars -/
abbrev Name := List Nat
def Name.cols (n : Name) : Nat := n.sum
/-- `prependname_width`: max of `UnicodeWidthStr::width` over the files with a message (0 without `-w`) -/
def alignWidth (names : List Name) : Nat := names.foldl (fun w n => max w n.cols) 0
/-- the names the `-w` width ranges over: every source carries its name and whether it has a message
at first print; `overPrinting` = the loop runs over `pathid_with_logmessages` (else over all sources) -/
def alignNames (overPrinting : Bool) (srcs : List (Name × Bool)) : List Name :=
  (srcs.filter fun s => !overPrinting || s.2).map (·.1)
/-- the code as extracted -/
def alignWidthSrcs (srcs : List (Name × Bool)) : Nat :=
  alignWidth (alignNames S4V.Gen.Print.ALIGN_OVER_PRINTING_SOURCES srcs)
/-- what the padding subtracts from the common width: display columns or `char` count -/
def padMeasure (byCols : Bool) (n : Name) : Nat := if byCols then n.cols else n.length
/-- padding with spaces (one column each) -/
def padNameWith (byCols : Bool) (n : Name) (width : Nat) : Name := n ++ List.replicate (width - padMeasure byCols n) 1
/-- the code as extracted -/
def padName (n : Name) (width : Nat) : Name := padNameWith S4V.Gen.Print.ALIGN_PADS_BY_COLUMNS n width

/-! ### `--summary` accounting (`SummaryPrinted`) -/

structure SumPr where
  bytes : Nat := 0
  flushed : Nat := 0
  lines : Nat := 0
  syslines : Nat := 0
  fixedstructentries : Nat := 0
  evtxentries : Nat := 0
  journalentries : Nat := 0
  dtFirst : Option Int := none
  dtLast : Option Int := none
  deriving DecidableEq, Repr

/-- `summaryprint_update_dt` -/
def SumPr.updateDt (s : SumPr) (dt : Int) : SumPr :=
  let f := match s.dtFirst with
    | some d => if dt < d then some dt else some d
    | none => some dt
  let l := match s.dtLast with
    | some d => if dt > d then some dt else some d
    | none => some dt
  { s with dtFirst := f, dtLast := l }

/-- `summaryprint_update_{sysline,fixedstruct,evtx,journalentry}`; `nlines` = `Sysline::count_lines` -/
def SumPr.update (s : SumPr) (k : Kind) (nlines printed flushed : Nat) (dt : Int) : SumPr :=
  let s := match k with
    | .sysline => { s with syslines := s.syslines + 1, lines := s.lines + nlines }
    | .fixedstruct => { s with fixedstructentries := s.fixedstructentries + 1 }
    | .evtx => { s with evtxentries := s.evtxentries + 1 }
    | .journal => { s with journalentries := s.journalentries + 1 }
  ({ s with bytes := s.bytes + printed, flushed := s.flushed + flushed }).updateDt dt

/-- `summaryprint_map_update_*`: `get_mut` or insert a fresh `SummaryPrinted` -/
def mapUpdate (mp : List (Nat × SumPr)) (pid : Nat) (k : Kind) (nlines printed flushed : Nat) (dt : Int) :
    List (Nat × SumPr) :=
  match mp with
  | [] => [(pid, ({} : SumPr).update k nlines printed flushed dt)]
  | (q, s) :: r =>
    if q = pid then (q, s.update k nlines printed flushed dt) :: r
    else (q, s) :: mapUpdate r pid k nlines printed flushed dt

structure Acct where
  total : SumPr := {}
  perFile : List (Nat × SumPr) := []
  deriving DecidableEq, Repr

def Msg.nlines : Msg → Nat
  | .sysline m => m.lines.length
  | _ => 0

/-- `summaryprinted.bytes += n; summaryprinted.flushed += 1` after a `write_stdout` -/
def addCoord (t : SumPr) (n : Nat) : SumPr := { t with bytes := t.bytes + n, flushed := t.flushed + 1 }

/-- the coordinator's own writes go to the total only: the separator, and in the
`LogMessage::Sysline` arm the newline after an unterminated last message -/
def coordAcct (t : SumPr) (sep : Bytes) (m : Msg) (isLast : Bool) : SumPr :=
  let t := if sep = [] then t else addCoord t sep.length
  match m with
  | .sysline s => if isLast && !endsNL s.lines.flatten then addCoord t 1 else t
  | _ => t

/-- what the coordinator adds after one print call that returned `(printed, flushed)` -/
def account (a : Acct) (sep : Bytes) (pid : Nat) (m : Msg) (isLast : Bool) (dt : Int)
    (printed flushed : Nat) : Acct :=
  { total := (coordAcct a.total sep m isLast).update m.kind m.nlines printed flushed dt
    perFile := mapUpdate a.perFile pid m.kind m.nlines printed flushed dt }

/-! ### a run: the coordinator's sequence of print events -/

structure Ev where
  pid : Nat
  o : Opts
  m : Msg
  isLast : Bool
  dt : Int
  /-- flush count reported by the printer (not modelled further) -/
  flushed : Nat
  deriving DecidableEq, Repr

/-- per-file printer state: `color_spec_last` of `map_pathid_printer[pid]` -/
abbrev Lasts := Nat → Last

def Lasts.set (ls : Lasts) (pid : Nat) (l : Last) : Lasts := fun q => if q = pid then l else ls q

/-- stdout of a run -/
def runOut (pal : Nat → Pal) (sep : Bytes) : Lasts → List Ev → List Chunk
  | _, [] => []
  | ls, ev :: r =>
    let (cs, l) := render (pal ev.pid) (ls ev.pid) ev.o ev.m
    cs ++ coordAfter sep ev.m ev.isLast ++ runOut pal sep (ls.set ev.pid l) r

/-- the printer's return value: bytes it wrote through `buffer_write_or_return!` -/
def printedOf (o : Opts) (m : Msg) : Nat := (wrOf (ops o m)).length

/-- `summaryprinted` / `map_pathid_sumpr` of a `--summary` run -/
def runAcct (sep : Bytes) : Acct → List Ev → Acct
  | a, [] => a
  | a, ev :: r => runAcct sep (account a sep ev.pid ev.m ev.isLast ev.dt (printedOf ev.o ev.m) ev.flushed) r

/-! ### removing escape sequences from a byte stream (what the oracle does) -/

def ESC : UInt8 := 27
def LBR : UInt8 := 91   -- '['
def LM : UInt8 := 109   -- 'm'

/-- scanner state: normal, just after an `ESC`, inside `ESC [ …` -/
inductive Scan
  | n | e | i
  deriving DecidableEq, Repr

/-- delete every `ESC [ … m`. An `ESC` not followed by `[` is kept. -/
def stripEscAux : Scan → Bytes → Bytes
  | .n, [] => []
  | .e, [] => [ESC]
  | .i, [] => []
  | .n, c :: r => if c = ESC then stripEscAux .e r else c :: stripEscAux .n r
  | .e, c :: r =>
    if c = LBR then stripEscAux .i r
    else if c = ESC then ESC :: stripEscAux .e r
    else ESC :: c :: stripEscAux .n r
  | .i, c :: r => if c = LM then stripEscAux .n r else stripEscAux .i r

def stripEsc (b : Bytes) : Bytes := stripEscAux .n b

/-! ### lines split over blocks (`lineparts`) -/

/-- a text-log message whose lines are given as their `lineparts` (a line that crosses a block
boundary is split there) -/
structure SysMsgP where
  lines : List (List Bytes)
  dtBeg : Nat
  dtEnd : Nat
  deriving DecidableEq, Repr

/-- the same message with every line as one byte string -/
def SysMsgP.flat (m : SysMsgP) : SysMsg := ⟨m.lines.map List.flatten, m.dtBeg, m.dtEnd⟩

/-- body of `for linepart in (*$linep).lineparts.iter()` of `print_color_line_highlight_dt!`:
`at_` = `at`, the offset of this part in the line; `b`/`e` = `$dt_beg`/`$dt_end`. Same cases in
the same order with the same comparisons; `&slice[x..y]` = `(slice.take y).drop x`. -/
def hlPart (at_ : Nat) (slice : Bytes) (b e : Nat) : List Op :=
  let at_end := at_ + slice.length
  -- datetime is entirely within one linepart
  if at_ ≤ b ∧ e < at_end then
    wrNE .txt (slice.take (b - at_)) ++ wrNE .dt ((slice.take (e - at_)).drop (b - at_)) ++
      wrNE .txt (slice.drop (e - at_))
  -- datetime begins in this linepart, extends into next linepart
  else if at_ ≤ b ∧ b < at_end ∧ at_end ≤ e then
    wrNE .txt (slice.take (b - at_)) ++ wrNE .dt (slice.drop (b - at_))
  -- datetime began in previous linepart, ends within this linepart
  else if b < at_ ∧ at_ ≤ e ∧ e ≤ at_end then
    wrNE .dt (slice.take (e - at_)) ++ wrNE .txt (slice.drop (e - at_))
  -- datetime began in previous linepart, extends into next linepart
  else if b < at_ ∧ at_end ≤ e then
    [.setc .dt, .wr slice]
  -- datetime is not in this linepart
  else
    [.setc .txt, .wr slice]

/-- the loop, `at += slice.len()` after every part -/
def hlPartsAt (b e : Nat) : Nat → List Bytes → List Op
  | _, [] => []
  | at_, p :: ps => hlPart at_ p b e ++ hlPartsAt b e (at_ + p.length) ps

/-- `print_color_line_highlight_dt!` (`let mut at = 0`) -/
def hlParts (parts : List Bytes) (b e : Nat) : List Op := hlPartsAt b e 0 parts

/-- the generated per-part body (`S4V.Gen.Print.hlPartSegs`) as calls -/
def specOfNat : Nat → Spec
  | 0 => .dflt
  | 1 => .txt
  | _ => .dt

def segOps (s : S4V.Gen.Print.Seg) : List Op :=
  if s.guarded then wrNE (specOfNat s.spec) s.bytes else [.setc (specOfNat s.spec), .wr s.bytes]

/-! ### the print buffer: `buffer_write_or_return!`, `buffer_flush_or_return!`, `setcolor_or_return!` -/

/-- macro calls of a print function, flushes included -/
inductive MOp
  | setc (s : Spec)
  | wr (b : Bytes)
  | flush
  deriving DecidableEq, Repr

/-- forget the flushes -/
def erase : List MOp → List Op
  | [] => []
  | .setc s :: r => .setc s :: erase r
  | .wr b :: r => .wr b :: erase r
  | .flush :: r => erase r

/-- `buffer_flush_or_return!` after every `buffer_write_or_return!` (the shape of the colour macros) -/
def withFlush : List Op → List MOp
  | [] => []
  | .setc s :: r => .setc s :: withFlush r
  | .wr b :: r => .wr b :: .flush :: withFlush r

/-- what the macros act on besides the caller's two counters: `self.buffer`, stdout so far,
`self.color_spec_last` -/
structure Dev where
  buf : Bytes := []
  out : List Chunk := []
  last : Last := none
  deriving DecidableEq, Repr

/-- increments of the caller's `printed` and `flushed` (every update in the macros is a `+=`) -/
structure Cnt where
  printed : Nat := 0
  flushed : Nat := 0
  deriving DecidableEq, Repr

instance : Add Cnt := ⟨fun a b => ⟨a.printed + b.printed, a.flushed + b.flushed⟩⟩

/-- `BUFFER_USE`, `self.buffer.capacity()`, escape bytes of the printer's three specs -/
structure Env where
  use : Bool
  cap : Nat
  pal : Pal
  deriving DecidableEq, Repr

/-- the printer as built by `PrinterLogMessage::new`: constants generated from the source -/
def Env.code (p : Pal) : Env :=
  ⟨S4V.Gen.Print.BUFFER_USE, if S4V.Gen.Print.BUFFER_USE then S4V.Gen.Print.BUFFER_CAP else 0, p⟩

/-- `buffer_flush_or_return!`: `if !buffer.is_empty() { write_all(buffer); printed += len; clear; flush; flushed += 1 }` -/
def flushD (d : Dev) : Dev × Cnt :=
  if d.buf = [] then (d, ⟨0, 0⟩)
  else ({ d with out := d.out ++ [.data d.buf], buf := [] }, ⟨d.buf.length, 1⟩)

/-- `buffer_write_or_return!` -/
def writeD (env : Env) (d : Dev) (s : Bytes) : Dev × Cnt :=
  if !env.use then
    -- write_all(slice); printed += slice.len(); flush; flushed += 1
    ({ d with out := d.out ++ [.data s] }, ⟨s.length, 1⟩)
  else if s.length ≤ env.cap - d.buf.length then
    -- remaining capacity in the buffer; only copy the slice
    ({ d with buf := d.buf ++ s }, ⟨0, 0⟩)
  else
    -- buffer is full, write it (whatever it holds, also nothing): printed += buffer.len(); flushed += 1; clear
    let d1 : Dev := { d with out := d.out ++ [.data d.buf], buf := [] }
    if s.length > env.cap then
      -- slice larger than the buffer: write_all(slice); printed += slice.len(); flush; flushed += 1
      ({ d1 with out := d1.out ++ [.data s] }, ⟨d.buf.length + s.length, 2⟩)
    else
      ({ d1 with buf := s }, ⟨d.buf.length, 1⟩)

/-- `setcolor_or_return!`: flush the buffer, then `if spec != last { set_color; flush; flushed += 1; last = spec }` -/
def setcD (env : Env) (d : Dev) (s : Spec) : Dev × Cnt :=
  let (d1, c1) := flushD d
  if d1.last = some (env.pal.esc s) then (d1, c1)
  else ({ d1 with out := d1.out ++ [.esc (env.pal.esc s)], last := some (env.pal.esc s) }, c1 + ⟨0, 1⟩)

def stepD (env : Env) (d : Dev) : MOp → Dev × Cnt
  | .setc s => setcD env d s
  | .wr b => writeD env d b
  | .flush => flushD d

/-- a run of macro calls in a function whose `printed`/`flushed` start at 0: the device after it
and the values of the two locals -/
def runD (env : Env) : Dev → List MOp → Dev × Cnt
  | d, [] => (d, ⟨0, 0⟩)
  | d, op :: r =>
    let (d1, c1) := stepD env d op
    let (d2, c2) := runD env d1 r
    (d2, c1 + c2)

/-- the order of the tuple in the function's `PrinterLogMessageResult::Ok((_, _))` -/
def tup (printedFirst : Bool) (c : Cnt) : Nat × Nat :=
  if printedFirst then (c.printed, c.flushed) else (c.flushed, c.printed)

/-- what the source says about tuple orders (generated) -/
structure Flags where
  ret : S4V.Gen.Print.RetOrder
  add : S4V.Gen.Print.LineAdd
  deriving DecidableEq, Repr

def Flags.code : Flags := ⟨S4V.Gen.Print.retPrintedFirst, S4V.Gen.Print.lineAddStraight⟩

/-- `print_line`: its own `printed`/`flushed` from 0, every linepart written, no flush; returns its tuple -/
def print_line_M (env : Env) (F : Flags) (d : Dev) (parts : List Bytes) : Dev × (Nat × Nat) :=
  let (d1, c) := runD env d (parts.map .wr)
  (d1, tup F.ret.print_line c)

/-- `Ok((p, f)) => { printed += p; flushed += f; }` (`straight`), or crossed -/
def addRes (straight : Bool) (c : Cnt) (r : Nat × Nat) : Cnt :=
  if straight then ⟨c.printed + r.1, c.flushed + r.2⟩ else ⟨c.printed + r.2, c.flushed + r.1⟩

/-- `for linep in lines { <pre>; match self.print_line(linep) { Ok((p, f)) => … } }` of the four
no-colour text printers -/
def ncLoop (env : Env) (F : Flags) (straight : Bool) (pre : List MOp) : Dev → List (List Bytes) → Dev × Cnt
  | d, [] => (d, ⟨0, 0⟩)
  | d, l :: ls =>
    let (d1, c1) := runD env d pre
    let (d2, r) := print_line_M env F d1 l
    let (d3, c3) := ncLoop env F straight pre d2 ls
    (d3, addRes straight c1 r + c3)

def optM : Option Bytes → List MOp
  | none => []
  | some b => [.wr b]

/-- `print_sysline_`, `_prependdate`, `_prependfile`, `_prependfile_prependdate`: loop, final
`buffer_flush_or_return!`, `Ok((…, …))` -/
def sysNoColorM (env : Env) (F : Flags) (retFirst straight : Bool) (pre : List MOp) (m : SysMsgP) (d : Dev) :
    Dev × (Nat × Nat) :=
  let (d1, c1) := ncLoop env F straight pre d m.lines
  let (d2, c2) := flushD d1
  (d2, tup retFirst (c1 + c2))

/-- `for linep in lines { <pre>; if line_first { highlight } else { print_color_line! } }` -/
def colorLoopM (pre : List MOp) (b e : Nat) : Bool → List (List Bytes) → List MOp
  | _, [] => []
  | first, l :: ls =>
    pre ++ (if first then withFlush (hlParts l b e) else l.map .wr ++ [.flush]) ++ colorLoopM pre b e false ls

/-- the calls of the four colour text printers: `print_sysline_color` sets the text colour once
before the loop; the prefixed ones do `setc default; <fields>; flush; setc text` before every line -/
def sysColorOpsM (f d : Option Bytes) (m : SysMsgP) : List MOp :=
  match f, d with
  | none, none => .setc .txt :: colorLoopM [] m.dtBeg m.dtEnd true m.lines ++ [.setc .dflt]
  | f, d => colorLoopM ([.setc .dflt] ++ optM f ++ optM d ++ [.flush, .setc .txt]) m.dtBeg m.dtEnd true m.lines ++ [.setc .dflt]

/-- a flat function: run the calls, return the tuple -/
def flatM (env : Env) (retFirst : Bool) (ops : List MOp) (d : Dev) : Dev × (Nat × Nat) :=
  let (d1, c) := runD env d ops
  (d1, tup retFirst c)

/-- `print_sysline`: the device after the call and the returned tuple -/
def print_sysline_M (env : Env) (F : Flags) (o : Opts) (m : SysMsgP) (d : Dev) : Dev × (Nat × Nat) :=
  match o.color, o.file, o.date with
  | false, none, none => sysNoColorM env F F.ret.print_sysline_plain F.add.print_sysline_plain [] m d
  | false, some f, none => sysNoColorM env F F.ret.print_sysline_prependfile F.add.print_sysline_prependfile [.wr f] m d
  | false, none, some dt => sysNoColorM env F F.ret.print_sysline_prependdate F.add.print_sysline_prependdate [.wr dt] m d
  | false, some f, some dt =>
    sysNoColorM env F F.ret.print_sysline_prependfile_prependdate F.add.print_sysline_prependfile_prependdate [.wr f, .wr dt] m d
  | true, none, none => flatM env F.ret.print_sysline_color (sysColorOpsM none none m) d
  | true, some f, none => flatM env F.ret.print_sysline_prependfile_color (sysColorOpsM (some f) none m) d
  | true, none, some dt => flatM env F.ret.print_sysline_prependdate_color (sysColorOpsM none (some dt) m) d
  | true, some f, some dt => flatM env F.ret.print_sysline_prependfile_prependdate_color (sysColorOpsM (some f) (some dt) m) d

/-- the calls of `print_sysline` as one flat list (what the no-colour loop amounts to when the
tuples are passed straight) -/
def sysOpsM (o : Opts) (m : SysMsgP) : List MOp :=
  if o.color then sysColorOpsM o.file o.date m
  else m.lines.flatMap (fun l => optM o.file ++ optM o.date ++ l.map .wr) ++ [.flush]

/-! accounting records, event-log records, journal entries: flat functions -/

/-- `print_fixedstruct*` -/
def fixedOpsM (o : Opts) (m : BufMsg) : List MOp :=
  match o.color, o.file, o.date with
  | false, f, d => optM f ++ optM d ++ [.wr m.data, .flush]
  | true, none, none => withFlush (hlBuf m.data m.beg m.fin) ++ [.setc .dflt]
  | true, f, d => [.setc .dflt] ++ optM f ++ optM d ++ [.flush] ++ withFlush (hlBuf m.data m.beg m.fin) ++ [.setc .dflt]

def prependColorLoopM (pre : List MOp) (b e : Nat) : Nat → List Bytes → List MOp
  | _, [] => []
  | at_, l :: ls => pre ++ withFlush (hlAt l at_ b e) ++ prependColorLoopM pre b e (at_ + l.length) ls

/-- `print_evtx*` -/
def evtxOpsM (o : Opts) (m : BufMsg) : List MOp :=
  match o.color, o.file, o.date with
  | false, none, none => [.wr m.data, .flush]
  | false, f, d => (nlLines m.data).flatMap (fun l => optM f ++ optM d ++ [.wr l]) ++ [.flush]
  | true, none, none => withFlush (hlBuf m.data m.beg m.fin) ++ [.setc .dflt]
  | true, f, d =>
    prependColorLoopM ([.setc .dflt] ++ optM f ++ optM d ++ [.flush]) m.beg m.fin 0 (nlLines m.data) ++ [.setc .dflt]

/-- the journal prefix `match (do_prependfile, do_prependdate)`, then `buffer_flush_or_return!` -/
def journalPreM : Option Bytes → Option Bytes → List MOp
  | some f, some d => [.setc .dflt, .wr f, .wr d, .flush]
  | some f, none => [.setc .dflt, .wr f, .flush]
  | none, some d => [.setc .dflt, .wr d, .flush]
  | none, none => [.flush]

/-- `print_journalentry*` -/
def journalOpsM (o : Opts) (m : BufMsg) : List MOp :=
  match o.color, o.file, o.date with
  | false, none, none => [.wr m.data, .flush]
  | false, f, d => (nlLines m.data).flatMap (fun l => optM f ++ optM d ++ [.wr l]) ++ [.flush]
  | true, none, none => withFlush (hlBuf m.data m.beg m.fin) ++ [.setc .dflt]
  | true, f, d => prependColorLoopM (journalPreM f d) m.beg m.fin 0 (nlLines m.data) ++ [.setc .dflt]

/-- which `Ok((_, _))` a call ends in -/
def retFlag (R : S4V.Gen.Print.RetOrder) (k : Kind) (o : Opts) : Bool :=
  match k, o.color, o.file, o.date with
  | .sysline, false, none, none => R.print_sysline_plain
  | .sysline, false, some _, none => R.print_sysline_prependfile
  | .sysline, false, none, some _ => R.print_sysline_prependdate
  | .sysline, false, some _, some _ => R.print_sysline_prependfile_prependdate
  | .sysline, true, none, none => R.print_sysline_color
  | .sysline, true, some _, none => R.print_sysline_prependfile_color
  | .sysline, true, none, some _ => R.print_sysline_prependdate_color
  | .sysline, true, some _, some _ => R.print_sysline_prependfile_prependdate_color
  | .fixedstruct, false, none, none => R.print_fixedstruct_plain
  | .fixedstruct, false, some _, none => R.print_fixedstruct_prependfile
  | .fixedstruct, false, none, some _ => R.print_fixedstruct_prependdate
  | .fixedstruct, false, some _, some _ => R.print_fixedstruct_prependfile_prependdate
  | .fixedstruct, true, none, none => R.print_fixedstruct_color
  | .fixedstruct, true, some _, none => R.print_fixedstruct_prependfile_color
  | .fixedstruct, true, none, some _ => R.print_fixedstruct_prependdate_color
  | .fixedstruct, true, some _, some _ => R.print_fixedstruct_prependfile_prependdate_color
  | .evtx, false, none, none => R.print_evtx_plain
  | .evtx, false, _, _ => R.print_evtx_prepend
  | .evtx, true, none, none => R.print_evtx_color
  | .evtx, true, _, _ => R.print_evtx_prepend_color
  | .journal, false, none, none => R.print_journalentry_plain
  | .journal, false, _, _ => R.print_journalentry_prepend
  | .journal, true, none, none => R.print_journalentry_color
  | .journal, true, _, _ => R.print_journalentry_prepend_color

/-- a message with its text-log lines given as lineparts -/
inductive MsgP
  | sysline (m : SysMsgP)
  | fixedstruct (m : BufMsg)
  | evtx (m : BufMsg)
  | journal (m : BufMsg)
  deriving DecidableEq, Repr

def MsgP.flat : MsgP → Msg
  | .sysline m => .sysline m.flat
  | .fixedstruct m => .fixedstruct m
  | .evtx m => .evtx m
  | .journal m => .journal m

/-- all macro calls of one print call, flat -/
def opsM (o : Opts) : MsgP → List MOp
  | .sysline m => sysOpsM o m
  | .fixedstruct m => fixedOpsM o m
  | .evtx m => evtxOpsM o m
  | .journal m => journalOpsM o m

/-- one call of `print_sysline` / `print_fixedstruct` / `print_evtx` / `print_journalentry`:
the device afterwards and the tuple the coordinator receives as `(printed, flushed)` -/
def printM (env : Env) (F : Flags) (o : Opts) (m : MsgP) (d : Dev) : Dev × (Nat × Nat) :=
  match m with
  | .sysline s => print_sysline_M env F o s d
  | m => flatM env (retFlag F.ret m.flat.kind o) (opsM o m) d

/-- a printer between calls: empty buffer, nothing written yet -/
def Dev.fresh (last : Last) : Dev := { buf := [], out := [], last := last }

end S4V.Model.Print
