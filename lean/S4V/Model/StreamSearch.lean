/-
Which files are one-way streams, and what the readers above `BlockReader` do about it.

Generated (`S4V.Gen.Stream`, from the source):
* `IS_STREAMED_TABLE` — every row of `BlockReader::is_streamed_file`;
* `LOOKBACK_DROP_ARCHIVES` — the archive kinds whose `read_block_File*` drops the block behind the
  one just decoded (a later request for it ends in `Done`);
* `searchIsLinear` — `SyslineReader::find_sysline_{between_datetime_filters,at_datetime_filter}`:
  linear search iff `is_streamed_file()`;
* `keepAllBlocks` — `SyslogProcessor::blockzero_analysis_syslines`: `disable_drop_data()` iff
  `is_streamed_file() && !dt_pattern_has_year()`.

Hand model here: BLOCK-REQUEST TRACES. `S4V.Model.Syslines` abstracts the line layer to the list
of lines of the file and does not expose which blocks `find_line` touches, so the traces below are a
SEPARATE, ABSTRACT model of the three access patterns at the level of block offsets:
* linear search / streaming: any non-decreasing sequence (`IsLinearTrace`), e.g. `0, 1, …, k`;
* binary search: the block of the starting offset, then the midpoints of a bisection;
* the backwards year pass of a year-less log (`process_missing_year`): last block first, then
  decreasing.
One bridge to `S4V.Model.Syslines` is proved in `S4V.Props.StreamSearchSpec`: the file offsets at
which `lsearch` calls `find_sysline` are strictly increasing, hence their blocks non-decreasing.
-/
import S4V.Model.Stream
import S4V.Model.Syslines

namespace S4V.Model.StreamSearch
open S4V.Gen.Blocks S4V.Gen.Stream S4V.Model.Lines S4V.Model.Stream

/-- `FileTypeArchive` variant name → container kind of `S4V.Model.Stream` -/
def kindOfArchive : String → Option Kind
  | "Normal" => some .plain
  | "Gz" => some .gz
  | "Bz2" => some .bz2
  | "Lz4" => some .lz4
  | "Xz" => some .xz
  | "Tar" => some .tar
  | _ => none

/-- the `FileType` variants that carry an `archival_type` -/
def FILE_TYPES : List String := ["Evtx", "FixedStruct", "Journal", "Text"]

/-- `FileTypeArchive` variants -/
def ARCHIVES : List String := ["Normal", "Bz2", "Gz", "Lz4", "Tar", "Xz"]

/-- `BlockReader::is_streamed_file()` for `FileType::<ft>{ archival_type: FileTypeArchive::<arch> }`,
looked up in the generated table (`none`: no such row) -/
def isStreamed (ft arch : String) : Option Bool :=
  (IS_STREAMED_TABLE.find? (fun r => r.1 == ft && r.2.1 == arch)).map (·.2.2)

/-- the kinds whose reader drops behind itself, as model kinds -/
def lookbackKinds : List Kind := LOOKBACK_DROP_ARCHIVES.filterMap kindOfArchive

/-! ### traces -/

/-- linear search and streaming only ever move forwards -/
def IsLinearTrace (ks : List Nat) : Prop := ks.Pairwise (· ≤ ·)

/-- the simplest linear trace: blocks `0, 1, …, k` -/
def linearTrace (k : Nat) : List Nat := List.range (k + 1)

/-- midpoints of a bisection of the block interval `[a, b]` for target block `t` -/
def bisect : Nat → Nat → Nat → Nat → List Nat
  | 0, _, _, _ => []
  | fuel + 1, a, b, t =>
    let mid := a + (b - a) / 2
    mid :: (if mid = t ∨ b ≤ a then [] else if t < mid then bisect fuel a mid t else bisect fuel (mid + 1) b t)

/-- binary search over blocks `0 … last` for the message in block `t`: the first probe is at the
starting offset (`try_fo = fileoffset`, block 0), then midpoints (`try_fo = fo_a + (fo_b - fo_a) / 2`) -/
def binaryTrace (last t : Nat) : List Nat := 0 :: bisect (last + 2) 0 last t

/-- the backwards pass over a year-less log: last block first -/
def backwardTrace (last : Nat) : List Nat := (List.range (last + 1)).reverse

/-- the trace a datetime-filter search makes: `lin` when the generated condition picks the linear
search for this value of `is_streamed_file()`, else `bin` -/
def searchTrace (streamed : Bool) (lin bin : List Nat) : List Nat :=
  if searchIsLinear streamed then lin else bin

/-- the reader as `blockzero_analysis_syslines` leaves it: `disable_drop_data()` under the generated
condition -/
def afterBlockzero (r : Rd) (streamed hasYear : Bool) : Rd :=
  if keepAllBlocks streamed hasYear then r.disableDropData else r

/-! ### bridge to `S4V.Model.Syslines` -/

open S4V.Model.Syslines S4V.Gen.Filter in
/-- the file offsets at which `lsearch` (`find_sysline_at_datetime_filter_linear_search`) calls
`find_sysline`, in call order -/
def lsearchProbes (ls : List LineInfo) (flt : Option Int) : Nat → Nat → List Nat
  | 0, _ => []
  | fuel + 1, fo =>
    fo :: (match findSysline ls fo with
      | .found fo' s =>
        match dtAfterOrBefore s.dt flt with
        | .OccursBefore => lsearchProbes ls flt fuel fo'
        | _ => []
      | _ => [])

end S4V.Model.StreamSearch
