/-
C11 — year inference for timestamps that carry no year.
Mirror of `SyslogProcessor::process_missing_year` (src/readers/syslogprocessor.rs):

  year := year of mtime (in the `--tz-offset` zone)
  walk the messages from the last to the first; each one is (re-)parsed with the
  current fill year (`find_sysline_year(fo, &Some(year))`, i.e. `captures_to_buffer_bytes`
  writes the year's four digits in front of the month and chrono parses the result);
  if the message so dated is MORE than `BACKWARDS_TIME_JUMP_MEANS_NEW_YEAR` AFTER its
  successor, `year -= 1`, the stored message is removed and the same file offset is
  searched again (`continue`); a message before `--dt-after` ends the walk.

What "re-parsed" means for a date that does not exist in the fill year (29 February in a
common year): chrono rejects the buffer, so the line is *not* a message head for that
year; `find_sysline_year` keeps walking back and the line becomes a continuation line of
the message before it (`findParse` below). `datetime_with_year` exists in datetime.rs but
has no caller.

Times here are seconds; `dateWith` gives local seconds in the file's zone, instants are
`local - off`.
-/
import S4V.Model.Time
import S4V.Gen.Consts

namespace S4V.Model.Year
open S4V.Model.Time

/-- a year-less timestamp: month, day, seconds of the day -/
structure Msg where
  mo : Int
  day : Int
  sod : Int
deriving Repr, DecidableEq, Inhabited

/-- instant (UTC seconds) of `m` read with fill year `y` in the zone `off` seconds east of UTC;
`none` when `y-mo-day` is not a date (the normalised buffer is rejected by chrono) -/
def dateWith (off y : Int) (m : Msg) : Option Int :=
  if validDate y m.mo m.day then some (daysFromCivil y m.mo m.day * 86400 + m.sod - off) else none

/-- `find_sysline_year(fo, year)` walking backwards over `ms` (last message first): the first
message whose line parses with fill year `y`; the `k` messages skipped before it do not
parse and are swallowed as continuation lines. Result: `(k, instant, rest)`. -/
def findParse (off y : Int) : List Msg → Option (Nat × Int × List Msg)
  | [] => none
  | m :: rest =>
    match dateWith off y m with
    | some dt => some (0, dt, rest)
    | none => (findParse off y rest).map fun r => (r.1 + 1, r.2.1, r.2.2)

/-- the test `dt_cur > dt_prev && dt_cur - dt_prev > BACKWARDS_TIME_JUMP_MEANS_NEW_YEAR` -/
def jumped (J : Int) (prev : Option Int) (dt : Int) : Bool :=
  match prev with
  | some p => decide (dt > p) && decide (dt - p > J)
  | none => false

/-- `dt_after_or_before(dt, filter_dt_after) == OccursBefore` -/
def beforeWindow (after : Option Int) (dt : Int) : Bool :=
  match after with
  | some a => decide (dt < a)
  | none => false

/-- The backward loop. `ms` = messages not yet visited, last first; `y` = `year_opt`;
`prev` = `syslinep_prev_opt`'s instant. Output: one entry per message of `ms`, in the same
(reverse) order: `some instant` for a message stored with that date, `none` for a message
that was not stored (swallowed, or never reached because the walk stopped). -/
def walk (J off : Int) (after : Option Int) : Nat → List Msg → Int → Option Int → List (Option Int)
  | 0, ms, _, _ => ms.map fun _ => none
  | fuel + 1, ms, y, prev =>
    match findParse off y ms with
    | none => ms.map fun _ => none
    | some (k, dt, rest) =>
      if jumped J prev dt then
        -- year_opt -= 1; remove_sysline; fo_prev = fo_prev_prev; continue
        walk J off after fuel ms (y - 1) prev
      else
        List.replicate k none ++
          (some dt ::
            (if beforeWindow after dt then rest.map fun _ => none
             else walk J off after fuel rest y (some dt)))

/-- every iteration either stores a message or steps the year back once before storing one -/
def fuelFor (ms : List Msg) : Nat := 2 * ms.length + 2

/-- `process_missing_year`: instants in FILE order (`none` = not re-dated). -/
def processMissingYear (off mtimeYear : Int) (msgs : List Msg) (after : Option Int) : List (Option Int) :=
  (walk S4V.Gen.Consts.BACKWARDS_TIME_JUMP_S off after (fuelFor msgs) msgs.reverse mtimeYear none).reverse

/-- year of the instant `t` (seconds) in the zone `off` — `systemtime_to_datetime(tz_offset, mtime).year()` -/
def yearOfInstant (off t : Int) : Int := (civilFromDays ((t + off) / 86400)).1

end S4V.Model.Year
