/-
C11 — year inference for timestamps that carry no year.
Mirror of `SyslogProcessor::process_missing_year` (src/readers/syslogprocessor.rs). The control
skeleton of the loop is NOT written here: it is read from `S4V.Gen.Year` (regenerated from the
source by gen/gen_year.py) — the order of the jump test and of the exits (`DECISIONS`), the two
comparison operators of the jump test, the year step, and the `Result_Filter_DateTime1` variants
on which the `--dt-after` match breaks; `dt_after_or_before` itself is `S4V.Gen.Filter.dtAfterOrBefore`.

  year := year of mtime (in the `--tz-offset` zone)                     [YEAR_FROM_MTIME_IN_TZ]
  walk the messages from the last to the first; each one is (re-)parsed with the
  current fill year (`find_sysline_year(fo, &Some(year))`, i.e. `captures_to_buffer_bytes`
  writes the year's four digits in front of the month and chrono parses the result);
  then the generated decisions run in source order; today:
    jump         the message so dated is MORE than `BACKWARDS_TIME_JUMP_MEANS_NEW_YEAR` AFTER its
                 successor: `year -= 1`, the stored message is removed and the same file offset is
                 searched again (`continue`)
    startExit    the message begins the file: `break`
    afterFilter  the message is before `--dt-after`: `break`

What "re-parsed" means for a date that does not exist in the fill year (29 February in a
common year): chrono rejects the buffer, so the line is *not* a message head for that
year; `find_sysline_year` keeps walking back and the line becomes a continuation line of
the message before it (`findParse` below). The same test applies forwards: a sysline found with
fill year `y` also takes the FOLLOWING lines that do not parse with `y`, even when they had been
stored as messages of their own with an earlier (leap) fill year (`blank` below; found by the
in-process correspondence, harness c_year.rs). `datetime_with_year` exists in datetime.rs but
has no caller.

`lead` = the file has text before its first message (lines without a timestamp): then the first
message does not begin at offset 0 and the start-of-file exit is not taken for it; the next
`find_sysline_year` (searching inside the leading text) walks back to offset 0, turns forward and
returns the first message again (`refind`), and the no-progress guard `fo_prev >= fo_prev_prev`
ends the walk. The same happens when every remaining line fails to parse with the fill year —
and if the year was stepped back in between, the message found again is RE-DATED with the lower
year (found by the in-process correspondence).

Times here are seconds; `dateWith` gives local seconds in the file's zone, instants are
`local - off`.
-/
import S4V.Model.Time
import S4V.Gen.Consts
import S4V.Gen.Filter
import S4V.Gen.Year

namespace S4V.Model.Year
open S4V.Model.Time

/-- a year-less timestamp: month, day, seconds of the day -/
structure Msg where
  mo : Int
  day : Int
  sod : Int
deriving Repr, DecidableEq, Inhabited

/-- instant (UTC seconds) of `m` read with fill year `y` in the zone `off` seconds east of UTC;
`none` when `y-mo-day` is not a date (the normalised buffer is rejected by chrono) -/
def dateWith (off y : Int) (m : Msg) : Option Int :=
  if validDate y m.mo m.day then some (daysFromCivil y m.mo m.day * 86400 + m.sod - off) else none

/-- `find_sysline_year(fo, year)` walking backwards over `ms` (last message first): the first
message whose line parses with fill year `y`; the messages skipped before it do not parse and are
swallowed as continuation lines. Result: `(skipped, found, instant, rest)`, `skipped` in the
order of `ms` (latest first). -/
def findParse (off y : Int) : List Msg → Option (List Msg × Msg × Int × List Msg)
  | [] => none
  | m :: rest =>
    match dateWith off y m with
    | some dt => some ([], m, dt, rest)
    | none => (findParse off y rest).map fun r => (m :: r.1, r.2.1, r.2.2.1, r.2.2.2)

/-- what is known about the messages AFTER the current position, in file order (nearest first):
the message and the instant it is stored with (`none` = no sysline of its own) -/
abbrev Later := List (Msg × Option Int)

/-- the forward half of `find_sysline_year` (search for "datetime B"): the sysline just found with
fill year `y` takes every following line that does not parse with `y` — also the lines of
messages that WERE stored earlier in the walk with another fill year (a 29 February stored with a
leap year, then reached again with a common year): the new sysline's range replaces theirs in
`syslines_by_range`, so they no longer have a sysline of their own. It ends at the first line
that parses with `y`. -/
def blank (off y : Int) : Later → Later
  | [] => []
  | (m, e) :: r => if (dateWith off y m).isSome then (m, e) :: r else (m, none) :: blank off y r

open S4V.Gen.Year (Decision)

/-- the test `dt_cur ⋈ dt_prev && dt_cur - dt_prev ⋈ BACKWARDS_TIME_JUMP_MEANS_NEW_YEAR`; the two
comparisons are `>` when `laterStrict` / `diffStrict`, else `>=` (generated `JUMP_LATER_STRICT`,
`JUMP_DIFF_STRICT`); no previous message: no jump (`None => {}`) -/
def jumpedG (laterStrict diffStrict : Bool) (J : Int) (prev : Option Int) (dt : Int) : Bool :=
  match prev with
  | some p =>
    (if laterStrict then decide (dt > p) else decide (dt ≥ p)) &&
      (if diffStrict then decide (dt - p > J) else decide (dt - p ≥ J))
  | none => false

/-- the jump test of the current source -/
def jumped (J : Int) (prev : Option Int) (dt : Int) : Bool :=
  jumpedG S4V.Gen.Year.JUMP_LATER_STRICT S4V.Gen.Year.JUMP_DIFF_STRICT J prev dt

/-- name of the variant `dt_after_or_before(dt, filter_dt_after)` returns (generated function) -/
def afterVariant (after : Option Int) (dt : Int) : String :=
  match S4V.Gen.Filter.dtAfterOrBefore dt after with
  | .Pass => "Pass"
  | .OccursAtOrAfter => "OccursAtOrAfter"
  | .OccursBefore => "OccursBefore"

/-- the `match dt_after_or_before(..)` arm taken is a `break` arm -/
def breaksAfterG (breaksOn : List String) (after : Option Int) (dt : Int) : Bool :=
  breaksOn.contains (afterVariant after dt)

def breaksAfter (after : Option Int) (dt : Int) : Bool :=
  breaksAfterG S4V.Gen.Year.AFTER_FILTER_BREAKS_ON after dt

/-- what one pass over the decision steps decides for the message just found -/
inductive Verdict where
  /-- fall through to `fo_prev -= charsz_fo; …; syslinep_prev_opt = Some(syslinep)`: go on with the message before -/
  | next
  /-- `break`: the message stays stored, nothing before it is visited -/
  | brk
  /-- `year_opt += JUMP_YEAR_STEP; remove_sysline; fo_prev = fo_prev_prev; continue` -/
  | retry
  deriving DecidableEq, Repr, Inhabited

/-- the facts of the loop body the walk depends on -/
structure Skel where
  decisions : List Decision
  laterStrict : Bool
  diffStrict : Bool
  yearStep : Int
  breaksOn : List String
deriving Repr

/-- the skeleton regenerated from the current source -/
def skel : Skel :=
  { decisions := S4V.Gen.Year.DECISIONS
    laterStrict := S4V.Gen.Year.JUMP_LATER_STRICT
    diffStrict := S4V.Gen.Year.JUMP_DIFF_STRICT
    yearStep := S4V.Gen.Year.JUMP_YEAR_STEP
    breaksOn := S4V.Gen.Year.AFTER_FILTER_BREAKS_ON }

/-- one decision step. `atStart` = the message found begins at file offset 0 (`fo_prev < charsz_fo`). -/
def decision (S : Skel) (J : Int) (after prev : Option Int) (dt : Int) (atStart : Bool) : Decision → Verdict
  | .jump => if jumpedG S.laterStrict S.diffStrict J prev dt then .retry else .next
  | .startExit => if atStart then .brk else .next
  | .afterFilter => if breaksAfterG S.breaksOn after dt then .brk else .next
  | .equalAfter => if after = some dt then .brk else .next

/-- the decision steps in source order: the first that does not fall through decides -/
def verdictL (S : Skel) (J : Int) (after prev : Option Int) (dt : Int) (atStart : Bool) : List Decision → Verdict
  | [] => .next
  | d :: r =>
    match decision S J after prev dt atStart d with
    | .next => verdictL S J after prev dt atStart r
    | v => v

def verdict (S : Skel) (J : Int) (after prev : Option Int) (dt : Int) (atStart : Bool) : Verdict :=
  verdictL S J after prev dt atStart S.decisions

/-- `find_sysline_year` when NO line at or before the search offset parses with `y` (only text
without a timestamp and/or 29 February lines lie before it): having tried offset 0 it turns
forward ("these first few lines … will be ignored") and returns the first LATER line that parses
with `y`, as a new sysline (inserted over whatever was stored at that offset). Result:
`(lines passed over, message found, instant with y, what follows it)`. -/
def refind (off y : Int) : Later → Option (Later × Msg × Int × Later)
  | [] => none
  | (m, e) :: r =>
    match dateWith off y m with
    | some dt => some ([], m, dt, r)
    | none => (refind off y r).map fun x => ((m, e) :: x.1, x.2.1, x.2.2.1, x.2.2.2)

/-- The backward loop for a skeleton `S`. `ms` = messages not yet visited, last first; `y` =
`year_opt`; `prev` = `syslinep_prev_opt`'s instant; `later` = the messages already visited.
Output: one entry per message in FILE order: `some instant` for a message stored with that date,
`none` for a message that has no sysline of its own (swallowed, or never reached because the walk
stopped). -/
def walkG (S : Skel) (lead : Bool) (J off : Int) (after : Option Int) :
    Nat → List Msg → Int → Option Int → Later → List (Option Int)
  | 0, ms, _, _, later => (ms.map fun _ => none) ++ later.map Prod.snd
  | fuel + 1, ms, y, prev, later =>
    match findParse off y ms with
    | none =>
      match refind off y later with
      | none => (ms.map fun _ => none) ++ later.map Prod.snd        -- `Done`
      | some (pre, m, dt, post) =>
        -- a later message is found AGAIN, now with fill year `y` (usually the one stored last, with the same
        -- year: nothing changes). It begins after the search offset, so unless the jump test fires the
        -- no-progress guard `fo_prev >= fo_prev_prev` (or an exit before it) ends the walk.
        match verdict S J after prev dt false with
        | .retry => walkG S lead J off after fuel ms (y + S.yearStep) prev (pre ++ (m, none) :: post)
        | _ => (ms.map fun _ => none) ++ (pre.map Prod.snd ++ (some dt :: (blank off y post).map Prod.snd))
    | some (skipped, m, dt, rest) =>
      match verdict S J after prev dt (rest.isEmpty && !lead) with
      | .retry => walkG S lead J off after fuel ms (y + S.yearStep) prev later
      | .brk =>
        (rest.map fun _ => none) ++
          (some dt :: ((skipped.map fun _ => none) ++ (blank off y later).map Prod.snd))
      | .next =>
        walkG S lead J off after fuel rest y (some dt)
          ((m, some dt) :: ((skipped.reverse.map fun s => (s, none)) ++ blank off y later))

/-- the loop of the current source -/
def walk (lead : Bool) (J off : Int) (after : Option Int) :
    Nat → List Msg → Int → Option Int → Later → List (Option Int) :=
  walkG skel lead J off after

/-- every iteration either stores a message or steps the year back once before storing one -/
def fuelFor (ms : List Msg) : Nat := 2 * ms.length + 2

/-- `process_missing_year` for a skeleton `S`: instants in FILE order (`none` = not re-dated). -/
def processMissingYearG (S : Skel) (lead : Bool) (off mtimeYear : Int) (msgs : List Msg) (after : Option Int) :
    List (Option Int) :=
  walkG S lead S4V.Gen.Consts.BACKWARDS_TIME_JUMP_S off after (fuelFor msgs) msgs.reverse mtimeYear none []

/-- `process_missing_year` of the current source; `lead` = text before the first message -/
def processMissingYearL (lead : Bool) (off mtimeYear : Int) (msgs : List Msg) (after : Option Int) : List (Option Int) :=
  processMissingYearG skel lead off mtimeYear msgs after

/-- `process_missing_year`: instants in FILE order (`none` = not re-dated); the file begins with its first message. -/
def processMissingYear (off mtimeYear : Int) (msgs : List Msg) (after : Option Int) : List (Option Int) :=
  processMissingYearL false off mtimeYear msgs after

/-- year of the instant `t` (seconds) in the zone `off` — `systemtime_to_datetime(tz_offset, mtime).year()` -/
def yearOfInstant (off t : Int) : Int := (civilFromDays ((t + off) / 86400)).1

end S4V.Model.Year
