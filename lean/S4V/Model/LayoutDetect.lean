/-
Model of how an accounting-record file gets its layout (`FixedStructType`):

  `FixedStructReader::new` (src/readers/fixedstructreader.rs)
     file size 0 → `FileErrEmpty`; `< ENTRY_SZ_MIN` → `FileErrTooSmall`;
     `preprocess_fixedstructtype` = `filesz_to_types` (src/data/fixedstruct.rs; `None` → `FileErrNoValidFixedStruct`)
                                  + `score_file` (`FileErrNoHighScore` → `FileErrNoValidFixedStruct`);
     `preprocess_timevalues` with the chosen layout: no record with a time value other than (0,0) →
     `FileErrNoValidFixedStruct`.
  `score_file`: for every candidate `(layout, bonus)` — in the iteration order of the candidate map: a std `BTreeMap`
     keyed by `FixedStructType` since the repair (declaration order of the enum, `iterOrder`); before it a std `HashMap`
     (unspecified order; the functions taking an explicit `ord` are kept for that counter-model) — walk the file in records of `layout.size()` from offset 0; a record that is all 0x00 or all
     0xFF (`buffer_to_fixedstructptr` → `None`) is skipped without being counted; every other record is scored
     with `FixedStruct::score_fixedstruct(record, bonus)` until `COUNT_FOUND_ENTRIES_MAX` records were scored or
     the file ends; `high_score` starts at 0 and is replaced by a strictly larger score; the candidate replaces
     the current best when its `high_score` is strictly larger than `highest_score` (which starts at 0, with no
     layout). So: a candidate whose best score is ≤ 0 is never chosen, and among candidates with the same best
     score the FIRST in iteration order wins.
  `score_fixedstruct`: `bonus` (if > 0) plus the contributions of the layout's *score program*
     (GENERATED: `S4V.Gen.LayoutDetect.layouts`, one op per `score_fixedstruct_*!` invocation; the constants of
     the macros are generated too). The hand part is `opScore`: what each macro computes.

The string ops deserve a remark. `score_fixedstruct_cstr!(score, V.f())` walks the bytes of
`CStr::from_ptr(<start of field>)`: from the field's first byte to the first NUL byte, NOT bounded by the
field (so a field without NUL runs on into the following fields) and not bounded by the record either: if no
byte from the field's start to the record's end is NUL the real code reads beyond the `Box` the record was
copied to (`overreads`). The model's `scoreRecord` stops at the record's end in that case; the driver and the
harness keep such records out of the comparison and `Props/LayoutDetectSpec` states where it can happen.

Byte order: fields are read natively from the `#[repr(C)]` struct; the model decodes little-endian.
-/
import S4V.Gen.LayoutDetect
import S4V.Model.Fixed

namespace S4V.Model.LayoutDetect
open S4V.Gen.Fixed (Prim)
open S4V.Gen.LayoutDetect
open S4V.Model.Fixed (Bytes leNat ofStored slice fits)

/-! ### what each `score_fixedstruct_*!` macro computes -/

def sumInt : List Int → Int
  | [] => 0
  | x :: r => x + sumInt r

/-- bytes of `CStr::from_ptr(record + off)` as far as they lie inside the record -/
def cstrFrom (rec : Bytes) (off : Nat) : Bytes := (rec.drop off).takeWhile (· != 0)

/-- no NUL from `off` to the end of the record: `CStr::from_ptr` runs beyond the record -/
def cstrOverreads (rec : Bytes) (off : Nat) : Bool := (rec.drop off).all (· != 0)

/-- `match c { &(b' '..=b'~') => += 2, 0xFF => -= 5, _ => -= 3 }` -/
def cstrByteScore (b : UInt8) : Int :=
  if cstrLo ≤ b.toNat ∧ b.toNat ≤ cstrHi then cstrPrintable
  else if b = 255 then - cstrFF
  else - cstrOther

/-- `score_fixedstruct_cstr!` on the bytes of the C string -/
def cstrScore (s : Bytes) : Int :=
  if s.isEmpty then 0 else cstrNonEmpty + sumInt (s.map cstrByteScore)

/-- `score_fixedstruct_cstr_no_data_after_null!`: every non-NUL byte after the first NUL costs `afterNull` -/
def afterNullGo : Bool → Bytes → Int
  | _, [] => 0
  | found, b :: r =>
    if b = 0 then afterNullGo true r
    else if found then - afterNull + afterNullGo true r
    else afterNullGo false r

/-- `score_fixedstruct_cstr_null_terminator!`: `buffer.iter().nth(buffer.len() - 1)` -/
def nullTermScore (field : Bytes) : Int :=
  match field.getLast? with
  | some b => if b = 0 then termYes else - termNo
  | none => 0

/-- `score_fixedstruct_buffer_all_null!`: despite its name it tests the LAST byte only -/
def allNullScore (field : Bytes) : Int :=
  let hit : Bool := match field.getLast? with
    | some b => b != 0
    | none => false
  (if hit then - allNullNo else 0) + (if !hit && decide (field.length > 0) then allNullYes else 0)

/-- integer field of primitive type `p` at `off` (little-endian two's complement) -/
def intAt (p : Prim) (off : Nat) (rec : Bytes) : Int := ofStored p (leNat (slice rec off p.bytes))

/-- `score_fixedstruct_value_not_zero!` -/
def notZeroScore (v : Int) : Int := if v ≠ 0 then notZeroYes else - notZeroNo

/-- `score_fixedstruct_ut_type!`: `for ut_type in TABLE { if v == ut_type { += 5; if v != 0 { += 10 }; break } }` -/
def utTypeScore (types : List Int) (v : Int) : Int :=
  if types.contains v then utTypeKnown + (if v ≠ 0 then utTypeNonZero else 0) else 0

/-- `score_fixedstruct_ac_flags!` on the stored byte `b` (`!mask & value` over `i8`/`u8`: the bits outside `mask`) -/
def acFlagsScore (mask : Nat) (b : Nat) : Int :=
  if b = 0 then flagsZero
  else if Nat.land (255 - mask) b ≠ 0 then - flagsBad
  else flagsGood

/-- `score_fixedstruct_time_range!`: `try_into::<i64>()` (`Err => 0`), range test, extra penalty for 0 -/
def timeRangeScore (v : Int) : Int :=
  let va : Int := if fits S4V.Gen.Fixed.tvSecType v then v else 0
  (if EPOCH_SECOND_LOW ≤ va ∧ va ≤ EPOCH_SECOND_HIGH then timeIn else - timeOut) + (if va = 0 then - timeZero else 0)

def opScore (rec : Bytes) : SOp → Int
  | .cstr _ off _ => cstrScore (cstrFrom rec off)
  | .noDataAfterNull _ off len => afterNullGo false (slice rec off len)
  | .nullTerminator _ off len => nullTermScore (slice rec off len)
  | .allNull _ off len => allNullScore (slice rec off len)
  | .valueNotZero _ off p => notZeroScore (intAt p off rec)
  | .utType _ off p types => utTypeScore types (intAt p off rec)
  | .acFlags _ off _ mask => acFlagsScore mask (leNat (slice rec off 1))
  | .timeRange _ off p => timeRangeScore (intAt p off rec)

/-- `FixedStruct::score_fixedstruct(record as layout l, bonus)` (reads stop at the record's end) -/
def scoreRecord (l : LayoutS) (bonus : Int) (rec : Bytes) : Int :=
  (if bonus > 0 then bonus else 0) + sumInt (l.prog.map (opScore rec))

def opOverreads (rec : Bytes) : SOp → Bool
  | .cstr _ off _ => cstrOverreads rec off
  | _ => false

/-- the real `score_fixedstruct` reads beyond the record (and beyond the heap allocation holding it) -/
def overreads (l : LayoutS) (rec : Bytes) : Bool := l.prog.any (opOverreads rec)

/-- `buffer_to_fixedstructptr` returns `None`: only 0x00 bytes or only 0xFF bytes -/
def isNullRec (rec : Bytes) : Bool := rec.all (· == 0) || rec.all (· == 255)

/-! ### `filesz_to_types` -/

/-- `filesz_to_types` over given row tables: the candidate set in INSERTION order -/
def candsWith (bR : Kind → List (String × Nat)) (aR : List (String × Nat × Int)) (k : Kind) (filesz : Nat) : List (String × Int) :=
  let s0 : List (String × Int) := (bR k).filterMap (fun r => if filesz % r.2 = 0 then some (r.1, BONUS) else none)
  aR.foldl (fun s r => if filesz % r.2.1 = 0 ∧ ¬ s.any (·.1 == r.1) then s ++ [(r.1, r.2.2)] else s) s0

/-- the candidate set (generated rows) in insertion order; how the real container iterates: see `iterOrder` -/
def cands (k : Kind) (filesz : Nat) : List (String × Int) := candsWith bonusRows allRows k filesz

/-- the candidates in the DECLARATION order of `FixedStructType` (key order of the `BTreeMap`) -/
def orderedCands (k : Kind) (filesz : Nat) : List (String × Int) :=
  declOrder.filterMap (fun n => (cands k filesz).find? (·.1 == n))

/-- the order in which `score_file` visits the candidates: declaration order when the generated set is ordered
(`setIsOrdered`, a `BTreeMap`); for an unordered set (`HashMap`) there is no such function — the insertion order stands in
and every statement about it must quantify over `ValidOrder` instead -/
def iterOrder (k : Kind) (filesz : Nat) : List (String × Int) :=
  if setIsOrdered then orderedCands k filesz else cands k filesz

def fileszToTypes (k : Kind) (filesz : Nat) : Option (List (String × Int)) :=
  if filesz = 0 then none
  else
    let s := cands k filesz
    if s.isEmpty then none else some s

/-! ### `score_file` -/

/-- `k` consecutive records of `sz` bytes -/
def chunksN (sz : Nat) : Nat → Bytes → List Bytes
  | 0, _ => []
  | k + 1, f => f.take sz :: chunksN sz k (f.drop sz)

/-- the records `score_file` can read for a layout of `sz` bytes (the candidates' sizes divide the file size) -/
def chunks (sz : Nat) (f : Bytes) : List Bytes := chunksN sz (f.length / sz) f

/-- the inner `loop` over the records: `n` = how many more records may be scored, `hs` = `high_score` -/
def scanGo (score : Bytes → Int) : List Bytes → Nat → Int → Int
  | [], _, hs => hs
  | r :: rs, n, hs =>
    if n = 0 then hs
    else if isNullRec r then scanGo score rs n hs
    else
      let s := score r
      scanGo score rs (n - 1) (if (if keepOnEqual then decide (s ≤ hs) else decide (s < hs)) then hs else s)

/-- `high_score` of one candidate after its loop -/
def highScore (l : LayoutS) (bonus : Int) (file : Bytes) : Int :=
  scanGo (scoreRecord l bonus) (chunks l.size file) COUNT_FOUND_ENTRIES_MAX 0

/-- the records that were scored (the *sampled* records) -/
def sampled : List Bytes → Nat → List Bytes
  | [], _ => []
  | r :: rs, n =>
    if n = 0 then []
    else if isNullRec r then sampled rs n
    else r :: sampled rs (n - 1)

def candScore (file : Bytes) (c : String × Int) : Int :=
  match layoutNamed c.1 with
  | some l => highScore l c.2 file
  | none => 0

/-- the outer `for` over the candidates in the given iteration order: `(highest_score, highest_score_type)` -/
def chooseGo (score : String × Int → Int) : List (String × Int) → Int × Option String → Int × Option String
  | [], st => st
  | c :: cs, (best, who) =>
    let hs := score c
    if (if replaceStrict then decide (hs > best) else decide (hs ≥ best)) then chooseGo score cs (hs, some c.1)
    else chooseGo score cs (best, who)

/-- `score_file` for the iteration order `ord`: `none` = `FileErrNoHighScore` -/
def scoreFile (file : Bytes) (ord : List (String × Int)) : Option (String × Int) :=
  match chooseGo (candScore file) ord (0, none) with
  | (s, some n) => some (n, s)
  | (_, none) => none

/-! ### `FixedStructReader::new` up to the point where the reader exists -/

inductive Outcome
  | ok (layout : String) (score : Int)
  | empty
  | tooSmall
  | noValid
  deriving DecidableEq, Repr

/-- `preprocess_timevalues` without filters leaves a non-empty map: some record has a time value other than (0,0) -/
def hasTimed (name : String) (file : Bytes) : Bool :=
  match S4V.Gen.Fixed.layoutNamed name with
  | some l => (chunks l.size file).any (fun r => match S4V.Model.Fixed.tvPair l r with
      | some p => p != (0, 0)
      | none => false)
  | none => false

/-- an iteration order of the candidate set: any permutation of it -/
def ValidOrder (k : Kind) (file : Bytes) (ord : List (String × Int)) : Prop := ord.Perm (cands k file.length)

/-- `FixedStructReader::new(path, FixedStruct{kind}, ..)` without datetime filters, for the iteration order `ord` -/
def newWith (k : Kind) (file : Bytes) (ord : List (String × Int)) : Outcome :=
  if file.length = 0 then .empty
  else if file.length < ENTRY_SZ_MIN then .tooSmall
  else if (fileszToTypes k file.length).isNone then .noValid
  else
    match scoreFile file ord with
    | none => .noValid
    | some (n, s) => if hasTimed n file then .ok n s else .noValid

/-- the layout chosen (if any) for the iteration order `ord` (counter-models of an unordered candidate set) -/
def chooseLayoutWith (k : Kind) (file : Bytes) (ord : List (String × Int)) : Option String :=
  match newWith k file ord with
  | .ok n _ => some n
  | _ => none

/-- `FixedStructReader::new` with the generated (ordered) candidate set -/
def newOutcome (k : Kind) (file : Bytes) : Outcome := newWith k file (iterOrder k file.length)

/-- the layout the file is read with -/
def chooseLayout (k : Kind) (file : Bytes) : Option String := chooseLayoutWith k file (iterOrder k file.length)

/-! ### order-independent view (used by the driver): best score and who reaches it -/

def maxScore (file : Bytes) (cs : List (String × Int)) : Int :=
  cs.foldl (fun m c => if candScore file c > m then candScore file c else m) 0

/-- candidates (insertion order) whose `high_score` is the positive maximum -/
def winners (file : Bytes) (cs : List (String × Int)) : List String :=
  let m := maxScore file cs
  if m ≤ 0 then [] else (cs.filter (fun c => candScore file c == m)).map (·.1)

/-- some candidate's sampled records include one on which the real code over-reads -/
def fileOverreads (file : Bytes) (cs : List (String × Int)) : Bool :=
  cs.any (fun c => match layoutNamed c.1 with
    | some l => (sampled (chunks l.size file) COUNT_FOUND_ENTRIES_MAX).any (overreads l)
    | none => false)

/-- coarser test used on the wire (the harness applies the same one before calling the real code):
some non-null record of some candidate layout has no NUL at or after the layout's last string field -/
def fileOverreadRisk (file : Bytes) (cs : List (String × Int)) : Bool :=
  cs.any (fun c => match layoutNamed c.1 with
    | some l => (chunks l.size file).any (fun r => !isNullRec r && overreads l r)
    | none => false)

end S4V.Model.LayoutDetect
